// gengallina: narrow Go-AST -> Gallina translator for the tables, constants and leaf
// predicates of connectrpc.com/vanguard that the Coq model is defined in terms of.
// Usage: gengallina <repo-dir> > Generated.v
// Any targeted declaration that is missing or leaves the supported subset is a fatal error.
package main

import (
	"fmt"
	"go/ast"
	"go/parser"
	"go/token"
	"math/big"
	"net/http"
	"os"
	"path/filepath"
	"sort"
	"strconv"
	"strings"
)

var fset = token.NewFileSet()
var files map[string]*ast.File

func posOf(p token.Pos) string { return filepath.Base(fset.Position(p).Filename) }

func die(format string, args ...any) {
	fmt.Fprintf(os.Stderr, "gengallina: "+format+"\n", args...)
	os.Exit(2)
}

// external constants the targeted code refers to
var extConsts = map[string]string{
	"time.Nanosecond": "1", "time.Microsecond": "1000", "time.Millisecond": "1000000",
	"time.Second": "1000000000", "time.Minute": "60000000000", "time.Hour": "3600000000000",
	"math.MaxUint32": "4294967295", "bytes.MinRead": "512",
	"connect.CodeCanceled": "1", "connect.CodeUnknown": "2", "connect.CodeInvalidArgument": "3",
	"connect.CodeDeadlineExceeded": "4", "connect.CodeNotFound": "5", "connect.CodeAlreadyExists": "6",
	"connect.CodePermissionDenied": "7", "connect.CodeResourceExhausted": "8",
	"connect.CodeFailedPrecondition": "9", "connect.CodeAborted": "10", "connect.CodeOutOfRange": "11",
	"connect.CodeUnimplemented": "12", "connect.CodeInternal": "13", "connect.CodeUnavailable": "14",
	"connect.CodeDataLoss": "15", "connect.CodeUnauthenticated": "16",
}

func init() {
	for name, v := range map[string]int{
		"StatusOK": http.StatusOK, "StatusBadRequest": http.StatusBadRequest, "StatusUnauthorized": http.StatusUnauthorized,
		"StatusForbidden": http.StatusForbidden, "StatusNotFound": http.StatusNotFound, "StatusConflict": http.StatusConflict,
		"StatusTooManyRequests": http.StatusTooManyRequests, "StatusInternalServerError": http.StatusInternalServerError,
		"StatusNotImplemented": http.StatusNotImplemented, "StatusBadGateway": http.StatusBadGateway,
		"StatusServiceUnavailable": http.StatusServiceUnavailable, "StatusGatewayTimeout": http.StatusGatewayTimeout,
		"StatusMethodNotAllowed": http.StatusMethodNotAllowed, "StatusUnsupportedMediaType": http.StatusUnsupportedMediaType,
		"StatusHTTPVersionNotSupported": http.StatusHTTPVersionNotSupported, "StatusRequestTimeout": http.StatusRequestTimeout,
		"StatusPreconditionFailed": http.StatusPreconditionFailed, "StatusRequestEntityTooLarge": http.StatusRequestEntityTooLarge,
	} {
		extConsts["http."+name] = strconv.Itoa(v)
	}
}

// ---- lookup helpers ----

func findFunc(recv, name string) *ast.FuncDecl {
	for _, f := range files {
		for _, d := range f.Decls {
			fd, ok := d.(*ast.FuncDecl)
			if !ok || fd.Name.Name != name {
				continue
			}
			if recv == "" && fd.Recv == nil {
				return fd
			}
			if recv != "" && fd.Recv != nil && len(fd.Recv.List) == 1 {
				t := fd.Recv.List[0].Type
				if s, ok := t.(*ast.StarExpr); ok {
					t = s.X
				}
				if id, ok := t.(*ast.Ident); ok && id.Name == recv {
					return fd
				}
			}
		}
	}
	die("function %s.%s not found", recv, name)
	return nil
}

// constant expression evaluation (ints only)
type env struct {
	params map[string]string // Go ident -> Gallina ident
	consts map[string]string // Go const ident -> Z literal
}

func topConst(name string) (string, bool) {
	for _, f := range files {
		for _, d := range f.Decls {
			gd, ok := d.(*ast.GenDecl)
			if !ok || gd.Tok != token.CONST {
				continue
			}
			for _, s := range gd.Specs {
				vs := s.(*ast.ValueSpec)
				for i, n := range vs.Names {
					if n.Name == name && i < len(vs.Values) {
						v, ok := constEval(vs.Values[i], &env{})
						return v, ok
					}
				}
			}
		}
	}
	return "", false
}

func localConst(fd *ast.FuncDecl, name string) string {
	var out string
	ast.Inspect(fd.Body, func(n ast.Node) bool {
		gd, ok := n.(*ast.GenDecl)
		if !ok || gd.Tok != token.CONST {
			return true
		}
		for _, s := range gd.Specs {
			vs := s.(*ast.ValueSpec)
			for i, nm := range vs.Names {
				if nm.Name == name && i < len(vs.Values) {
					v, ok := constEval(vs.Values[i], &env{})
					if !ok {
						die("local const %s in %s: unsupported value", name, fd.Name.Name)
					}
					out = v
				}
			}
		}
		return true
	})
	if out == "" {
		die("local const %s not found in %s", name, fd.Name.Name)
	}
	return out
}

func parseIntLit(s string) (string, bool) {
	s = strings.ReplaceAll(s, "_", "")
	if strings.ContainsAny(s, "eE") && !strings.HasPrefix(s, "0x") && !strings.HasPrefix(s, "0X") {
		f, _, err := big.ParseFloat(s, 10, 200, big.ToNearestEven)
		if err != nil || !f.IsInt() {
			return "", false
		}
		i, _ := f.Int(nil)
		return i.String(), true
	}
	i, ok := new(big.Int).SetString(s, 0)
	if !ok {
		return "", false
	}
	return i.String(), true
}

func constEval(e ast.Expr, en *env) (string, bool) {
	switch x := e.(type) {
	case *ast.BasicLit:
		switch x.Kind {
		case token.INT, token.FLOAT:
			return parseIntLit(x.Value)
		case token.CHAR:
			r, _, _, err := strconv.UnquoteChar(x.Value[1:len(x.Value)-1], '\'')
			if err != nil {
				return "", false
			}
			return strconv.Itoa(int(r)), true
		}
	case *ast.ParenExpr:
		return constEval(x.X, en)
	case *ast.SelectorExpr:
		if id, ok := x.X.(*ast.Ident); ok {
			if v, ok := extConsts[id.Name+"."+x.Sel.Name]; ok {
				return v, true
			}
		}
	case *ast.Ident:
		if en != nil && en.consts != nil {
			if v, ok := en.consts[x.Name]; ok {
				return v, true
			}
		}
		if x.Name == "eof" {
			return "-1", true
		}
		return topConst(x.Name)
	case *ast.BinaryExpr:
		a, ok1 := constEval(x.X, en)
		b, ok2 := constEval(x.Y, en)
		if !ok1 || !ok2 {
			return "", false
		}
		ai, _ := new(big.Int).SetString(a, 10)
		bi, _ := new(big.Int).SetString(b, 10)
		switch x.Op {
		case token.MUL:
			return ai.Mul(ai, bi).String(), true
		case token.ADD:
			return ai.Add(ai, bi).String(), true
		case token.SUB:
			return ai.Sub(ai, bi).String(), true
		}
	case *ast.UnaryExpr:
		if x.Op == token.SUB {
			a, ok := constEval(x.X, en)
			if ok {
				return "-" + a, true
			}
		}
	case *ast.CallExpr:
		// conversions like Protocol(iota+1) are not needed; int64(x), time.Duration(x)
		if len(x.Args) == 1 {
			return constEval(x.Args[0], en)
		}
	}
	return "", false
}

func zlit(s string) string {
	if strings.HasPrefix(s, "-") {
		return "(" + s + ")"
	}
	return s
}

// translated function registry: Go name -> Gallina name, result kind
var translated = map[string]string{}
var arrays = map[string]int{} // array name -> length

// expr translation; kind "Z" or "bool"
func tr(e ast.Expr, en *env, where string) (string, string) {
	if v, ok := constEval(e, en); ok {
		if _, isCall := e.(*ast.CallExpr); !isCall {
			return zlit(v), "Z"
		}
	}
	switch x := e.(type) {
	case *ast.ParenExpr:
		s, k := tr(x.X, en, where)
		return "(" + s + ")", k
	case *ast.Ident:
		if g, ok := en.params[x.Name]; ok {
			return g, "Z"
		}
		if x.Name == "true" || x.Name == "false" {
			return x.Name, "bool"
		}
	case *ast.UnaryExpr:
		if x.Op == token.NOT {
			s, k := tr(x.X, en, where)
			if k != "bool" {
				die("%s: ! on non-bool", where)
			}
			return "(negb " + s + ")", "bool"
		}
	case *ast.BinaryExpr:
		a, ka := tr(x.X, en, where)
		b, kb := tr(x.Y, en, where)
		switch x.Op {
		case token.LAND, token.LOR:
			if ka != "bool" || kb != "bool" {
				die("%s: logical op on non-bool", where)
			}
			op := "&&"
			if x.Op == token.LOR {
				op = "||"
			}
			return "(" + a + " " + op + " " + b + ")", "bool"
		case token.EQL, token.NEQ, token.LSS, token.LEQ, token.GTR, token.GEQ:
			if ka != "Z" || kb != "Z" {
				die("%s: comparison on non-integers", where)
			}
			switch x.Op {
			case token.EQL:
				return "(" + a + " =? " + b + ")", "bool"
			case token.NEQ:
				return "(negb (" + a + " =? " + b + "))", "bool"
			case token.LSS:
				return "(" + a + " <? " + b + ")", "bool"
			case token.LEQ:
				return "(" + a + " <=? " + b + ")", "bool"
			case token.GTR:
				return "(" + b + " <? " + a + ")", "bool"
			case token.GEQ:
				return "(" + b + " <=? " + a + ")", "bool"
			}
		case token.AND:
			return "(Z.land " + a + " " + b + ")", "Z"
		case token.OR:
			return "(Z.lor " + a + " " + b + ")", "Z"
		case token.ADD:
			return "(" + a + " + " + b + ")", "Z"
		case token.SUB:
			return "(" + a + " - " + b + ")", "Z"
		case token.MUL:
			return "(" + a + " * " + b + ")", "Z"
		}
	case *ast.CallExpr:
		if id, ok := x.Fun.(*ast.Ident); ok {
			switch id.Name {
			case "int", "rune", "byte", "int64", "uint32":
				return tr(x.Args[0], en, where)
			case "len":
				if a, ok := x.Args[0].(*ast.Ident); ok {
					if n, ok := arrays[a.Name]; ok {
						return strconv.Itoa(n), "Z"
					}
				}
			default:
				if g, ok := translated[id.Name]; ok {
					parts := []string{g}
					for _, a := range x.Args {
						s, _ := tr(a, en, where)
						parts = append(parts, s)
					}
					return "(" + strings.Join(parts, " ") + ")", "bool"
				}
			}
		}
	}
	die("%s: unsupported expression at %s", where, fset.Position(e.Pos()))
	return "", ""
}

type clause struct{ cond, val string }

// body translation for pure functions: if-return chains, tagged and tagless switch.
func trBody(fd *ast.FuncDecl, en *env, wrap func(ast.Expr) string) string {
	where := fd.Name.Name
	var clauses []clause
	var final string
	for _, st := range fd.Body.List {
		switch s := st.(type) {
		case *ast.DeclStmt:
			continue // local consts resolved on demand
		case *ast.IfStmt:
			if s.Init != nil || s.Else != nil || len(s.Body.List) != 1 {
				die("%s: unsupported if shape", where)
			}
			ret, ok := s.Body.List[0].(*ast.ReturnStmt)
			if !ok || len(ret.Results) != 1 {
				die("%s: if body must be a single return", where)
			}
			c, k := tr(s.Cond, en, where)
			if k != "bool" {
				die("%s: if condition not bool", where)
			}
			clauses = append(clauses, clause{c, wrap(ret.Results[0])})
		case *ast.ReturnStmt:
			if len(s.Results) != 1 {
				die("%s: unsupported return arity", where)
			}
			final = wrap(s.Results[0])
		case *ast.SwitchStmt:
			var tag string
			if s.Tag != nil {
				tag, _ = tr(s.Tag, en, where)
			}
			for _, cc := range s.Body.List {
				c := cc.(*ast.CaseClause)
				if len(c.Body) != 1 {
					die("%s: case body must be a single return", where)
				}
				ret, ok := c.Body[0].(*ast.ReturnStmt)
				if !ok || len(ret.Results) != 1 {
					die("%s: case body must be a single return", where)
				}
				if c.List == nil {
					final = wrap(ret.Results[0])
					continue
				}
				var alts []string
				for _, e := range c.List {
					if s.Tag != nil {
						v, _ := tr(e, en, where)
						alts = append(alts, "("+tag+" =? "+v+")")
					} else {
						v, k := tr(e, en, where)
						if k != "bool" {
							die("%s: tagless case not bool", where)
						}
						alts = append(alts, v)
					}
				}
				clauses = append(clauses, clause{"(" + strings.Join(alts, " || ") + ")", wrap(ret.Results[0])})
			}
		default:
			die("%s: unsupported statement at %s", where, fset.Position(st.Pos()))
		}
	}
	if final == "" {
		die("%s: no final return", where)
	}
	var sb strings.Builder
	for _, c := range clauses {
		sb.WriteString("  if " + c.cond + " then " + c.val + " else\n")
	}
	sb.WriteString("  " + final)
	return sb.String()
}

func paramNames(fd *ast.FuncDecl) ([]string, *env) {
	en := &env{params: map[string]string{}, consts: map[string]string{}}
	var names []string
	for _, f := range fd.Type.Params.List {
		for _, n := range f.Names {
			if n.Name == "_" {
				continue
			}
			en.params[n.Name] = n.Name + "_"
			names = append(names, n.Name+"_")
		}
	}
	return names, en
}

func emitPred(out *strings.Builder, goName, coqName string) {
	fd := findFunc("", goName)
	names, en := paramNames(fd)
	body := trBody(fd, en, func(e ast.Expr) string { s, _ := tr(e, en, goName); return s })
	translated[goName] = coqName
	fmt.Fprintf(out, "(* %s : %s *)\nDefinition %s", goName, posOf(fd.Pos()), coqName)
	for _, n := range names {
		fmt.Fprintf(out, " (%s : Z)", n)
	}
	fmt.Fprintf(out, " :=\n%s.\n\n", body)
}

func emitArray(out *strings.Builder, goName, coqName string) {
	for _, f := range files {
		for _, d := range f.Decls {
			gd, ok := d.(*ast.GenDecl)
			if !ok || gd.Tok != token.VAR {
				continue
			}
			for _, s := range gd.Specs {
				vs := s.(*ast.ValueSpec)
				for i, n := range vs.Names {
					if n.Name != goName {
						continue
					}
					cl, ok := vs.Values[i].(*ast.CompositeLit)
					if !ok {
						die("%s: not a composite literal", goName)
					}
					var elems []string
					for _, e := range cl.Elts {
						v, ok := constEval(e, &env{})
						if !ok {
							// Protocol enum idents
							if id, isID := e.(*ast.Ident); isID {
								if pv, ok := protocolEnum[id.Name]; ok {
									elems = append(elems, pv)
									continue
								}
							}
							die("%s: unsupported element at %s", goName, fset.Position(e.Pos()))
						}
						elems = append(elems, zlit(v))
					}
					arrays[goName] = len(elems)
					fmt.Fprintf(out, "(* %s : %s *)\nDefinition %s : list Z := [%s].\n\n", goName, posOf(n.Pos()), coqName, strings.Join(elems, "; "))
					return
				}
			}
		}
	}
	die("array %s not found", goName)
}

var protocolEnum = map[string]string{}

func loadProtocolEnum() {
	// const ( ProtocolConnect = Protocol(iota + 1); ProtocolGRPC; ... )
	for _, f := range files {
		for _, d := range f.Decls {
			gd, ok := d.(*ast.GenDecl)
			if !ok || gd.Tok != token.CONST {
				continue
			}
			first, ok := gd.Specs[0].(*ast.ValueSpec)
			if !ok || first.Names[0].Name != "ProtocolConnect" {
				continue
			}
			call, ok := first.Values[0].(*ast.CallExpr)
			if !ok {
				die("Protocol enum: unexpected shape")
			}
			be, ok := call.Args[0].(*ast.BinaryExpr)
			if !ok || be.Op != token.ADD {
				die("Protocol enum: unexpected iota expression")
			}
			off, ok := constEval(be.Y, &env{})
			if !ok {
				die("Protocol enum: unexpected offset")
			}
			base, _ := strconv.Atoi(off)
			for i, s := range gd.Specs {
				protocolEnum[s.(*ast.ValueSpec).Names[0].Name] = strconv.Itoa(base + i)
			}
			return
		}
	}
	die("Protocol enum not found")
}

// ---- envelope codecs ----

func emitDecodeEnvelope(out *strings.Builder, recv, coqPrefix string) {
	fd := findFunc(recv, "decodeEnvelope")
	// delegation: return T{}.decodeEnvelope(x)
	if len(fd.Body.List) == 1 {
		if ret, ok := fd.Body.List[0].(*ast.ReturnStmt); ok && len(ret.Results) == 1 {
			if call, ok := ret.Results[0].(*ast.CallExpr); ok {
				if sel, ok := call.Fun.(*ast.SelectorExpr); ok && sel.Sel.Name == "decodeEnvelope" {
					if cl, ok := sel.X.(*ast.CompositeLit); ok {
						target := cl.Type.(*ast.Ident).Name
						tp, ok := envPrefix[target]
						if !ok {
							die("%s.decodeEnvelope delegates to unknown %s", recv, target)
						}
						fmt.Fprintf(out, "(* %s.decodeEnvelope delegates to %s *)\n", recv, target)
						fmt.Fprintf(out, "Definition %s_flags_bad := %s_flags_bad.\nDefinition %s_compressed := %s_compressed.\nDefinition %s_trailer := %s_trailer.\n\n",
							coqPrefix, tp, coqPrefix, tp, coqPrefix, tp)
						return
					}
				}
			}
		}
	}
	en := &env{params: map[string]string{"flags": "flags_"}, consts: map[string]string{}}
	var bad, comp, trl string
	trl = "false"
	comp = "false"
	sawFlags := false
	for _, st := range fd.Body.List {
		switch s := st.(type) {
		case *ast.AssignStmt:
			// flags := envBytes[0]
			if len(s.Lhs) == 1 && len(s.Rhs) == 1 {
				if id, ok := s.Lhs[0].(*ast.Ident); ok && id.Name == "flags" {
					if ix, ok := s.Rhs[0].(*ast.IndexExpr); ok {
						if v, ok := constEval(ix.Index, en); ok && v == "0" {
							sawFlags = true
							continue
						}
					}
				}
			}
			die("%s.decodeEnvelope: unsupported assignment", recv)
		case *ast.IfStmt:
			if bad != "" {
				die("%s.decodeEnvelope: more than one validity test", recv)
			}
			c, k := tr(s.Cond, en, recv+".decodeEnvelope")
			if k != "bool" {
				die("%s.decodeEnvelope: bad condition", recv)
			}
			ret, ok := s.Body.List[len(s.Body.List)-1].(*ast.ReturnStmt)
			if !ok || len(ret.Results) != 2 {
				die("%s.decodeEnvelope: if must return an error", recv)
			}
			if id, ok := ret.Results[1].(*ast.Ident); ok && id.Name == "nil" {
				die("%s.decodeEnvelope: validity branch returns nil error", recv)
			}
			bad = c
		case *ast.ReturnStmt:
			cl, ok := s.Results[0].(*ast.CompositeLit)
			if !ok {
				die("%s.decodeEnvelope: unsupported return", recv)
			}
			if id, ok := s.Results[1].(*ast.Ident); !ok || id.Name != "nil" {
				die("%s.decodeEnvelope: final return must have nil error", recv)
			}
			seenLen := false
			for _, el := range cl.Elts {
				kv := el.(*ast.KeyValueExpr)
				switch kv.Key.(*ast.Ident).Name {
				case "compressed":
					comp, _ = tr(kv.Value, en, recv)
				case "trailer":
					trl, _ = tr(kv.Value, en, recv)
				case "length":
					// must be binary.BigEndian.Uint32(envBytes[1:])
					src := exprString(kv.Value)
					if src != "binary.BigEndian.Uint32(envBytes[1:])" {
						die("%s.decodeEnvelope: unexpected length expression %s", recv, src)
					}
					seenLen = true
				default:
					die("%s.decodeEnvelope: unknown envelope field", recv)
				}
			}
			if !seenLen {
				die("%s.decodeEnvelope: length not decoded", recv)
			}
		default:
			die("%s.decodeEnvelope: unsupported statement", recv)
		}
	}
	if !sawFlags || bad == "" {
		die("%s.decodeEnvelope: shape not recognised", recv)
	}
	fmt.Fprintf(out, "(* %s.decodeEnvelope : %s *)\n", recv, posOf(fd.Pos()))
	fmt.Fprintf(out, "Definition %s_flags_bad (flags_ : Z) : bool := %s.\n", coqPrefix, bad)
	fmt.Fprintf(out, "Definition %s_compressed (flags_ : Z) : bool := %s.\n", coqPrefix, comp)
	fmt.Fprintf(out, "Definition %s_trailer (flags_ : Z) : bool := %s.\n\n", coqPrefix, trl)
}

func exprString(e ast.Expr) string {
	var sb strings.Builder
	var w func(ast.Expr)
	w = func(e ast.Expr) {
		switch x := e.(type) {
		case *ast.Ident:
			sb.WriteString(x.Name)
		case *ast.SelectorExpr:
			w(x.X)
			sb.WriteString("." + x.Sel.Name)
		case *ast.CallExpr:
			w(x.Fun)
			sb.WriteString("(")
			for i, a := range x.Args {
				if i > 0 {
					sb.WriteString(",")
				}
				w(a)
			}
			sb.WriteString(")")
		case *ast.SliceExpr:
			w(x.X)
			sb.WriteString("[")
			if x.Low != nil {
				w(x.Low)
			}
			sb.WriteString(":")
			if x.High != nil {
				w(x.High)
			}
			sb.WriteString("]")
		case *ast.BasicLit:
			sb.WriteString(x.Value)
		case *ast.BinaryExpr:
			w(x.X)
			sb.WriteString(x.Op.String())
			w(x.Y)
		case *ast.IndexExpr:
			w(x.X)
			sb.WriteString("[")
			w(x.Index)
			sb.WriteString("]")
		default:
			sb.WriteString("?")
		}
	}
	w(e)
	return sb.String()
}

var envPrefix = map[string]string{}

func emitEncodeEnvelope(out *strings.Builder, recv, coqPrefix string) {
	fd := findFunc(recv, "encodeEnvelope")
	if len(fd.Body.List) == 1 {
		if ret, ok := fd.Body.List[0].(*ast.ReturnStmt); ok && len(ret.Results) == 1 {
			if call, ok := ret.Results[0].(*ast.CallExpr); ok {
				if sel, ok := call.Fun.(*ast.SelectorExpr); ok && sel.Sel.Name == "encodeEnvelope" {
					if cl, ok := sel.X.(*ast.CompositeLit); ok {
						target := cl.Type.(*ast.Ident).Name
						tp, ok := envPrefix[target]
						if !ok {
							die("%s.encodeEnvelope delegates to unknown %s", recv, target)
						}
						fmt.Fprintf(out, "(* %s.encodeEnvelope delegates to %s *)\nDefinition %s_encode_flags := %s_encode_flags.\n\n", recv, target, coqPrefix, tp)
						return
					}
				}
			}
		}
	}
	// var envBytes envelopeBytes; if env.X { envBytes[0] (=||=) c }...; binary.BigEndian.PutUint32(envBytes[1:], env.length); return envBytes
	expr := "0"
	sawLen, sawRet := false, false
	for _, st := range fd.Body.List {
		switch s := st.(type) {
		case *ast.DeclStmt:
		case *ast.IfStmt:
			sel, ok := s.Cond.(*ast.SelectorExpr)
			if !ok || s.Else != nil || len(s.Body.List) != 1 {
				die("%s.encodeEnvelope: unsupported if", recv)
			}
			field := sel.Sel.Name
			if field != "compressed" && field != "trailer" {
				die("%s.encodeEnvelope: unknown field %s", recv, field)
			}
			as, ok := s.Body.List[0].(*ast.AssignStmt)
			if !ok || exprString(as.Lhs[0]) != "envBytes[0]" {
				die("%s.encodeEnvelope: unsupported assignment", recv)
			}
			v, ok := constEval(as.Rhs[0], &env{})
			if !ok {
				die("%s.encodeEnvelope: non-constant flag", recv)
			}
			switch as.Tok {
			case token.ASSIGN:
				expr = fmt.Sprintf("(if %s_ then %s else %s)", field, v, expr)
			case token.OR_ASSIGN:
				expr = fmt.Sprintf("(if %s_ then Z.lor %s %s else %s)", field, expr, v, expr)
			default:
				die("%s.encodeEnvelope: unsupported assignment op", recv)
			}
		case *ast.ExprStmt:
			if exprString(s.X) != "binary.BigEndian.PutUint32(envBytes[1:],env.length)" {
				die("%s.encodeEnvelope: unexpected statement %s", recv, exprString(s.X))
			}
			sawLen = true
		case *ast.ReturnStmt:
			if exprString(s.Results[0]) != "envBytes" {
				die("%s.encodeEnvelope: unexpected return", recv)
			}
			sawRet = true
		default:
			die("%s.encodeEnvelope: unsupported statement", recv)
		}
	}
	if !sawLen || !sawRet {
		die("%s.encodeEnvelope: shape not recognised", recv)
	}
	fmt.Fprintf(out, "(* %s.encodeEnvelope : %s *)\nDefinition %s_encode_flags (compressed_ trailer_ : bool) : Z := %s.\n\n", recv, posOf(fd.Pos()), coqPrefix, expr)
}

// literal used in a comparison inside a function: finds `<lhs> <op> LIT` and returns LIT
func findCompareLiteral(fd *ast.FuncDecl, lhs string, op token.Token) string {
	var out string
	ast.Inspect(fd.Body, func(n ast.Node) bool {
		be, ok := n.(*ast.BinaryExpr)
		if !ok || be.Op != op {
			return true
		}
		if exprString(be.X) == lhs {
			if lit, isLit := be.Y.(*ast.BasicLit); isLit && lit.Kind == token.INT {
				if v, ok := constEval(be.Y, &env{}); ok {
					if out != "" {
						die("%s: comparison %s %s <literal> found twice", fd.Name.Name, lhs, op)
					}
					out = v
				}
			}
		}
		return true
	})
	if out == "" {
		die("%s: comparison %s %s <literal> not found", fd.Name.Name, lhs, op)
	}
	return out
}

func main() {
	if len(os.Args) != 2 {
		die("usage: gengallina <repo-dir>")
	}
	pkgs, err := parser.ParseDir(fset, os.Args[1], func(fi os.FileInfo) bool {
		return !strings.HasSuffix(fi.Name(), "_test.go") && !strings.HasPrefix(fi.Name(), "verif_")
	}, 0)
	if err != nil {
		die("parse: %v", err)
	}
	pkg, ok := pkgs["vanguard"]
	if !ok {
		die("package vanguard not found")
	}
	files = pkg.Files
	loadProtocolEnum()

	var out strings.Builder
	out.WriteString("(* GENERATED by /verif/tools/gengallina from /repo/*.go on every check run. DO NOT EDIT. *)\n")
	out.WriteString("From Coq Require Import List ZArith Bool.\nImport ListNotations.\nOpen Scope Z_scope.\n\n")

	// constants
	type kc struct{ goName, coqName string }
	for _, c := range []kc{{"envelopeLen", "envelope_len"}, {"maxRecycleBufferSize", "max_recycle_buffer_size"},
		{"DefaultMaxGetURLBytes", "default_max_get_url_bytes"}, {"DefaultMaxMessageBufferBytes", "default_max_message_buffer_bytes"},
		{"initialBufferSize", "initial_buffer_size"}} {
		v, ok := topConst(c.goName)
		if !ok {
			die("constant %s not found or unsupported", c.goName)
		}
		fmt.Fprintf(&out, "Definition %s : Z := %s.\n", c.coqName, zlit(v))
	}
	out.WriteString("\n")
	names := make([]string, 0, len(protocolEnum))
	for n := range protocolEnum {
		names = append(names, n)
	}
	sort.Strings(names)
	for _, n := range names {
		fmt.Fprintf(&out, "Definition %s : Z := %s.\n", "c_"+n, protocolEnum[n])
	}
	out.WriteString("\n")
	emitArray(&out, "allProtocols", "all_protocols")
	emitArray(&out, "httpStatusCodeFromRPCIndex", "http_status_from_rpc_index")

	// httpStatusCodeFromRPC: bound test then index (None = index out of range panic)
	{
		fd := findFunc("", "httpStatusCodeFromRPC")
		pn, en := paramNames(fd)
		body := trBody(fd, en, func(e ast.Expr) string {
			if ix, ok := e.(*ast.IndexExpr); ok {
				arr := ix.X.(*ast.Ident).Name
				if arr != "httpStatusCodeFromRPCIndex" {
					die("httpStatusCodeFromRPC: unexpected array %s", arr)
				}
				i, _ := tr(ix.Index, en, "httpStatusCodeFromRPC")
				return "(if " + i + " <? 0 then None else nth_error http_status_from_rpc_index (Z.to_nat " + i + "))"
			}
			s, _ := tr(e, en, "httpStatusCodeFromRPC")
			return "(Some " + s + ")"
		})
		fmt.Fprintf(&out, "(* httpStatusCodeFromRPC : %s ; None = index-out-of-range panic *)\nDefinition http_status_from_rpc (%s : Z) : option Z :=\n%s.\n\n", posOf(fd.Pos()), pn[0], body)
	}
	emitPred(&out, "httpStatusCodeToRPC", "http_status_to_rpc")
	emitPred(&out, "grpcTimeoutUnitLookup", "grpc_timeout_unit")
	{
		fd := findFunc("", "grpcDecodeTimeout")
		fmt.Fprintf(&out, "Definition grpc_max_digits : Z := %s.\n", findCompareLiteral(fd, "len(timeout)-1", token.GTR))
		fmt.Fprintf(&out, "Definition grpc_max_hours : Z := %s.\n\n", localConst(fd, "grpcTimeoutMaxHours"))
		fc := findFunc("", "connectExtractTimeout")
		fmt.Fprintf(&out, "Definition connect_max_digits : Z := %s.\n", findCompareLiteral(fc, "len(str)", token.GTR))
		fe := findFunc("", "grpcEncodeTimeout")
		fmt.Fprintf(&out, "Definition grpc_timeout_max_value : Z := %s.\n\n", localConst(fe, "grpcTimeoutMaxValue"))
	}
	// character classes
	emitPred(&out, "isIdentStart", "is_ident_start")
	emitPred(&out, "isDigit", "is_digit_rune")
	emitPred(&out, "isIdent", "is_ident")
	emitPred(&out, "isFieldPath", "is_field_path")
	emitPred(&out, "isVariable", "is_variable")
	emitPred(&out, "isLiteral", "is_literal")
	emitPred(&out, "grpcShouldEscape", "grpc_should_escape")
	emitPred(&out, "ishex", "is_hex")
	emitPred(&out, "pathShouldEscape", "path_should_escape")

	// envelope codecs (order matters for delegation)
	type ec struct{ recv, prefix string }
	order := []ec{{"grpcServerProtocol", "env_grpc_server"}, {"grpcClientProtocol", "env_grpc_client"},
		{"grpcWebServerProtocol", "env_grpcweb_server"}, {"grpcWebClientProtocol", "env_grpcweb_client"},
		{"connectStreamServerProtocol", "env_connect_server"}, {"connectStreamClientProtocol", "env_connect_client"}}
	for _, e := range order {
		envPrefix[e.recv] = e.prefix
	}
	for _, e := range order {
		emitDecodeEnvelope(&out, e.recv, e.prefix)
	}
	for _, e := range order {
		emitEncodeEnvelope(&out, e.recv, e.prefix)
	}
	emitBuiltinOptions(&out)
	fmt.Print(out.String())
}

// ---- built-in configuration of NewTranscoder ----

// strConst resolves an identifier or literal to a Go string constant
func strConst(e ast.Expr) string {
	switch x := e.(type) {
	case *ast.BasicLit:
		if x.Kind == token.STRING {
			v, err := strconv.Unquote(x.Value)
			if err != nil {
				die("bad string literal %s", x.Value)
			}
			return v
		}
	case *ast.Ident:
		for _, f := range files {
			for _, d := range f.Decls {
				gd, ok := d.(*ast.GenDecl)
				if !ok || gd.Tok != token.CONST {
					continue
				}
				for _, sp := range gd.Specs {
					vs := sp.(*ast.ValueSpec)
					for i, n := range vs.Names {
						if n.Name == x.Name && i < len(vs.Values) {
							return strConst(vs.Values[i])
						}
					}
				}
			}
		}
	}
	die("builtin options: cannot resolve string constant %T", e)
	return ""
}

func bytesLit(v string) string {
	parts := make([]string, len(v))
	for i := 0; i < len(v); i++ {
		parts[i] = strconv.Itoa(int(v[i]))
	}
	return "[" + strings.Join(parts, "; ") + "]%N"
}

// emitBuiltinOptions reads, from the body of NewTranscoder, the composite literals that give the
// built-in codecs and compressors of a transcoder and the built-in default service options.
func emitBuiltinOptions(out *strings.Builder) {
	fd := findFunc("", "NewTranscoder")
	if fd == nil {
		die("NewTranscoder not found")
	}
	lits := map[string]*ast.CompositeLit{}
	ast.Inspect(fd.Body, func(n ast.Node) bool {
		if cl, ok := n.(*ast.CompositeLit); ok {
			if id, ok := cl.Type.(*ast.Ident); ok {
				if _, dup := lits[id.Name]; !dup {
					lits[id.Name] = cl
				}
			}
		}
		return true
	})
	field := func(cl *ast.CompositeLit, name string) ast.Expr {
		for _, el := range cl.Elts {
			kv, ok := el.(*ast.KeyValueExpr)
			if ok {
				if id, ok := kv.Key.(*ast.Ident); ok && id.Name == name {
					return kv.Value
				}
			}
		}
		die("NewTranscoder: field %s not found in literal", name)
		return nil
	}
	keys := func(e ast.Expr) []ast.Expr {
		cl, ok := e.(*ast.CompositeLit)
		if !ok {
			die("NewTranscoder: expected a map literal")
		}
		var ks []ast.Expr
		for _, el := range cl.Elts {
			ks = append(ks, el.(*ast.KeyValueExpr).Key)
		}
		return ks
	}
	strKeys := func(e ast.Expr) string {
		var parts []string
		for _, k := range keys(e) {
			parts = append(parts, bytesLit(strConst(k)))
		}
		return "[" + strings.Join(parts, "; ") + "]"
	}
	topts, sopts := lits["transcoderOptions"], lits["serviceOptions"]
	if topts == nil || sopts == nil {
		die("NewTranscoder: option literals not found")
	}
	fmt.Fprintf(out, "(* built-in configuration : %s *)\n", posOf(fd.Pos()))
	fmt.Fprintf(out, "Definition builtin_codecs : list (list N) := %s.\n", strKeys(field(topts, "codecs")))
	fmt.Fprintf(out, "Definition builtin_compressors : list (list N) := %s.\n", strKeys(field(topts, "compressors")))
	fmt.Fprintf(out, "Definition default_codec_names : list (list N) := %s.\n", strKeys(field(sopts, "codecNames")))
	fmt.Fprintf(out, "Definition default_compressor_names : list (list N) := %s.\n", strKeys(field(sopts, "compressorNames")))
	fmt.Fprintf(out, "Definition default_preferred_codec : list N := %s.\n", bytesLit(strConst(field(sopts, "preferredCodec"))))
	var protos []string
	for _, k := range keys(field(sopts, "protocols")) {
		id, ok := k.(*ast.Ident)
		if !ok || protocolEnum[id.Name] == "" {
			die("NewTranscoder: unexpected default protocol")
		}
		protos = append(protos, protocolEnum[id.Name])
	}
	fmt.Fprintf(out, "Definition default_protocols : list Z := [%s].\n", strings.Join(protos, "; "))
	for _, f := range []string{"maxMsgBufferBytes", "maxGetURLBytes"} {
		v, ok := constEval(field(sopts, f), &env{})
		if !ok {
			die("NewTranscoder: %s is not constant", f)
		}
		fmt.Fprintf(out, "Definition default_%s : Z := %s.\n", f, zlit(v))
	}
	// registerService: the limits are rejected when <= 0
	out.WriteString("\n")
}
