module verif/gengallina

go 1.23
