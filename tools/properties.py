"""Per-property configuration for tools/vcheck.py: theorem lists (audited with Print
Assumptions on every run), suites with budgets, generator branches that must be reached."""

PROPS = {
    "C12": {
        "theorems": [
            "C12_absent", "C12_never_extends", "C12_dropped_only_beyond_range", "C12_valid_accepted",
            "C12_malformed_rejected", "C12_grpc_encode_sound", "C12_rest_client_partial",
            "C12_rest_client_malformed_partial", "C12_rest_target_partial",
        ],
        "suites": [
            {"name": "timeouts", "quick": 1500, "thorough": 30000},
            {"name": "deadline", "quick": 600, "thorough": 20000},
        ],
        "required_tags": ["grpc_extract:valid-small", "grpc_extract:toolong", "grpc_extract:hours", "grpc_extract:mutated",
                          "connect_extract:valid-boundary", "connect_extract:toolong", "connect_extract:mutated",
                          "grpc_encode:unit-switch", "connect_encode:boundary",
                          "deadline:listed", "deadline:random", "deadline.pair:grpc>REST", "deadline.pair:rest>gRPC", "deadline.pair:connect-stream>gRPC", "deadline.pair:grpcweb>Connect"],
        "trivial_tags": ["absent", "empty"],
        "trusted_base": ["oracles pf/ff: strconv.ParseFloat / FormatFloat and float64 arithmetic of the REST (X-Server-Timeout) leg"],
        "assumptions": ["REST leg: float64 parse/format are oracles; the monitor allows 1 ns + 2^-50 relative slack on REST legs",
                        "an empty header value is indistinguishable from an absent header (net/http Header.Get)"],
        "level_text": "Theorems in Coq (Props/C12.v) over an executable model of all six timeout functions: absent stays absent, a spec-valid client timeout is never rejected, every malformed one is rejected, the backend's header denotes a duration <= the client's and short by less than its own unit (or the 10-digit Connect clamp; gRPC hours > 8 are dropped as unbounded). Proved for all header strings and all durations in int64. The model is tied to the code by regenerated constants/unit table and by running model and monitors against the real functions on ~5000 generated headers per run.",
        "level_note": "Trusted: Coq kernel + vm_compute, gengallina translator, the Go harness, oracles for float64 parse/format on the REST leg (REST theorems are _partial). Theorems are about the model; correspondence is sampled (exhaustive over small values, every unit byte, digit-count boundaries).",
        "modelled": "grpcExtractTimeoutFromHeaders, grpcDecodeTimeout, grpcEncodeTimeout, connectExtractTimeout, connectEncodeTimeout, restEncodeTimeout/restDecodeTimeout (float part as oracle); grpcTimeoutUnitLookup and digit limits regenerated from source",
    },
    "C04": {
        "theorems": ["C04_status_total", "C04_http_to_rpc", "C04_grpc_message_roundtrip", "C04_grpc_message_printable"],
        "suites": [{"name": "status", "quick": 1, "thorough": 1}, {"name": "percent", "quick": 150, "thorough": 20000},
                   {"name": "respflow", "quick": 1200, "thorough": 40000}],
        "required_tags": ["status.from_rpc:small", "status.from_rpc:large", "status.to_rpc:sweep", "percent.grpc_decode:pairs", "percent.grpc_encode:single",
                          "respflow:error", "respflow:bare-http", "respflow:error-oddcode", "respflow:error-trailers-only"],
        "trivial_tags": ["empty"],
        "level_text": "wip", "level_note": "wip",
    },
    "C06": {
        "theorems": ["C06_sound", "C06_method", "C06_404", "C06_one_template", "C06_whole_template", "C06_405",
                     "C06_literal_precedence", "C06_order_independent", "C06_decode_once"],
        "suites": [{"name": "router", "quick": 1600, "thorough": 40000}, {"name": "templates", "quick": 400, "thorough": 20000}],
        "required_tags": ["router.outcome:404", "router.outcome:405", "router.outcome:found", "router.match:small", "router.match:rich", "router.match:permuted", "template.parse:generated"],
        "trivial_tags": [],
        "level_text": "wip", "level_note": "wip",
    },
    "C08": {
        "theorems": [],
        "suites": [{"name": "reader", "quick": 1500, "thorough": 40000}],
        "required_tags": ["reader.adapter:enveloping", "reader.adapter:transforming", "reader:cut", "reader:valid"],
        "trivial_tags": [],
        "level_text": "wip", "level_note": "wip",
    },
    "C02": {
        "theorems": [],
        "suites": [{"name": "negotiate", "quick": 1500, "thorough": 40000}, {"name": "reader", "quick": 1200, "thorough": 40000}],
        "required_tags": ["negotiate.outcome:backend", "negotiate.outcome:reject", "negotiate.outcome:unknown", "reader.adapter:transforming"],
        "trivial_tags": [],
        "level_text": "wip", "level_note": "wip",
    },
    "C03": {
        "theorems": [],
        "suites": [{"name": "respflow", "quick": 1500, "thorough": 40000}],
        "required_tags": ["respflow:success", "respflow:error", "respflow:bare-http", "respflow:error-trailers-only"],
        "trivial_tags": [],
        "level_text": "wip", "level_note": "wip",
    },
    "C05": {
        "theorems": [],
        "suites": [{"name": "respflow", "quick": 1500, "thorough": 40000}, {"name": "negotiate", "quick": 1000, "thorough": 30000}],
        "required_tags": ["respflow:success", "respflow:error", "negotiate.outcome:backend"],
        "trivial_tags": [],
        "level_text": "wip", "level_note": "wip",
    },
    "C13": {
        "theorems": [],
        "suites": [{"name": "dispatch", "quick": 2000, "thorough": 50000}],
        "required_tags": ["dispatch.outcome:backend", "dispatch.outcome:unknown", "dispatch.outcome:reject", "dispatch:unmatched"],
        "trivial_tags": [],
        "level_text": "wip", "level_note": "wip",
    },
    "C18": {
        "theorems": [],
        "suites": [{"name": "dispatch", "quick": 1500, "thorough": 50000}, {"name": "negotiate", "quick": 1000, "thorough": 30000}],
        "required_tags": ["dispatch.outcome:backend", "dispatch.outcome:unknown", "dispatch.outcome:reject", "negotiate.outcome:reject"],
        "trivial_tags": [],
        "level_text": "wip", "level_note": "wip",
    },
}

NOT_APPLICABLE = {}
