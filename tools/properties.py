"""Per-property configuration for tools/vcheck.py: theorem lists (audited with Print
Assumptions on every run), suites with budgets, generator branches that must be reached."""

PROPS = {
    "C12": {
        "theorems": [
            "C12_absent", "C12_never_extends", "C12_dropped_only_beyond_range", "C12_valid_accepted",
            "C12_malformed_rejected", "C12_grpc_encode_sound", "C12_rest_client_partial",
            "C12_rest_client_malformed_partial", "C12_rest_target_partial",
        ],
        "suites": [
            {"name": "timeouts", "quick": 1500, "thorough": 30000},
            {"name": "deadline", "quick": 600, "thorough": 20000},
        ],
        "required_tags": ["grpc_extract:valid-small", "grpc_extract:toolong", "grpc_extract:hours", "grpc_extract:mutated",
                          "connect_extract:valid-boundary", "connect_extract:toolong", "connect_extract:mutated",
                          "grpc_encode:unit-switch", "connect_encode:boundary",
                          "deadline:listed", "deadline:random", "deadline.pair:grpc>REST", "deadline.pair:rest>gRPC", "deadline.pair:connect-stream>gRPC", "deadline.pair:grpcweb>Connect"],
        "trivial_tags": ["absent", "empty"],
        "trusted_base": ["oracles pf/ff: strconv.ParseFloat / FormatFloat and float64 arithmetic of the REST (X-Server-Timeout) leg"],
        "assumptions": ["REST leg: float64 parse/format are oracles; the monitor allows 1 ns + 2^-50 relative slack on REST legs",
                        "an empty header value is indistinguishable from an absent header (net/http Header.Get)"],
        "level_text": "Theorems in Coq (Props/C12.v) over an executable model of all six timeout functions: absent stays absent, a spec-valid client timeout is never rejected, every malformed one is rejected, the backend's header denotes a duration <= the client's and short by less than its own unit (or the 10-digit Connect clamp; gRPC hours > 8 are dropped as unbounded). Proved for all header strings and all durations in int64. The model is tied to the code by regenerated constants/unit table and by running model and monitors against the real functions on ~5000 generated headers per run.",
        "level_note": "Trusted: Coq kernel + vm_compute, gengallina translator, the Go harness, oracles for float64 parse/format on the REST leg (REST theorems are _partial). Theorems are about the model; correspondence is sampled (exhaustive over small values, every unit byte, digit-count boundaries).",
        "modelled": "grpcExtractTimeoutFromHeaders, grpcDecodeTimeout, grpcEncodeTimeout, connectExtractTimeout, connectEncodeTimeout, restEncodeTimeout/restDecodeTimeout (float part as oracle); grpcTimeoutUnitLookup and digit limits regenerated from source",
    },
    "C04": {
        "theorems": ["C04_status_total", "C04_http_to_rpc", "C04_grpc_message_roundtrip", "C04_grpc_message_printable"],
        "suites": [{"name": "status", "quick": 1, "thorough": 1}, {"name": "percent", "quick": 150, "thorough": 20000}, {"name": "respflow", "quick": 1200, "thorough": 40000}, {"name": "restbind", "quick": 800, "thorough": 30000}],
        "required_tags": ["restbind.kind:error", "status.from_rpc:small", "status.from_rpc:large", "status.to_rpc:sweep", "percent.grpc_decode:pairs", "percent.grpc_encode:single",
                          "respflow:error", "respflow:bare-http", "respflow:error-oddcode", "respflow:error-trailers-only"],
        "trivial_tags": ["empty"],
        "level_text": "wip", "level_note": "wip",
    },
    "C06": {
        "theorems": ["C06_sound", "C06_method", "C06_404", "C06_one_template", "C06_whole_template", "C06_405",
                     "C06_literal_precedence", "C06_order_independent", "C06_decode_once"],
        "suites": [{"name": "router", "quick": 1600, "thorough": 40000}, {"name": "templates", "quick": 400, "thorough": 20000}],
        "required_tags": ["router.outcome:404", "router.outcome:405", "router.outcome:found", "router.match:small", "router.match:rich", "router.match:permuted", "template.parse:generated"],
        "trivial_tags": [],
        "level_text": "wip", "level_note": "wip",
    },
    "C08": {
        "theorems": [],
        "suites": [{"name": "reader", "quick": 1200, "thorough": 40000}, {"name": "segments", "quick": 1600, "thorough": 40000}, {"name": "respflow", "quick": 600, "thorough": 20000}],
        "required_tags": ["reader.adapter:enveloping", "reader.adapter:transforming", "reader:cut", "reader:valid", "reader.meta:valid",
                          "segments.split:0", "segments.split:3", "segments:success", "segments:error"],
        "trivial_tags": [],
        "level_text": "wip", "level_note": "wip",
    },
    "C02": {
        "theorems": [],
        "suites": [{"name": "negotiate", "quick": 1200, "thorough": 40000}, {"name": "reader", "quick": 1000, "thorough": 40000}, {"name": "timeouts", "quick": 800, "thorough": 20000}, {"name": "deadline", "quick": 400, "thorough": 10000}, {"name": "getpost", "quick": 500, "thorough": 10000}],
        "required_tags": ["grpc_encode:unit-switch", "deadline:listed", "negotiate.outcome:backend", "negotiate.outcome:reject", "negotiate.outcome:unknown", "reader.adapter:transforming"],
        "trivial_tags": [],
        "level_text": "wip", "level_note": "wip",
    },
    "C03": {
        "theorems": [],
        "suites": [{"name": "respflow", "quick": 1200, "thorough": 40000}, {"name": "segments", "quick": 800, "thorough": 30000}, {"name": "limits", "quick": 800, "thorough": 20000}, {"name": "dispatch", "quick": 600, "thorough": 20000}],
        "required_tags": ["segments:error", "limits.dir:response", "dispatch.outcome:reject", "respflow:success", "respflow:error", "respflow:bare-http", "respflow:error-trailers-only"],
        "trivial_tags": [],
        "level_text": "wip", "level_note": "wip",
    },
    "C05": {
        "theorems": [],
        "suites": [{"name": "respflow", "quick": 1500, "thorough": 40000}, {"name": "negotiate", "quick": 1000, "thorough": 30000}, {"name": "dispatch", "quick": 600, "thorough": 20000}],
        "required_tags": ["dispatch.outcome:backend", "respflow:success", "respflow:error", "negotiate.outcome:backend"],
        "trivial_tags": [],
        "level_text": "wip", "level_note": "wip",
    },
    "C13": {
        "theorems": [],
        "suites": [{"name": "dispatch", "quick": 2000, "thorough": 50000}, {"name": "negotiate", "quick": 600, "thorough": 20000}],
        "required_tags": ["dispatch.outcome:backend", "dispatch.outcome:unknown", "dispatch.outcome:reject", "dispatch:unmatched"],
        "trivial_tags": [],
        "level_text": "wip", "level_note": "wip",
    },
    "C18": {
        "theorems": [],
        "suites": [{"name": "dispatch", "quick": 1500, "thorough": 50000}, {"name": "negotiate", "quick": 1000, "thorough": 30000}, {"name": "timeouts", "quick": 600, "thorough": 20000}, {"name": "deadline", "quick": 400, "thorough": 10000}],
        "required_tags": ["connect_extract:mutated", "deadline:listed", "dispatch.outcome:backend", "dispatch.outcome:unknown", "dispatch.outcome:reject", "negotiate.outcome:reject"],
        "trivial_tags": [],
        "level_text": "wip", "level_note": "wip",
    },
    "C10": {
        "theorems": [],
        "suites": [{"name": "limits", "quick": 1500, "thorough": 40000}, {"name": "reader", "quick": 800, "thorough": 20000}, {"name": "segments", "quick": 600, "thorough": 20000}],
        "required_tags": ["limits.fit:fits", "limits.fit:over", "limits:bomb", "limits:reencoded", "limits.dir:request", "limits.dir:response"],
        "trivial_tags": [],
        "level_text": "wip", "level_note": "wip",
    },
    "C09": {
        "theorems": [],
        "suites": [{"name": "reader", "quick": 1500, "thorough": 40000}, {"name": "respflow", "quick": 1200, "thorough": 40000}, {"name": "envelopes", "quick": 1, "thorough": 1}, {"name": "limits", "quick": 800, "thorough": 20000}, {"name": "segments", "quick": 600, "thorough": 20000}],
        "required_tags": ["limits:bomb", "reader:cut", "reader:cut-after-prefix", "reader:cut-in-prefix", "reader:cut-last-byte", "reader:cut-at-boundary", "reader:badflag", "reader:corrupt", "reader:garbage", "reader:lenlie", "respflow:success+cut", "env.decode:grpc-server"],
        "trivial_tags": [],
        "level_text": "wip", "level_note": "wip",
    },
    "C01": {
        "theorems": [],
        "suites": [{"name": "reader", "quick": 1200, "thorough": 40000}, {"name": "respflow", "quick": 1000, "thorough": 40000}, {"name": "limits", "quick": 800, "thorough": 20000}, {"name": "segments", "quick": 600, "thorough": 20000}],
        "required_tags": ["limits.fit:over", "segments:success", "reader:valid", "reader.adapter:enveloping", "reader.adapter:transforming", "respflow:success"],
        "trivial_tags": [],
        "level_text": "wip", "level_note": "wip",
    },
    "C11": {
        "theorems": [],
        "suites": [{"name": "respflow", "quick": 800, "thorough": 40000}, {"name": "reader", "quick": 800, "thorough": 30000}, {"name": "dispatch", "quick": 800, "thorough": 30000}, {"name": "negotiate", "quick": 600, "thorough": 30000}, {"name": "restbind", "quick": 800, "thorough": 30000}, {"name": "limits", "quick": 600, "thorough": 20000}, {"name": "timeouts", "quick": 500, "thorough": 20000}, {"name": "segments", "quick": 500, "thorough": 20000}],
        "required_tags": ["connect_extract:mutated", "limits.fit:over", "respflow:error-oddcode", "respflow:bare-http", "reader:badflag", "dispatch:unmatched+rawbody", "respflow:readfault", "restbind.kind:invalid"],
        "trivial_tags": [],
        "level_text": "wip", "level_note": "wip",
    },
    "C19": {
        "theorems": ["C19_accepted_only_nse", "C19_rejected_405", "C19_get_issued_only_if", "C19_post_otherwise", "C19_get_when_fits"],
        "suites": [{"name": "getpost", "quick": 1500, "thorough": 40000}, {"name": "negotiate", "quick": 600, "thorough": 20000}],
        "required_tags": ["getpost.idem:true", "getpost.issued:GET", "getpost.issued:POST", "getpost:limit-fits", "getpost:limit-over", "getpost:rejected", "getpost.codec:px"],
        "trivial_tags": [],
        "level_text": "wip", "level_note": "wip",
    },
    "C20": {
        "theorems": [],
        "suites": [{"name": "dualschema", "quick": 1800, "thorough": 40000}, {"name": "resolver", "quick": 600, "thorough": 20000}],
        "required_tags": ["resolver.n:3", "resolver.method:1", "resolver.register:1", "resolver.register:2", "dual:negotiate", "dual:respflow", "dual:dispatch", "dual:grpcwrap", "dual:restbind"],
        "trivial_tags": [],
        "level_text": "wip", "level_note": "wip",
    },
    "C16": {
        "theorems": [],
        "suites": [{"name": "respflow", "quick": 1500, "thorough": 40000}, {"name": "segments", "quick": 1200, "thorough": 30000}, {"name": "reader", "quick": 600, "thorough": 20000}],
        "required_tags": ["respflow:success", "segments.split:1", "respflow.pair:grpc<gRPC-Web", "respflow.pair:connect-stream<gRPC"],
        "trivial_tags": [],
        "level_text": "wip", "level_note": "wip",
    },
    "C07": {
        "theorems": [],
        "suites": [{"name": "restbind", "quick": 2000, "thorough": 60000}, {"name": "percent", "quick": 150, "thorough": 10000}, {"name": "router", "quick": 800, "thorough": 20000}],
        "required_tags": ["restbind.httpbody:upload-rpc", "restbind.httpbody:upload-rest", "restbind.httpbody:index-rpc", "restbind.httpbody:index-rest", "restbind.ct:other", "restbind.kind:rest-client", "restbind.kind:chain", "restbind.kind:invalid", "restbind.kind:error", "restbind:UpdateBook", "restbind:GetCheckout", "path.escape:pairs"],
        "trivial_tags": [],
        "level_text": "wip", "level_note": "wip",
    },
    "C14": {
        "theorems": [],
        "suites": [{"name": "concurrent", "quick": 400, "thorough": 6000}, {"name": "histories", "quick": 300, "thorough": 4000}, {"name": "restbind", "quick": 600, "thorough": 20000}],
        "race": [{"name": "concurrent", "quick": 150, "thorough": 3000}],
        "required_tags": ["restbind.httpbody:upload-rest", "interleave:malformed-after-reply", "concurrent:duplex", "concurrent:valid", "concurrent:corrupt", "pool.trace:concurrent", "pool.trace:history"],
        "trivial_tags": [],
        "level_text": "wip", "level_note": "wip",
    },
    "C15": {
        "theorems": [],
        "suites": [{"name": "histories", "quick": 600, "thorough": 10000}, {"name": "poolops", "quick": 600, "thorough": 20000}, {"name": "restbind", "quick": 600, "thorough": 20000}],
        "required_tags": ["restbind.kind:chain", "poolops.len:5", "histories:valid", "histories:cut", "histories:corrupt", "histories:overlimit", "histories:backend-panic", "histories:validation", "pool.trace:history"],
        "trivial_tags": [],
        "level_text": "wip", "level_note": "wip",
    },
    "C17": {
        "theorems": ["C17_rejects_bad_options", "C17_bad_options_cases", "C17_rejects_duplicate_method", "C17_rejects_bad_rule", "C17_bindings_have_a_source", "C17_binding_fields", "C17_routes_distinct", "C17_binding_reachable", "C17_selector_exact", "C17_selector_wildcard", "C17_selector_plain", "C17_rules_applied", "C17_methods_and_options", "C17_option_override", "C17_rest_only_has_binding", "C17_accepts_plain_partial"],
        "suites": [{"name": "configs", "quick": 1500, "thorough": 40000}],
        "required_tags": ["config:valid", "config.defect:unknown-codec", "config.defect:unknown-compression", "config.defect:no-or-bad-protocol",
                          "config.defect:no-codec", "config.defect:duplicate-service", "config.defect:bad-template", "config.defect:conflicting-templates",
                          "config.defect:bad-body", "config.defect:bad-variable", "config.defect:selector-matches-nothing", "config.defect:malformed-selector",
                          "config.defect:rest-only-without-bindings", "config.defect:wildcard-over-several-methods", "config.services:3", "config.rules:2"],
        "trivial_tags": [],
        "level_text": "wip", "level_note": "wip",
    },
}

NOT_APPLICABLE = {}

# theorem lists come from the Props files themselves (every "Theorem Cxx_..." there is audited)
import os as _os, re as _re
_props_dir = _os.path.join(_os.path.dirname(_os.path.dirname(_os.path.abspath(__file__))), "coq", "Props")
for _pid, _cfg in PROPS.items():
    _path = _os.path.join(_props_dir, _pid + ".v")
    if _os.path.exists(_path):
        _found = _re.findall(r"^Theorem (%s_\w+)" % _pid, open(_path).read(), _re.M)
        for _t in _found:
            if _t not in _cfg["theorems"]:
                _cfg["theorems"].append(_t)

# level texts, notes, techniques and "modelled" notes live in tools/levels.py
from levels import LEVELS as _LEVELS
for _pid, _lv in _LEVELS.items():
    if _pid in PROPS:
        PROPS[_pid].update(_lv)
