#!/usr/bin/env python3
"""showmm.py <suite> <n> [seed] [filter-tag]: run a harness suite, evaluate, print decoded mismatches (dev tool)."""
import json, os, re, subprocess, sys
sys.path.insert(0, os.path.dirname(os.path.abspath(__file__)))
import vcheck
suite, n = sys.argv[1], int(sys.argv[2])
seed = sys.argv[3] if len(sys.argv) > 3 else "1"
flt = sys.argv[4] if len(sys.argv) > 4 else None
exe = os.path.join(vcheck.BUILD, "harness")
out = "/tmp/showmm.jsonl"
subprocess.run([exe, "-suite", suite, "-n", str(n), "-seed", seed, "-out", out], check=True, stderr=subprocess.DEVNULL)
cases = [json.loads(l) for l in open(out)]
codes, errs = vcheck.evaluate("DBG", cases)
print("cases", len(cases), "errors", errs[:2])
def dec(v):
    if isinstance(v, str):
        try:
            b = bytes.fromhex(v)
            return b.decode("latin1") if all(32 <= x < 127 for x in b) else "x:" + v
        except Exception:
            return v
    if isinstance(v, list):
        return [dec(x) for x in v]
    return v
def sub(mo):
    nums = [int(x) for x in re.findall(r"(\d+)%N", mo.group(0))]
    b = bytes(nums)
    return '"' + (b.decode("latin1") if all(32 <= x < 127 for x in b) else "x:" + b.hex()) + '"'
shown = 0
bad = [(c, k) for c, k in zip(cases, codes) if k]
print("mismatches", len(bad))
from collections import Counter
print(Counter(tuple(t for t in c.get("tags", []) if not t.split(":")[0].endswith("pair")) for c, k in bad).most_common(12))
for c, k in bad:
    if flt and not any(flt in t for t in c.get("tags", [])):
        continue
    print("----", c.get("tags"), "code", k, c.get("desc", "")[:100])
    if os.environ.get("SHOWIN"):
        print(" in  ", json.dumps(dec(c["in"]))[:3000])
    print(" impl ", json.dumps(dec(c["out"]))[:1500])
    m = vcheck.model_output(c)
    print(" model", re.sub(r"\[(?:\d+%N(?:; )?)+\]", sub, m)[:1500])
    shown += 1
    if shown >= int(os.environ.get("SHOWN", "6")):
        break
