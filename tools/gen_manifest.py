#!/usr/bin/env python3
"""Writes MANIFEST.json from tools/properties.py (claimed properties) and properties.jsonl."""
import json, os, sys
VERIF = os.path.dirname(os.path.dirname(os.path.abspath(__file__)))
sys.path.insert(0, os.path.join(VERIF, "tools"))
from properties import PROPS
ids = [json.loads(l)["id"] for l in open(os.path.join(VERIF, "properties.jsonl"))]
hook_commits = ["07f6233", "09b0d6a", "a5029df", "add6277", "9467f4d"]
setup = ("mkdir -p build && (cd tools/gengallina && GOFLAGS=-mod=mod GOPROXY=off GOTOOLCHAIN=local go build -o ../../build/gengallina .) && "
         "build/gengallina /repo > coq/Gen/Generated.v && (cd coq && coq_makefile -f _CoqProject -o Makefile && make -j16) && "
         "cp /repo/go.sum harness/go.sum && (cd harness && GOFLAGS=-mod=mod GOPROXY=off go build -tags verif -o ../build/harness .)")
baseline = ("cd /repo && export GOFLAGS=-mod=mod GOPROXY=off && go build ./... && go test -json -vet=off -count=1 -timeout 25m ./...")
checks = []
for pid in ids:
    if pid not in PROPS:
        continue
    c = PROPS[pid]
    checks.append({
        "property_id": pid,
        "quick_cmd": "python3 tools/vcheck.py %s --tier quick" % pid,
        "thorough_cmd": "python3 tools/vcheck.py %s --tier thorough" % pid,
        "evidence_file": "/verif/evidence/%s.json" % pid,
        "replay_cmd_template": "python3 tools/vcheck.py --replay {path}",
        "engine": "coq-model",
        "level_claimed": {"category": "proof", "text": c["level_text"], "design_ref": c.get("design_ref", "DESIGN.md section 6 " + pid)},
        "level_note": c["level_note"],
        "technique": c.get("technique", "Coq theorems over an executable Gallina model + vm_compute correspondence check against the Go code"),
    })
na = [{"property_id": pid, "reason": PROPS_NA.get(pid, "no check registered yet")} for pid in ids if pid not in PROPS] if (PROPS_NA := getattr(__import__("properties"), "NOT_APPLICABLE", {})) is not None else []
m = {
    "version": 1,
    "setup_cmd": setup,
    "hooks": {"guard": "verif", "enable": "go build -tags verif (harness module replaces connectrpc.com/vanguard => /repo)",
              "baseline_off_cmd": baseline, "source_commits": hook_commits, "add_only": True},
    "engines": [
        {"name": "coq-model", "path": "/verif/coq", "serves_properties": [c["property_id"] for c in checks], "kind_free_text": "Coq 8.16.1 development: Gallina model (Model/), proofs (Proofs/), property theorems (Props/), correspondence wrappers and monitors (Corr/)"},
        {"name": "go-harness", "path": "/verif/harness", "serves_properties": [c["property_id"] for c in checks], "kind_free_text": "Go driver running the real vanguard code (built -tags verif from /repo's working tree) on generated scenarios"},
        {"name": "gengallina", "path": "/verif/tools/gengallina", "serves_properties": [c["property_id"] for c in checks], "kind_free_text": "Go-AST to Gallina translator for tables, constants and leaf predicates; rerun on every check"},
    ],
    "checks": checks,
    "not_applicable": na,
    "notes": "All checks: python3 tools/vcheck.py <id>. Known findings in /verif/known_findings.json. See DESIGN.md.",
}
json.dump(m, open(os.path.join(VERIF, "MANIFEST.json"), "w"), indent=1)
print("claimed:", [c["property_id"] for c in checks], "not claimed:", [x["property_id"] for x in na])
