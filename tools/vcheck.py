#!/usr/bin/env python3
"""vcheck.py <Cxx> [--tier quick|thorough] | --replay <file>

One check run for one property (see DESIGN.md section 5):
 1. regenerate coq/Gen/Generated.v from /repo's working tree (translator), build the Coq
    development for the property (full .vo build), audit the property theorems
    (Print Assumptions) and scan the sources for forbidden constructs;
 2. rebuild the Go harness against /repo's working tree with -tags verif;
 3. run the property's suites on the implementation, evaluate the model's own definitions and
    the theorem-level monitors on the same cases inside coqc (vm_compute);
 4. write evidence/<id>.json; print VIOLATION / KNOWN-FINDING lines; exit 0 or 1.
"""
import argparse, fcntl, hashlib, json, os, re, subprocess, sys, time, glob, shutil
from concurrent.futures import ThreadPoolExecutor

VERIF = os.path.dirname(os.path.dirname(os.path.abspath(__file__)))
REPO = os.environ.get("VERIF_REPO", "/repo")
COQ = os.environ.get("VERIF_COQ", os.path.join(VERIF, "coq"))  # VERIF_COQ: development copy (dev tools only)
BUILD = os.path.join(VERIF, "build" if REPO == "/repo" else "build/alt")
HARNESS = os.path.join(VERIF, "harness")
sys.path.insert(0, os.path.join(VERIF, "tools"))
from properties import PROPS  # noqa: E402

GOENV = dict(os.environ, GOFLAGS="-mod=mod", GOPROXY="off")
GOENV.pop("GOTOOLCHAIN", None)
GOENV.pop("GOSUMDB", None)
GOENV_LOCAL = dict(GOENV, GOTOOLCHAIN="local")

FORBIDDEN = re.compile(r"\b(Admitted|admit|Axiom|Axioms|Parameter|Parameters|Conjecture|Hypothesis|Variable|Variables|Hypotheses)\b|Unset\s+Guard|bypass_check|type-in-type|impredicative-set|Admit Obligations|Unset\s+Positivity|Unset\s+Universe")
ALLOWED_AXIOMS = set()  # none needed so far; stdlib axioms would be allow-listed here by name

SHARD = 200


def log(*a):
    print(*a, file=sys.stderr, flush=True)


def run(cmd, cwd=None, env=None, timeout=1800, check=False):
    p = subprocess.run(cmd, cwd=cwd, env=env, stdout=subprocess.PIPE, stderr=subprocess.PIPE, text=True, timeout=timeout)
    if check and p.returncode != 0:
        raise RuntimeError("command failed: %s\n%s\n%s" % (cmd, p.stdout[-4000:], p.stderr[-4000:]))
    return p


class Lock:
    def __enter__(self):
        os.makedirs(BUILD, exist_ok=True)
        self.f = open(os.path.join(BUILD, ".lock"), "w")
        fcntl.flock(self.f, fcntl.LOCK_EX)
        return self

    def __exit__(self, *a):
        fcntl.flock(self.f, fcntl.LOCK_UN)
        self.f.close()


# ---------------------------------------------------------------- build steps

def regen_generated():
    """returns (ok, message)"""
    exe = os.path.join(BUILD, "gengallina")
    p = run(["go", "build", "-o", exe, "."], cwd=os.path.join(VERIF, "tools", "gengallina"), env=GOENV_LOCAL)
    if p.returncode != 0:
        return False, "gengallina build failed: " + p.stderr[-2000:]
    p = run([exe, REPO])
    if p.returncode != 0:
        return False, "translator rejected the source: " + p.stderr.strip()[-2000:]
    target = os.path.join(COQ, "Gen", "Generated.v")
    old = open(target).read() if os.path.exists(target) else None
    if old != p.stdout:
        with open(target, "w") as f:
            f.write(p.stdout)
    return True, ""


def coq_makefile():
    mk = os.path.join(COQ, "Makefile")
    proj = os.path.join(COQ, "_CoqProject")
    if not os.path.exists(mk) or os.path.getmtime(mk) < os.path.getmtime(proj):
        run(["coq_makefile", "-f", "_CoqProject", "-o", "Makefile"], cwd=COQ, check=True)


def coq_build(targets):
    coq_makefile()
    p = run(["make", "-j16", "-k"] + targets, cwd=COQ, timeout=3000)
    return p.returncode == 0, (p.stdout[-3000:] + p.stderr[-6000:])


def source_scan():
    bad = []
    for path in glob.glob(os.path.join(COQ, "**", "*.v"), recursive=True):
        rel = os.path.relpath(path, COQ)
        if rel.startswith("cases") or "/cases" in rel:
            continue
        txt = open(path).read()
        # strip comments (non-nested approximation is enough: nested handled by loop)
        prev = None
        while prev != txt:
            prev = txt
            txt = re.sub(r"\(\*(?:(?!\(\*|\*\)).)*\*\)", " ", txt, flags=re.S)
        insec = 0
        for ln, line in enumerate(txt.split("\n"), 1):
            if re.match(r"\s*Section\b", line):
                insec += 1
            if re.match(r"\s*End\b", line) and insec > 0:
                insec -= 1
            m = FORBIDDEN.search(line)
            if m:
                word = m.group(0)
                if word in ("Variable", "Variables", "Hypothesis", "Hypotheses") and insec > 0:
                    continue
                bad.append("%s:%d: %s" % (rel, ln, word))
    return bad


def audit(prop):
    """Compile an audit file printing the assumptions of every theorem of the property."""
    thms = PROPS[prop]["theorems"]
    os.makedirs(os.path.join(BUILD, "audit"), exist_ok=True)
    path = os.path.join(BUILD, "audit", "audit_%s.v" % prop)
    with open(path, "w") as f:
        f.write("From VG Require Import Props.%s.\n" % prop)
        for t in thms:
            f.write('Goal True. idtac "THEOREM %s". exact I. Qed.\nCheck %s.\nPrint Assumptions %s.\n' % (t, t, t))
    p = run(["coqc", "-Q", COQ, "VG", path], cwd=os.path.join(BUILD, "audit"), timeout=600)
    results = {}
    if p.returncode != 0:
        # find which theorem is missing
        for t in thms:
            results[t] = {"ok": False, "axioms": [], "why": "audit file did not compile: " + p.stderr.strip()[-400:]}
        return results, p.stdout + p.stderr
    blocks = re.split(r"THEOREM (\S+)\n", p.stdout)
    for i in range(1, len(blocks), 2):
        name, body = blocks[i], blocks[i + 1]
        if "Closed under the global context" in body:
            results[name] = {"ok": True, "axioms": []}
        else:
            m = re.search(r"Axioms:\n(.*)", body, re.S)
            axioms = re.findall(r"^(\S+)\s*:", m.group(1), re.M) if m else ["<unparsed>"]
            ok = all(a in ALLOWED_AXIOMS for a in axioms)
            results[name] = {"ok": ok, "axioms": axioms}
    for t in thms:
        results.setdefault(t, {"ok": False, "axioms": [], "why": "not found in audit output"})
    return results, p.stdout


def build_harness(race=False):
    src = HARNESS
    if REPO != "/repo":
        # self-test against a scratch copy: never touch the committed go.mod
        src = os.path.join(BUILD, "harness_src")
        shutil.rmtree(src, ignore_errors=True)
        shutil.copytree(HARNESS, src)
        gomod = os.path.join(src, "go.mod")
        txt = open(gomod).read()
        open(gomod, "w").write(re.sub(r"replace connectrpc.com/vanguard => .*\n", "replace connectrpc.com/vanguard => %s\n" % REPO, txt))
    shutil.copyfile(os.path.join(REPO, "go.sum"), os.path.join(src, "go.sum"))
    exe = os.path.join(BUILD, "harness")
    p = run(["go", "build", "-tags", "verif", "-o", exe, "."], cwd=src, env=GOENV, timeout=1200)
    if p.returncode == 0 and race:
        p = run(["go", "build", "-race", "-tags", "verif", "-o", exe + "-race", "."], cwd=src, env=GOENV, timeout=1800)
    return p.returncode == 0, p.stderr[-4000:]


def run_race(prop, tier, seed):
    """Run the listed suites under the Go race detector; returns (reports, runs)."""
    exe = os.path.join(BUILD, "harness-race")
    reports, runs = [], []
    for s in PROPS[prop].get("race", []):
        n = s["quick"] if tier == "quick" else s["thorough"]
        out = os.path.join(BUILD, "cases", "race_%s_%d.jsonl" % (s["name"], os.getpid()))
        env = dict(os.environ, GORACE="halt_on_error=0 history_size=3")
        try:
            p = run([exe, "-suite", s["name"], "-seed", str(seed), "-n", str(n), "-tier", tier, "-out", out], env=env, timeout=3000)
            err, rc = p.stderr, p.returncode
        except subprocess.TimeoutExpired:
            err, rc = "timed out (deadlock?)", -1
        if os.path.exists(out):
            os.unlink(out)
        blocks = re.findall(r"WARNING: DATA RACE.*?={10,}", err, re.S)
        runs.append({"suite": s["name"], "n": n, "exit": rc, "data_races": len(blocks)})
        for b in blocks:
            reports.append({"suite": s["name"], "n": n, "seed": seed, "report": b[:6000]})
        if rc not in (0, 66) and not blocks:
            reports.append({"suite": s["name"], "n": n, "seed": seed, "report": "race-instrumented run failed: exit %s: %s" % (rc, err[-2000:])})
    return reports, runs


# ---------------------------------------------------------------- cases -> Coq

def vterm(v):
    if isinstance(v, bool):
        return "VZ 1" if v else "VZ 0"
    if isinstance(v, int):
        return "VZ (%d)" % v if v < 0 else "VZ %d" % v
    if isinstance(v, str):
        return 'VS (h "%s")' % v
    if v is None:
        return "VL []"
    if isinstance(v, list):
        return "VL [" + "; ".join(vterm(x) for x in v) + "]"
    raise ValueError("unsupported value %r" % (v,))


def hexname(s):
    return s.encode().hex()


def write_shard(path, cases):
    with open(path, "w") as f:
        f.write("From VG Require Import Corr.Run.\nOpen Scope string_scope.\nOpen Scope Z_scope.\n")
        f.write("Definition cases : list (bytes * V * V) := [\n")
        f.write(";\n".join('(h "%s", %s, %s)' % (hexname(c["suite"]), vterm(c["in"]), vterm(c["out"])) for c in cases))
        f.write("].\nDefinition res := Eval vm_compute in map check1 cases.\nPrint res.\n")


def eval_shard(path):
    d = os.path.dirname(path)
    try:
        p = run(["coqc", "-Q", COQ, "VG", path], cwd=d, timeout=420)
    except subprocess.TimeoutExpired:
        return None, "coqc timed out on shard (model evaluation too slow)"
    if p.returncode != 0:
        return None, p.stderr[-2000:]
    m = re.search(r"res\s*=\s*\[(.*?)\]\s*:\s*list Z", p.stdout, re.S)
    if not m:
        return None, "unparsed: " + p.stdout[-500:]
    body = m.group(1).strip()
    codes = [int(x) for x in re.findall(r"-?\d+", body)] if body else []
    return codes, ""


def model_output(case):
    """Evaluate the model on one case; returns printed term (for replay files)."""
    d = os.path.join(BUILD, "cases")
    path = os.path.join(d, "one_%d.v" % os.getpid())
    with open(path, "w") as f:
        f.write("From VG Require Import Corr.Run.\nOpen Scope string_scope.\nOpen Scope Z_scope.\n")
        f.write('Definition r := Eval vm_compute in run (h "%s") (%s).\nPrint r.\n' % (hexname(case["suite"]), vterm(case["in"])))
        f.write('Definition m := Eval vm_compute in monitor (h "%s") (%s) (%s).\nPrint m.\n' % (hexname(case["suite"]), vterm(case["in"]), vterm(case["out"])))
        f.write('Definition dg := Eval vm_compute in diag (h "%s") (%s) (%s).\nPrint dg.\n' % (hexname(case["suite"]), vterm(case["in"]), vterm(case["out"])))
    p = run(["coqc", "-Q", COQ, "VG", path], cwd=d, timeout=600)
    return re.sub(r"\s+", " ", p.stdout).strip()[:4000]


def run_suites(prop, tier, seed, scale=1):
    """Run the implementation on the property's suites. Returns (cases, distributions)."""
    cfg = PROPS[prop]
    exe = os.path.join(BUILD, "harness")
    os.makedirs(os.path.join(BUILD, "cases"), exist_ok=True)
    cases, dists = [], []
    # corpus first
    for path in sorted(glob.glob(os.path.join(VERIF, "corpus", prop, "*.json"))):
        rec = json.load(open(path))
        out = os.path.join(BUILD, "cases", "corpus_%s_%d.jsonl" % (prop, os.getpid()))
        p = run([exe, "-replay", path, "-out", out], timeout=300)
        if p.returncode == 0:
            for line in open(out):
                c = json.loads(line)
                c["tags"] = ["corpus:" + os.path.basename(path)]
                cases.append(c)
    for s in cfg["suites"]:
        n = s["quick"] if tier == "quick" else s["thorough"]
        out = os.path.join(BUILD, "cases", "%s_%s_%d.jsonl" % (prop, s["name"], os.getpid()))
        p = run([exe, "-suite", s["name"], "-seed", str(seed), "-n", str(n * scale), "-tier", tier, "-out", out], timeout=3000)
        if p.returncode != 0:
            raise RuntimeError("harness suite %s failed: %s" % (s["name"], p.stderr[-3000:]))
        try:
            dists.append(json.loads(p.stderr.strip().split("\n")[-1]))
        except Exception:
            dists.append({"suite": s["name"], "raw": p.stderr[-300:]})
        with open(out) as f:
            for line in f:
                cases.append(json.loads(line))
        os.unlink(out)
    return cases, dists


def evaluate(prop, cases):
    d = os.path.join(BUILD, "cases")
    for old in glob.glob(os.path.join(d, "shard_%s_*" % prop)):
        os.unlink(old)
    shards = []
    for i in range(0, len(cases), SHARD):
        path = os.path.join(d, "shard_%s_%04d.v" % (prop, i // SHARD))
        write_shard(path, cases[i:i + SHARD])
        shards.append((i, path))
    codes = [None] * len(cases)
    errors = []
    with ThreadPoolExecutor(max_workers=16) as ex:
        for (i, path), (res, err) in zip(shards, ex.map(lambda sp: eval_shard(sp[1]), shards)):
            if res is None or len(res) != len(cases[i:i + SHARD]):
                errors.append("%s: %s" % (os.path.basename(path), err or "length mismatch"))
                continue
            codes[i:i + len(res)] = res
    for old in glob.glob(os.path.join(d, "shard_%s_*" % prop)) + glob.glob(os.path.join(d, ".shard_%s_*" % prop)):
        os.unlink(old)
    return codes, errors


# ---------------------------------------------------------------- known findings

def load_findings():
    path = os.path.join(VERIF, "known_findings.json")
    if not os.path.exists(path):
        return []
    return json.load(open(path)).get("findings", [])


def finding_for(prop, case, findings):
    for f in findings:
        if f.get("status") != "open":
            continue   # (a finding is matched by the failing case, whichever property's check observes it)
        m = f.get("match", {})
        if "suite" in m and m["suite"] != case["suite"]:
            continue
        if "tag" in m and m["tag"] not in case.get("tags", []):
            continue
        if "tag_prefix" in m and not any(t.startswith(m["tag_prefix"]) for t in case.get("tags", [])):
            continue
        return f
    return None


# ---------------------------------------------------------------- main

def case_key(c):
    return hashlib.sha256(json.dumps([c["suite"], c["in"]], sort_keys=True).encode()).hexdigest()


def write_replay(prop, kind, case, extra):
    os.makedirs(os.path.join(VERIF, "replays"), exist_ok=True)
    key = case_key(case)[:12] if case else hashlib.sha256(json.dumps(extra, sort_keys=True).encode()).hexdigest()[:12]
    path = os.path.join(VERIF, "replays", "%s-%s.json" % (prop, key))
    rec = {"property": prop, "kind": kind}
    if case:
        rec.update({"suite": case["suite"], "in": case["in"], "impl_out": case["out"], "tags": case.get("tags", []), "desc": case.get("desc", "")})
        if case.get("gen"):
            rec["gen"] = case["gen"]
    rec.update(extra)
    rec["replay_cmd"] = "python3 tools/vcheck.py --replay %s" % path
    with open(path, "w") as f:
        json.dump(rec, f, indent=1)
    return path


def do_replay(path):
    rec = json.load(open(path))
    prop = rec["property"]
    with Lock():
        ok, msg = regen_generated()
        okb, out = coq_build(["Corr/Run.vo"])
        okh, herr = build_harness()
    if not okh:
        print("harness build failed:", herr)
        return 2
    if "suite" not in rec:
        print("replay names a broken obligation, nothing to execute:", json.dumps(rec, indent=1)[:2000])
        return 1
    exe = os.path.join(BUILD, "harness")
    os.makedirs(os.path.join(BUILD, "cases"), exist_ok=True)
    out = os.path.join(BUILD, "cases", "replay_%d.jsonl" % os.getpid())
    p = run([exe, "-replay", path, "-out", out], timeout=600)
    if p.returncode != 0:
        print("replay failed:", p.stderr[-2000:])
        return 2
    case = json.loads(open(out).readline())
    codes, errs = evaluate(prop, [case])
    print("impl_out:", json.dumps(case["out"]))
    print("model/monitor:", model_output(case))
    code = codes[0]
    print("result code:", code, "(bit0 model disagrees, bit1 property monitor fails)")
    if code:
        print("VIOLATION property=%s replay=%s" % (prop, path))
        return 1
    return 0


def main():
    ap = argparse.ArgumentParser()
    ap.add_argument("prop", nargs="?")
    ap.add_argument("--tier", default=os.environ.get("VERIF_TIER", "quick"))
    ap.add_argument("--replay")
    args = ap.parse_args()
    if args.replay:
        sys.exit(do_replay(args.replay))
    prop = args.prop
    tier = args.tier if args.tier in ("quick", "thorough") else "quick"
    seed = int(os.environ.get("VERIF_SEED", "20260923"))
    cfg = PROPS[prop]
    t0 = time.time()
    violations = []      # (line, replay)
    known_lines = []
    broken = []          # descriptions of broken obligations / correspondences

    with Lock():
        ok_gen, gen_msg = regen_generated()
        if not ok_gen:
            broken.append({"what": "translator", "detail": gen_msg})
        ok_build, build_out = coq_build(["Props/%s.vo" % prop, "Corr/Run.vo"])
        if not ok_build:
            broken.append({"what": "coq build of Props/%s.vo" % prop, "detail": build_out[-3000:]})
        audit_res, audit_out = audit(prop) if ok_build else ({t: {"ok": False, "axioms": [], "why": "build failed"} for t in cfg["theorems"]}, "")
        scan = source_scan()
        if scan:
            broken.append({"what": "forbidden construct in Coq sources", "detail": scan})
        ok_h, herr = build_harness(race=bool(cfg.get("race")))
    if not ok_h:
        broken.append({"what": "harness build against /repo (-tags verif)", "detail": herr})
    obligations = len(cfg["theorems"])
    discharged = sum(1 for t in cfg["theorems"] if audit_res.get(t, {}).get("ok")) if not scan else 0
    for t in cfg["theorems"]:
        if not audit_res.get(t, {}).get("ok") and ok_build:
            broken.append({"what": "theorem %s" % t, "detail": audit_res.get(t)})
    axioms = sorted({a for r in audit_res.values() for a in r.get("axioms", [])})

    findings = load_findings()
    cases, dists, codes = [], [], []
    corr_ok = ok_h and os.path.exists(os.path.join(COQ, "Corr", "Run.vo"))
    mism, monf, unknown = [], [], []
    race_violations = []
    eval_errors = []
    if corr_ok:
        scale = 1
        for attempt in range(2):
            cases, dists = run_suites(prop, tier, seed + attempt, scale)
            if attempt == 0:
                # a generator branch the check requires was not reached with this seed: draw more before judging
                have = {t for c in cases for t in c.get("tags", [])}
                lacking = [t for t in cfg.get("required_tags", []) if not any(k == t or k.startswith(t) for k in have)]
                if lacking:
                    more, d2 = run_suites(prop, tier, seed + 101, 3)
                    cases += more
                    dists += d2
            codes, eval_errors = evaluate(prop, cases)
            mism = [c for c, k in zip(cases, codes) if k is not None and k & 1]
            monf = [c for c, k in zip(cases, codes) if k is not None and k & 2]
            unknown = [c for c, k in zip(cases, codes) if k == 4]
            if eval_errors:
                broken.append({"what": "case evaluation", "detail": eval_errors[:5]})
            # violation search: something broke but no concrete failing input yet -> widen once
            if (broken or mism) and not monf and attempt == 0:
                log("%s: obligation or correspondence broken without a failing input; searching with 10x budget" % prop)
                scale = 10
                continue
            break
    race_runs = []
    if corr_ok and cfg.get("race"):
        race_reports, race_runs = run_race(prop, tier, seed)
        seen = set()
        for r in race_reports:
            # one violation per distinct pair of racing functions
            fns = tuple(re.findall(r"^  (\S+\(\))$", r["report"], re.M)[:2]) or (r["report"][:80],)
            if fns in seen:
                continue
            seen.add(fns)
            path = write_replay(prop, "data-race", None, dict(r, failed="Go race detector report on the concurrent suite",
                                replay_note="re-run: build/harness-race -suite %s -seed %d -n %d (schedule dependent)" % (r["suite"], r["seed"], r["n"])))
            race_violations.append(("counterexample", path))
    if unknown:
        broken.append({"what": "cases with neither model nor monitor", "detail": [c["suite"] for c in unknown[:5]]})

    # required coverage of generator branches
    tagcount = {}
    for c in cases:
        for t in c.get("tags", []):
            tagcount[t] = tagcount.get(t, 0) + 1
    missing = [t for t in cfg.get("required_tags", []) if not any(k == t or k.startswith(t) for k in tagcount)]
    if missing and corr_ok:
        broken.append({"what": "generator did not reach required branches (harness error)", "detail": missing})

    reported = set()
    foreign = []
    def report(case, kind, extra):
        kf = finding_for(prop, case, findings) if case else None
        if kf:
            if kf.get("property", prop) != prop:
                foreign.append(kf.get("property"))   # reported by that property's own check
                return
            line = "KNOWN-FINDING: property=%s %s" % (prop, kf["what"])
            if line not in known_lines:
                known_lines.append(line)
            return
        key = (kind, case["suite"] if case else "", tuple(sorted(set(t.split(":")[0] + ":" + t.split(":")[-1] for t in (case.get("tags", []) if case else [])))))
        if key in reported and len(reported) > 0:
            return
        reported.add(key)
        if len(violations) >= 8:
            return
        if case:
            extra = dict(extra, model=model_output(case))
        path = write_replay(prop, kind, case, extra)
        violations.append((kind, path))

    violations.extend(race_violations[:4])
    for c in monf:
        report(c, "counterexample", {"failed": "property monitor (theorem-level predicate) is false on the implementation's observation"})
    concrete = len(violations) > 0 or len(known_lines) > 0
    for c in mism:
        if c in monf:
            continue
        report(c, "correspondence", {"failed": "model and implementation disagree on this input", "no_failing_input_found": not monf})
    for b in broken:
        path = write_replay(prop, "broken-obligation", None, {"broken": b, "no_failing_input_found": not monf})
        violations.append(("broken-obligation", path))

    # ---------------- evidence
    nontrivial = {case_key(c) for c in cases if not all(t.split(":")[-1] in cfg.get("trivial_tags", []) for t in c.get("tags", ["x"]))}
    samples = [{"suite": c["suite"], "in": c["in"], "impl_out": c["out"], "tags": c.get("tags", [])} for c in (cases[:: max(1, len(cases) // 6)][:6] if cases else [])]
    wall = time.time() - t0
    ev = {
        "property_id": prop, "tier": tier, "seed": seed, "level": "proof",
        "coverage": {
            "obligations": obligations, "discharged": discharged,
            "checker_cmd": "make -C coq Props/%s.vo (coqc 8.16.1, full .vo build) + coqc build/audit/audit_%s.v (Print Assumptions per theorem)" % (prop, prop),
            "trusted_base": cfg.get("trusted_base", []) + [
                "Coq 8.16.1 kernel incl. vm_compute (no native_compute)",
                "axioms reported by Print Assumptions: " + (", ".join(axioms) if axioms else "none (Closed under the global context)"),
                "tools/gengallina translator (Go AST -> Gen/Generated.v)",
                "correspondence harness (/verif/harness, tools/vcheck.py); no extraction used",
            ],
            "theorems": {t: audit_res.get(t, {}) for t in cfg["theorems"]},
            "evaluations": len(cases),
            "distinct_nontrivial": len(nontrivial),
            "rule": cfg.get("rule", "distinct (suite,input) pairs by SHA-256, excluding cases whose tags are all in the trivial list %s" % cfg.get("trivial_tags", [])),
            "traces_validated_against_impl": sum(1 for k in codes if k is not None and not (k & 1)),
            "model_disagreements": len(mism), "monitor_failures": len(monf),
            "distribution": dists, "tag_counts": tagcount, "race_detector_runs": race_runs,
            "samples": samples,
            "modelled_not_verified": cfg.get("modelled", ""),
        },
        "assumptions": cfg.get("assumptions", []),
        "wall_s": round(wall, 2),
        "violations": len(violations),
        "known_findings_hit": known_lines,
        "cases_matching_findings_of_other_properties": len(foreign),
    }
    # evidence describes runs against /repo; a self-test against a scratch copy keeps its own
    evdir = os.path.join(VERIF, "evidence") if REPO == "/repo" else os.path.join(BUILD, "evidence_selftest")
    os.makedirs(evdir, exist_ok=True)
    with open(os.path.join(evdir, "%s.json" % prop), "w") as f:
        json.dump(ev, f, indent=1)

    for line in known_lines:
        print(line)
    any_concrete = any(k == "counterexample" for k, _ in violations)
    for kind, path in violations:
        suffix = "" if kind == "counterexample" else ("" if any_concrete else " no-failing-input-found")
        print("VIOLATION property=%s replay=%s%s" % (prop, path, suffix))
    print("%s: %s tier, %d/%d obligations, %d cases, %d model disagreements, %d monitor failures, %.1fs" % (
        prop, tier, discharged, obligations, len(cases), len(mism), len(monf), wall))
    sys.exit(1 if violations else 0)


if __name__ == "__main__":
    main()
