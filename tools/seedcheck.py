#!/usr/bin/env python3
"""seedcheck.py <seed-id> <property> <srcdir> [--checks C06,C07] [--keep]
Confirms a seeded change (patch.diff + seed_demo_test.go in <srcdir>) in a scratch worktree:
 - applies, builds, existing suite passes (demo excluded), demo fails with / passes without,
 - runs the named checks against the patched copy (VERIF_REPO), records which fire,
 - stores it under /verif/seeded/<seed-id>/ and removes the worktree."""
import json, os, shutil, subprocess, sys, time
VERIF = os.path.dirname(os.path.dirname(os.path.abspath(__file__)))
env = dict(os.environ, GOFLAGS="-mod=mod", GOPROXY="off")
def sh(cmd, cwd=None, e=None, timeout=3000):
    p = subprocess.run(cmd, cwd=cwd, env=e or env, shell=isinstance(cmd, str), stdout=subprocess.PIPE, stderr=subprocess.STDOUT, text=True, timeout=timeout)
    return p.returncode, p.stdout
sid, prop, src = sys.argv[1], sys.argv[2], sys.argv[3]
checks = [prop]
for i, a in enumerate(sys.argv):
    if a == "--checks":
        checks = sys.argv[i + 1].split(",")
wt = "/tmp/seedchk_%s" % sid
sh("git -C /repo worktree remove --force %s" % wt)
rc, out = sh("git -C /repo worktree add -q %s HEAD" % wt)
assert rc == 0, out
meta = {"id": sid, "property": prop, "ran": []}
try:
    rc, out = sh("git apply %s/patch.diff" % os.path.abspath(src), cwd=wt)
    meta["applies"] = rc == 0
    if rc != 0:
        print("patch does not apply:", out); sys.exit(2)
    rc, out = sh("go build ./... && go test -vet=off -count=1 ./...", cwd=wt)
    meta["suite_passes_with_change"] = rc == 0
    meta["ran"].append("go build ./... && go test -vet=off -count=1 ./...  (with change, demo absent) -> rc %d" % rc)
    shutil.copy(os.path.join(src, "seed_demo_test.go"), wt)
    rc1, out1 = sh("go test -vet=off -count=1 -run 'TestSeedDemo' .", cwd=wt)
    meta["demo_fails_with_change"] = rc1 != 0
    meta["ran"].append("go test -run TestSeedDemo (with change) -> rc %d" % rc1)
    sh("git apply -R %s/patch.diff" % os.path.abspath(src), cwd=wt)
    rc2, out2 = sh("go test -vet=off -count=1 -run 'TestSeedDemo' .", cwd=wt)
    meta["demo_passes_without_change"] = rc2 == 0
    meta["ran"].append("go test -run TestSeedDemo (without change) -> rc %d" % rc2)
    sh("git apply %s/patch.diff" % os.path.abspath(src), cwd=wt)
    os.unlink(os.path.join(wt, "seed_demo_test.go"))
    meta["detected_by"] = {}
    for c in checks:
        t0 = time.time()
        rc, out = sh(["python3", os.path.join(VERIF, "tools", "vcheck.py"), c], cwd=VERIF, e=dict(os.environ, VERIF_REPO=wt))
        lines = [l for l in out.split("\n") if l.startswith("VIOLATION") or l.startswith("KNOWN") or l.startswith(c + ":")]
        meta["detected_by"][c] = {"exit": rc, "lines": lines[:6], "wall_s": round(time.time() - t0, 1)}
        meta["ran"].append("VERIF_REPO=<patched copy> python3 tools/vcheck.py %s -> exit %d" % (c, rc))
        print(c, "exit", rc, "\n".join(lines[:6]))
finally:
    sh("git -C /repo worktree remove --force %s" % wt)
    shutil.rmtree(os.path.join(VERIF, "build", "alt"), ignore_errors=True)
confirmed = meta.get("suite_passes_with_change") and meta.get("demo_fails_with_change") and meta.get("demo_passes_without_change")
meta["confirmed"] = bool(confirmed)
print(json.dumps({k: v for k, v in meta.items() if k != "ran"}, indent=1))
if confirmed:
    dst = os.path.join(VERIF, "seeded", sid)
    os.makedirs(dst, exist_ok=True)
    shutil.copy(os.path.join(src, "patch.diff"), dst)
    shutil.copy(os.path.join(src, "seed_demo_test.go"), os.path.join(dst, "seed_demo_test.go.txt"))
    if os.path.exists(os.path.join(src, "notes.md")):
        shutil.copy(os.path.join(src, "notes.md"), dst)
    old = {}
    if os.path.exists(os.path.join(dst, "meta.json")):
        old = json.load(open(os.path.join(dst, "meta.json")))
    old.update(meta)
    json.dump(old, open(os.path.join(dst, "meta.json"), "w"), indent=1)
