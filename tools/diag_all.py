#!/usr/bin/env python3
"""diag_all.py [suite ...] - diagnostic, not a registered check: runs every correspondence suite once
(quick budgets) against VERIF_REPO (default /repo) and prints, per suite, how many cases disagree with
the model and how many fail a monitor.  Used to see which checks a seeded change is visible to."""
import os, sys, collections
sys.path.insert(0, os.path.dirname(os.path.abspath(__file__)))
import vcheck
from properties import PROPS
seen = {}
for p, c in PROPS.items():
    for s in c["suites"]:
        if s["name"] not in seen or s["quick"] > seen[s["name"]]["quick"]:
            seen[s["name"]] = dict(s)
want = sys.argv[1:]
suites = [s for n, s in sorted(seen.items()) if not want or n in want]
PROPS["ALL"] = {"theorems": [], "suites": suites, "required_tags": [], "trivial_tags": []}
vcheck.PROPS["ALL"] = PROPS["ALL"]
with vcheck.Lock():
    ok_gen, gen_msg = vcheck.regen_generated()
    print("translator:", "ok" if ok_gen else "FAILED: " + gen_msg[-300:])
    ok_build, out = vcheck.coq_build(["Corr/Run.vo"] + ["Props/%s.vo" % p for p in sorted(PROPS) if p != "ALL"])
    print("coq build (all Props):", "ok" if ok_build else "FAILED: " + out[-1500:])
    ok_h, herr = vcheck.build_harness()
    print("harness build:", "ok" if ok_h else "FAILED: " + herr[-500:])
if not ok_h:
    sys.exit(2)
seed = int(os.environ.get("VERIF_SEED", "20260923"))
cases, dists = vcheck.run_suites("ALL", "quick", seed, 1)
codes, errs = vcheck.evaluate("ALL", cases)
per = collections.defaultdict(lambda: [0, 0, 0])
ex = {}
findings = vcheck.load_findings()
for c, k in zip(cases, codes):
    top = c.get("gen", {}).get("suite", c["suite"])
    per[top][0] += 1
    if k is None:
        continue
    if vcheck.finding_for("ALL", c, findings):
        continue
    if k & 1:
        per[top][1] += 1
    if k & 2:
        per[top][2] += 1
        ex.setdefault(top, c)
users = collections.defaultdict(list)
for p, c in PROPS.items():
    if p == "ALL":
        continue
    for s in c["suites"]:
        users[s["name"]].append(p)
for n in sorted(per):
    a, m, f = per[n]
    flag = "  <-- visible" if (m or f) else ""
    print("%-12s cases %5d  model-disagreements %4d  monitor-failures %4d  used by %s%s" % (n, a, m, f, ",".join(sorted(users.get(n, []))), flag))
    if n in ex:
        print("     e.g.", ex[n]["suite"], ex[n].get("tags"), str(ex[n].get("desc", ""))[:100])
if errs:
    print("evaluation errors:", errs[:3])
