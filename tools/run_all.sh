#!/bin/bash
# Runs every registered check (quick tier by default) against /repo and prints one line per property.
cd "$(dirname "$0")/.."
tier=${1:-quick}
for id in $(python3 -c "import json;print(' '.join(c['property_id'] for c in json.load(open('MANIFEST.json'))['checks']))"); do
  out=$(python3 tools/vcheck.py $id --tier $tier 2>&1); rc=$?
  echo "$id rc=$rc $(echo "$out" | grep -c '^VIOLATION') violations; $(echo "$out" | grep -c '^KNOWN-FINDING') known; $(echo "$out" | tail -1)"
done
