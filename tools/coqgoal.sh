#!/bin/bash
# usage: coqgoal.sh <file.v> <line>  -- prints the goal state just before <line> (1-based) of the file
f=$1; n=$2
tmp=$(mktemp /tmp/goalXXXX.v)
head -n $((n-1)) "$f" > $tmp
echo "Show. Abort All." >> $tmp
cd /verif/coq && coqc -Q . VG $tmp 2>&1 | tail -${3:-40}
rm -f $tmp ${tmp%.v}.vo ${tmp%.v}.glob ${tmp%.v}.vok ${tmp%.v}.vos /tmp/.$(basename ${tmp%.v}).aux
