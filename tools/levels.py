"""What each check claims (MANIFEST level_claimed.text / level_note / technique) and what its
evidence says is modelled rather than verified.  Merged into PROPS by tools/properties.py."""

COMMON_NOTE = ("Trusted: Coq 8.16.1 kernel incl. vm_compute (no native_compute, no axioms: Print Assumptions is 'Closed under the "
               "global context' for every theorem, audited on every run), the gengallina translator, the Go harness and the "
               "Corr/*.v projections. Theorems are about the Gallina model; its agreement with the Go code is checked on every run "
               "by evaluating model and implementation on the same generated scenarios (sampled, not exhaustive). ")

LEVELS = {
    "C01": {
        "technique": "Coq theorem on the per-message pipeline (advance_send) under codec/compression round-trip laws + differential runs of reader/respflow suites with independently decoded message identities",
        "level_text": "Proved in Coq for every message, codec pair and compression pair: what the backend decodes from the re-encoded bytes is the message the client encoded (C01_reencoded_request_is_faithful, premises: the two library round-trip laws), same-codec payloads are relayed verbatim or only re-compressed, a pipeline failure is an error and never a changed message, and messages are cut exactly at the announced boundaries (number and order preserved). The response direction (advance_resp) has the same three theorems (C01_reencoded_response_is_faithful, C01_relayed_response_is_verbatim, C01_response_failure_is_an_error). Every run feeds 2700+ generated streams (all wire-form pairs, 0-4 messages, compression on/off/mixed, both directions) through the real transcoder and compares the sequence of messages, decoded by an independent library call, with the model and with what was sent.",
        "level_note": COMMON_NOTE + "Oracles: Codec.Marshal/Unmarshal, gzip, protojson (field-for-field content is theirs; tables come from independent library calls). ",
        "modelled": "message.advanceToStage, transformingReader/Writer per-message steps; codecs and compressors are oracles",
    },
    "C02": {
        "technique": "Coq theorems on validate/negotiation and the envelope codecs + differential negotiate/reader suites",
        "level_text": "Proved for every configuration and request: a request that reaches the backend uses a protocol in the method's configured set (the client's own if acceptable, else the first acceptable in the fixed order), a codec the method accepts (client's if acceptable, else the preferred; JSON for REST) and a compression it accepts or none; an unknown codec or compression is refused, never forwarded; envelopes round-trip for all lengths below 2^32 and re-framing keeps exactly the compressed bit and the length. The negotiate suite compares the backend-visible request line, content type, encoding headers and framing with the model on 1500+ generated requests per run against the real code.",
        "level_note": COMMON_NOTE + "The byte-level validity of codec output is the codec's (oracle).",
        "modelled": "operation.validate, negotiation in transcoder.go, addProtocolRequestHeaders, six envelope codecs (flag predicates regenerated)",
    },
    "C03": {
        "technique": "Coq invariant over the response-writer state machine by induction over handler scripts with request-side failures at arbitrary points + differential respflow suite",
        "level_text": "Proved for every handler script (WriteHeader/Write/Flush/header edits/return/panic in any order and segmentation) and every placement of request-side failures: the client's ResponseWriter sees exactly one head, first; then body writes and flushes; then exactly one terminal disposition in the place the client's protocol prescribes; then nothing but flushes (C03_one_head_one_end_nothing_after, C03_every_response_is_well_formed; the discipline holds at every intermediate step, C03_discipline_throughout; no panic, C11). Status and content type of the head per protocol; Content-Length of buffered bodies equals the body. Every run replays 1500+ generated backend behaviours (success, errors, trailers-only, bare HTTP, odd codes, cuts, junk after end, malformed end frames, read faults) against the real code and compares head, body, end and bytes-after-end with the model and with spec-level monitors.",
        "level_note": COMMON_NOTE + "net/http's own behaviour (recorder stands in for the connection) and error-body JSON (oracle) are outside the model.",
        "modelled": "responseWriter, errorWriter, noResponseBodyWriter, envelopingWriter, transformingWriter, flushHeaders/reportEnd/writeEnd/close, extract/addProtocolResponseHeaders, encodeEnd per protocol",
    },
    "C04": {
        "technique": "Coq theorems on regenerated status tables and grpc-message percent coding + differential status/percent/respflow suites",
        "level_text": "Proved for every uint32 code: the RPC-to-HTTP mapping is total (no index out of range) and equals the published table, HTTP-to-RPC likewise; grpc-message percent-encoding round-trips every byte string and emits printable ASCII only. The tables are regenerated from the Go source on every run, so the theorems are re-proved against the current code. Code, message and details end to end (all protocol pairs, trailers-only, bare HTTP errors, out-of-range codes) are compared between the real transcoder, the model and the intent of the scripted backend on 1200+ cases per run.",
        "level_note": COMMON_NOTE + "Serialisation of error details (google.rpc.Status, Connect error JSON) is an oracle; their survival is decided by the correspondence monitors only.",
        "modelled": "httpStatusCodeFromRPC/ToRPC (generated), grpcPercentEncode/Decode, error paths of the response model",
    },
    "C05": {
        "technique": "Coq theorems on request/response header rewriting for all protocol pairings + differential respflow/negotiate suites",
        "level_text": "Proved for all 6x5 protocol pairings and every header multimap: each request header outside the protocol's control keys reaches the backend with all its values in order; application headers of the response head are kept; trailers are placed where the client's protocol puts them (HTTP trailers, trailer frame, end-stream message, Trailer- prefixed headers) and protocol control keys do not leak. Every run compares header and trailer multimaps (canonical keys, values as sequences) seen by backend and client with the model on 2500+ generated exchanges.",
        "level_note": COMMON_NOTE + "End-to-end survival of response trailers through the five extract functions is decided by the monitors, not by a theorem. net/http canonicalisation is modelled.",
        "modelled": "extractProtocolRequestHeaders, addProtocolRequestHeaders, extract/addProtocolResponseHeaders, trailer helpers",
    },
    "C06": {
        "technique": "Coq theorems on the route trie (flattened-entry model) and the template parser + differential router/templates suites",
        "level_text": "Proved for every route table built from well-formed templates and every request path: a match is sound (the path instantiates the template, verb and method agree), 404 exactly when no template matches, 405 exactly when templates match under other methods with Allow the set of those, one template decides, literal beats wildcard beats double wildcard, the answer does not depend on registration order, captured values are unescaped once. The parser is proved to produce only templates the theorems apply to. 2000+ generated tables x paths per run are matched by the real trie (through the verif hook) and the model.",
        "level_note": COMMON_NOTE + "The model's trie is the list of inserted entries filtered segment by segment; equivalence to the Go pointer trie is what the router suite checks.",
        "modelled": "parsePathTemplate, routeTrie.insert/match/findTarget, computeVarValues",
    },
    "C07": {
        "technique": "Coq theorems on path escaping/capture (with a _refuted witness for the open finding) + differential restbind suite through two chained transcoders",
        "level_text": "Proved: single-segment path variables round-trip every byte string through pathEscape/pathUnescape, a single-segment variable captures exactly its own segment unescaped once, hence value -> URL -> value is the identity for single-segment variables. For variables spanning several segments C07_multi_segment_roundtrip_refuted exhibits the value 'a%2fb' (known finding: comes back as 'a%2Fb'). Body, query and field mapping are not modelled; they are decided by the restbind suite: 2000+ generated messages per run go REST->message and message->REST->message through the real code and must come back equal; ill-typed parameters and messages that do not fit the route must be rejected.",
        "level_note": COMMON_NOTE + "params.go / protojson field mapping is outside the model (suite only). One open known finding (lower-hex-slash).",
        "modelled": "pathEscape/pathUnescape, computeVarValues; params.go not modelled",
    },
    "C08": {
        "technique": "Coq theorems by induction over chunk lists (request side) and over handler scripts with a log-obliviousness argument (response side) + differential reader/segments suites",
        "level_text": "Proved for every chunking of the request body (and with or without EOF attached to the last chunk): io.ReadFull/CopyN/limit-copy as used by vanguard, readRequestMessage and the whole transformingReader deliver results determined by the concatenated bytes alone (C08_read_full_chunking, C08_copy_limit_chunking, C08_request_message_chunking, C08_transforming_reader_chunking_partial). Proved for the response side: for every handler script, every position in it and every placement of request-side failures, handing the same bytes to Write in one piece or cut anywhere into non-empty pieces leaves on the client's connection the same head, the same body bytes between the same flushes, the same end, and gives the same close outcome and the same all-Writes-succeeded verdict, for all body writers (C08_write_split_invisible, C08_write_chunking_invisible; the key lemma is that nothing on the response side reads its own log, C08_response_side_never_reads_its_log). Still partial: the envelopingReader's individual reads mirror the client's chunks (only their concatenation is invariant); decided by the reader suite. Every run: each generated stream under several chunkings and read sizes, each response under four segmentations of the backend's writes, all must give identical observations (3600+ cases).",
        "level_note": COMMON_NOTE + "envelopingReader chunk independence is checked, not proved. responseWriter.Flush is a no-op in the code and in the model.",
        "modelled": "hardLimitReader, exactLengthReader, envelopingReader, transformingReader, readRequestMessage; responseWriter with envelopingWriter, transformingWriter, errorWriter, limitWriter",
    },
    "C09": {
        "technique": "Coq characterisation of envelope reading by the bytes present (all 256 flag bytes per protocol by lifted finite sweep) + differential reader/respflow suites with cuts at every class of offset",
        "level_text": "Proved for every byte stream: a message is delivered only when a legal envelope is present in full and all announced bytes follow; a stream ending inside an envelope or inside a message yields UnexpectedEOF (never a clean end), illegal flag bytes and lying lengths are errors, and the transforming reader hands exactly that error to the backend. Response direction: a handler that returns while the backend's output stops inside an envelope prefix, a message, a trailer frame or short of a declared Content-Length always yields an error outcome on the client's connection, for every script and every client protocol (C09_truncated_response_is_an_error, with C09_reported_error_is_visible and C09_unary_head_waits_for_the_outcome). The correspondence adds: cuts at random offsets, frame boundaries, inside the prefix and exactly five bytes short, corrupt compression and garbage must never surface as a successful terminal (2700+ cases per run).",
        "level_note": COMMON_NOTE + "A cut exactly at a frame boundary of a stream that is only relayed is not detectable by the transcoder and is not demanded.",
        "modelled": "readRequestMessage, envelope decoders, transformingReader error path, transformingWriter/envelopingWriter close paths",
    },
    "C10": {
        "technique": "Coq invariant: every buffer reachable by any script is bounded by the limit + differential limits suite observing pooled-buffer capacities through the hook",
        "level_text": "Proved for every limit L and every script: request messages under assembly, prepared messages, buffered unary bodies, error bodies, trailers and measured bodies never exceed L (+1 byte to detect excess), a partial envelope never exceeds 5 bytes, and an announced length above L is refused before any payload is buffered (C10_response_buffers_bounded, C10_request_message_bounded, C10_prepared_message_bounded, C10_unframed_read_stops_at_limit). Decompression is bounded inside the oracle. Every run drives sizes around the limit (fits/over/bombs/re-encoded growth, both directions) through the real code and checks outcome and the largest pooled buffer seen by the hook.",
        "level_note": COMMON_NOTE + "Go heap use beyond pooled-buffer capacities and compressor internals are outside the model; 'small multiple of L' slack for re-encoded sizes is accepted as the property states.",
        "modelled": "limitWriter, maxMessageBufferBytes checks in readers/writers, decompress bound (oracle o_toobig)",
    },
    "C11": {
        "technique": "Coq theorem: no script reaches a panic outcome in the response model (explicit panic states, fuel sufficiency) + total request-side model + differential suites with hostile inputs",
        "level_text": "Proved for every handler script and request-side failure placement: the response model never reaches WPanic (nil sink, nil respMeta, nil buffer, index out of range are explicit outcomes) and its loops' fuel always suffices, i.e. they terminate; status mapping is total for every code. Request-side model functions are total and map every input to a value or a named error. Hostile inputs (bad flags, garbage, odd status codes, bare HTTP, read faults, unroutable REST messages, junk bodies on unmatched paths) are run against the real code on every run; a recovered panic or a missing response is a violation.",
        "level_note": COMMON_NOTE + "Goroutine scheduling, blocking I/O and net/http are outside the model.",
        "modelled": "all response-side writers, status tables, request validation; Go runtime panics represented as explicit outcomes",
    },
    "C12": {},
    "C13": {
        "technique": "Coq theorems on the dispatch decision (pass-through hands over the original request) + differential dispatch suite comparing bytes",
        "level_text": "Proved for every configuration and request: when protocol, codec and compression are acceptable the decision is pass-through and the handler receives the original head unchanged; a path no method or route claims goes to the unknown handler untouched, whatever its content type, body or HTTP version. Every run sends 2000+ generated requests (matched/unmatched, raw bodies, HTTP/1.0-2) and compares the request line, headers, ContentLength, body bytes and the response bytes seen on both sides.",
        "level_note": COMMON_NOTE + "Body byte identity is decided by the correspondence (the model hands over the body reader as is).",
        "modelled": "classifyRequest, resolveMethod, validate, ServeHTTP's three early exits",
    },
    "C14": {
        "technique": "Coq theorems on the pool ownership automaton and on the response invariant under request-side failures + race-detector run and solo-vs-concurrent comparison",
        "level_text": "Proved (sequential part): a pool trace is accepted iff no buffer is put twice without a Get and none is handed out while held, so accepted traces mean exclusive ownership; the response writer keeps its invariant wherever the request side reports a failure (the interleavings permitted by the writer's mutex are the placements of that event). Not expressible in the model: data races. Every run therefore executes batches of concurrent RPCs (duplex streams, valid/corrupt mixes) on one transcoder under go build -race, with poison-on-Put, compares each RPC with its solo run, and checks the Get/Put trace.",
        "level_note": COMMON_NOTE + "Memory-level races are detected dynamically (race detector), not proved absent.",
        "modelled": "bufferPool Get/Put discipline, responseWriter under lock; goroutines not modelled",
    },
    "C15": {
        "technique": "Coq theorems: pool hands out empty buffers and drops oversized ones for every history + differential histories/poolops suites",
        "level_text": "Proved for every history of pool operations and every choice sync.Pool may make: a buffer handed out is empty, buffers above maxRecycleBufferSize (regenerated constant) are never retained; in the model an exchange's outcome is a function of configuration, request and backend behaviour only. That the code carries no other state is decided by the histories suite: after up to 12 hostile exchanges (cuts, corrupt, over-limit, panicking backend) a probe on the used transcoder must equal the probe on a fresh one.",
        "level_note": COMMON_NOTE + "sync.Pool's choice is a parameter; absence of other carried state is checked, not proved.",
        "modelled": "bufferPool, maxRecycleBufferSize; compressor pools not modelled",
    },
    "C16": {
        "technique": "Coq theorems: a completed message is written and flushed before anything else is consumed + differential flush-offset monitors",
        "level_text": "Proved for streaming clients and every Write: after a successful Write the writer retains less than one message unit, each completed message has been written to the client and followed by a flush; only Connect-unary and REST clients defer. Every run compares, per backend Write, the messages complete so far with the messages visible at the client's flush offsets (2700+ cases, all pairings and segmentations).",
        "level_note": COMMON_NOTE + "Deadlock freedom over a real HTTP/2 connection is not expressible in the model and not tested over one; the recorder's flush offsets stand in for visibility.",
        "modelled": "envelopingWriter.Write, transformingWriter.Write, flushMessage, responseWriter.Flush",
    },
    "C17": {
        "technique": "Coq soundness theorem for the configuration model (new_transcoder) + differential configs suite on dynamically built schemas with planted defects",
        "level_text": "Proved for every list of services, options and rules: an accepted configuration has valid options, no duplicate method, only well-formed selectors that match something, no nested additional bindings; every binding parses, names fields of suitable type for body/response_body/variables, routes are pairwise distinct and the trie is exactly their build (so C06 applies), each binding is reached by a path only its template matches, options resolve per service with the last one winning, REST-only services have bindings. Converse (accepts every valid configuration) is proved for rule-free configurations only (_partial). 1500+ generated configurations per run (17 defect kinds) are given to the real NewTranscoder; acceptance, resolved options and route answers are compared.",
        "level_note": COMMON_NOTE + "Descriptors are data in the model (protodesc/protoregistry are oracles).",
        "modelled": "NewTranscoder, options, registerService/Method/Rules, addRule, makeTarget, resolvePathToFieldDescriptors",
    },
    "C18": {
        "technique": "Coq theorems on the dispatch decision value + differential dispatch/negotiate suites counting handler invocations",
        "level_text": "Proved: ServeHTTP's decision is a single value - reject (no handler), unknown handler, pass-through or transform - so a handler is reached at most once and only via a validated operation or as the unknown handler; a rejection carries exactly one response. Every run counts handler invocations and responses on 2500+ generated requests including rejected leading messages, and checks the request context is released at return.",
        "level_note": COMMON_NOTE + "Context cancellation is observed, not modelled.",
        "modelled": "ServeHTTP decision, operation.handle's first-message decode",
    },
    "C19": {
        "technique": "Coq theorems on the Connect GET decision + differential getpost suite",
        "level_text": "Proved for every method, codec, message and limit: a GET is accepted only for methods declared side-effect free (otherwise 405), and the transcoder itself issues a GET only when the method allows it, the codec is stable and the URL fits the limit, POST otherwise. Compared with the real code on 2000+ generated cases per run.",
        "level_note": COMMON_NOTE + "URL query escaping is modelled for the ASCII subset.",
        "modelled": "connectUnaryGetRequest handling, GET decision in addProtocolRequestHeaders",
    },
    "C20": {
        "technique": "Coq theorems on the fallback resolver + same-scenario-under-three-schema-registrations differential suite",
        "level_text": "The model does not distinguish how a schema was loaded (descriptors are data), which is the property; what is logic is proved: the fallback resolver answers with the first resolver that knows the type and otherwise the last answer, and an unknown type yields a dynamic message. Decided against the code by the dualschema suite: the scenario corpus of the other suites runs under generated-code, dynamic-descriptor and custom-resolver registrations of the same schema and all observations must be identical (1800+ cases per run), plus a resolver suite through the hook.",
        "level_note": COMMON_NOTE + "protoregistry/dynamicpb are oracles.",
        "modelled": "fallbackResolver, resolveMethod's type lookup",
    },
}
