(** C16 - Streaming RPCs make progress message by message.
    Statements only; proofs in Proofs/PipelineProofs.v.

    Deadlock freedom over a real connection is a property of goroutines and HTTP/2 flow control
    and is not expressible in this model; what the model carries is its cause: no complete message
    is ever held back.  The check observes, for every Write of the handler, how many complete
    messages it has written and how many the client can already see (flush offsets). *)
From VG Require Import Model.Bytes Model.Stream Model.Envelope Model.Headers Model.RespMeta Model.Reader Model.Response.
From VG Require Import Proofs.ResponseProofs Proofs.PipelineProofs.
Open Scope Z_scope.

(** A completed response message is written and then flushed before the writer does anything
    else (clients whose protocol does not need the outcome first). *)
Theorem C16_complete_message_is_flushed : forall cx c w c' w',
  e_trailer (tw_latest w) = false -> emih cx = false -> c_buf c = None ->
  tw_flush_message cx c w = FOk c' w' ->
  exists writes, c_out c' = c_out c ++ writes ++ [DFlush] /\ Forall (fun e => match e with DWrite _ => True | _ => False end) writes.
Proof. exact tw_flush_message_progress. Qed.
Print Assumptions C16_complete_message_is_flushed.

(** When a Write has returned successfully the writer holds less than one complete unit
    (envelope or message): nothing complete waits for later input. *)
Theorem C16_nothing_complete_is_retained : forall cx f data c w c' w',
  tw_loop f cx data c w = (c', w', WOk) -> c_end_written c' = false ->
  match tw_buf w' with Some b => zlen b < tw_expect w' | None => True end.
Proof. intros cx. exact (tw_loop_retains_less cx). Qed.
Print Assumptions C16_nothing_complete_is_retained.

(** Only the protocols that must know the outcome first defer delivery. *)
Theorem C16_only_unary_clients_defer : forall c,
  end_must_be_in_headers c = true <-> match c with CConnectPost | CConnectGet | CRest => True | _ => False end.
Proof. destruct c; cbn; split; auto; discriminate. Qed.
Print Assumptions C16_only_unary_clients_defer.

(** * The request direction *)
From VG Require Import Model.Stream Model.Reader Proofs.ProgressProofs.

(** While an envelope or a prepared message is being handed to the backend, Read returns bytes at
    once and does not touch the client's body (so it cannot block on it). *)
Theorem C16_request_message_served_from_buffer : forall f cx o r k,
  tr_err r = None -> 1 <= k -> (tr_envrem r <= length (tr_env r))%nat ->
  ((0 < tr_envrem r)%nat \/ exists b, tr_buf r = Some b /\ b <> []) ->
  let '((d, st), r') := tr_read f cx o r k in d <> [] /\ st = SOk /\ tr_up r' = tr_up r.
Proof. exact tr_read_served_from_buffer. Qed.
Print Assumptions C16_request_message_served_from_buffer.

(** On the re-framing path a Read inside a message takes from the client's body exactly the bytes it
    hands over and never reads on into the next envelope: message k reaches the backend without
    waiting for message k+1. *)
Theorem C16_reframing_reader_stays_inside_the_message : forall cx r k n,
  er_err r = None -> er_envrem r = 0%nat -> er_cur r = CExact n -> 0 < n -> 1 <= k -> flat (er_up r) <> [] ->
  let '((d, st), r') := er_read cx r k in
  d <> [] /\ zlen d <= n /\ zlen d <= k /\ flat (er_up r) = d ++ flat (er_up r').
Proof. exact er_read_stays_inside_the_message. Qed.
Print Assumptions C16_reframing_reader_stays_inside_the_message.
