(** C16 - placeholder *)
From VG Require Import Model.Serve.
