(** C02 - placeholder *)
From VG Require Import Model.Serve.
