(** C02 - Backend sees only valid requests in a protocol, codec and compression it accepts.
    Statements only; proofs in Proofs/ServeProofs.v (negotiation), Proofs/EnvelopeProofs.v (frames).

    [validate pf t r = VOk o]: operation.validate accepted request [r] against the tables [t];
    [o] records the client's protocol, codec and compression and the ones chosen for the backend. *)
From VG Require Import Model.Bytes Model.Headers Model.RespMeta Model.Request Model.Serve Model.Envelope Gen.Generated.
From VG Require Import Proofs.ServeProofs Proofs.EnvelopeProofs.
Open Scope Z_scope.

(** The backend's protocol, codec and compression are ones the service was configured with; the
    client's own choices are kept whenever they are acceptable; otherwise the fallback is the
    first acceptable protocol in the fixed order, the service's preferred codec, no compression. *)
Theorem C02_negotiation : forall pf t r o,
  validate pf t r = VOk o ->
  let m := op_method o in
  let cp := cproto_protocol (op_client o) in
  In (sproto_protocol (op_server o)) (mc_protocols m) /\
  (In cp (mc_protocols m) -> sproto_protocol (op_server o) = cp) /\
  (op_server o = SRest -> op_server_codec o = s2b "json") /\
  (op_server o <> SRest -> In (op_client_codec o) (mc_codecs m) -> op_server_codec o = op_client_codec o) /\
  (op_server o <> SRest -> ~ In (op_client_codec o) (mc_codecs m) -> op_server_codec o = mc_preferred m) /\
  (op_server_comp o = [] \/ (op_server_comp o = op_client_comp o /\ In (op_server_comp o) (mc_comps m))) /\
  (In (op_client_comp o) (mc_comps m) -> op_server_comp o = op_client_comp o) /\
  In (op_client_codec o) (tc_known_codecs t) /\
  (op_client_comp o = [] \/ In (op_client_comp o) (tc_known_comps t)) /\
  ~ bytes_eqb (op_client_comp o) (s2b "identity") = true.
Proof. exact validate_ok. Qed.
Print Assumptions C02_negotiation.

Theorem C02_fallback_order : forall client accepted p,
  negotiate_protocol client accepted = Some p ->
  In p accepted /\ (In client accepted -> p = client) /\ (~ In client accepted -> In p all_protocols).
Proof. exact negotiate_spec. Qed.
Print Assumptions C02_fallback_order.

(** Envelopes written for the backend are well-formed for its protocol: what the backend-side
    encoder writes is accepted by the reader on the other side and decodes to the same flags and
    length (all lengths below 2^32; the end-of-stream bit only where the protocol has one) - and
    re-framing a client envelope for the backend keeps exactly the compressed bit and the length. *)
Theorem C02_envelope_roundtrip : forall k c t len, 0 <= len < 4294967296 -> (t = true -> writes_trailer k = true) ->
  decode_env (peer k) (encode_env k (mkEnv t c len)) = Some (mkEnv t c len).
Proof. exact encode_decode. Qed.
Print Assumptions C02_envelope_roundtrip.

Theorem C02_reframed_envelope : forall kc ks f b1 b2 b3 b4 e,
  is_client kc = true -> is_client ks = false ->
  wf_byte b1 = true -> wf_byte b2 = true -> wf_byte b3 = true -> wf_byte b4 = true ->
  decode_env kc [f; b1; b2; b3; b4] = Some e ->
  e_trailer e = false /\
  encode_env ks e = [if e_compressed e then 1%N else 0%N; b1; b2; b3; b4] /\
  f = (if e_compressed e then 1%N else 0%N).
Proof. exact reframe_request. Qed.
Print Assumptions C02_reframed_envelope.
