(** C04 - RPC errors keep their code, message and details across protocols.
    Statements only; proofs in Proofs/. *)
From VG Require Import Model.Bytes Model.Status Model.Percent Proofs.StatusProofs Proofs.PercentProofs.
Open Scope Z_scope.

(** Every numeric code (connect.Code is a uint32, so 0 <= c) maps to a status without
    panicking: the published table on 0..16 and 500 beyond it.  [http_status_from_rpc] is
    regenerated from httpStatusCodeFromRPC and its table on every run; None = index panic. *)
Theorem C04_status_total : forall c, 0 <= c -> http_status_from_rpc c = Some (spec_http_of_rpc c).
Proof. exact status_total. Qed.
Print Assumptions C04_status_total.

(** Bare HTTP failures map to the published RPC code for every status. *)
Theorem C04_http_to_rpc : forall s, http_status_to_rpc s = spec_rpc_of_http s.
Proof. exact to_rpc_spec. Qed.
Print Assumptions C04_http_to_rpc.

(** grpc-message: any byte string (so any UTF-8 message) survives encode/decode. *)
Theorem C04_grpc_message_roundtrip : forall s, wf_bytes s = true ->
  grpc_percent_decode (grpc_percent_encode s) = Some s.
Proof. exact grpc_percent_roundtrip. Qed.
Print Assumptions C04_grpc_message_roundtrip.

Theorem C04_grpc_message_printable : forall s, wf_bytes s = true ->
  forallb (fun c => (32 <=? c)%N && (c <=? 126)%N) (grpc_percent_encode s) = true.
Proof. exact grpc_percent_printable. Qed.
Print Assumptions C04_grpc_message_printable.

Example C04_ex1 : spec_http_of_rpc 17 = 500 /\ http_status_from_rpc 17 = Some 500 /\ http_status_from_rpc 8 = Some 429.
Proof. vm_compute. repeat split; reflexivity. Qed.
Example C04_ex2 : grpc_percent_encode (h "66c3a925") = s2b "f%C3%A9%25".
Proof. vm_compute. reflexivity. Qed.
