(** C09 - Truncated or malformed streams never surface as success.
    Statements only; proofs in Proofs/ReaderProofs.v, Proofs/EnvelopeProofs.v, Proofs/ResponseProofs.v. *)
From VG Require Import Model.Bytes Model.Stream Model.Envelope Model.Reader Model.RespMeta Model.Response Model.Serve.
From VG Require Import Proofs.StreamProofs Proofs.ReaderProofs Proofs.EnvelopeProofs Proofs.TruncProofs.
Open Scope Z_scope.

(** What readRequestMessage makes of an enveloped request body, by its bytes: a message only when
    a legal envelope is there in full and all the bytes it announces follow; otherwise the error
    named here - never a shorter message, never a clean end unless nothing at all was sent. *)
Theorem C09_request_message_by_bytes : forall cx c u,
  cenv cx = Some c ->
  let fl := flat u in
  match read_request_message cx u with
  | MsgOk p comp u2 =>
      5 <= zlen fl /\
      exists env, decode_env c (ztake 5 fl) = Some env /\ e_trailer env = false /\ e_len env <= limit cx /\
                  e_len env <= zlen (zdrop 5 fl) /\ p = ztake (e_len env) (zdrop 5 fl) /\ comp = e_compressed env /\
                  flat u2 = zdrop (e_len env) (zdrop 5 fl) /\ u_term u2 = u_term u
  | MsgErr e u2 rep =>
      (zlen fl < 5 /\ rep = [] /\
         e = match u_term u with EEOF => match fl with [] => EEOF | _ => EUnexpectedEOF end | t => t end) \/
      (5 <= zlen fl /\ decode_env c (ztake 5 fl) = None /\ e = EInvalidArgument /\ rep = [EInvalidArgument]) \/
      (5 <= zlen fl /\ exists env, decode_env c (ztake 5 fl) = Some env /\
         ((e_trailer env = true /\ e = EInvalidArgument /\ rep = [EInvalidArgument]) \/
          (e_trailer env = false /\ limit cx < e_len env /\ e = EResourceExhausted /\ rep = [EResourceExhausted]) \/
          (e_trailer env = false /\ e_len env <= limit cx /\ zlen (zdrop 5 fl) < e_len env /\ e = cut_status (u_term u) /\ rep = [])))
  end.
Proof. exact read_enveloped_spec. Qed.
Print Assumptions C09_request_message_by_bytes.

Theorem C09_cut_inside_envelope : forall cx c u,
  cenv cx = Some c -> 0 < zlen (flat u) < 5 -> u_term u = EEOF ->
  exists u2, read_request_message cx u = MsgErr EUnexpectedEOF u2 [].
Proof. exact cut_inside_envelope. Qed.
Print Assumptions C09_cut_inside_envelope.

Theorem C09_cut_inside_message : forall cx c u env,
  cenv cx = Some c -> 5 <= zlen (flat u) -> decode_env c (ztake 5 (flat u)) = Some env ->
  e_trailer env = false -> e_len env <= limit cx -> zlen (zdrop 5 (flat u)) < e_len env -> u_term u = EEOF ->
  exists u2, read_request_message cx u = MsgErr EUnexpectedEOF u2 [].
Proof. exact cut_inside_message. Qed.
Print Assumptions C09_cut_inside_message.

(** the backend is never handed a message shorter than announced *)
Theorem C09_message_is_complete : forall cx c u p comp u2,
  cenv cx = Some c -> read_request_message cx u = MsgOk p comp u2 ->
  exists env, decode_env c (ztake 5 (flat u)) = Some env /\ zlen p = e_len env /\ 0 <= e_len env.
Proof. exact message_is_complete. Qed.
Print Assumptions C09_message_is_complete.

(** ... and the error reaches the backend's Read as an error, not as the end of the body *)
Theorem C09_error_reaches_backend : forall f cx o r k e u rep,
  tr_err r = None -> tr_envrem r = 0%nat -> (tr_buf r = None \/ tr_buf r = Some []) -> 0 < k ->
  read_request_message cx (tr_up r) = MsgErr e u rep ->
  (negb (tr_consumed_first r) && ecls_eqb e EEOF && first_may_be_empty cx = false) ->
  fst (tr_read (S f) cx o r k) = ([], SErr e).
Proof. exact tr_read_error_surfaces. Qed.
Print Assumptions C09_error_reaches_backend.

(** every one of the 256 flag bytes: rejected exactly when the protocol's specification says so *)
Theorem C09_flag_bytes : forall k f b1 b2 b3 b4, wf_byte f = true ->
  (decode_env k [f; b1; b2; b3; b4] = None <-> spec_legal k (Z.of_N f) = false).
Proof. exact decode_env_flags. Qed.
Print Assumptions C09_flag_bytes.

(** * The response direction *)

(** The handler returns while what the backend has written stops inside an envelope prefix, inside
    a message or a trailer frame, or short of a declared Content-Length ([mid_unit] is that state
    of the body writer): whatever the script was and wherever request-side failures fell, the log
    of the client's connection then contains an error outcome - in the head, in the end-stream or
    trailer frame, in the error body or in the trailers, as the client's protocol has it.  By C03
    that is the only outcome the client gets. *)
Theorem C09_truncated_response_is_an_error : forall cx h s,
  let r0 := fst (run_script cx s (rw_init h) []) in
  c_end_written (r_core r0) = false -> mid_unit (r_w r0) ->
  log_has_error (c_out (r_core (fst (fst (serve_response cx h s))))) = true.
Proof. exact truncated_response_is_an_error. Qed.
Print Assumptions C09_truncated_response_is_an_error.

(** An error that is reported while the end is still open reaches the client, in every client
    protocol (for Connect unary and REST clients the head is then not out yet, see below). *)
Theorem C09_reported_error_is_visible : forall cx e c, c_end_written c = false ->
  (end_must_be_in_headers (w_client cx) = true -> c_flushed c = false) ->
  log_has_error (c_out (report_error cx e c)) = true.
Proof. exact report_error_visible. Qed.
Print Assumptions C09_reported_error_is_visible.

(** For clients whose outcome travels in the head, the head never leaves before the end is known. *)
Theorem C09_unary_head_waits_for_the_outcome : forall cx s h wr, end_must_be_in_headers (w_client cx) = true ->
  let c := r_core (fst (run_script cx s (rw_init h) wr)) in c_flushed c = true -> c_end_written c = true.
Proof. intros cx s h wr Em. apply (run_script_UI cx Em s (rw_init h) wr). intros D. discriminate D. Qed.
Print Assumptions C09_unary_head_waits_for_the_outcome.

(** Non-vacuity: a gRPC backend announces a 3-byte message and delivers 2 bytes (Connect streaming
    client), and one that stops inside the second envelope prefix (gRPC-Web client). *)
Definition ex_wcx (c : cproto) (ce : option envk) : wctx :=
  mkWctx c SGrpc ce (Some GrpcS) 1000 [s2b "gzip"] (s2b "proto") (s2b "proto") true false
         (mkOr (fun b => Some b) (fun b => Some b) (fun b => Some b) (fun b => b) (fun _ => false))
         (mkEor (fun _ => None) (fun _ => None) (fun _ => None) (fun _ _ _ => None)) (fun _ => 10).
Definition ex_script (body : bytes) : list baction :=
  [BHset (s2b "Content-Type") (s2b "application/grpc+proto"); BStatus 200; BWrite body].
Example C09_ex_truncated :
  let cx1 := ex_wcx CConnectStream (Some ConnC) in
  let cx2 := ex_wcx CGrpcWeb (Some WebC) in
  let r1 := fst (run_script cx1 (ex_script (h "00000000036162")) (rw_init []) []) in
  let r2 := fst (run_script cx2 (ex_script (h "00000000036162630000")) (rw_init []) []) in
  (c_end_written (r_core r1) = false /\ mid_unit (r_w r1)) /\ (c_end_written (r_core r2) = false /\ mid_unit (r_w r2)) /\
  existsb carries_success (c_out (r_core (fst (fst (serve_response cx1 [] (ex_script (h "00000000036162"))))))) = false.
Proof.
  vm_compute. repeat split; try reflexivity; try discriminate.
Qed.
