(** C09 - Truncated or malformed streams never surface as success.
    Statements only; proofs in Proofs/ReaderProofs.v, Proofs/EnvelopeProofs.v, Proofs/ResponseProofs.v. *)
From VG Require Import Model.Bytes Model.Stream Model.Envelope Model.Reader.
From VG Require Import Proofs.StreamProofs Proofs.ReaderProofs Proofs.EnvelopeProofs.
Open Scope Z_scope.

(** What readRequestMessage makes of an enveloped request body, by its bytes: a message only when
    a legal envelope is there in full and all the bytes it announces follow; otherwise the error
    named here - never a shorter message, never a clean end unless nothing at all was sent. *)
Theorem C09_request_message_by_bytes : forall cx c u,
  cenv cx = Some c ->
  let fl := flat u in
  match read_request_message cx u with
  | MsgOk p comp u2 =>
      5 <= zlen fl /\
      exists env, decode_env c (ztake 5 fl) = Some env /\ e_trailer env = false /\ e_len env <= limit cx /\
                  e_len env <= zlen (zdrop 5 fl) /\ p = ztake (e_len env) (zdrop 5 fl) /\ comp = e_compressed env /\
                  flat u2 = zdrop (e_len env) (zdrop 5 fl) /\ u_term u2 = u_term u
  | MsgErr e u2 rep =>
      (zlen fl < 5 /\ rep = [] /\
         e = match u_term u with EEOF => match fl with [] => EEOF | _ => EUnexpectedEOF end | t => t end) \/
      (5 <= zlen fl /\ decode_env c (ztake 5 fl) = None /\ e = EInvalidArgument /\ rep = [EInvalidArgument]) \/
      (5 <= zlen fl /\ exists env, decode_env c (ztake 5 fl) = Some env /\
         ((e_trailer env = true /\ e = EInvalidArgument /\ rep = [EInvalidArgument]) \/
          (e_trailer env = false /\ limit cx < e_len env /\ e = EResourceExhausted /\ rep = [EResourceExhausted]) \/
          (e_trailer env = false /\ e_len env <= limit cx /\ zlen (zdrop 5 fl) < e_len env /\ e = cut_status (u_term u) /\ rep = [])))
  end.
Proof. exact read_enveloped_spec. Qed.
Print Assumptions C09_request_message_by_bytes.

Theorem C09_cut_inside_envelope : forall cx c u,
  cenv cx = Some c -> 0 < zlen (flat u) < 5 -> u_term u = EEOF ->
  exists u2, read_request_message cx u = MsgErr EUnexpectedEOF u2 [].
Proof. exact cut_inside_envelope. Qed.
Print Assumptions C09_cut_inside_envelope.

Theorem C09_cut_inside_message : forall cx c u env,
  cenv cx = Some c -> 5 <= zlen (flat u) -> decode_env c (ztake 5 (flat u)) = Some env ->
  e_trailer env = false -> e_len env <= limit cx -> zlen (zdrop 5 (flat u)) < e_len env -> u_term u = EEOF ->
  exists u2, read_request_message cx u = MsgErr EUnexpectedEOF u2 [].
Proof. exact cut_inside_message. Qed.
Print Assumptions C09_cut_inside_message.

(** the backend is never handed a message shorter than announced *)
Theorem C09_message_is_complete : forall cx c u p comp u2,
  cenv cx = Some c -> read_request_message cx u = MsgOk p comp u2 ->
  exists env, decode_env c (ztake 5 (flat u)) = Some env /\ zlen p = e_len env /\ 0 <= e_len env.
Proof. exact message_is_complete. Qed.
Print Assumptions C09_message_is_complete.

(** ... and the error reaches the backend's Read as an error, not as the end of the body *)
Theorem C09_error_reaches_backend : forall f cx o r k e u rep,
  tr_err r = None -> tr_envrem r = 0%nat -> (tr_buf r = None \/ tr_buf r = Some []) -> 0 < k ->
  read_request_message cx (tr_up r) = MsgErr e u rep ->
  (negb (tr_consumed_first r) && ecls_eqb e EEOF && first_may_be_empty cx = false) ->
  fst (tr_read (S f) cx o r k) = ([], SErr e).
Proof. exact tr_read_error_surfaces. Qed.
Print Assumptions C09_error_reaches_backend.

(** every one of the 256 flag bytes: rejected exactly when the protocol's specification says so *)
Theorem C09_flag_bytes : forall k f b1 b2 b3 b4, wf_byte f = true ->
  (decode_env k [f; b1; b2; b3; b4] = None <-> spec_legal k (Z.of_N f) = false).
Proof. exact decode_env_flags. Qed.
Print Assumptions C09_flag_bytes.
