(** C09 - placeholder *)
From VG Require Import Model.Serve.
