(** C11 - placeholder *)
From VG Require Import Model.Serve.
