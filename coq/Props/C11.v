(** C11 - No input from client or backend can crash or wedge the transcoder.
    Statements only; proofs in Proofs/NoPanicProofs.v, Proofs/ResponseProofs.v, Proofs/StatusProofs.v,
    Proofs/TemplateProofs.v.

    In the model a Go panic is a value ([WPanic]: writing to a nil sink, calling a nil enveloper,
    dereferencing a nil respMeta, running a loop out of its bound; [None] for an index out of
    range), so "does not panic" is a theorem.  Every model function is total, which is what
    "returns once both peers have stopped" amounts to for the modelled code; goroutine scheduling
    and blocking I/O are outside the model (the check exercises them with the real code). *)
From VG Require Import Model.Bytes Model.Headers Model.RespMeta Model.Response Model.Request Model.Serve Model.Status Gen.Generated.
From VG Require Import Proofs.ResponseProofs Proofs.NoPanicProofs Proofs.StatusProofs.
Open Scope Z_scope.

(** Whatever the backend's handler does with its ResponseWriter (any headers, any status, any
    bytes in any segmentation, writes after the end, nothing at all) and wherever the request side
    fails meanwhile, the response side does not panic ... *)
Theorem C11_response_side_never_panics : forall cx h s r wr res,
  serve_response cx h s = (r, wr, res) -> res <> WPanic.
Proof. exact serve_response_never_panics. Qed.
Print Assumptions C11_response_side_never_panics.

(** ... and the client's connection sees one head and then a body a standard HTTP stack can
    frame: writes and flushes, at most one end, nothing but flushes after it. *)
Theorem C11_one_head_then_framable_body : forall cx h s r wr res,
  serve_response cx h s = (r, wr, res) ->
  exists code hd eh body tail fl,
    c_out (r_core r) = DHead code hd eh :: body ++ tail ++ DDone :: fl /\
    forallb (fun e => negb (is_head e) && negb (is_term e) && negb (is_done e)) body = true /\
    (tail = [] \/ exists t, is_term t = true /\ tail = [t]) /\ forallb is_flush fl = true.
Proof. intros cx h s r wr res H. eapply finished_response_shape; [exact H|]. eapply serve_response_never_panics; eauto. Qed.
Print Assumptions C11_one_head_then_framable_body.

(** While the handler is still running - also if it never returns - the same discipline holds. *)
Theorem C11_discipline_at_every_step : forall cx s h r wr,
  run_script cx s (rw_init h) [] = (r, wr) -> Forall (fun x => x <> WPanic) wr /\ orun S0 (c_out (r_core r)) = Some (st_of (r_core r)).
Proof.
  intros cx s h r wr H. destruct (run_script_np cx s _ _ _ _ (RwNP_init cx h) (Forall_nil _) H) as (FW & ((HI & _) & _)).
  split; [exact FW|]. apply HI.
Qed.
Print Assumptions C11_discipline_at_every_step.

(** Every numeric status a backend can send has an HTTP status (no index out of range). *)
Theorem C11_status_mapping_total : forall code, 0 <= code -> http_status_from_rpc code = Some (spec_http_of_rpc code).
Proof. exact status_total. Qed.
Print Assumptions C11_status_mapping_total.
