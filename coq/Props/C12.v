(** C12 - Deadlines are propagated to the backend and never extended.
    Statements only; proofs are in Proofs/TimeoutProofs.v.

    [convey pf ff c t hdr]: the header value the backend sees in target encoding [t] when the
    client sent [hdr] (None = header absent) in encoding [c]; [Reject] = HTTP 400 before any
    dispatch.  [sem] is the independent grammar+value of each header from the protocol
    specifications.  [pf]/[ff] are the float64 oracles of the REST encoding. *)
From VG Require Import Model.Bytes Model.Timeout Proofs.TimeoutProofs.
Open Scope Z_scope.

Theorem C12_absent : forall pf ff c t, convey pf ff c t None = Ok None.
Proof. exact convey_absent. Qed.
Print Assumptions C12_absent.

Theorem C12_never_extends : forall pf ff c t h d h',
  is_rpc c = true -> is_rpc t = true ->
  sem c h = Some d -> convey pf ff c t (Some h) = Ok (Some h') ->
  exists d', sem t h' = Some d' /\ d' <= d /\
    (d - d' < unit_of t h' \/ (t = EConnect /\ 9999999999 * ns_ms < d /\ d' = 9999999999 * ns_ms)).
Proof. exact never_extends. Qed.
Print Assumptions C12_never_extends.

Theorem C12_dropped_only_beyond_range : forall pf ff c t h d,
  is_rpc c = true -> sem c h = Some d -> convey pf ff c t (Some h) = Ok None ->
  c = EGrpc /\ grpc_beyond h = true.
Proof. exact dropped_only_beyond. Qed.
Print Assumptions C12_dropped_only_beyond_range.

Theorem C12_valid_accepted : forall pf ff c t h d,
  is_rpc c = true -> sem c h = Some d -> convey pf ff c t (Some h) <> Reject.
Proof. exact valid_accepted. Qed.
Print Assumptions C12_valid_accepted.

Theorem C12_malformed_rejected : forall pf ff c t h,
  is_rpc c = true -> h <> [] -> sem c h = None -> convey pf ff c t (Some h) = Reject.
Proof. exact malformed_rejected. Qed.
Print Assumptions C12_malformed_rejected.

Theorem C12_grpc_encode_sound : forall d, 0 <= d <= max_int64 ->
  exists d', sem_grpc (grpc_encode d) = Some d' /\ d' <= d /\ d - d' < unit_of_grpc (grpc_encode d).
Proof. exact grpc_encode_sound. Qed.
Print Assumptions C12_grpc_encode_sound.

(** REST legs (partial: float64 parsing/formatting is the oracle pf/ff). *)
Theorem C12_rest_client_partial : forall pf ff t h d,
  is_rpc t = true -> h <> [] -> pf h = Some d -> 0 <= d <= max_int64 ->
  exists h' d', convey pf ff ERest t (Some h) = Ok (Some h') /\ sem t h' = Some d' /\ d' <= d /\
    (d - d' < unit_of t h' \/ (t = EConnect /\ 9999999999 * ns_ms < d /\ d' = 9999999999 * ns_ms)).
Proof. exact rest_client. Qed.
Print Assumptions C12_rest_client_partial.

Theorem C12_rest_client_malformed_partial : forall pf ff t h,
  h <> [] -> pf h = None -> convey pf ff ERest t (Some h) = Reject.
Proof. exact rest_client_malformed. Qed.
Print Assumptions C12_rest_client_malformed_partial.

Theorem C12_rest_target_partial : forall pf ff c h d,
  is_rpc c = true -> sem c h = Some d ->
  convey pf ff c ERest (Some h) = Ok (Some (ff d)) \/
  (c = EGrpc /\ grpc_beyond h = true /\ convey pf ff c ERest (Some h) = Ok None).
Proof. exact rest_target. Qed.
Print Assumptions C12_rest_target_partial.

(** Non-vacuity: concrete headers meeting the hypotheses. *)
Example C12_ex1 :
  sem EGrpc (s2b "1500m") = Some 1500000000 /\
  convey (fun _ => None) (fun _ => []) EGrpc EConnect (Some (s2b "1500m")) = Ok (Some (s2b "1500")).
Proof. vm_compute. split; reflexivity. Qed.
Example C12_ex2 :
  sem EConnect (s2b "123456789012") = None /\
  convey (fun _ => None) (fun _ => []) EConnect EGrpc (Some (s2b "123456789012")) = Reject.
Proof. vm_compute. split; reflexivity. Qed.
Example C12_ex3 :
  sem EConnect (s2b "9000000000") = Some 9000000000000000 /\
  convey (fun _ => None) (fun _ => []) EConnect EGrpc (Some (s2b "9000000000")) = Ok (Some (s2b "9000000S")).
Proof. vm_compute. split; reflexivity. Qed.
Example C12_ex4 :
  sem EGrpc (s2b "9H") = Some 32400000000000 /\ grpc_beyond (s2b "9H") = true /\
  convey (fun _ => None) (fun _ => []) EGrpc EGrpc (Some (s2b "9H")) = Ok None.
Proof. vm_compute. repeat split; reflexivity. Qed.
