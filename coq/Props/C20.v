(** C20 - placeholder *)
From VG Require Import Model.Serve.
