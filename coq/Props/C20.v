(** C20 - Behaviour depends on the schema's content, not on how it was loaded.
    Statements only; proofs in Proofs/ResolverProofs.v.

    How a schema was loaded is not something a model of the transcoder's logic distinguishes: every
    model function takes the schema's content (methods, bindings, fields) as data.  What the
    property adds on the code's side is the type-resolution fallback; that is modelled and proved.
    The equality of behaviour across loading routes itself is checked by running the scenario
    corpus of the other properties under three registrations of the same schema (generated code;
    fresh descriptors; fresh descriptors with dynamically typed options and a resolver that knows
    nothing) and requiring identical observations. *)
From VG Require Import Model.Bytes Model.Resolver.
From VG Require Import Proofs.ResolverProofs.
Open Scope Z_scope.

(** The first resolver that knows a type supplies it, whatever the earlier ones answered. *)
Theorem C20_first_that_knows_wins : forall pre a post,
  Forall (fun x => x <> 0) pre -> a = 0 -> fallback (pre ++ a :: post) = RFound (Z.of_nat (length pre)).
Proof. exact first_that_knows_wins. Qed.
Print Assumptions C20_first_that_knows_wins.

(** If none knows it, the answer is the last resolver's (not found, or its error). *)
Theorem C20_nobody_knows : forall answers,
  Forall (fun x => x <> 0) answers ->
  fallback answers = match answers with [] => RNotFound | _ => answer (List.last answers 1) (Z.of_nat (length answers) - 1) end.
Proof. exact nobody_knows. Qed.
Print Assumptions C20_nobody_knows.

(** A method whose types no resolver knows is served with dynamic messages instead of failing. *)
Theorem C20_unknown_type_becomes_dynamic : forall answers,
  Forall (fun x => x = 1) answers -> resolve_for_method (fallback answers) = TDynamic.
Proof. exact unknown_type_becomes_dynamic. Qed.
Print Assumptions C20_unknown_type_becomes_dynamic.

Example C20_ex : fallback [1; 2; 0; 0] = RFound 2 /\ fallback [1; 2] = RErr 1 /\ fallback [2; 1] = RNotFound /\ fallback [] = RNotFound.
Proof. repeat split; reflexivity. Qed.
