(** C07 - placeholder *)
From VG Require Import Model.Serve.
