(** C07 - REST binding follows google.api.http; to-REST-and-back is the identity.
    Statements only; proofs in Proofs/PercentProofs.v, Proofs/RouterProofs.v, Proofs/ConfigProofs.v.

    Modelled and proved: the path level - escaping and unescaping of variable values, which
    segments a variable captures, which binding a request line selects (C06, C17).  Not modelled:
    the mapping between message fields and JSON bodies / query parameters (protojson, the field
    setters of params.go); for that part the check is the correspondence suite restbind alone
    (REST -> message, message -> REST -> message, ill-typed parameters), and the theorems below say
    nothing about it. *)
From VG Require Import Model.Bytes Model.Percent Model.Router Gen.Generated.
From VG Require Import Proofs.PercentProofs Proofs.RouterProofs.
Open Scope Z_scope.

(** A value put into a single path segment comes back unchanged: unescaping inverts escaping
    for every byte string. *)
Theorem C07_single_segment_roundtrip : forall s, wf_bytes s = true -> path_unescape false (path_escape false s) = Some s.
Proof. exact path_escape_single_roundtrip. Qed.
Print Assumptions C07_single_segment_roundtrip.

(** A single-segment variable captures exactly its own segment, unescaped once. *)
Theorem C07_capture_single_segment : forall i segs seg,
  nth_error segs i = Some seg -> capture (mkVar i (Some (S i))) segs = path_unescape false seg.
Proof.
  intros i segs seg H. unfold capture, var_index. cbn [v_end v_start].
  replace (S i - i)%nat with 1%nat by (rewrite Nat.sub_succ_l, Nat.sub_diag; auto).
  assert (E : firstn 1 (skipn i segs) = [seg]).
  { revert segs H. induction i as [|i IH]; intros segs H; destruct segs as [|x r]; try discriminate.
    - injection H as ->. reflexivity.
    - cbn [skipn]. apply IH. exact H. }
  rewrite E. cbn [length Nat.ltb Nat.leb unescape_all]. unfold path_unescape.
  destruct (unescape false seg); reflexivity.
Qed.
Print Assumptions C07_capture_single_segment.

(** ... so escaping a value into the URL and capturing it back is the identity. *)
Theorem C07_single_variable_roundtrip : forall i segs v,
  wf_bytes v = true -> nth_error segs i = Some (path_escape false v) -> capture (mkVar i (Some (S i))) segs = Some v.
Proof.
  intros i segs v W H. rewrite (C07_capture_single_segment i segs _ H). apply path_escape_single_roundtrip. exact W.
Qed.
Print Assumptions C07_single_variable_roundtrip.

(** For a variable spanning several segments the code keeps an existing escaped slash in place
    of escaping its '%', and normalises it to upper case; the identity therefore fails for a value
    containing the characters "%2f".  (This witness is the recorded finding, replayed on the
    implementation by the restbind suite.) *)
Theorem C07_multi_segment_roundtrip_refuted :
  exists s, wf_bytes s = true /\ path_unescape true (path_escape true s) <> Some s.
Proof. exists (s2b "a%2fb"). split; [reflexivity|]. vm_compute. discriminate. Qed.
Print Assumptions C07_multi_segment_roundtrip_refuted.

Example C07_ex_upper_is_kept : path_unescape true (path_escape true (s2b "a%2Fb")) = Some (s2b "a%2Fb").
Proof. vm_compute. reflexivity. Qed.
