(** C14 - Concurrent RPCs are isolated from one another and race-free.
    Statements only; proofs in Proofs/PoolProofs.v, Proofs/ResponseProofs.v.

    What a proof about a sequential model can carry: (1) the ownership discipline that the pool
    monitor checks on every observed trace means exclusivity - no buffer is ever held by two
    owners - and rejects exactly double releases and hand-outs of held buffers; (2) the response
    side keeps its discipline wherever the request side's goroutine reports a failure, given that
    the two are serialised by the responseWriter's mutex (the interleavings are then the
    placements of [BReadFault] in the script).  Data races themselves are outside any such model:
    the check runs the concurrent suite under the Go race detector. *)
From VG Require Import Model.Bytes Model.Pool Model.Response Model.Request Model.Serve.
From VG Require Import Proofs.PoolProofs Proofs.ResponseProofs.
Open Scope Z_scope.

Theorem C14_exclusive_ownership : forall tr pre e post,
  pool_trace_ok tr = true -> tr = pre ++ e :: post ->
  exists s, prun (mkPs [] []) pre = Some s /\ PInv s /\
    match e with
    | PGet id => ~ In id (ps_out s)
    | PPut id => ~ In id (ps_idle s)
    end.
Proof. exact accepted_trace_exclusive. Qed.
Print Assumptions C14_exclusive_ownership.

Theorem C14_double_release_detected : forall pre id s,
  prun (mkPs [] []) pre = Some s -> In id (ps_idle s) -> forall post, pool_trace_ok (pre ++ PPut id :: post) = false.
Proof. exact double_put_refused. Qed.
Print Assumptions C14_double_release_detected.

Theorem C14_use_while_held_detected : forall pre id s,
  prun (mkPs [] []) pre = Some s -> In id (ps_out s) -> forall post, pool_trace_ok (pre ++ PGet id :: post) = false.
Proof. exact get_of_held_refused. Qed.
Print Assumptions C14_use_while_held_detected.

(** A failure reported by the request side at any point between the handler's actions leaves
    the client with exactly one well-formed response. *)
Theorem C14_request_side_failure_anywhere : forall cx h s1 e s2 r wr res,
  serve_response cx h (s1 ++ BReadFault e :: s2) = (r, wr, res) -> res <> WPanic ->
  exists code hd eh body tail fl,
    c_out (r_core r) = DHead code hd eh :: body ++ tail ++ DDone :: fl /\
    forallb (fun e => negb (is_head e) && negb (is_term e) && negb (is_done e)) body = true /\
    (tail = [] \/ exists t, is_term t = true /\ tail = [t]) /\ forallb is_flush fl = true.
Proof. intros cx h s1 e s2. apply finished_response_shape. Qed.
Print Assumptions C14_request_side_failure_anywhere.

Example C14_ex_trace_ok : pool_trace_ok [PGet 1; PGet 2; PPut 1; PGet 1; PPut 2; PPut 1] = true.
Proof. reflexivity. Qed.
Example C14_ex_double_put : pool_trace_ok [PGet 1; PPut 1; PPut 1] = false.
Proof. reflexivity. Qed.
