(** C14 - placeholder *)
From VG Require Import Model.Pool.
