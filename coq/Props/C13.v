(** C13 - Pass-through and unknown-endpoint requests are forwarded untouched.
    Statements only; proofs in Proofs/ServeProofs.v. *)
From VG Require Import Model.Bytes Model.Headers Model.RespMeta Model.Request Model.Serve Gen.Generated.
From VG Require Import Proofs.ServeProofs.
Open Scope Z_scope.

(** When the request is passed through, the service's handler is given the client's own request
    head: method, path, query, HTTP version, headers, content length. *)
Theorem C13_passthrough_untouched : forall pf ff t r h,
  serve_head pf ff t r = DPass h ->
  h = original_head r /\ exists o, validate pf t r = VOk o /\ is_passthrough o = true.
Proof. exact serve_head_pass. Qed.
Print Assumptions C13_passthrough_untouched.

(** A request that matches nothing goes to the unknown-endpoint handler, untouched - whatever
    its content type or HTTP version - and is answered 404 only when there is no such handler. *)
Theorem C13_unknown_untouched : forall pf ff t r h,
  serve_head pf ff t r = DUnknown h ->
  h = original_head r /\ validate pf t r = VNotFound /\ tc_has_unknown t = true.
Proof. exact serve_head_unknown. Qed.
Print Assumptions C13_unknown_untouched.

(** Pass-through happens exactly when the backend is given the client's own protocol, codec and
    compression - in particular whenever the service accepts all three. *)
Theorem C13_acceptable_is_passthrough : forall pf t r o,
  validate pf t r = VOk o -> op_server o <> SRest ->
  In (cproto_protocol (op_client o)) (mc_protocols (op_method o)) ->
  In (op_client_codec o) (mc_codecs (op_method o)) ->
  (op_client_comp o = [] \/ In (op_client_comp o) (mc_comps (op_method o))) ->
  is_passthrough o = true.
Proof. exact acceptable_is_passthrough. Qed.
Print Assumptions C13_acceptable_is_passthrough.

Theorem C13_every_outcome : forall pf ff t r,
  match serve_head pf ff t r with
  | DReject st a => validate pf t r = VError st a
  | DNotFound => validate pf t r = VNotFound /\ tc_has_unknown t = false
  | DUnknown _ => validate pf t r = VNotFound /\ tc_has_unknown t = true
  | DPass _ => exists o, validate pf t r = VOk o /\ is_passthrough o = true
  | DHandle _ _ _ o => validate pf t r = VOk o /\ is_passthrough o = false
  | DNeedsMessage o => validate pf t r = VOk o /\ is_passthrough o = false
  end.
Proof. exact serve_head_cases. Qed.
Print Assumptions C13_every_outcome.
