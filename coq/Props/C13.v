(** C13 - placeholder *)
From VG Require Import Model.Serve.
