(** C01 - Messages arrive intact across every protocol, codec and compression pairing.
    Statements only; proofs in Proofs/PipelineProofs.v, Proofs/ReaderProofs.v.

    The codec and compression libraries are parameters ([oracles] on the sending side, the
    receiving side's decoder and decompressor as section variables); the theorems hold for every
    library that satisfies the two round-trip laws stated as hypotheses.  The correspondence suites
    instantiate them with the real codecs and gzip (tables of the values that occur). *)
From VG Require Import Model.Bytes Model.Stream Model.Envelope Model.Reader Model.Response.
From VG Require Import Proofs.StreamProofs Proofs.ReaderProofs Proofs.PipelineProofs.
Open Scope Z_scope.

(** Re-encoding path: whatever the backend decodes is the message the client encoded. *)
Theorem C01_reencoded_request_is_faithful :
  forall (msg_of_server gunzip_server : bytes -> option bytes) (cx : rctx) (o : oracles),
  (forall m e, o_encode o m = Some e -> msg_of_server e = Some m) ->
  (forall b, gunzip_server (o_compress o b) = Some b) ->
  forall was_compressed payload out,
  same_codec cx = false ->
  advance_send cx o was_compressed payload = inl out ->
  exists m, client_meant cx o was_compressed payload = Some m /\
            server_reads msg_of_server gunzip_server ((was_compressed || must_compress cx) && server_comp cx) out = Some m.
Proof. intros. eapply reencoded_request_is_faithful; eauto. Qed.
Print Assumptions C01_reencoded_request_is_faithful.

(** Same codec: the payload is relayed byte for byte, or only its compression changes. *)
Theorem C01_relayed_request_is_verbatim : forall cx o was_compressed payload out,
  same_codec cx = true -> advance_send cx o was_compressed payload = inl out ->
  out = payload \/
  exists plain, (plain = payload \/ o_decompress o payload = Some plain) /\ (out = plain \/ out = o_compress o plain).
Proof. exact relayed_request_is_verbatim. Qed.
Print Assumptions C01_relayed_request_is_verbatim.

(** What cannot be carried fails: decompression, decoding or encoding refused it. *)
Theorem C01_failure_is_an_error : forall cx o was_compressed payload e,
  advance_send cx o was_compressed payload = inr e ->
  exists p, True /\ (o_decompress o payload = None \/ o_decode o p = None \/ (exists m, o_decode o p = Some m /\ o_encode o m = None)).
Proof. exact request_failure_is_an_error. Qed.
Print Assumptions C01_failure_is_an_error.

(** Messages are cut out of the body exactly at their announced boundaries, in order: the first
    message is the announced number of bytes after the first envelope, and reading goes on from
    the byte after it. *)
Theorem C01_message_boundaries : forall cx c u p comp u2,
  cenv cx = Some c -> read_request_message cx u = MsgOk p comp u2 ->
  exists env, decode_env c (ztake 5 (flat u)) = Some env /\
              p = ztake (e_len env) (zdrop 5 (flat u)) /\ comp = e_compressed env /\
              flat u2 = zdrop (e_len env) (zdrop 5 (flat u)).
Proof.
  intros cx c u p comp u2 Ec E. pose proof (read_enveloped_spec cx c u Ec) as S. cbv zeta in S. rewrite E in S.
  destruct S as (_ & env & De & _ & _ & _ & Hp & Hc & Hf & _). exists env. auto.
Qed.
Print Assumptions C01_message_boundaries.

(** * The response direction *)

(** Re-encoding path: what the client decodes is the message the backend encoded. *)
Theorem C01_reencoded_response_is_faithful :
  forall (msg_of_client gunzip_client : bytes -> option bytes) (cx : wctx),
  (forall m e, o_encode (w_or cx) m = Some e -> msg_of_client e = Some m) ->
  (forall b, gunzip_client (o_compress (w_or cx) b) = Some b) ->
  forall has_comp was_comp payload out,
  w_same_resp_codec cx = false ->
  advance_resp cx has_comp was_comp payload = inl out ->
  exists m, backend_meant cx has_comp was_comp payload = Some m /\
            client_reads msg_of_client gunzip_client ((was_comp || resp_must cx has_comp) && has_comp) out = Some m.
Proof. intros. eapply reencoded_response_is_faithful; eauto. Qed.
Print Assumptions C01_reencoded_response_is_faithful.

(** Same codec: relayed byte for byte, or compressed because the client's protocol cannot flag single messages. *)
Theorem C01_relayed_response_is_verbatim : forall cx has_comp was_comp payload out,
  w_same_resp_codec cx = true -> advance_resp cx has_comp was_comp payload = inl out ->
  out = payload \/ (was_comp = false /\ resp_must cx has_comp = true /\ out = o_compress (w_or cx) payload).
Proof. exact relayed_response_is_verbatim. Qed.
Print Assumptions C01_relayed_response_is_verbatim.

(** A response message that cannot be carried fails; it is never replaced by another one. *)
Theorem C01_response_failure_is_an_error : forall cx has_comp was_comp payload e,
  advance_resp cx has_comp was_comp payload = inr e ->
  w_same_resp_codec cx = false /\
  (o_decompress (w_or cx) payload = None \/
   exists p, (p = payload \/ o_decompress (w_or cx) payload = Some p) /\
             (o_decode (w_or cx) p = None \/ exists m, o_decode (w_or cx) p = Some m /\ o_encode (w_or cx) m = None)).
Proof. exact response_failure_is_an_error. Qed.
Print Assumptions C01_response_failure_is_an_error.
