(** C01 - placeholder *)
From VG Require Import Model.Serve.
