(** C17 - placeholder *)
From VG Require Import Model.Config.
