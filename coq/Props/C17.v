(** C17 - NewTranscoder accepts exactly the servable configurations and honours them.
    Statements only; proofs in Proofs/ConfigProofs.v, Proofs/TemplateProofs.v, Proofs/RouterProofs.v.

    [new_transcoder ms c] is NewTranscoder on configuration [c] over the schema [ms]: [None] is
    the error return, [Some s] the tables ([cs_methods], [cs_bindings], the route trie
    [cs_items]).  [defaults_of c] are the transcoder-wide default service options. *)
From VG Require Import Model.Bytes Model.Router Model.PathTemplate Model.Request Model.Config Gen.Generated.
From VG Require Import Proofs.RouterProofs Proofs.TemplateProofs Proofs.ConfigProofs.
Open Scope Z_scope.

Definition codecs_of (c : tcfg) := builtin_codecs ++ t_codecs c.
Definition comps_of (c : tcfg) := builtin_compressors ++ t_comps c.
Definition defaults_of (c : tcfg) := resolve_opts builtin_sopts (t_defaults c).

(** ** What is refused *)

(** A service whose resolved options name an unknown codec or compression, no target protocol or
    an invalid one, no codec, or a zero limit, makes the whole configuration fail. *)
Theorem C17_rejects_bad_options : forall ms c sv,
  In sv (t_services c) ->
  opts_ok (codecs_of c) (comps_of c) (resolve_opts (defaults_of c) (sr_opts sv)) = false ->
  new_transcoder ms c = None.
Proof. exact reject_bad_options. Qed.
Print Assumptions C17_rejects_bad_options.

(** ... where [opts_ok] fails for each of the named reasons: *)
Theorem C17_bad_options_cases : forall codecs comps o,
  (so_protocols o = [] \/ (exists p, In p (so_protocols o) /\ known_protocol p = false) \/
   so_codecs o = [] \/ (exists n, In n (so_codecs o) /\ bmem n codecs = false) \/
   (exists n, In n (so_comps o) /\ bmem n comps = false)) ->
  opts_ok codecs comps o = false.
Proof. exact opts_ok_cases. Qed.
Print Assumptions C17_bad_options_cases.

(** A method registered twice (the same service given twice, or two services with the same
    name) is refused. *)
Theorem C17_rejects_duplicate_method : forall ms c,
  ~ NoDup (map (fun core => fst (fst (fst (fst core)))) (flat_map (svc_cores (defaults_of c)) (t_services c))) ->
  new_transcoder ms c = None.
Proof. exact reject_duplicate_method. Qed.
Print Assumptions C17_rejects_duplicate_method.

(** A rule whose selector is malformed, or names no registered method, is refused; so is a rule
    with nested additional bindings. *)
Theorem C17_rejects_bad_rule : forall ms c r,
  In r (t_rules c) ->
  (parse_selector (r_selector r) = None \/
   (forall wild text, parse_selector (r_selector r) = Some (wild, text) ->
      forall core, In core (flat_map (svc_cores (defaults_of c)) (t_services c)) ->
                   selector_matches wild text (snd (fst (fst (fst core)))) = false) \/
   (exists b, In b (r_additional r) /\ b_nested b = true)) ->
  new_transcoder ms c = None.
Proof. exact reject_bad_rule. Qed.
Print Assumptions C17_rejects_bad_rule.

(** ** What acceptance guarantees *)

(** Every entry of the REST table stems from a pattern of an annotation of its method or of a
    rule whose selector names the method; that pattern has an HTTP method and a template that
    parses; its body and response_body name a single field (or "*"); each path variable names a
    singular scalar field or one with a scalar JSON form.  ([from_binding] spells this out through
    [make_target]; see [C17_binding_fields].) *)
Theorem C17_bindings_have_a_source : forall ms c s,
  new_transcoder ms c = Some s -> provenance ms (t_rules c) s.
Proof. intros ms c s H. exact (proj1 (proj2 (proj2 (proj2 (new_transcoder_sound ms c s H))))). Qed.
Print Assumptions C17_bindings_have_a_source.

Theorem C17_binding_fields : forall ms md mpath b cb,
  from_binding ms md mpath b cb ->
  wf_tmpl (r_path (cb_route cb)) = true /\
  body_fields ms (md_in md) (b_body b) <> None /\ body_fields ms (md_out md) (b_resp b) <> None /\
  (forall v, In v (cb_vars cb) ->
     exists fs f, resolve_path ms (md_in md) v = Some fs /\ last_field fs = Some f /\ var_field_ok f = true).
Proof. exact from_binding_fields. Qed.
Print Assumptions C17_binding_fields.

(** No two entries share template, verb and HTTP method: every insertion into the trie succeeded,
    and the trie is the one [build] makes from the accepted routes (to which C06 applies). *)
Theorem C17_routes_distinct : forall ms c s,
  new_transcoder ms c = Some s ->
  build (routes_of s) = (cs_items s, repeat true (length (cs_bindings s))) /\ routes_wf (routes_of s).
Proof.
  intros ms c s H. destruct (new_transcoder_sound ms c s H) as (_ & (Hb & Hw & _) & _). split; assumption.
Qed.
Print Assumptions C17_routes_distinct.

(** Each binding is reachable through a URL built from its template: a path its template matches,
    and no other accepted template with the same verb, is routed to it for its HTTP method. *)
Theorem C17_binding_reachable : forall ms c s i cb path,
  new_transcoder ms c = Some s -> nth_error (cs_bindings s) i = Some cb ->
  tmatch (r_path (cb_route cb)) path = true ->
  (forall cb', In cb' (cs_bindings s) -> tmatch (r_path (cb_route cb')) path = true ->
               r_verb (cb_route cb') = r_verb (cb_route cb) -> r_path (cb_route cb') = r_path (cb_route cb)) ->
  exists it, get_target (r_meth (cb_route cb)) (Router.find (cs_items s) path (r_verb (cb_route cb))) = Some it /\ it_idx it = i.
Proof.
  intros ms c s i cb path H. destruct (new_transcoder_sound ms c s H) as (_ & HI & _). exact (binding_reachable ms s i cb path HI).
Qed.
Print Assumptions C17_binding_reachable.

(** A selector without '*' names exactly the method with that full name; one with '*' is a prefix
    that is empty or ends at a '.', followed by the single final '*', and names the methods whose
    full name starts with the prefix. *)
Theorem C17_selector_exact : forall text name, selector_matches false text name = true <-> text = name.
Proof. exact selector_exact. Qed.
Print Assumptions C17_selector_exact.

Theorem C17_selector_wildcard : forall sel text,
  parse_selector sel = Some (true, text) ->
  sel = text ++ [42%N] /\ ~ In 42%N text /\ (text = [] \/ ends_with_dot text = true) /\
  forall name, selector_matches true text name = true <-> exists rest, name = text ++ rest.
Proof.
  intros sel text H. destruct (parse_selector_spec sel true text H) as (_ & [(D & _)|(_ & E & N & B)]); [discriminate|].
  repeat split; auto; apply selector_wild.
Qed.
Print Assumptions C17_selector_wildcard.

Theorem C17_selector_plain : forall sel wild text,
  parse_selector sel = Some (wild, text) -> ~ In 42%N sel -> wild = false /\ text = sel.
Proof.
  intros sel wild text H N. destruct (parse_selector_spec sel wild text H) as (_ & [(-> & -> & _)|(_ & E & _)]); [auto|].
  exfalso. apply N. rewrite E. apply in_app_iff. right. left. reflexivity.
Qed.
Print Assumptions C17_selector_plain.

(** Every rule has been applied to every method its selector names (and, by
    [C17_bindings_have_a_source], to no other). *)
Theorem C17_rules_applied : forall ms c s,
  new_transcoder ms c = Some s -> Forall (rule_applied ms s) (t_rules c).
Proof. intros ms c s H. exact (proj1 (proj2 (proj2 (proj2 (proj2 (new_transcoder_sound ms c s H)))))). Qed.
Print Assumptions C17_rules_applied.

(** The registered methods are exactly those of the given services, each with its own service's
    options resolved over the transcoder-wide defaults - whatever other services were given. *)
Theorem C17_methods_and_options : forall ms c s,
  new_transcoder ms c = Some s ->
  map mcore (cs_methods s) = flat_map (svc_cores (defaults_of c)) (t_services c) /\
  NoDup (map mf_path (cs_methods s)).
Proof.
  intros ms c s H. destruct (new_transcoder_sound ms c s H) as (_ & (_ & _ & Hn & _) & Hc & _). split; assumption.
Qed.
Print Assumptions C17_methods_and_options.

(** For each kind of option the last one given wins, a service's own before the defaults. *)
Theorem C17_option_override : forall d opts,
  let o := resolve_opts d opts in
  so_protocols o = or_else (last_some get_protocols opts None) (so_protocols d) /\
  so_codecs o = or_else (last_some get_codecs opts None) (so_codecs d) /\
  so_preferred o = or_else (option_map (fun l => hd [] l) (last_some get_codecs opts None)) (so_preferred d) /\
  so_comps o = or_else (last_some get_comps opts None) (so_comps d) /\
  so_maxbuf o = or_else (last_some get_maxbuf opts None) (so_maxbuf d) /\
  so_maxget o = or_else (last_some get_maxget opts None) (so_maxget d).
Proof. intros d opts. exact (resolve_opts_lookup opts d). Qed.
Print Assumptions C17_option_override.

(** A service that can only be reached as REST has at least one method with a binding. *)
Theorem C17_rest_only_has_binding : forall ms c s sv,
  new_transcoder ms c = Some s -> In sv (t_services c) ->
  rest_only (resolve_opts (defaults_of c) (sr_opts sv)) = true ->
  exists m, In m (cs_methods s) /\ mf_svc m = sd_name (sr_desc sv) /\ mf_rule m <> None.
Proof. exact rest_only_bound. Qed.
Print Assumptions C17_rest_only_has_binding.

(** ** Acceptance (partial): configurations without REST rules.
    The full converse - every configuration meeting the conditions above is accepted - is proved
    here for configurations with no annotations and no rules; with rules, acceptance is exercised
    by the correspondence suite (every generated servable configuration must be accepted). *)
Theorem C17_accepts_plain_partial : forall ms c,
  t_rules c = [] ->
  Forall (fun sv => Forall (fun md => md_rule md = None) (sd_methods (sr_desc sv))) (t_services c) ->
  Forall (fun sv => opts_ok (codecs_of c) (comps_of c) (resolve_opts (defaults_of c) (sr_opts sv)) = true) (t_services c) ->
  Forall (fun sv => rest_only (resolve_opts (defaults_of c) (sr_opts sv)) = false) (t_services c) ->
  NoDup (map (fun core => fst (fst (fst (fst core)))) (flat_map (svc_cores (defaults_of c)) (t_services c))) ->
  new_transcoder ms c <> None.
Proof. exact accept_plain. Qed.
Print Assumptions C17_accepts_plain_partial.

(** Non-vacuity: a two-service configuration with a rule is accepted, its binding is reached. *)
Definition ex_ms : list msgdesc :=
  [mkMsg (s2b "p.Req") [mkField (s2b "name") 0 0 []; mkField (s2b "inner") 1 0 (s2b "p.Inner"); mkField (s2b "tags") 0 1 []];
   mkMsg (s2b "p.Inner") [mkField (s2b "id") 0 0 []]].
Definition ex_meth (n : string) := mkMeth (s2b n) (s2b "p.Req") (s2b "p.Req") 0 false None.
Definition ex_cfg : tcfg :=
  mkTcfg [] [] [OMaxBuf 1000]
         [mkSvcReg (mkSvc (s2b "p.A") [ex_meth "Get"; ex_meth "GetBook"]) [OProtocols [c_ProtocolREST]; OCodecs [s2b "json"]];
          mkSvcReg (mkSvc (s2b "p.B") [ex_meth "Get"]) []]
         [mkRule (s2b "p.A.Get") (mkB 1 [] (s2b "/v1/{inner.id}/x") [] [] false) []].
Example C17_ex_accepted :
  match new_transcoder ex_ms ex_cfg with
  | Some s => map (fun m => (mf_path m, so_protocols (mf_opts m), so_maxbuf (mf_opts m), match mf_rule m with Some _ => true | None => false end)) (cs_methods s)
              = [(s2b "/p.A/Get", [c_ProtocolREST], 1000, true); (s2b "/p.A/GetBook", [c_ProtocolREST], 1000, false);
                 (s2b "/p.B/Get", default_protocols, 1000, false)]
              /\ route_request s (s2b "/v1/abc/x") (s2b "GET") = Found 0 [s2b "abc"]
  | None => False
  end.
Proof. vm_compute. split; reflexivity. Qed.
Example C17_ex_prefix_selector_rejected :
  new_transcoder ex_ms (mkTcfg [] [] [] (t_services ex_cfg) [mkRule (s2b "p.A.Ge") (mkB 1 [] (s2b "/v1/x") [] [] false) []]) = None.
Proof. vm_compute. reflexivity. Qed.
Example C17_ex_message_variable_rejected :
  new_transcoder ex_ms (mkTcfg [] [] [] (t_services ex_cfg) [mkRule (s2b "p.A.Get") (mkB 1 [] (s2b "/v1/{inner}") [] [] false) []]) = None.
Proof. vm_compute. reflexivity. Qed.
