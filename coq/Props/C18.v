(** C18 - placeholder *)
From VG Require Import Model.Serve.
