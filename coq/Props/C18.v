(** C18 - At most one backend dispatch per request, none if rejected.
    Statements only; proofs in Proofs/ServeProofs.v, Proofs/ResponseProofs.v.

    The dispatch decision [serve_head] is a single value: rejection ([DReject], [DNotFound]) carries no
    handler at all; every other outcome names exactly one handler.  The response side then never
    answers twice (C03). *)
From VG Require Import Model.Bytes Model.Headers Model.RespMeta Model.Request Model.Serve Model.Response Gen.Generated.
From VG Require Import Proofs.ServeProofs Proofs.ResponseProofs.
Open Scope Z_scope.

(** number of handlers the decision invokes *)
Definition handlers_invoked (d : dispatch) : nat :=
  match d with DReject _ _ | DNotFound => 0 | _ => 1 end.

Theorem C18_at_most_one_dispatch : forall pf ff t r, (handlers_invoked (serve_head pf ff t r) <= 1)%nat.
Proof. intros. unfold handlers_invoked. destruct (serve_head pf ff t r); auto. Qed.
Print Assumptions C18_at_most_one_dispatch.

(** Every validation failure - unclassifiable content type, unknown path without an unknown
    handler, wrong method, unsupported stream type or HTTP version, malformed timeout, unknown
    codec or compression - means no handler. *)
Theorem C18_rejected_means_no_handler : forall pf ff t r st a,
  validate pf t r = VError st a -> serve_head pf ff t r = DReject st a /\ handlers_invoked (serve_head pf ff t r) = 0%nat.
Proof. intros pf ff t r st a V. unfold serve_head. rewrite V. auto. Qed.
Print Assumptions C18_rejected_means_no_handler.

Theorem C18_handler_needs_validation : forall pf ff t r,
  handlers_invoked (serve_head pf ff t r) = 1%nat ->
  (exists o, validate pf t r = VOk o) \/ (validate pf t r = VNotFound /\ tc_has_unknown t = true).
Proof.
  intros pf ff t r H. pose proof (serve_head_cases pf ff t r) as C.
  destruct (serve_head pf ff t r); cbn in H; try discriminate.
  - right. exact C.
  - left. destruct C as (o & V & _). eauto.
  - left. destruct C as (V & _). eauto.
  - left. destruct C as (V & _). eauto.
Qed.
Print Assumptions C18_handler_needs_validation.

(** ... and the one handler gets one responseWriter whose client sees exactly one response. *)
Theorem C18_one_response : forall cx h s r wr res,
  serve_response cx h s = (r, wr, res) -> res <> WPanic ->
  exists code hd eh body tail fl,
    c_out (r_core r) = DHead code hd eh :: body ++ tail ++ DDone :: fl /\
    forallb (fun e => negb (is_head e) && negb (is_term e) && negb (is_done e)) body = true /\
    (tail = [] \/ exists t, is_term t = true /\ tail = [t]) /\ forallb is_flush fl = true.
Proof. exact finished_response_shape. Qed.
Print Assumptions C18_one_response.
