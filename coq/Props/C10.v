(** C10 - Buffered data never exceeds the configured limit.
    Statements only; proofs in Proofs/ReaderProofs.v, Proofs/BoundProofs.v. *)
From VG Require Import Model.Bytes Model.Stream Model.Envelope Model.Reader Model.Response Model.Request Model.Serve.
From VG Require Import Proofs.StreamProofs Proofs.ReaderProofs Proofs.BoundProofs.
Open Scope Z_scope.

(** request side: a message read for re-encoding fits the limit; so does what is prepared for
    the backend; reading for a message stops at one byte over the limit *)
Theorem C10_request_message_bounded : forall cx u p comp u2,
  -1 <= limit cx -> read_request_message cx u = MsgOk p comp u2 -> zlen p <= Z.max 0 (limit cx).
Proof. exact request_message_bounded. Qed.
Print Assumptions C10_request_message_bounded.

Theorem C10_prepared_message_bounded : forall cx o p comp b env,
  tr_prepare cx o p comp = (Some (b, env), None) -> zlen b <= limit cx /\ (length env <= 5)%nat.
Proof. exact prepared_message_bounded. Qed.
Print Assumptions C10_prepared_message_bounded.

Theorem C10_unframed_read_stops_at_limit : forall limit u, -1 <= limit ->
  exists u', copy_hard_limit limit u =
               ((ztake (limit + 1) (flat u),
                 if limit <? zlen (flat u) then SErr EResourceExhausted else end_status (u_term u)), u') /\
             u_term u' = u_term u /\ u_eof_last u' = u_eof_last u /\ flat u' = zdrop (limit + 1) (flat u).
Proof. exact copy_hard_limit_spec. Qed.
Print Assumptions C10_unframed_read_stops_at_limit.

(** response side: in every state any handler behaviour (with request-side failures anywhere) can
    reach, the buffered unary body, the message being assembled, the error body, the trailer and
    the body being measured all fit the limit; a partial envelope is at most 5 bytes *)
Theorem C10_response_buffers_bounded : forall cx s h r wr,
  0 <= w_limit cx -> run_script cx s (rw_init h) [] = (r, wr) ->
  (forall b, c_buf (r_core r) = Some b -> zlen b <= w_limit cx) /\
  match r_w r with
  | BTrans w => forall b, tw_buf w = Some b -> zlen b <= Z.max 5 (w_limit cx)
  | BEnv w => zlen (ew_envacc w) <= 5 \/ ew_wenv w = false /\
              match ew_cur w with ECTrailer b | ECMeasure b => zlen b <= w_limit cx | _ => True end
  | BErr w => forall b, xw_buf w = Some b -> zlen b <= w_limit cx
  | _ => True
  end.
Proof. exact reachable_buffers_bounded. Qed.
Print Assumptions C10_response_buffers_bounded.
