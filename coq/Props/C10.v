(** C10 - placeholder *)
From VG Require Import Model.Serve.
