(** C05 - placeholder *)
From VG Require Import Model.Serve.
