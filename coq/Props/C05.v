(** C05 - Application headers and trailers survive transcoding in both directions.
    Statements only; proofs in Proofs/HeaderProofs.v. *)
From VG Require Import Model.Bytes Model.Headers Model.RespMeta Model.Timeout Model.Request Model.Response Model.Serve Gen.Generated.
From VG Require Import Proofs.HeaderProofs.
Open Scope Z_scope.

(** Request direction: a header that is not one of the protocols' own control headers reaches the
    backend's handler with exactly the values the client sent (all of them, in order), whatever
    the client's and the backend's protocol. *)
Theorem C05_request_headers_survive : forall pf ff t r h a cx o k,
  app_key k -> serve_head pf ff t r = DHandle h a cx o -> hvalues k (bh_hdr h) = hvalues k (q_hdr r).
Proof. exact backend_sees_app_headers. Qed.
Print Assumptions C05_request_headers_survive.

(** Response direction: application headers set by the handler are in the head the client gets. *)
Theorem C05_response_headers_survive : forall c m h k,
  resp_app_key k -> rm_end m = None -> hvalues k (ho_hdrs (add_response_headers c m h)) = hvalues k h.
Proof. exact response_head_keeps_app_headers. Qed.
Print Assumptions C05_response_headers_survive.

(** Trailers go where the client's protocol puts them: HTTP trailers for gRPC, the trailer frame
    for gRPC-Web, the end-stream message for Connect streams ... *)
Theorem C05_trailer_position_streaming : forall c lim elen e,
  match c with
  | CGrpc => encode_end c lim elen e false = EndTrailers e
  | CGrpcWeb => encode_end c lim elen e false = EndBody e
  | CConnectStream => elen e <= lim -> encode_end c lim elen e false = EndBody e
  | _ => True
  end.
Proof. exact trailers_go_where_the_protocol_says. Qed.
Print Assumptions C05_trailer_position_streaming.

(** ... and Trailer- prefixed headers for Connect unary, with every value. *)
Theorem C05_trailer_position_connect_unary : forall c m h e k vs,
  match c with CConnectPost | CConnectGet => True | _ => False end ->
  rm_end m = Some e -> NoDup (map fst (re_trailers e)) -> In (k, vs) (re_trailers e) ->
  bytes_eqb (s2b "Accept-Encoding") (s2b "Trailer-" ++ k) = false ->
  hvalues (s2b "Trailer-" ++ k) (ho_hdrs (add_response_headers c m h)) = vs.
Proof. exact connect_unary_trailers_in_head. Qed.
Print Assumptions C05_trailer_position_connect_unary.

(** A gRPC backend's trailer, set as "Trailer:k" in the handler's header map (and k not one of the
    three status keys), is trailer [k] of the end that is extracted when the handler returns,
    with every value ... *)
Theorem C05_backend_trailers_are_extracted : forall eo known h k,
  existsb (bytes_eqb k) known = false -> is_prefix trailer_prefix k = false ->
  forallb (fun s => negb (bytes_eqb s k)) grpc_status_keys = true ->
  exists e, extract_end_from_trailers eo SGrpc (fst (http_extract_trailers known h)) = Some e /\
            hvalues k (re_trailers e) = hvalues (trailer_prefix ++ k) h.
Proof. exact grpc_backend_trailer_extracted. Qed.
Print Assumptions C05_backend_trailers_are_extracted.

(** ... and the end reaches a streaming client exactly as extracted (C05_trailer_position_streaming
    says which event that is). *)
Theorem C05_end_is_delivered_as_is : forall cx e c m, c_end_written c = false -> c_flushed c = true ->
  c_meta c = Some m -> rm_pending_trailers m = [] ->
  c_out (report_end cx e c) =
  c_out c ++ end_events (encode_end (w_client cx) (w_limit cx) (w_end_len cx) e false) ++ [DDone; DFlush].
Proof. exact reported_end_is_delivered. Qed.
Print Assumptions C05_end_is_delivered_as_is.

Example C05_ex_app_key : app_key (s2b "X-Custom-Bin") /\ app_key (s2b "Authorization") /\ resp_app_key (s2b "Set-Cookie").
Proof. repeat split; reflexivity. Qed.
