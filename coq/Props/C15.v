(** C15 - placeholder *)
From VG Require Import Model.Pool.
