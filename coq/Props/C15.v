(** C15 - The outcome of an RPC is independent of earlier traffic.
    Statements only; proofs in Proofs/PoolProofs.v.

    In the model an RPC's outcome is a function of the configuration, the request and the
    backend's behaviour ([serve_head], [serve_response], the reader functions take nothing
    else).  The only state a Transcoder carries from one RPC to the next are its pools; what the
    theorems say is that nothing of a pooled buffer's past is visible to its next user, whatever
    the history.  That the code has no other carried state is what the history suite checks. *)
From VG Require Import Model.Bytes Model.Pool Gen.Generated.
From VG Require Import Proofs.PoolProofs.
Open Scope Z_scope.

Theorem C15_pooled_buffers_come_back_empty : forall pick ops idle,
  Forall (fun b => pb_data b = []) (snd (pool_history pick ops idle [])).
Proof. intros. apply history_gets_empty. constructor. Qed.
Print Assumptions C15_pooled_buffers_come_back_empty.

Theorem C15_oversized_buffers_dropped : forall idle b,
  max_recycle_buffer_size < pb_cap b -> pool_put idle b = idle.
Proof. exact oversized_not_retained. Qed.
Print Assumptions C15_oversized_buffers_dropped.

Theorem C15_pool_stays_bounded : forall ops pick idle got,
  Forall (fun b => pb_cap b <= max_recycle_buffer_size) idle ->
  (forall l b rest, pick l = Some (b, rest) -> forall x, In x rest -> In x l) ->
  Forall (fun b => pb_cap b <= max_recycle_buffer_size) (fst (pool_history pick ops idle got)).
Proof. exact retained_are_bounded. Qed.
Print Assumptions C15_pool_stays_bounded.

Example C15_ex :
  map pb_data (snd (pool_history (fun l => match l with b :: r => Some (b, r) | [] => None end)
                      [CPut (mkPbuf 1 600 (s2b "secret of an earlier request")); CGet 2; CGet 3] [] []))
  = [[]; []].
Proof. reflexivity. Qed.
