(** C08 - placeholder until the transducer theorems are stated (see Proofs/ReaderProofs.v). *)
From VG Require Import Model.Reader.
