(** C08 - Results do not depend on how bytes are split across reads, writes, flushes.
    Statements only; proofs in Proofs/StreamProofs.v, Proofs/ReaderProofs.v, Proofs/LogProofs.v,
    Proofs/SegmentProofs.v.

    Proved: the stream primitives (io.ReadFull, io.CopyN, io.Copy through hardLimitReader),
    readRequestMessage and the whole transformingReader see the client's body only as its byte
    string [flat u]: any two bodies with the same bytes and the same terminal status - however
    chunked, with or without io.EOF accompanying the last data - give the backend the same Reads.
    Response side: a handler that passes the same bytes to Write in one piece or cut anywhere into
    non-empty pieces - at any point of any script, with request-side failures anywhere around it,
    for all five body writers - leaves on the client's connection the same head, the same body
    bytes between the same flushes, the same end, and sees the same success or failure
    (C08_write_split_invisible, C08_write_chunking_invisible; Flush is a no-op of the
    responseWriter, so flush placement by the handler is covered by the same statements).
    Not proved here (named _partial): envelopingReader, whose individual Reads mirror the client's
    chunks (only their concatenation is invariant); it is exercised by the reader suite (every
    chunking x every read size). *)
From VG Require Import Model.Bytes Model.Stream Model.Envelope Model.Reader.
From VG Require Import Model.Response Model.Serve.
From VG Require Import Proofs.StreamProofs Proofs.ReaderProofs Proofs.LogProofs Proofs.SegmentProofs.
Open Scope Z_scope.

Theorem C08_read_full_chunking : forall fuel n u acc, (length (u_chunks u) < fuel)%nat ->
  exists u', read_full fuel n u acc =
               ((acc ++ ztake n (flat u), if n <=? zlen (flat u) then SOk else short_status (u_term u) (acc ++ flat u)), u') /\
             flat u' = zdrop n (flat u) /\ u_term u' = u_term u /\ u_eof_last u' = u_eof_last u.
Proof. exact read_full_spec. Qed.
Print Assumptions C08_read_full_chunking.

Theorem C08_copy_limit_chunking : forall limit u, -1 <= limit ->
  exists u', copy_hard_limit limit u =
               ((ztake (limit + 1) (flat u),
                 if limit <? zlen (flat u) then SErr EResourceExhausted else end_status (u_term u)), u') /\
             u_term u' = u_term u /\ u_eof_last u' = u_eof_last u /\ flat u' = zdrop (limit + 1) (flat u).
Proof. exact copy_hard_limit_spec. Qed.
Print Assumptions C08_copy_limit_chunking.

Theorem C08_request_message_chunking : forall cx u u',
  up_equiv u u' -> -1 <= limit cx -> -1 <= content_len cx ->
  rmsg_equiv (read_request_message cx u) (read_request_message cx u').
Proof. exact read_request_message_chunking. Qed.
Print Assumptions C08_request_message_chunking.

(** every Read of the backend on the re-encoding path, for one and the same sequence of buffer sizes *)
Theorem C08_transforming_reader_chunking_partial : forall cx o rfuel, -1 <= limit cx -> -1 <= content_len cx ->
  forall fuel ks u u', up_equiv u u' ->
  tr_drain fuel rfuel cx o (tr_init u) ks = tr_drain fuel rfuel cx o (tr_init u') ks.
Proof.
  intros cx o rfuel Hl Hc fuel ks u u' Q. apply tr_drain_chunking; try assumption.
  unfold tr_init. apply tr_equiv_mk. exact Q.
Qed.
Print Assumptions C08_transforming_reader_chunking_partial.

(** Non-vacuity: three chunkings of one 9-byte gRPC body *)
Definition ex_cx : rctx := mkRctx (Some GrpcC) (Some GrpcS) 100 (-1) false false false false true false.
Definition ex_or : oracles := mkOr (fun b => Some b) (fun b => Some b) (fun b => Some (b ++ b)) (fun b => b) (fun _ => false).
Definition ex_body := h "000000000461626364".
Example C08_ex :
  let run chunks eof := tr_drain 20 20 ex_cx ex_or (tr_init (mkUp chunks EEOF eof)) [3; 3; 3; 3; 3; 3; 3; 3] in
  run [ex_body] false = run (map (fun b => [b]) ex_body) true /\
  run [ex_body] false = run [firstn 2 ex_body; []; skipn 2 ex_body] false /\
  length (run [ex_body] false) = 6%nat.
Proof. vm_compute. repeat split; reflexivity. Qed.

(** * The response side *)

(** One Write of [a ++ b] or two Writes [a], [b] (b non-empty), anywhere in a script: what the
    client's connection sees ([blocks]: the log with adjacent body writes merged), the outcome of
    the exchange and whether all Writes succeeded are the same. *)
Theorem C08_write_split_invisible : forall cx h s1 a b s2, b <> [] ->
  observable (serve_response cx h (s1 ++ BWrite (a ++ b) :: s2)) = observable (serve_response cx h (s1 ++ BWrite a :: BWrite b :: s2)).
Proof. exact write_split_invisible. Qed.
Print Assumptions C08_write_split_invisible.

(** ... hence any cutting of a run of bytes into Writes *)
Theorem C08_write_chunking_invisible : forall cx h s1 s2 cs c0, Forall (fun c => c <> []) cs ->
  observable (serve_response cx h (s1 ++ map BWrite (c0 :: cs) ++ s2)) =
  observable (serve_response cx h (s1 ++ BWrite (c0 ++ concat cs) :: s2)).
Proof. exact write_chunking_invisible. Qed.
Print Assumptions C08_write_chunking_invisible.

(** Nothing on the response side reads the log of what was already sent: every operation commutes
    with putting events in front of it. *)
Theorem C08_response_side_never_reads_its_log : forall cx h s o,
  (let '(r, wr) := run_script cx s (prer o (rw_init h)) [] in
   if existsb (fun x => match x with WPanic => true | _ => false end) wr then (r, wr, WPanic)
   else let '(r', res) := rw_close cx r in (r', wr, res))
  = (let '(r, wr, res) := serve_response cx h s in (prer o r, wr, res)).
Proof. exact serve_response_pre. Qed.
Print Assumptions C08_response_side_never_reads_its_log.

(** Non-vacuity: two gRPC messages for a gRPC-Web client, written whole, byte by byte, and cut
    inside the second prefix.  The raw logs differ, what the client sees does not. *)
Definition ex_wcx : wctx :=
  mkWctx CGrpcWeb SGrpc (Some WebC) (Some GrpcS) 1000 [s2b "gzip"] (s2b "proto") (s2b "proto") true false
         (mkOr (fun b => Some b) (fun b => Some b) (fun b => Some b) (fun b => b) (fun _ => false))
         (mkEor (fun _ => None) (fun _ => None) (fun _ => None) (fun _ _ _ => None)) (fun _ => 10).
Definition ex_resp := h "000000000361626300000000026465".
Definition ex_pre := [BHset (s2b "Content-Type") (s2b "application/grpc+proto"); BStatus 200].
Example C08_ex_writes :
  let run ws := serve_response ex_wcx [] (ex_pre ++ map BWrite ws) in
  observable (run [ex_resp]) = observable (run (map (fun b => [b]) ex_resp)) /\
  observable (run [ex_resp]) = observable (run [firstn 10 ex_resp; skipn 10 ex_resp]) /\
  length (c_out (r_core (fst (fst (run [ex_resp]))))) <> length (c_out (r_core (fst (fst (run (map (fun b => [b]) ex_resp)))))) /\
  snd (observable (run [ex_resp])) = true.
Proof. vm_compute. repeat split; try reflexivity. discriminate. Qed.
