(** C08 - Results do not depend on how bytes are split across reads, writes, flushes.
    Statements only; proofs in Proofs/StreamProofs.v, Proofs/ReaderProofs.v.

    Proved: the stream primitives (io.ReadFull, io.CopyN, io.Copy through hardLimitReader),
    readRequestMessage and the whole transformingReader see the client's body only as its byte
    string [flat u]: any two bodies with the same bytes and the same terminal status - however
    chunked, with or without io.EOF accompanying the last data - give the backend the same Reads.
    Not proved here (named _partial): the same for envelopingReader, whose individual Reads mirror
    the client's chunks (only their concatenation is invariant), and for the writers' independence
    of the handler's Write segmentation.  Both are exercised by the correspondence suites
    (reader: every chunking x every read size; segments: one response under several segmentations
    must be identical). *)
From VG Require Import Model.Bytes Model.Stream Model.Envelope Model.Reader.
From VG Require Import Proofs.StreamProofs Proofs.ReaderProofs.
Open Scope Z_scope.

Theorem C08_read_full_chunking : forall fuel n u acc, (length (u_chunks u) < fuel)%nat ->
  exists u', read_full fuel n u acc =
               ((acc ++ ztake n (flat u), if n <=? zlen (flat u) then SOk else short_status (u_term u) (acc ++ flat u)), u') /\
             flat u' = zdrop n (flat u) /\ u_term u' = u_term u /\ u_eof_last u' = u_eof_last u.
Proof. exact read_full_spec. Qed.
Print Assumptions C08_read_full_chunking.

Theorem C08_copy_limit_chunking : forall limit u, -1 <= limit ->
  exists u', copy_hard_limit limit u =
               ((ztake (limit + 1) (flat u),
                 if limit <? zlen (flat u) then SErr EResourceExhausted else end_status (u_term u)), u') /\
             u_term u' = u_term u /\ u_eof_last u' = u_eof_last u /\ flat u' = zdrop (limit + 1) (flat u).
Proof. exact copy_hard_limit_spec. Qed.
Print Assumptions C08_copy_limit_chunking.

Theorem C08_request_message_chunking : forall cx u u',
  up_equiv u u' -> -1 <= limit cx -> -1 <= content_len cx ->
  rmsg_equiv (read_request_message cx u) (read_request_message cx u').
Proof. exact read_request_message_chunking. Qed.
Print Assumptions C08_request_message_chunking.

(** every Read of the backend on the re-encoding path, for one and the same sequence of buffer sizes *)
Theorem C08_transforming_reader_chunking_partial : forall cx o rfuel, -1 <= limit cx -> -1 <= content_len cx ->
  forall fuel ks u u', up_equiv u u' ->
  tr_drain fuel rfuel cx o (tr_init u) ks = tr_drain fuel rfuel cx o (tr_init u') ks.
Proof.
  intros cx o rfuel Hl Hc fuel ks u u' Q. apply tr_drain_chunking; try assumption.
  unfold tr_init. apply tr_equiv_mk. exact Q.
Qed.
Print Assumptions C08_transforming_reader_chunking_partial.

(** Non-vacuity: three chunkings of one 9-byte gRPC body *)
Definition ex_cx : rctx := mkRctx (Some GrpcC) (Some GrpcS) 100 (-1) false false false false true false.
Definition ex_or : oracles := mkOr (fun b => Some b) (fun b => Some b) (fun b => Some (b ++ b)) (fun b => b) (fun _ => false).
Definition ex_body := h "000000000461626364".
Example C08_ex :
  let run chunks eof := tr_drain 20 20 ex_cx ex_or (tr_init (mkUp chunks EEOF eof)) [3; 3; 3; 3; 3; 3; 3; 3] in
  run [ex_body] false = run (map (fun b => [b]) ex_body) true /\
  run [ex_body] false = run [firstn 2 ex_body; []; skipn 2 ex_body] false /\
  length (run [ex_body] false) = 6%nat.
Proof. vm_compute. repeat split; reflexivity. Qed.
