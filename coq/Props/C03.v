(** C03 - Client gets a valid response in its own protocol with exactly one outcome.
    Statements only; proofs in Proofs/ResponseProofs.v.

    [serve_response cx h s] runs the handler's script [s] (header changes, WriteHeader, Write,
    Flush, and request-side failures reported at any point: [BReadFault]) against the
    responseWriter and closes it.  [c_out] is the log of what was done to the client's
    http.ResponseWriter: [DHead] WriteHeader, [DWrite] body bytes, [DFlush], [DEnd] the end
    rendered into the body (error body, end-stream frame, trailer frame), [DTrailers] the end
    rendered as HTTP trailers, [DDone] the (ghost) mark that the end has been dealt with. *)
From VG Require Import Model.Bytes Model.Headers Model.RespMeta Model.Response Model.Request Model.Serve.
From VG Require Import Proofs.ResponseProofs Proofs.NoPanicProofs.
Open Scope Z_scope.

(** Exactly one head, first; then body writes and flushes; then exactly one end, carried by at
    most one terminal event; after it nothing but flushes - for every handler behaviour and every
    placement of request-side failures, whenever serving does not panic. *)
Theorem C03_one_head_one_end_nothing_after : forall cx h s r wr res,
  serve_response cx h s = (r, wr, res) -> res <> WPanic ->
  exists code hd eh body tail fl,
    c_out (r_core r) = DHead code hd eh :: body ++ tail ++ DDone :: fl /\
    forallb (fun e => negb (is_head e) && negb (is_term e) && negb (is_done e)) body = true /\
    (tail = [] \/ exists t, is_term t = true /\ tail = [t]) /\ forallb is_flush fl = true.
Proof. exact finished_response_shape. Qed.
Print Assumptions C03_one_head_one_end_nothing_after.

(** ... and serving never panics, so this is every response: *)
Theorem C03_every_response_is_well_formed : forall cx h s r wr res,
  serve_response cx h s = (r, wr, res) ->
  exists code hd eh body tail fl,
    c_out (r_core r) = DHead code hd eh :: body ++ tail ++ DDone :: fl /\
    forallb (fun e => negb (is_head e) && negb (is_term e) && negb (is_done e)) body = true /\
    (tail = [] \/ exists t, is_term t = true /\ tail = [t]) /\ forallb is_flush fl = true.
Proof. intros cx h s r wr res H. eapply finished_response_shape; [exact H|]. eapply serve_response_never_panics; eauto. Qed.
Print Assumptions C03_every_response_is_well_formed.

(** The same discipline holds at every moment while the handler is still running (also when
    serving later panics): the log is always accepted by the automaton [orun], in the state the
    writer's own flags say. *)
Theorem C03_discipline_throughout : forall cx s h r wr,
  run_script cx s (rw_init h) [] = (r, wr) ->
  orun S0 (c_out (r_core r)) = Some (st_of (r_core r)) /\
  (c_end_written (r_core r) = true -> c_flushed (r_core r) = true) /\
  c_err (r_core r) = c_end_written (r_core r).
Proof.
  intros cx s h r wr H. destruct (run_script_inv cx s _ _ _ _ (RwInv_init cx h) H) as ((Hr & Hf & _ & He) & _). auto.
Qed.
Print Assumptions C03_discipline_throughout.

Theorem C03_accepted_logs : forall l s, orun S0 l = Some s ->
  l = [] \/
  exists code h eh body tail, l = DHead code h eh :: body ++ tail /\
    forallb (fun e => negb (is_head e) && negb (is_term e) && negb (is_done e)) body = true /\
    (tail = [] \/
     (exists t, is_term t = true /\ tail = [t]) \/
     (exists fl, tail = DDone :: fl /\ forallb is_flush fl = true) \/
     (exists t fl, is_term t = true /\ tail = t :: DDone :: fl /\ forallb is_flush fl = true)).
Proof. exact orun_shape. Qed.
Print Assumptions C03_accepted_logs.

(** Once the end is written, nothing the handler does reaches the client any more: Write fails
    and WriteHeader is ignored. *)
Theorem C03_write_after_end_refused : forall cx d r,
  r_headers_written r = true -> c_err (r_core r) = true -> rw_write cx d r = (r, WFail).
Proof. intros cx d r Hw He. unfold rw_write. rewrite Hw, He. reflexivity. Qed.
Print Assumptions C03_write_after_end_refused.

(** Content type and status the client's protocol prescribes. *)
Theorem C03_head_of_streaming_protocols : forall c m h,
  match c with CGrpc | CGrpcWeb | CConnectStream => True | _ => False end -> rm_end m = None ->
  ho_status (add_response_headers c m h) = 200 /\
  hget k_content_type (ho_hdrs (add_response_headers c m h)) =
    (match c with CGrpc => s2b "application/grpc+" | CGrpcWeb => s2b "application/grpc-web+" | _ => s2b "application/connect+" end) ++ rm_codec m.
Proof. exact head_streaming. Qed.
Print Assumptions C03_head_of_streaming_protocols.

Theorem C03_head_of_connect_unary : forall c m h,
  match c with CConnectPost | CConnectGet => True | _ => False end ->
  let ho := add_response_headers c m h in
  match rm_end m with
  | Some e => match re_err e with
              | Some err => ho_status ho = rpc_http_status (Some err) /\ hget k_content_type (ho_hdrs ho) = s2b "application/json"
              | None => ho_status ho = 200 /\ hget k_content_type (ho_hdrs ho) = s2b "application/" ++ rm_codec m
              end
  | None => ho_status ho = 200 /\ hget k_content_type (ho_hdrs ho) = s2b "application/" ++ rm_codec m
  end.
Proof. exact head_connect_unary. Qed.
Print Assumptions C03_head_of_connect_unary.

(** A buffered (unary) success body is sent with a Content-Length equal to its length. *)
Theorem C03_content_length : forall cx c m b,
  c_flushed c = false -> c_meta c = Some m -> c_buf c = Some b -> has_err m = false ->
  exists st hd eh rest,
    c_out (flush_headers cx c) = c_out c ++ DHead st hd eh :: DWrite b :: rest /\
    hget (s2b "Content-Length") hd = format_nat (length b).
Proof. exact buffered_content_length. Qed.
Print Assumptions C03_content_length.

(** Non-vacuity: a gRPC-Web client of a gRPC backend; the request side fails after the first
    response message.  One head, the message, the error as the only end, nothing after. *)
Definition ex_cx : wctx :=
  mkWctx CGrpcWeb SGrpc (Some WebC) (Some GrpcS) 1000 [s2b "gzip"] (s2b "proto") (s2b "proto") true false
         (mkOr (fun b => Some b) (fun b => Some b) (fun b => Some b) (fun b => b) (fun _ => false))
         (mkEor (fun _ => None) (fun _ => None) (fun _ => None) (fun _ _ _ => None)) (fun _ => 10).
Definition ex_script : list baction :=
  [BHset (s2b "Content-Type") (s2b "application/grpc+proto"); BStatus 200;
   BWrite (h "0000000003616263"); BReadFault EInvalidArgument; BWrite (h "0000000003646566")].
Example C03_ex :
  let '(r, wr, res) := serve_response ex_cx [] ex_script in
  map (fun e => match e with DHead _ _ _ => 1 | DWrite _ => 2 | DFlush => 3 | DEnd _ => 4 | DTrailers _ => 5 | DDone => 6 end) (c_out (r_core r))
  = [1; 2; 2; 3; 4; 6; 3] /\ wr = [WOk; WFail] /\ res = WOk.
Proof. vm_compute. repeat split; reflexivity. Qed.
