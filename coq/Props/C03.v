(** C03 - placeholder *)
From VG Require Import Model.Serve.
