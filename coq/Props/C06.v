(** C06 - Routing dispatches exactly the method whose binding matches the request.
    Statements only; proofs in Proofs/RouterProofs.v.

    [items_of rs] are the entries the trie holds after inserting routes [rs] in order (routes
    whose (template, verb, method) is already present are refused).  [find items path verb] is
    routeTrie.findTarget: the methods map reached ([] = nothing reached = 404);
    [get_target] is getTarget.  [tmatch] is the independent template matcher. *)
From VG Require Import Model.Bytes Model.Percent Model.Router Proofs.PercentProofs Proofs.RouterProofs.
From Coq Require Import Permutation.

(** Only an inserted binding whose template matches path and verb can be reached. *)
Theorem C06_sound : forall rs path verb it',
  routes_wf rs -> In it' (find (items_of rs) path verb) ->
  exists r, nth_error rs (it_idx it') = Some r /\ tmatch (r_path r) path = true /\
            r_verb r = verb /\ r_meth r = it_meth it'.
Proof. exact route_sound. Qed.
Print Assumptions C06_sound.

(** ... and it is selected only for its own HTTP method (or a "*" binding). *)
Theorem C06_method : forall meth ends it, get_target meth ends = Some it ->
  In it ends /\ (it_meth it = meth \/ it_meth it = star).
Proof. exact get_target_method. Qed.
Print Assumptions C06_method.

(** 404 exactly when no inserted template matches. *)
Theorem C06_404 : forall rs path verb, routes_wf rs ->
  (find (items_of rs) path verb = [] <->
   forall it, In it (items_of rs) -> ~ (tmatch (it_rem it) path = true /\ it_verb it = verb)).
Proof. exact route_404. Qed.
Print Assumptions C06_404.

(** 405: the candidates reached all belong to ONE template, and they are ALL of that
    template's bindings for the verb - so the Allow header lists methods that template has,
    and a 405 means that template has no binding for the request's method. *)
Theorem C06_one_template : forall rs path verb a b,
  In a (find (items_of rs) path verb) -> In b (find (items_of rs) path verb) -> it_tmpl a = it_tmpl b.
Proof. exact route_one_template. Qed.
Print Assumptions C06_one_template.

Theorem C06_whole_template : forall rs path verb a it,
  In a (find (items_of rs) path verb) -> In it (items_of rs) -> it_tmpl it = it_tmpl a -> it_verb it = verb ->
  exists it', In it' (find (items_of rs) path verb) /\ same_entry it' it.
Proof. exact route_whole_template. Qed.
Print Assumptions C06_whole_template.

Theorem C06_405 : forall meth ends, get_target meth ends = None ->
  forall it, In it ends -> it_meth it <> meth /\ it_meth it <> star.
Proof. exact get_target_none. Qed.
Print Assumptions C06_405.

(** An all-literal template equal to the request path takes precedence over every template
    with wildcards. *)
Theorem C06_literal_precedence : forall rs path verb lit a,
  routes_wf rs -> In lit (items_of rs) -> it_rem lit = path -> all_literal path = true -> it_verb lit = verb ->
  In a (find (items_of rs) path verb) -> it_tmpl a = path.
Proof. exact route_literal_precedence. Qed.
Print Assumptions C06_literal_precedence.

(** The outcome does not depend on registration order: any permutation of the entries gives
    the same candidates and the same selected target. *)
Theorem C06_order_independent : forall rs items' path verb meth,
  routes_wf rs -> Permutation (items_of rs) items' ->
  Permutation (find (items_of rs) path verb) (find items' path verb) /\
  get_target meth (find (items_of rs) path verb) = get_target meth (find items' path verb).
Proof. exact route_order_independent. Qed.
Print Assumptions C06_order_independent.

(** Captured values are percent-decoded once: decoding inverts the encoding of any value
    (single-segment mode). *)
Theorem C06_decode_once : forall s, wf_bytes s = true -> path_unescape false (path_escape false s) = Some s.
Proof. exact path_escape_single_roundtrip. Qed.
Print Assumptions C06_decode_once.

(** Non-vacuity. *)
Definition ex_routes := [mkRoute (s2b "GET") [s2b "v1"; star; s2b "books"] [] [mkVar 1 (Some 2%nat)];
                         mkRoute (s2b "POST") [s2b "v1"; s2b "x"; s2b "books"] [] [];
                         mkRoute (s2b "GET") [s2b "v1"; dstar] [] [mkVar 1 None]].
Example C06_ex1 : trie_match ex_routes (items_of ex_routes) (s2b "/v1/a%2Fb/books") (s2b "GET") = Found 0 [s2b "a/b"].
Proof. vm_compute. reflexivity. Qed.
Example C06_ex2 : trie_match ex_routes (items_of ex_routes) (s2b "/v1/x/books") (s2b "GET") = NotAllowed [s2b "POST"].
Proof. vm_compute. reflexivity. Qed.
Example C06_ex3 : trie_match ex_routes (items_of ex_routes) (s2b "/v1/a%2Fb/c") (s2b "GET") = Found 2 [s2b "a%2Fb/c"].
Proof. vm_compute. reflexivity. Qed.
