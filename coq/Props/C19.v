(** C19 - GET is accepted and issued only for side-effect-free methods.
    Statements only; proofs in Proofs/GetProofs.v. *)
From VG Require Import Model.GetDecision Proofs.GetProofs.
Open Scope Z_scope.

(** Acceptance: a Connect GET resolves to a method only if the method is declared
    side-effect free ... *)
Theorem C19_accepted_only_nse : forall t r m rest,
  classify_request r = Some CConnectGet ->
  resolve_method t CConnectGet r = RMethod m rest -> mc_no_side_effects m = true.
Proof. exact get_accepted_only_nse. Qed.
Print Assumptions C19_accepted_only_nse.

(** ... and is answered 405 with Allow: POST otherwise. *)
Theorem C19_rejected_405 : forall t r m,
  find_method (q_path r) (tc_methods t) = Some m -> mc_no_side_effects m = false ->
  bytes_eqb (q_method r) m_post = false ->
  resolve_method t CConnectGet r = RErrorRes 405 (Some (s2b "POST")).
Proof. exact get_rejected_405. Qed.
Print Assumptions C19_rejected_405.

(** Issue: GET goes to a Connect backend only when the client's own request was a GET, the
    method is side-effect free, the codec is stable and the URL (path + '?' + query) fits. *)
Theorem C19_get_issued_only_if : forall cm m stable binary codec comp data q,
  connect_request_line cm m stable binary codec comp data = RLGet q ->
  cm = m_get /\ stable = true /\ mc_no_side_effects m = true /\
  q = connect_get_query codec comp binary data /\
  zlen (mc_path m) + zlen q + 1 <= mc_max_get m.
Proof. exact get_issued_only_if. Qed.
Print Assumptions C19_get_issued_only_if.

Theorem C19_post_otherwise : forall cm m stable binary codec comp data,
  (cm <> m_get \/ stable = false \/ mc_no_side_effects m = false \/
   mc_max_get m < zlen (mc_path m) + zlen (connect_get_query codec comp binary data) + 1) ->
  connect_request_line cm m stable binary codec comp data = RLPost.
Proof. exact post_otherwise. Qed.
Print Assumptions C19_post_otherwise.

Theorem C19_get_when_fits : forall m binary codec comp data,
  mc_no_side_effects m = true ->
  zlen (mc_path m) + zlen (connect_get_query codec comp binary data) + 1 <= mc_max_get m ->
  connect_request_line m_get m true binary codec comp data = RLGet (connect_get_query codec comp binary data).
Proof. exact get_when_fits. Qed.
Print Assumptions C19_get_when_fits.

Example C19_ex : connect_get_query (s2b "json") [] false (s2b "{""a"":1}") = s2b "connect=v1&encoding=json&message=%7B%22a%22%3A1%7D".
Proof. vm_compute. reflexivity. Qed.
