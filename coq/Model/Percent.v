(** Percent encodings: grpcPercentEncode/Decode (protocol_grpc.go), pathEscape/pathUnescape,
    validateHex, unhex, pathIsHexSlash (path_parser.go).  Character classes are regenerated
    from the source (grpc_should_escape, path_should_escape, is_hex). *)
From VG Require Export Model.Bytes.
From VG Require Import Gen.Generated.
Open Scope Z_scope.

Definition upperhex (n : N) : N := if (n <? 10)%N then (48 + n)%N else (55 + n)%N.

(** unhex: 0 for non-hex characters, as in the Go code *)
Definition unhex (c : N) : N :=
  if ((48 <=? c) && (c <=? 57))%N then (c - 48)%N
  else if ((97 <=? c) && (c <=? 102))%N then (c - 87)%N
  else if ((65 <=? c) && (c <=? 70))%N then (c - 55)%N
  else 0%N.

Definition ishex (c : N) : bool := is_hex (Z.of_N c).

Definition esc_byte (c : N) : bytes := [37%N; upperhex (c / 16); upperhex (c mod 16)].

(** grpcPercentEncode *)
Fixpoint grpc_percent_encode (s : bytes) : bytes :=
  match s with
  | [] => []
  | c :: r => (if grpc_should_escape (Z.of_N c) then esc_byte c else [c]) ++ grpc_percent_encode r
  end.

(** grpcPercentDecode / pathUnescape share their two passes: validation of every '%XX'
    (error otherwise), then substitution.  [keep_slash] is pathEncodeMulti's exception:
    "%2F"/"%2f" is emitted as the three characters "%2F". *)
Definition is_hex_slash (a b : N) : bool := ((a =? 50)%N && ((b =? 102)%N || (b =? 70)%N)).

Fixpoint unescape (keep_slash : bool) (s : bytes) : option bytes :=
  match s with
  | [] => Some []
  | c :: r =>
      if (c =? 37)%N then
        match r with
        | a :: b :: r' =>
            if ishex a && ishex b then
              match unescape keep_slash r' with
              | Some t => Some (if keep_slash && is_hex_slash a b then 37%N :: 50%N :: 70%N :: t
                                else ((unhex a * 16 + unhex b)%N :: t))
              | None => None
              end
            else None
        | _ => None
        end
      else match unescape keep_slash r with Some t => Some (c :: t) | None => None end
  end.

Definition grpc_percent_decode := unescape false.

(** pathEscape: mode multi keeps an existing "%2F"/"%2f" as "%2F" *)
Fixpoint path_escape (multi : bool) (s : bytes) : bytes :=
  match s with
  | [] => []
  | c :: r =>
      match r with
      | a :: b :: r' =>
          if multi && (c =? 37)%N && is_hex_slash a b
          then 37%N :: 50%N :: 70%N :: path_escape multi r'
          else (if path_should_escape (Z.of_N c) then esc_byte c else [c]) ++ path_escape multi r
      | _ => (if path_should_escape (Z.of_N c) then esc_byte c else [c]) ++ path_escape multi r
      end
  end.

Definition path_unescape (multi : bool) := unescape multi.
