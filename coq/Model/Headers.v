(** http.Header as an association list over canonical keys, parseMultiHeader,
    httpExtractTrailers, httpMergeTrailers, connectExtractUnaryTrailers (protocol.go,
    protocol_http.go, protocol_connect.go).  Keys are assumed canonical (the harness only uses
    canonical keys; canonicalisation itself is net/textproto's). *)
From VG Require Export Model.Bytes.
Open Scope Z_scope.

Definition hdrs := list (bytes * list bytes).

Fixpoint hvalues (k : bytes) (h : hdrs) : list bytes :=
  match h with
  | [] => []
  | (k', vs) :: r => if bytes_eqb k' k then vs else hvalues k r
  end.

Definition hget (k : bytes) (h : hdrs) : bytes := match hvalues k h with v :: _ => v | [] => [] end.

Fixpoint hhas (k : bytes) (h : hdrs) : bool :=
  match h with [] => false | (k', _) :: r => bytes_eqb k' k || hhas k r end.

Fixpoint hdel (k : bytes) (h : hdrs) : hdrs :=
  match h with
  | [] => []
  | (k', vs) :: r => if bytes_eqb k' k then hdel k r else (k', vs) :: hdel k r
  end.

(** headers[k] = vs *)
Fixpoint hput (k : bytes) (vs : list bytes) (h : hdrs) : hdrs :=
  match h with
  | [] => [(k, vs)]
  | (k', vs') :: r => if bytes_eqb k' k then (k, vs) :: r else (k', vs') :: hput k vs r
  end.

Definition hset (k v : bytes) (h : hdrs) : hdrs := hput k [v] h.

Fixpoint hadd (k v : bytes) (h : hdrs) : hdrs :=
  match h with
  | [] => [(k, [v])]
  | (k', vs') :: r => if bytes_eqb k' k then (k', vs' ++ [v]) :: r else (k', vs') :: hadd k v r
  end.

Fixpoint is_prefix (p s : bytes) : bool :=
  match p, s with
  | [], _ => true
  | a :: p', b :: s' => (a =? b)%N && is_prefix p' s'
  | _, [] => false
  end.

Definition strip_prefix (p s : bytes) : bytes := if is_prefix p s then skipn (length p) s else s.

(** strings.TrimSpace for ASCII white space *)
Definition is_space (c : N) : bool := (c =? 32)%N || ((9 <=? c)%N && (c <=? 13)%N).
Fixpoint trim_left (s : bytes) : bytes := match s with c :: r => if is_space c then trim_left r else s | [] => [] end.
Definition trim_space (s : bytes) : bytes := rev (trim_left (rev (trim_left s))).

Fixpoint split_comma (s cur : bytes) : list bytes :=
  match s with
  | [] => [rev cur]
  | c :: r => if (c =? 44)%N then rev cur :: split_comma r [] else split_comma r (c :: cur)
  end.

(** parseMultiHeader: split every value at ',', drop items that are empty before trimming *)
Definition parse_multi_header (vals : list bytes) : list bytes :=
  flat_map (fun v => map trim_space (filter (fun it => negb (Nat.eqb (length it) 0)) (split_comma v []))) vals.

Fixpoint join_comma_space (l : list bytes) : bytes :=
  match l with
  | [] => []
  | [x] => x
  | x :: r => x ++ [44%N; 32%N] ++ join_comma_space r
  end.

Definition trailer_prefix : bytes := s2b "Trailer:".

(** httpExtractTrailers(headers, knownKeys): (trailers, remaining headers) *)
Fixpoint http_extract_trailers (known : list bytes) (h : hdrs) : hdrs * hdrs :=
  match h with
  | [] => ([], [])
  | (k, vs) :: r =>
      let '(t, rest) := http_extract_trailers known r in
      if is_prefix trailer_prefix k then ((strip_prefix trailer_prefix k, vs) :: t, rest)
      else if existsb (bytes_eqb k) known then ((k, vs) :: t, rest)
      else (t, (k, vs) :: rest)
  end.

(** httpMergeTrailers(header, trailer): the given values replace whatever is there for the
    same trailer, prefixed or plain *)
Fixpoint http_merge_trailers (h : hdrs) (t : hdrs) : hdrs :=
  match t with
  | [] => h
  | (k, vs) :: r =>
      let plain := strip_prefix trailer_prefix k in
      http_merge_trailers (hput (trailer_prefix ++ plain) vs (hdel plain h)) r
  end.

(** connectExtractUnaryTrailers: keys with prefix "Trailer-" *)
Definition connect_trailer_prefix : bytes := s2b "Trailer-".
Fixpoint connect_extract_unary_trailers (h : hdrs) : hdrs * hdrs :=
  match h with
  | [] => ([], [])
  | (k, vs) :: r =>
      let '(t, rest) := connect_extract_unary_trailers r in
      if is_prefix connect_trailer_prefix k then ((skipn 8 k, vs) :: t, rest) else (t, (k, vs) :: rest)
  end.

(** maps.Copy(dst, src): overwrite per key *)
Definition hcopy (dst src : hdrs) : hdrs := fold_left (fun acc kv => hput (fst kv) (snd kv) acc) src dst.
