(** Request side up to the dispatch decision (transcoder.go: classifyRequest,
    operation.validate, resolveMethod (RPC paths), negotiation; protocol_*.go:
    extractProtocolRequestHeaders and addProtocolRequestHeaders). *)
From VG Require Export Model.Headers Model.RespMeta Model.Timeout Model.Envelope.
From VG Require Import Gen.Generated Model.Router.
Open Scope Z_scope.

Record creq := mkReq {
  q_method : bytes;
  q_path : bytes;                    (* URL.Path *)
  q_escaped_path : bytes;            (* URL.EscapedPath() *)
  q_query : list (bytes * bytes);    (* url.ParseQuery(RawQuery), in order *)
  q_has_query : bool;                (* RawQuery != "" *)
  q_proto_major : Z;
  q_hdr : hdrs;
  q_content_len : Z
}.

Fixpoint qget (k : bytes) (q : list (bytes * bytes)) : bytes :=
  match q with [] => [] | (k', v) :: r => if bytes_eqb k' k then v else qget k r end.

Definition m_get := s2b "GET".
Definition m_post := s2b "POST".

(** classifyRequest: None = unclassifiable (415) *)
Definition classify_request (r : creq) : option cproto :=
  let cts := hvalues k_content_type (q_hdr r) in
  let ver := hvalues (s2b "Connect-Protocol-Version") (q_hdr r) in
  let ver1 := match ver with [v] => bytes_eqb v (s2b "1") | _ => false end in
  let is_get := bytes_eqb (q_method r) m_get in
  let by_query :=
    if bytes_eqb (qget (s2b "connect") (q_query r)) (s2b "v1")
    then (if is_get then Some CConnectGet else None)
    else Some CRest in
  match cts with
  | [] => if ver1 then (if is_get then Some CConnectGet else None) else by_query
  | [ct] =>
      if is_prefix (s2b "application/connect+") ct then Some CConnectStream
      else if bytes_eqb ct (s2b "application/grpc") || is_prefix (s2b "application/grpc+") ct then Some CGrpc
      else if bytes_eqb ct (s2b "application/grpc-web") || is_prefix (s2b "application/grpc-web+") ct then Some CGrpcWeb
      else if is_prefix (s2b "application/") ct then
        if ver1 then (if is_get then Some CConnectGet else Some CConnectPost) else by_query
      else Some CRest
  | _ => None
  end.

Definition cproto_protocol (c : cproto) : Z :=
  match c with
  | CConnectPost | CConnectGet | CConnectStream => c_ProtocolConnect
  | CGrpc => c_ProtocolGRPC | CGrpcWeb => c_ProtocolGRPCWeb | CRest => c_ProtocolREST
  end.

Record mconf := mkMconf {
  mc_path : bytes;                 (* "/<service>/<method>" *)
  mc_stream : Z;                   (* 0 unary, 1 client, 2 server, 3 bidi *)
  mc_no_side_effects : bool;
  mc_has_rest : bool;              (* methodConf.httpRule != nil *)
  mc_protocols : list Z;
  mc_codecs : list bytes;
  mc_preferred : bytes;
  mc_comps : list bytes;
  mc_limit : Z;
  mc_max_get : Z
}.

(** one REST binding: the route (for the trie) and what validate needs to know about it *)
Record rbinding := mkRb {
  rb_route : route;
  rb_method_path : bytes;          (* methodConf.methodPath of the bound method *)
  rb_httpbody_req : bool;          (* restHTTPBodyRequest *)
  rb_httpbody_resp : bool          (* restHTTPBodyResponse *)
}.

Record tconf := mkTconf {
  tc_methods : list mconf;
  tc_bindings : list rbinding;
  tc_known_codecs : list bytes;
  tc_known_comps : list bytes;
  tc_has_unknown : bool
}.

Fixpoint find_method (p : bytes) (l : list mconf) : option mconf :=
  match l with [] => None | m :: r => if bytes_eqb (mc_path m) p then Some m else find_method p r end.

(** requestMeta *)
Record reqmeta := mkRM { rq_tmo : tmo; rq_codec : bytes; rq_comp : bytes; rq_accept : list bytes }.

Inductive hres (A : Type) := HOk (a : A) | HReject.   (* HReject: error -> HTTP 400 *)
Arguments HOk {A} a. Arguments HReject {A}.

Definition lower_ascii (c : N) : N := if ((65 <=? c) && (c <=? 90))%N then (c + 32)%N else c.

Definition hopt (k : bytes) (h : hdrs) : option bytes := if hhas k h then Some (hget k h) else None.

(** extractProtocolRequestHeaders: (meta, headers after deletions).  REST timeouts go through
    the float oracle [pf]. *)
Definition extract_request (pf : bytes -> option Z) (httpbody_req : bool) (c : cproto) (r : creq) (h : hdrs) : hres (reqmeta * hdrs) :=
  match c with
  | CGrpc | CGrpcWeb =>
      let h := match c with CGrpc => hdel (s2b "Te") h | _ => h end in
      let short := match c with CGrpc => s2b "application/grpc" | _ => s2b "application/grpc-web" end in
      match grpc_extract (hopt (s2b "Grpc-Timeout") h) with
      | Reject => HReject
      | Ok t =>
          let h := hdel (s2b "Grpc-Timeout") h in
          let ct := hget k_content_type h in
          let codec := if bytes_eqb ct short then s2b "proto" else strip_prefix (short ++ s2b "+") ct in
          let h := hdel k_content_type h in
          let comp := hget (s2b "Grpc-Encoding") h in
          let h := hdel (s2b "Grpc-Encoding") h in
          let acc := parse_multi_header (hvalues (s2b "Grpc-Accept-Encoding") h) in
          let h := hdel (s2b "Grpc-Accept-Encoding") h in
          HOk (mkRM t codec comp acc, h)
      end
  | CConnectPost | CConnectGet | CConnectStream =>
      match connect_extract (hopt (s2b "Connect-Timeout-Ms") h) with
      | Reject => HReject
      | Ok t =>
          let h := hdel (s2b "Connect-Timeout-Ms") h in
          match c with
          | CConnectGet =>
              let codec := qget (s2b "encoding") (q_query r) in
              let comp := qget (s2b "compression") (q_query r) in
              let acc := parse_multi_header (hvalues (s2b "Accept-Encoding") h) in
              let h := hdel (s2b "Connect-Protocol-Version") (hdel k_content_type (hdel (s2b "Accept-Encoding") h)) in
              HOk (mkRM t codec comp acc, h)
          | CConnectPost =>
              let codec0 := strip_prefix (s2b "application/") (hget k_content_type h) in
              let codec := if bytes_eqb codec0 (s2b "json; charset=utf-8") then s2b "json" else codec0 in
              let h := hdel k_content_type h in
              let comp := hget (s2b "Content-Encoding") h in
              let h := hdel (s2b "Content-Encoding") h in
              let acc := parse_multi_header (hvalues (s2b "Accept-Encoding") h) in
              let h := hdel (s2b "Connect-Protocol-Version") (hdel (s2b "Accept-Encoding") h) in
              HOk (mkRM t codec comp acc, h)
          | _ =>
              let codec := strip_prefix (s2b "application/connect+") (hget k_content_type h) in
              let h := hdel k_content_type h in
              let comp := hget (s2b "Connect-Content-Encoding") h in
              let h := hdel (s2b "Connect-Content-Encoding") h in
              let acc := parse_multi_header (hvalues (s2b "Connect-Accept-Encoding") h) in
              let h := hdel (s2b "Connect-Accept-Encoding") h in
              HOk (mkRM t codec comp acc, h)
          end
      end
  | CRest =>
      let comp := hget (s2b "Content-Encoding") h in
      let h := hdel (s2b "Content-Encoding") h in
      let acc := parse_multi_header (hvalues (s2b "Accept-Encoding") h) in
      let h := hdel (s2b "Accept-Encoding") h in
      let ct := hget k_content_type h in
      let media := trim_space (map lower_ascii (before_semicolon ct)) in
      let codec := if negb (Nat.eqb (length ct) 0) && negb httpbody_req && negb (bytes_eqb media (s2b "application/json"))
                   then ct ++ s2b "?" else s2b "json" in
      let h := hdel k_content_type h in
      match rest_extract pf (hopt (s2b "X-Server-Timeout") h) with
      | Reject => HReject
      | Ok t => HOk (mkRM t codec comp acc, h)
      end
  end.

Inductive sform := SFConnectUnary | SFConnectStream | SFGrpc | SFGrpcWeb | SFRest.

Definition server_handler (p : Z) (stream : Z) : option sproto :=
  if p =? c_ProtocolConnect then Some (if stream =? 0 then SConnectUnary else SConnectStream)
  else if p =? c_ProtocolGRPC then Some SGrpc
  else if p =? c_ProtocolGRPCWeb then Some SGrpcWeb
  else if p =? c_ProtocolREST then Some SRest
  else None.

Definition zmem (z : Z) (l : list Z) : bool := existsb (Z.eqb z) l.
Definition bmem (b : bytes) (l : list bytes) : bool := existsb (bytes_eqb b) l.

(** protocol negotiation: the client's protocol if the service accepts it, else the first of
    allProtocols (regenerated order) that it accepts *)
Definition negotiate_protocol (client : Z) (accepted : list Z) : option Z :=
  if zmem client accepted then Some client
  else List.find (fun p => zmem p accepted) all_protocols.

Definition accepts_stream (c : cproto) (stream : Z) : bool :=
  match c with
  | CConnectPost | CConnectGet => stream =? 0
  | CConnectStream => negb (stream =? 0)
  | CGrpc | CGrpcWeb => true
  | CRest => false           (* decided per binding: see rest_accepts_stream *)
  end.

Definition rest_accepts_stream (b : rbinding) (stream : Z) : bool :=
  if stream =? 0 then true else if stream =? 1 then rb_httpbody_req b
  else if stream =? 2 then rb_httpbody_resp b else false.

(** the operation after a successful validate *)
Record opv := mkOp {
  op_client : cproto;
  op_server : sproto;
  op_method : mconf;
  op_meta : reqmeta;               (* compression normalised *)
  op_client_codec : bytes;
  op_server_codec : bytes;
  op_client_comp : bytes;          (* "" = none *)
  op_server_comp : bytes;
  op_hdr : hdrs;                   (* request headers after the deletions of validate *)
  op_proto_major : Z;
  op_rest : option (rbinding * list bytes)   (* REST client: matched binding and captured variables *)
}.

Inductive vres :=
| VError (status : Z) (allow : option bytes)   (* reportError with !isValid: plain HTTP error *)
| VNotFound
| VOk (o : opv).

Fixpoint join_comma (l : list bytes) : bytes :=
  match l with [] => [] | [x] => x | x :: r => x ++ 44%N :: join_comma r end.

(** resolveMethod *)
Inductive resolved := RErrorRes (status : Z) (allow : option bytes) | RNotFound
                    | RMethod (m : mconf) (rest : option (rbinding * list bytes)).

Definition resolve_method (t : tconf) (c : cproto) (r : creq) : resolved :=
  match c with
  | CRest =>
      let routes := map rb_route (tc_bindings t) in
      match trie_match routes (fst (build routes)) (q_escaped_path r) (q_method r) with
      | NotFound => RNotFound
      | NotAllowed ms => RErrorRes 405 (Some (join_comma ms))   (* order follows Go map iteration *)
      | Found idx vars =>
          match nth_error (tc_bindings t) idx with
          | None => RNotFound
          | Some b => match find_method (rb_method_path b) (tc_methods t) with
                      | Some m => RMethod m (Some (b, vars))
                      | None => RNotFound
                      end
          end
      end
  | _ =>
      match find_method (q_path r) (tc_methods t) with
      | None => RNotFound
      | Some m =>
          let is_post := bytes_eqb (q_method r) m_post in
          let allows_get := match c with CConnectGet => mc_no_side_effects m | _ => false end in
          if negb is_post && negb allows_get then RErrorRes 405 (Some (s2b "POST"))
          else if negb is_post && negb (bytes_eqb (q_method r) m_get) then RErrorRes 405 (Some (s2b "GET,POST"))
          else RMethod m None
      end
  end.

(** operation.validate *)
Definition validate (pf : bytes -> option Z) (t : tconf) (r : creq) : vres :=
  match classify_request r with
  | None => VError 415 None
  | Some c =>
      match resolve_method t c r with
      | RNotFound => VNotFound
      | RErrorRes st allow => VError st allow
      | RMethod m rest =>
          let stream_ok := match c, rest with
                           | CRest, Some (b, _) => rest_accepts_stream b (mc_stream m)
                           | _, _ => accepts_stream c (mc_stream m)
                           end in
          if negb stream_ok then VError 415 None
          else if (mc_stream m =? 3) && (q_proto_major r <? 2) then VError 505 None
          else if (cproto_protocol c =? c_ProtocolGRPC) && negb (q_proto_major r =? 2) then VError 505 None
          else
            let hb := match rest with Some (b, _) => rb_httpbody_req b | None => false end in
            match extract_request pf hb c r (q_hdr r) with
            | HReject => VError 400 None
            | HOk (meta, h) =>
                let enc := hget (s2b "Content-Encoding") h in
                if negb (Nat.eqb (length enc) 0) && negb (bytes_eqb enc (s2b "identity")) then VError 415 None else
                let h := hdel (s2b "Content-Length") (hdel (s2b "Accept-Encoding") (hdel (s2b "Content-Encoding") h)) in
                let comp := if bytes_eqb (rq_comp meta) (s2b "identity") then [] else rq_comp meta in
                if negb (Nat.eqb (length comp) 0) && negb (bmem comp (tc_known_comps t)) then VError 415 None else
                if negb (bmem (rq_codec meta) (tc_known_codecs t)) then VError 415 None else
                match negotiate_protocol (cproto_protocol c) (mc_protocols m) with
                | None => VError 500 None   (* unreachable: NewTranscoder rejects empty protocol sets *)
                | Some p =>
                    match server_handler p (mc_stream m) with
                    | None => VError 500 None
                    | Some s =>
                        (* o.restTarget: the matched binding for REST clients, else the method's first rule *)
                        let has_target := match rest with Some _ => true | None => mc_has_rest m end in
                        if (match s with SRest => negb has_target | _ => false end) then VNotFound else
                        let pm := if (match s with SGrpc => true | _ => false end) && negb (q_proto_major r =? 2) then 2 else q_proto_major r in
                        let scodec := match s with
                                      | SRest => s2b "json"
                                      | _ => if bmem (rq_codec meta) (mc_codecs m) then rq_codec meta else mc_preferred m
                                      end in
                        let scomp := if negb (Nat.eqb (length comp) 0) && bmem comp (mc_comps m) then comp else [] in
                        VOk (mkOp c s m (mkRM (rq_tmo meta) (rq_codec meta) comp (rq_accept meta))
                                  (rq_codec meta) scodec comp scomp h pm rest)
                    end
                end
            end
      end
  end.

(** pass-through decision (ServeHTTP) *)
Definition sproto_protocol (s : sproto) : Z :=
  match s with
  | SConnectUnary | SConnectStream => c_ProtocolConnect
  | SGrpc => c_ProtocolGRPC | SGrpcWeb => c_ProtocolGRPCWeb | SRest => c_ProtocolREST
  end.

Definition is_passthrough (o : opv) : bool :=
  (cproto_protocol (op_client o) =? sproto_protocol (op_server o)) &&
  bytes_eqb (op_client_codec o) (op_server_codec o) &&
  bytes_eqb (op_client_comp o) (op_server_comp o).

(** addProtocolRequestHeaders for the backend request *)
Definition add_request_headers (ff : Z -> bytes) (s : sproto) (codec comp : bytes) (accept : list bytes) (t : tmo) (h : hdrs) : hdrs :=
  let with_tmo (enc : enc) (k : bytes) (h : hdrs) :=
    match inject ff enc t with Some v => hset k v h | None => h end in
  match s with
  | SGrpc | SGrpcWeb =>
      let prefix := match s with SGrpc => s2b "application/grpc+" | _ => s2b "application/grpc-web+" end in
      let h := hset k_content_type (prefix ++ codec) h in
      let h := match comp with [] => h | _ => hset (s2b "Grpc-Encoding") comp h end in
      let h := match accept with [] => h | _ => hset (s2b "Grpc-Accept-Encoding") (join_comma_space accept) h end in
      let h := with_tmo EGrpc (s2b "Grpc-Timeout") h in
      match s with SGrpc => hset (s2b "Te") (s2b "trailers") h | _ => h end
  | SConnectUnary =>
      let h := hset k_content_type (s2b "application/" ++ codec) h in
      let h := match comp with [] => h | _ => hset (s2b "Content-Encoding") comp h end in
      let h := match accept with [] => h | _ => hset (s2b "Accept-Encoding") (join_comma_space accept) h end in
      let h := hset (s2b "Connect-Protocol-Version") (s2b "1") h in
      with_tmo EConnect (s2b "Connect-Timeout-Ms") h
  | SConnectStream =>
      let h := hset k_content_type (s2b "application/connect+" ++ codec) h in
      let h := match comp with [] => h | _ => hset (s2b "Connect-Content-Encoding") comp h end in
      let h := match accept with [] => h | _ => hset (s2b "Connect-Accept-Encoding") (join_comma_space accept) h end in
      with_tmo EConnect (s2b "Connect-Timeout-Ms") h
  | SRest =>
      let h := hput k_content_type [s2b "application/" ++ codec] h in
      let h := match comp with [] => h | _ => hput (s2b "Content-Encoding") [comp] h end in
      let h := match accept with [] => h | _ => hput (s2b "Accept-Encoding") [join_comma_space accept] h end in
      match inject ff ERest t with Some v => hput (s2b "X-Server-Timeout") [v] h | None => h end
  end.

Definition client_env (c : cproto) : option envk :=
  match c with CGrpc => Some GrpcC | CGrpcWeb => Some WebC | CConnectStream => Some ConnC | _ => None end.
Definition server_env (s : sproto) : option envk :=
  match s with SGrpc => Some GrpcS | SGrpcWeb => Some WebS | SConnectStream => Some ConnS | _ => None end.
