(** REST routing (router.go): routeTrie.insert / match / findTarget / getTarget,
    computeVarValues / capture.

    The Go trie (maps of children and verbs) is an index over the set of inserted
    (path segments, verb, HTTP method, target) entries: children[s] exists below a node iff
    some entry's path continues with [s] there.  The model keeps the entries as a list of
    items carrying the not-yet-consumed part of their template; descending into children[s]
    is [step_child s].  The search order of findTarget (literal child, then "*", then "**";
    backtracking only when a branch yields neither target nor methods) is kept as is. *)
From VG Require Export Model.Bytes.
From VG Require Import Model.Percent.
Open Scope Z_scope.

Definition seg := bytes.
Definition star : seg := [42%N].
Definition dstar : seg := [42%N; 42%N].

Fixpoint segs_eqb (a b : list seg) : bool :=
  match a, b with
  | [], [] => true
  | x :: a', y :: b' => bytes_eqb x y && segs_eqb a' b'
  | _, _ => false
  end.

(** [it_tmpl] is the full template of the entry (a ghost label: never inspected by the search). *)
Record item := mkItem { it_idx : nat; it_tmpl : list seg; it_rem : list seg; it_verb : bytes; it_meth : bytes }.

(** children[s] of the current node *)
Fixpoint step_child (s : seg) (items : list item) : list item :=
  match items with
  | [] => []
  | it :: r =>
      match it_rem it with
      | x :: rest => if bytes_eqb x s then mkItem (it_idx it) (it_tmpl it) rest (it_verb it) (it_meth it) :: step_child s r
                     else step_child s r
      | [] => step_child s r
      end
  end.

(** verbs[verb] of the current node: the entries whose template ends here with that verb *)
Fixpoint ends_here (verb : bytes) (items : list item) : list item :=
  match items with
  | [] => []
  | it :: r =>
      match it_rem it with
      | [] => if bytes_eqb (it_verb it) verb then it :: ends_here verb r else ends_here verb r
      | _ => ends_here verb r
      end
  end.

Definition nonempty {A} (l : list A) : bool := match l with [] => false | _ => true end.

(** findTarget: the result is the methods map reached ([] = nil map). *)
Fixpoint find (items : list item) (path : list seg) (verb : bytes) : list item :=
  match path with
  | [] => ends_here verb items
  | cur :: rest =>
      let c1 := step_child cur items in
      let r1 := if nonempty c1 then find c1 rest verb else [] in
      if nonempty r1 then r1 else
      let c2 := step_child star items in
      let r2 := if nonempty c2 then find c2 rest verb else [] in
      if nonempty r2 then r2 else
      let c3 := step_child dstar items in
      if nonempty c3 then ends_here verb c3 else []
  end.

(** getTarget: exact HTTP method first, then "*" *)
Fixpoint pick_method (m : bytes) (l : list item) : option item :=
  match l with
  | [] => None
  | it :: r => if bytes_eqb (it_meth it) m then Some it else pick_method m r
  end.

Definition get_target (meth : bytes) (ends : list item) : option item :=
  match pick_method meth ends with
  | Some it => Some it
  | None => pick_method star ends
  end.

(** strings.Split(s, "/") *)
Fixpoint split_on (sep : N) (s : bytes) (cur : bytes) : list bytes :=
  match s with
  | [] => [rev cur]
  | c :: r => if (c =? sep)%N then rev cur :: split_on sep r [] else split_on sep r (c :: cur)
  end.

(** last element split at its first ':' *)
Fixpoint cut_colon (s : bytes) (acc : bytes) : bytes * option bytes :=
  match s with
  | [] => (rev acc, None)
  | c :: r => if (c =? 58)%N then (rev acc, Some r) else cut_colon r (c :: acc)
  end.

Fixpoint map_last {A} (f : A -> A) (l : list A) : list A :=
  match l with
  | [] => []
  | [x] => [f x]
  | x :: r => x :: map_last f r
  end.

Definition split_path (uri : bytes) : option (list seg * bytes) :=
  match uri with
  | 47%N :: r =>
      match last_split uri with
      | Some (_, 58%N) => None
      | _ =>
          let path := split_on 47 r [] in
          let lst := last path [] in
          match cut_colon lst [] with
          | (_, None) => Some (path, [])
          | (p, Some v) => Some (map_last (fun _ => p) path, v)
          end
      end
  | _ => None
  end.

(** * variables *)
Record pvar := mkVar { v_start : nat; v_end : option nat (* None = -1, unbounded *) }.

Definition var_index (v : pvar) (segs : list seg) : list seg :=
  match v_end v with
  | None => skipn (v_start v) segs
  | Some e => firstn (e - v_start v) (skipn (v_start v) segs)
  end.

Fixpoint join_slash (parts : list bytes) : bytes :=
  match parts with
  | [] => []
  | [p] => p
  | p :: r => p ++ 47%N :: join_slash r
  end.

Fixpoint unescape_all (multi : bool) (parts : list seg) : option (list bytes) :=
  match parts with
  | [] => Some []
  | p :: r =>
      match path_unescape multi p, unescape_all multi r with
      | Some a, Some b => Some (a :: b)
      | _, _ => None
      end
  end.

(** routeTargetVar.capture *)
Definition capture (v : pvar) (segs : list seg) : option bytes :=
  let parts := var_index v segs in
  let multi := match v_end v with None => true | Some _ => (1 <? length parts)%nat end in
  match unescape_all multi parts with
  | Some l => Some (join_slash l)
  | None => None
  end.

Fixpoint capture_all (vars : list pvar) (segs : list seg) : option (list bytes) :=
  match vars with
  | [] => Some []
  | v :: r =>
      match capture v segs, capture_all r segs with
      | Some a, Some b => Some (a :: b)
      | _, _ => None
      end
  end.

(** * routes, insertion, match *)
Record route := mkRoute { r_meth : bytes; r_path : list seg; r_verb : bytes; r_vars : list pvar }.

Definition same_key (p : list seg) (verb meth : bytes) (it : item) : bool :=
  segs_eqb (it_rem it) p && bytes_eqb (it_verb it) verb && bytes_eqb (it_meth it) meth.

(** routeTrie.insert: error (false) iff an entry with the same path, verb and method exists *)
Definition insert (items : list item) (idx : nat) (r : route) : list item * bool :=
  if existsb (same_key (r_path r) (r_verb r) (r_meth r)) items then (items, false)
  else (items ++ [mkItem idx (r_path r) (r_path r) (r_verb r) (r_meth r)], true).

Fixpoint build_from (items : list item) (idx : nat) (rs : list route) : list item * list bool :=
  match rs with
  | [] => (items, [])
  | r :: rest =>
      let '(items', ok) := insert items idx r in
      let '(final, oks) := build_from items' (S idx) rest in
      (final, ok :: oks)
  end.

Definition build (rs : list route) := build_from [] 0 rs.

Inductive mres :=
| NotFound
| NotAllowed (methods : list bytes)
| Found (idx : nat) (vars : list bytes).

Definition trie_match (rs : list route) (items : list item) (uri meth : bytes) : mres :=
  match split_path uri with
  | None => NotFound
  | Some (path, verb) =>
      let ends := find items path verb in
      match ends with
      | [] => NotFound
      | _ =>
          match get_target meth ends with
          | None => NotAllowed (map it_meth ends)
          | Some it =>
              match nth_error rs (it_idx it) with
              | None => NotFound
              | Some r =>
                  match capture_all (r_vars r) path with
                  | Some vs => Found (it_idx it) vs
                  | None => NotFound
                  end
              end
          end
      end
  end.

(** * Independent declarative matcher (google.api.http template grammar on segments):
    a literal matches itself, "*" any one segment, "**" (final) one or more segments. *)
Fixpoint tmatch (tmpl path : list seg) : bool :=
  match tmpl, path with
  | [], [] => true
  | t :: ts, p :: ps =>
      if bytes_eqb t dstar then match ts with [] => true | _ => false end
      else if bytes_eqb t star then tmatch ts ps
      else bytes_eqb t p && tmatch ts ps
  | _, _ => false
  end.

(** "**" only as the final segment (guaranteed by parsePathTemplate) *)
Fixpoint wf_tmpl (t : list seg) : bool :=
  match t with
  | [] => true
  | x :: r => (if bytes_eqb x dstar then match r with [] => true | _ => false end else true) && wf_tmpl r
  end.

Definition is_wild (s : seg) : bool := bytes_eqb s star || bytes_eqb s dstar.
Definition all_literal (t : list seg) : bool := forallb (fun s => negb (is_wild s)) t.
