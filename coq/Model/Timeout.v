(** Model of vanguard's timeout handling (protocol_grpc.go: grpcExtractTimeoutFromHeaders,
    grpcDecodeTimeout, grpcEncodeTimeout, grpcTimeoutUnitLookup; protocol_connect.go:
    connectExtractTimeout, connectEncodeTimeout; protocol_rest.go: restDecodeTimeout /
    restEncodeTimeout only as far as they do not depend on float64 formatting).

    Durations are nanoseconds in Z.  Go's int64 arithmetic is written in where the code
    relies on it (the overflow test of connectExtractTimeout). *)
From VG Require Export Model.Bytes.
From VG Require Import Gen.Generated.
Open Scope Z_scope.

(** * strconv.ParseInt(s, 10, 64) and strconv.FormatInt(v, 10) *)

Fixpoint digits_val (acc : Z) (l : bytes) : option Z :=
  match l with
  | [] => Some acc
  | b :: t => if is_digit b then digits_val (acc * 10 + Z.of_N (b - 48)) t else None
  end.

Definition max_int64 : Z := 9223372036854775807.

(** [parse_int64 s]: None = *strconv.NumError (syntax or range). *)
Definition parse_int64 (s : bytes) : option Z :=
  match s with
  | [] => None
  | 43%N :: t =>
      match t with
      | [] => None
      | _ => match digits_val 0 t with
             | Some v => if v <=? max_int64 then Some v else None
             | None => None
             end
      end
  | 45%N :: t =>
      match t with
      | [] => None
      | _ => match digits_val 0 t with
             | Some v => if v <=? max_int64 + 1 then Some (- v) else None
             | None => None
             end
      end
  | _ => match digits_val 0 s with
         | Some v => if v <=? max_int64 then Some v else None
         | None => None
         end
  end.

Definition max_uint64 : Z := 18446744073709551615.

(** strconv.ParseUint(s, 10, 64): no sign accepted. *)
Definition parse_uint64 (s : bytes) : option Z :=
  match s with
  | [] => None
  | _ => match digits_val 0 s with
         | Some v => if v <=? max_uint64 then Some v else None
         | None => None
         end
  end.

Fixpoint fmt_pos (fuel : nat) (v : Z) (acc : bytes) : bytes :=
  match fuel with
  | O => acc
  | S f =>
      let acc' := Z.to_N (48 + v mod 10) :: acc in
      if v <? 10 then acc' else fmt_pos f (v / 10) acc'
  end.

(** int64 has at most 19 decimal digits; fuel 20 always suffices (proved in Proofs). *)
Definition format_int (v : Z) : bytes :=
  if v <? 0 then 45%N :: fmt_pos 20 (- v) [] else fmt_pos 20 v [].

(** * internal request meta *)
Inductive tmo := NoT | T (d : Z).
Inductive res (A : Type) := Ok (a : A) | Reject.
Arguments Ok {A} a.
Arguments Reject {A}.

(** * gRPC *)

(** grpcTimeoutUnitLookup comes from the translator (Gen.Generated.grpc_timeout_unit);
    0 = unknown unit. *)
Definition grpc_unit (b : N) : Z := grpc_timeout_unit (Z.of_N b).

Inductive dec := DOk (d : Z) | DNoTimeout | DErr.

(** grpcDecodeTimeout *)
Definition grpc_decode (s : bytes) : dec :=
  match last_split s with
  | None => DNoTimeout
  | Some (ds, u) =>
      let unit := grpc_unit u in
      if unit =? 0 then DErr else
      if grpc_max_digits <? Z.of_nat (length ds) then DErr else
      match parse_uint64 ds with
      | None => DErr
      | Some num =>
          if (unit =? grpc_unit 72 (* 'H' *)) && (grpc_max_hours <? num) then DNoTimeout
          else DOk (num * unit)
      end
  end.

(** grpcExtractTimeoutFromHeaders: header value via Header.Get ("" when absent).
    errNoTimeout (beyond the supported range) means "no timeout", other errors reject. *)
Definition grpc_extract (hdr : option bytes) : res tmo :=
  match hdr with
  | None | Some [] => Ok NoT
  | Some s =>
      match grpc_decode s with
      | DOk d => Ok (T d)
      | DNoTimeout => Ok NoT
      | DErr => Reject
      end
  end.

Definition ns_us := 1000.
Definition ns_ms := 1000000.
Definition ns_s := 1000000000.
Definition ns_min := 60000000000.
Definition ns_h := 3600000000000.
Definition e8 := 100000000.

(** grpcEncodeTimeout *)
Definition grpc_encode (d : Z) : bytes :=
  if d <=? 0 then s2b "0n" else
  let '(size, unit) :=
    if d <? 1 * e8 then (1, 110%N)
    else if d <? ns_us * e8 then (ns_us, 117%N)
    else if d <? ns_ms * e8 then (ns_ms, 109%N)
    else if d <? ns_s * e8 then (ns_s, 83%N)
    else if d <? ns_min * e8 then (ns_min, 77%N)
    else (ns_h, 72%N) in
  format_int (d / size) ++ [unit].

(** * Connect *)

(** connectExtractTimeout.  [time.Millisecond * time.Duration(n)] wraps in int64; the code
    detects the wrap with [timeout.Milliseconds() != n]. *)
Definition wrap64 (z : Z) : Z :=
  let m := z mod 18446744073709551616 in
  if m <=? max_int64 then m else m - 18446744073709551616.

Definition connect_extract (hdr : option bytes) : res tmo :=
  match hdr with
  | None | Some [] => Ok NoT
  | Some s =>
      if connect_max_digits <? Z.of_nat (length s) then Reject else
      match parse_uint64 s with
      | None => Reject
      | Some n =>
          let n := wrap64 n in
          let t := wrap64 (ns_ms * n) in
          if Z.quot t ns_ms =? n then Ok (T t) else Ok (T max_int64)
      end
  end.

(** connectEncodeTimeout *)
Definition connect_encode (d : Z) : bytes :=
  let str := format_int (Z.quot d ns_ms) in
  if (10 <? length str)%nat then s2b "9999999999" else str.

(** * REST (X-Server-Timeout: decimal seconds, float64).  The float conversions are
    oracles: [pf] = strconv.ParseFloat composed with time.Duration(val*1e9) (None = parse
    error); [ff] = strconv.FormatFloat(d.Seconds(), 'f', -1, 64). *)
Section Rest.
  Variable pf : bytes -> option Z.
  Variable ff : Z -> bytes.

  Definition rest_extract (hdr : option bytes) : res tmo :=
    match hdr with
    | None | Some [] => Ok NoT
    | Some s => match pf s with Some d => Ok (T d) | None => Reject end
    end.

  (** restEncodeTimeout *)
  Definition rest_encode (d : Z) : bytes := ff d.
End Rest.

(** * Injection into the backend request (addProtocolRequestHeaders) *)
Inductive enc := EGrpc | EConnect | ERest.

Definition inject (ff : Z -> bytes) (t : enc) (m : tmo) : option bytes :=
  match m with
  | NoT => None
  | T d =>
      match t with
      | EGrpc => Some (grpc_encode d)
      | EConnect => Some (connect_encode d)   (* never "" so unary and stream agree *)
      | ERest => Some (rest_encode ff d)
      end
  end.

Definition extract (pf : bytes -> option Z) (c : enc) (hdr : option bytes) : res tmo :=
  match c with
  | EGrpc => grpc_extract hdr
  | EConnect => connect_extract hdr
  | ERest => rest_extract pf hdr
  end.

Definition convey pf ff (c t : enc) (hdr : option bytes) : res (option bytes) :=
  match extract pf c hdr with
  | Reject => Reject
  | Ok m => Ok (inject ff t m)
  end.

(** * Independent semantics of the header grammars (from the protocol specifications).

    gRPC (PROTOCOL-HTTP2.md): Timeout = TimeoutValue TimeoutUnit, TimeoutValue = positive
    integer as ASCII string of at most 8 digits, unit in H M S m u n.
    Connect: Connect-Timeout-Ms = positive integer as ASCII string of at most 10 digits. *)

Fixpoint all_digits (l : bytes) : bool :=
  match l with [] => true | b :: t => is_digit b && all_digits t end.

Fixpoint dec_val (acc : Z) (l : bytes) : Z :=
  match l with [] => acc | b :: t => dec_val (acc * 10 + Z.of_N (b - 48)) t end.

Definition spec_unit (u : N) : option Z :=
  if (u =? 72)%N then Some ns_h
  else if (u =? 77)%N then Some ns_min
  else if (u =? 83)%N then Some ns_s
  else if (u =? 109)%N then Some ns_ms
  else if (u =? 117)%N then Some ns_us
  else if (u =? 110)%N then Some 1
  else None.

Definition sem_grpc (s : bytes) : option Z :=
  match last_split s with
  | None => None
  | Some (ds, u) =>
      match spec_unit u with
      | None => None
      | Some unit =>
          if all_digits ds && (1 <=? length ds)%nat && (length ds <=? 8)%nat
          then Some (dec_val 0 ds * unit) else None
      end
  end.

Definition sem_connect (s : bytes) : option Z :=
  if all_digits s && (1 <=? length s)%nat && (length s <=? 10)%nat
  then Some (dec_val 0 s * ns_ms) else None.

(** rounding unit of the target header actually produced *)
Definition unit_of_grpc (s : bytes) : Z :=
  match last_split s with
  | Some (_, u) => match spec_unit u with Some x => x | None => 0 end
  | None => 0
  end.

(** "beyond the practical range" for a gRPC client header: more than 8 hours, given in hours *)
Definition grpc_beyond (s : bytes) : bool :=
  match last_split s with
  | Some (ds, u) => (u =? 72)%N && (8 <? dec_val 0 ds)
  | None => false
  end.
