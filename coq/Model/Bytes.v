(** Bytes, text and the universal observation type used by the correspondence check. *)
From Coq Require Export String Ascii NArith ZArith Bool Lia List.
Export ListNotations.
Open Scope Z_scope.

Definition byte := N.
Definition bytes := list N.

Definition wf_byte (b : N) : bool := (b <? 256)%N.
Definition wf_bytes (l : bytes) : bool := forallb wf_byte l.

Definition beqb (a b : N) : bool := (a =? b)%N.

Fixpoint bytes_eqb (a b : bytes) : bool :=
  match a, b with
  | [], [] => true
  | x :: a', y :: b' => (x =? y)%N && bytes_eqb a' b'
  | _, _ => false
  end.

Lemma bytes_eqb_eq a b : bytes_eqb a b = true <-> a = b.
Proof.
  revert b; induction a as [|x a IH]; intros [|y b]; simpl; split; try congruence; try discriminate; auto.
  - rewrite andb_true_iff, N.eqb_eq, IH. intros [-> ->]; reflexivity.
  - intros H; inversion H; subst. rewrite N.eqb_refl. simpl. apply IH; reflexivity.
Qed.

Lemma bytes_eqb_refl a : bytes_eqb a a = true.
Proof. apply bytes_eqb_eq; reflexivity. Qed.

(** ASCII text literal -> bytes (only used for protocol constants, all < 128). *)
Fixpoint s2b (s : string) : bytes :=
  match s with
  | EmptyString => []
  | String c r => N_of_ascii c :: s2b r
  end.

(** hex text literal -> bytes; used by generated case files (payloads are written as
    hex string literals, which Coq elaborates quickly). Malformed hex yields [] with flag. *)
Definition hexval (c : ascii) : option N :=
  let n := N_of_ascii c in
  if ((48 <=? n) && (n <=? 57))%N then Some (n - 48)%N
  else if ((97 <=? n) && (n <=? 102))%N then Some (n - 87)%N
  else if ((65 <=? n) && (n <=? 70))%N then Some (n - 55)%N
  else None.

Fixpoint h (s : string) : bytes :=
  match s with
  | String a (String b r) =>
      match hexval a, hexval b with
      | Some x, Some y => (x * 16 + y)%N :: h r
      | _, _ => []
      end
  | _ => []
  end.

(** Universal value type for scenario inputs and observations. *)
Inductive V :=
| VZ (z : Z)
| VS (b : bytes)
| VL (l : list V).

Fixpoint V_eqb (a b : V) {struct a} : bool :=
  match a, b with
  | VZ x, VZ y => x =? y
  | VS x, VS y => bytes_eqb x y
  | VL x, VL y =>
      (fix go (x y : list V) : bool :=
         match x, y with
         | [], [] => true
         | u :: x', v :: y' => V_eqb u v && go x' y'
         | _, _ => false
         end) x y
  | _, _ => false
  end.

Definition VBool (b : bool) : V := VZ (if b then 1 else 0).
Definition VNone : V := VL [].
Definition VSome (v : V) : V := VL [v].
Definition VErr (tag : string) : V := VL [VS (s2b "!"); VS (s2b tag)].

Definition Vopt {A} (f : A -> V) (o : option A) : V :=
  match o with None => VNone | Some a => VSome (f a) end.

(* characters *)
Definition is_digit (b : N) : bool := ((48 <=? b) && (b <=? 57))%N.

Fixpoint last_split (l : bytes) : option (bytes * N) :=
  match l with
  | [] => None
  | [x] => Some ([], x)
  | x :: r => match last_split r with Some (p, z) => Some (x :: p, z) | None => None end
  end.

Lemma last_split_app p z : last_split (p ++ [z]) = Some (p, z).
Proof.
  induction p as [|x p IH]; simpl; [reflexivity|].
  rewrite IH. destruct (p ++ [z]) eqn:E; [destruct p; discriminate|reflexivity].
Qed.

Lemma last_split_some l p z : last_split l = Some (p, z) -> l = p ++ [z].
Proof.
  revert p z; induction l as [|x l IH]; intros p z; simpl; [discriminate|].
  destruct l as [|y l].
  - intros H; inversion H; reflexivity.
  - destruct (last_split (y :: l)) as [[p' z']|] eqn:E; [|discriminate].
    intros H; inversion H; subst. rewrite (IH _ _ eq_refl). reflexivity.
Qed.

Lemma last_split_none l : last_split l = None -> l = [].
Proof.
  induction l as [|x l IH]; [reflexivity|]. simpl. destruct l as [|y l]; [discriminate|].
  destruct (last_split (y :: l)) as [[p z]|] eqn:E; [discriminate|].
  intros _. specialize (IH eq_refl). discriminate.
Qed.
