(** Response side of an operation (transcoder.go): responseWriter (WriteHeader, Write, close,
    reportError, reportEnd, flushHeaders, writeEnd, flushMessage), envelopingWriter,
    transformingWriter, errorWriter, limitWriter, noResponseBodyWriter.

    The state carries the log of everything done to the underlying http.ResponseWriter
    ([c_out], oldest first), so that segmentation independence is equality of states. *)
From VG Require Export Model.Stream Model.Envelope Model.RespMeta Model.Reader.
From VG Require Import Model.Timeout.
Open Scope Z_scope.

(** events on the underlying (delegate) ResponseWriter *)
Inductive devent :=
| DHead (code : Z) (h : hdrs) (end_in_headers : option rend)
| DWrite (b : bytes)
| DFlush
| DEnd (e : rend)         (* end rendered into the body (error body / end-stream frame / trailer frame) *)
| DTrailers (e : rend)    (* end rendered as HTTP trailers *)
| DDone.                  (* ghost: writeEnd has completed (it may have had nothing to write); not an action on the delegate *)

(** static context of the response side *)
Record wctx := mkWctx {
  w_client : cproto;
  w_server : sproto;
  w_cenv : option envk;          (* op.clientEnveloper *)
  w_senv : option envk;          (* op.serverEnveloper *)
  w_limit : Z;
  w_known_comp : list bytes;     (* names in op.compressors *)
  w_client_codec : bytes;
  w_server_codec : bytes;
  w_same_resp_codec : bool;      (* sameCodec && no response body preparation *)
  w_rest_httpbody_resp : bool;   (* restHTTPBodyResponse(op) *)
  w_or : oracles;                (* response direction: decompress / decode / encode / compress *)
  w_eor : eoracles;
  w_end_len : rend -> Z          (* size of the JSON end-stream message (Connect stream clients) *)
}.

Record rwc := mkRwc {
  c_hdr : hdrs;
  c_flushed : bool;
  c_end_written : bool;
  c_meta : option rmeta;
  c_err : bool;
  c_buf : option bytes;
  c_resp_comp : bytes;           (* name of op.client/server.respCompression, "" = none *)
  c_out : list devent
}.

Definition emit (e : devent) (c : rwc) : rwc :=
  mkRwc (c_hdr c) (c_flushed c) (c_end_written c) (c_meta c) (c_err c) (c_buf c) (c_resp_comp c) (c_out c ++ [e]).

Definition intersection (known names : list bytes) : list bytes :=
  filter (fun n => existsb (bytes_eqb n) known) names.

(** responseWriter.writeEnd *)
Definition write_end (cx : wctx) (e : rend) (was_in_headers : bool) (c : rwc) : rwc :=
  let c1 := match encode_end (w_client cx) (w_limit cx) (w_end_len cx) e was_in_headers with
            | EndNothing => c
            | EndBody e' => emit (DEnd e') c
            | EndTrailers e' =>
                (* httpMergeTrailers(w.Header(), trailers): application trailers concretely; the
                   three status keys are carried structurally by the event *)
                let h := http_merge_trailers (hdel (s2b "Grpc-Status") (hdel (s2b "Grpc-Message") (hdel (s2b "Grpc-Status-Details-Bin")
                           (hdel (s2b "Trailer:Grpc-Status") (hdel (s2b "Trailer:Grpc-Message") (hdel (s2b "Trailer:Grpc-Status-Details-Bin") (c_hdr c)))))))
                           (re_trailers e') in
                emit (DTrailers e') (mkRwc h (c_flushed c) (c_end_written c) (c_meta c) (c_err c) (c_buf c) (c_resp_comp c) (c_out c))
            end in
  let c1 := emit DDone c1 in
  mkRwc (c_hdr c1) (c_flushed c1) true (c_meta c1) (c_err c1) (c_buf c1) (c_resp_comp c1) (c_out c1).

Definition has_err (m : rmeta) : bool :=
  match rm_end m with Some e => match re_err e with Some _ => true | None => false end | None => false end.

Definition format_nat (n : nat) : bytes := Timeout.format_int (Z.of_nat n).

(** responseWriter.flushHeaders *)
Definition flush_headers (cx : wctx) (c : rwc) : rwc :=
  if c_flushed c then c else
  match c_meta c with
  | None => c   (* unreachable: callers set respMeta first *)
  | Some m =>
      let cli := mkMeta (rm_end m) (w_client_codec cx) (c_resp_comp c) (intersection (w_known_comp cx) (rm_accept m))
                        (rm_pending_trailers m) (rm_pending_keys m) in
      let ho := add_response_headers (w_client cx) cli (c_hdr c) in
      let herr := has_err m in
      let h := match c_buf c with
               | Some b => if herr then ho_hdrs ho else hset (s2b "Content-Length") (format_nat (length b)) (ho_hdrs ho)
               | None => ho_hdrs ho
               end in
      let c1 := emit (DHead (ho_status ho) h (ho_end_in_headers ho))
                     (mkRwc h (c_flushed c) (c_end_written c) (c_meta c) (c_err c) (c_buf c) (c_resp_comp c) (c_out c)) in
      let c2 := match c_buf c1 with
                | Some b => let c' := if herr then c1 else emit (DWrite b) c1 in
                            mkRwc (c_hdr c') (c_flushed c') (c_end_written c') (c_meta c') (c_err c') None (c_resp_comp c') (c_out c')
                | None => c1
                end in
      let c3 := match rm_end m with
                | Some e => let c' := write_end cx e true c2 in
                            mkRwc (c_hdr c') (c_flushed c') (c_end_written c') (c_meta c') true (c_buf c') (c_resp_comp c') (c_out c')
                | None => c2
                end in
      mkRwc (c_hdr c3) true (c_end_written c3) (c_meta c3) (c_err c3) (c_buf c3) (c_resp_comp c3) (c_out c3)
  end.

(** responseWriter.reportEnd *)
Definition report_end (cx : wctx) (e : rend) (c : rwc) : rwc :=
  if c_end_written c then c else
  let e := match c_meta c with
           | Some m => match rm_pending_trailers m, re_trailers e with
                       | _ :: _, [] => mkEnd (re_err e) (rm_pending_trailers m) (re_http e) (re_wascomp e)
                       | _, _ => e
                       end
           | None => e
           end in
  let c1 :=
    if c_flushed c then write_end cx e false c
    else
      let m := match c_meta c with
               | Some m => mkMeta (Some e) (rm_codec m) (rm_comp m) (rm_accept m) (rm_pending_trailers m) (rm_pending_keys m)
               | None => mkMeta (Some e) [] [] [] [] []
               end in
      flush_headers cx (mkRwc (c_hdr c) (c_flushed c) (c_end_written c) (Some m) (c_err c) (c_buf c) (c_resp_comp c) (c_out c)) in
  let c2 := emit DFlush c1 in
  mkRwc (c_hdr c2) (c_flushed c2) (c_end_written c2) (c_meta c2) true (c_buf c2) (c_resp_comp c2) (c_out c2).

(** responseWriter.reportError: connect errors keep their code; anything else is unknown/502 *)
Definition err_of_class (e : ecls) : rend :=
  match e with
  | EResourceExhausted => mkEnd (Some (mkErr 8 MGen [])) [] 429 false
  | EInvalidArgument => mkEnd (Some (mkErr 3 MGen [])) [] 400 false
  | _ => mkEnd (Some (mkErr 2 MGen [])) [] 502 false
  end.
Definition report_error (cx : wctx) (e : ecls) (c : rwc) : rwc := report_end cx (err_of_class e) c.

(** responseWriter.flushMessage *)
Definition flush_message (c : rwc) : rwc := match c_buf c with Some _ => c | None => emit DFlush c end.

(** the sink the body writers write to: the delegate, or limitWriter over w.buf for clients
    whose outcome must precede the body.  Returns false when the write failed. *)
Definition sink_write (cx : wctx) (data : bytes) (c : rwc) : rwc * bool :=
  if end_must_be_in_headers (w_client cx) then
    match c_buf c with
    | Some b =>
        if w_limit cx <? zlen b + zlen data then (report_error cx EResourceExhausted c, false)
        else (mkRwc (c_hdr c) (c_flushed c) (c_end_written c) (c_meta c) (c_err c) (Some (b ++ data)) (c_resp_comp c) (c_out c), true)
    | None => (c, true)   (* buffer already flushed and released: bytes go nowhere visible *)
    end
  else match data with [] => (c, true) | _ => (emit (DWrite data) c, true) end.

(** * decodeEndFromMessage *)
Definition upper (c : N) : N := if ((97 <=? c) && (c <=? 122))%N then (c - 32)%N else c.
Definition lower (c : N) : N := if ((65 <=? c) && (c <=? 90))%N then (c + 32)%N else c.
Fixpoint canon_go (s : bytes) (up_next : bool) : bytes :=
  match s with
  | [] => []
  | c :: r => (if up_next then upper c else lower c) :: canon_go r ((c =? 45)%N)
  end.
(** textproto.CanonicalMIMEHeaderKey for token keys *)
Definition canon_key (k : bytes) : bytes := canon_go k true.

Fixpoint split_crlf (s cur : bytes) : list bytes :=
  match s with
  | 13%N :: 10%N :: r => rev cur :: split_crlf r []
  | c :: r => split_crlf r (c :: cur)
  | [] => [rev cur]
  end.

Fixpoint cut_at (sep : N) (s acc : bytes) : option (bytes * bytes) :=
  match s with
  | [] => None
  | c :: r => if (c =? sep)%N then Some (rev acc, r) else cut_at sep r (c :: acc)
  end.

Fixpoint web_trailer_lines (lines : list bytes) (acc : hdrs) : option hdrs :=
  match lines with
  | [] => Some acc
  | [] :: r => web_trailer_lines r acc
  | l :: r => match cut_at 58 l [] with
              | None => None
              | Some (k, v) => web_trailer_lines r (hadd (canon_key k) (trim_space v) acc)
              end
  end.

Definition decode_end_from_message (cx : wctx) (data : bytes) : option rend :=
  match w_server cx with
  | SGrpcWeb =>
      match web_trailer_lines (split_crlf data []) [] with
      | None => None
      | Some t => let '(err, t') := grpc_extract_error (w_eor cx) t in Some (mkEnd err t' 0 false)
      end
  | SConnectStream =>
      match eo_connect_end (w_eor cx) data with
      | None => None
      | Some (err, md) => Some (mkEnd err md 0 false)
      end
  | _ => None
  end.

Definition with_wascomp (e : rend) (b : bool) : rend := mkEnd (re_err e) (re_trailers e) (re_http e) b.

(** * envelopingWriter *)
Inductive ecur := ECNone | ECSink | ECTrailer (b : bytes) | ECMeasure (b : bytes).

Record ew := mkEw {
  ew_init : bool; ew_err : bool; ew_wenv : bool; ew_envacc : bytes; ew_remaining : Z;
  ew_cur : ecur; ew_is_trailer : bool; ew_trailer_comp : bool; ew_fixed : bool; ew_complete : bool
}.
Definition ew0 : ew := mkEw false false false [] 0 ECNone false false false false.

Definition ew_set_err (w : ew) : ew :=
  mkEw (ew_init w) true (ew_wenv w) (ew_envacc w) (ew_remaining w) (ew_cur w) (ew_is_trailer w) (ew_trailer_comp w) (ew_fixed w) (ew_complete w).

Inductive wres := WOk | WFail | WPanic.

(** maybeInit; [content_len] is responseWriter.contentLen *)
Definition ew_maybe_init (cx : wctx) (content_len : Z) (c : rwc) (w : ew) : rwc * ew :=
  if ew_init w then (c, w) else
  match w_senv cx, w_cenv cx with
  | Some _, _ => (c, mkEw true false true [] 5 ECNone false false false false)
  | None, None => (c, mkEw true false false [] (-1) ECSink false false false false)
  | None, Some ce =>
      if content_len =? -1 then (c, mkEw true false false [] (-1) (ECMeasure []) false false false false)
      else if w_limit cx <? content_len then
        (report_error cx EResourceExhausted c, mkEw true true false [] 0 ECNone false false false false)
      else
        let env := encode_env ce (mkEnv false (negb (Nat.eqb (length (c_resp_comp c)) 0)) content_len) in
        let '(c', ok) := sink_write cx env c in
        (c', mkEw true (negb ok) false [] content_len ECSink false false true false)
  end.

(** writeBytes on the current sink *)
Definition ew_cur_write (cx : wctx) (data : bytes) (c : rwc) (w : ew) : rwc * ew * wres :=
  match ew_cur w with
  | ECSink => let '(c', ok) := sink_write cx data c in (c', w, if ok then WOk else WFail)
  | ECTrailer b => (c, mkEw (ew_init w) (ew_err w) (ew_wenv w) (ew_envacc w) (ew_remaining w) (ECTrailer (b ++ data))
                            (ew_is_trailer w) (ew_trailer_comp w) (ew_fixed w) (ew_complete w), WOk)
  | ECMeasure b =>
      if w_limit cx <? zlen b + zlen data then (report_error cx EResourceExhausted c, w, WFail)
      else (c, mkEw (ew_init w) (ew_err w) (ew_wenv w) (ew_envacc w) (ew_remaining w) (ECMeasure (b ++ data))
                    (ew_is_trailer w) (ew_trailer_comp w) (ew_fixed w) (ew_complete w), WOk)
  | ECNone => (c, w, WPanic)   (* w.current is a nil interface *)
  end.

Definition ew_upd (w : ew) (wenv : bool) (envacc : bytes) (remaining : Z) (cur : ecur) (is_tr tr_comp : bool) : ew :=
  mkEw (ew_init w) (ew_err w) wenv envacc remaining cur is_tr tr_comp (ew_fixed w) (ew_complete w).

(** the Write loop; fuel: every iteration consumes input or finishes a zero-length unit *)
Fixpoint ew_loop (fuel : nat) (cx : wctx) (data : bytes) (c : rwc) (w : ew) : rwc * ew * wres :=
  match fuel with
  | O => (c, w, WPanic)
  | S f =>
      if ew_err w then (c, w, WFail) else
      if zlen data <? ew_remaining w then
        (* not enough data to trigger the next action *)
        if ew_wenv w then
          (c, ew_upd w true (ew_envacc w ++ data) (ew_remaining w - zlen data) (ew_cur w) (ew_is_trailer w) (ew_trailer_comp w), WOk)
        else
          let '(c', w', r) := ew_cur_write cx data c w in
          match r with
          | WOk => (c', ew_upd w' (ew_wenv w') (ew_envacc w') (ew_remaining w' - zlen data) (ew_cur w') (ew_is_trailer w') (ew_trailer_comp w'), WOk)
          | WFail => (c', ew_set_err w', WFail)
          | WPanic => (c', w', WPanic)
          end
      else
        let now := ztake (ew_remaining w) data in
        let rest := zdrop (ew_remaining w) data in
        if ew_wenv w then
          (* handleEnvelopeWritten *)
          let envb := ew_envacc w ++ now in
          match w_senv cx with
          | None => (c, w, WPanic)
          | Some se =>
              match decode_env se envb with
              | None =>
                  (report_error cx EInvalidArgument c, ew_set_err (ew_upd w false [] 0 (ew_cur w) (ew_is_trailer w) (ew_trailer_comp w)), WFail)
              | Some env =>
                  if e_trailer env then
                    if w_limit cx <? e_len env then
                      (report_error cx EResourceExhausted c, ew_set_err (ew_upd w false [] 0 (ew_cur w) (ew_is_trailer w) (ew_trailer_comp w)), WFail)
                    else ew_loop f cx rest c (ew_upd w false [] (e_len env) (ECTrailer []) true (e_compressed env))
                  else
                    match w_cenv cx with
                    | Some ce =>
                        let '(c', ok) := sink_write cx (encode_env ce env) c in
                        if ok then ew_loop f cx rest c' (ew_upd w false [] (e_len env) ECSink (ew_is_trailer w) (ew_trailer_comp w))
                        else (c', ew_set_err (ew_upd w false [] 0 (ew_cur w) (ew_is_trailer w) (ew_trailer_comp w)), WFail)
                    | None => ew_loop f cx rest c (ew_upd w false [] (e_len env) ECSink (ew_is_trailer w) (ew_trailer_comp w))
                    end
              end
          end
        else
          let '(c1, w1, r) := ew_cur_write cx now c w in
          match r with
          | WPanic => (c1, w1, WPanic)
          | WFail => (c1, ew_set_err w1, WFail)
          | WOk =>
              let w2 := ew_upd w1 (ew_wenv w1) (ew_envacc w1) 0 (ew_cur w1) (ew_is_trailer w1) (ew_trailer_comp w1) in
              if ew_is_trailer w2 then
                (* handleTrailer *)
                let tb := match ew_cur w2 with ECTrailer b => b | _ => [] end in
                let w3 := ew_upd w2 (ew_wenv w2) (ew_envacc w2) 0 (ew_cur w2) true (ew_trailer_comp w2) in
                let plain := if ew_trailer_comp w2 && negb (Nat.eqb (length tb) 0) && negb (Nat.eqb (length (c_resp_comp c1)) 0)
                             then o_decompress (w_or cx) tb else Some tb in  (* a nil compression pool copies *)
                match plain with
                | None => (c1, ew_set_err w3, WFail)            (* decompress error: returned, not reported *)
                | Some p =>
                    match decode_end_from_message cx p with
                    | None => (report_error cx EOther c1, ew_set_err w3, WFail)
                    | Some e =>
                        let c2 := report_end cx (with_wascomp e (ew_trailer_comp w2)) c1 in
                        (c2, ew_set_err w3, match rest with [] => WOk | _ => WFail end)
                    end
                end
              else
                let c2 := flush_message c1 in
                if ew_fixed w2 then
                  let w3 := mkEw (ew_init w2) (ew_err w2) (ew_wenv w2) (ew_envacc w2) 0 (ew_cur w2) (ew_is_trailer w2) (ew_trailer_comp w2) true true in
                  match rest with
                  | [] => (c2, w3, WOk)
                  | _ => (report_error cx EOther c2, ew_set_err w3, WFail)
                  end
                else ew_loop f cx rest c2 (ew_upd w2 true [] 5 (ew_cur w2) (ew_is_trailer w2) (ew_trailer_comp w2))
          end
  end.

Definition ew_fuel (data : bytes) : nat := (2 * length data + 4)%nat.

(** envelopingWriter.Write *)
Definition ew_write (cx : wctx) (content_len : Z) (data : bytes) (c : rwc) (w : ew) : rwc * ew * wres :=
  let '(c, w) := ew_maybe_init cx content_len c w in
  if ew_err w then (c, w, WFail) else
  if ew_complete w then
    match data with
    | [] => (c, w, WOk)
    | _ => (report_error cx EOther c, ew_set_err w, WFail)
    end
  else if ew_remaining w =? -1 then
    let '(c', w', r) := ew_cur_write cx data c w in
    match r with WFail => (c', ew_set_err w', WFail) | _ => (c', w', r) end
  else ew_loop (ew_fuel data) cx data c w.

(** envelopingWriter.Close *)
Definition ew_close (cx : wctx) (c : rwc) (w : ew) : rwc * ew :=
  let w := if c_end_written c then ew_set_err w else w in
  let '(c1, w1) :=
    match ew_cur w with
    | ECMeasure b =>
        if (ew_remaining w =? -1) && negb (ew_err w) then
          match w_cenv cx with
          | Some ce =>
              let env := encode_env ce (mkEnv false (negb (Nat.eqb (length (c_resp_comp c)) 0)) (zlen b)) in
              let '(c', ok) := sink_write cx env c in
              if ok then let '(c'', ok2) := sink_write cx b c' in (c'', if ok2 then w else ew_set_err w)
              else (c', ew_set_err w)
          | None => (c, w)
          end
        else (c, w)
    | _ => (c, w)
    end in
  let normal_eof := ew_wenv w1 && (ew_remaining w1 =? 5) in
  let c2 := if (0 <? ew_remaining w1) && negb normal_eof then report_error cx EOther c1 else c1 in
  (c2, mkEw (ew_init w1) true (ew_wenv w1) (ew_envacc w1) 0 ECNone (ew_is_trailer w1) (ew_trailer_comp w1) (ew_fixed w1) (ew_complete w1)).

(** * transformingWriter *)
Record tw := mkTw { tw_err : bool; tw_buf : option bytes; tw_expect : Z; tw_wenv : bool;
                    tw_latest : envelope; tw_wascomp : bool }.
Definition tw0 : tw := mkTw false None 0 false (mkEnv false false 0) false.

Definition tw_reset (cx : wctx) (c : rwc) (w : tw) : tw :=
  match w_senv cx with
  | Some _ => mkTw (tw_err w) (Some []) 5 true (tw_latest w) false
  | None =>
      let is_comp := match c_meta c with Some m => negb (Nat.eqb (length (rm_comp m)) 0) | None => false end in
      mkTw (tw_err w) (Some []) (-1) (tw_wenv w) (tw_latest w) is_comp
  end.

(** message.advanceToStage for a response message: sameCompression is always true, the
    decompressor and compressor are the same pool (the backend's response compression) *)
Definition advance_resp (cx : wctx) (has_comp was_comp : bool) (b : bytes) : bytes + ecls :=
  let must := has_comp && match w_cenv cx with None => true | Some _ => false end in
  if w_same_resp_codec cx then
    if was_comp || negb must then inl b else inl (o_compress (w_or cx) b)
  else
  let plain := if was_comp && has_comp && negb (Nat.eqb (length b) 0)
               then match o_decompress (w_or cx) b with Some p => inl p | None => inr (decomp_class (w_or cx) b) end else inl b in
  match plain with
  | inr e => inr e
  | inl p =>
      match o_decode (w_or cx) p with
      | None => inr EOther
      | Some m =>
          match o_encode (w_or cx) m with
          | None => inr EOther
          | Some e => inl (if (was_comp || must) && has_comp then o_compress (w_or cx) e else e)
          end
      end
  end.

Inductive fres := FOk (c : rwc) (w : tw) | FErr (e : ecls) (c : rwc) (w : tw) (reported : bool).

(** transformingWriter.flushMessage *)
Definition tw_flush_message (cx : wctx) (c : rwc) (w : tw) : fres :=
  let b := match tw_buf w with Some b => b | None => [] end in
  let has_comp := negb (Nat.eqb (length (c_resp_comp c)) 0) in
  if e_trailer (tw_latest w) then
    let plain := if e_compressed (tw_latest w) && negb (Nat.eqb (length b) 0) && has_comp then o_decompress (w_or cx) b else Some b in
    match plain with
    | None => FErr (decomp_class (w_or cx) b) c w false
    | Some p =>
        match decode_end_from_message cx p with
        | None => FErr EOther (report_error cx EOther c) w true
        | Some e =>
            let c' := report_end cx (with_wascomp e (e_compressed (tw_latest w))) c in
            FOk c' (mkTw true (tw_buf w) (tw_expect w) (tw_wenv w) (tw_latest w) (tw_wascomp w))
        end
    end
  else
    match advance_resp cx has_comp (tw_wascomp w) b with
    | inr e => FErr e c w false
    | inl out =>
        let write_env :=
          match w_cenv cx with
          | Some ce =>
              if w_limit cx <? zlen out then None
              else Some (encode_env ce (mkEnv false (tw_wascomp w && has_comp) (zlen out)))
          | None => Some []
          end in
        match write_env with
        | None => FErr EResourceExhausted c w false
        | Some env =>
            let '(c1, ok1) := match env with [] => (c, true) | _ => sink_write cx env c end in
            if negb ok1 then FErr EOther c1 (mkTw true (tw_buf w) (tw_expect w) (tw_wenv w) (tw_latest w) (tw_wascomp w)) true else
            let '(c2, ok2) := sink_write cx out c1 in
            if negb ok2 then FErr EOther c2 (mkTw true (tw_buf w) (tw_expect w) (tw_wenv w) (tw_latest w) (tw_wascomp w)) true else
            let c3 := flush_message c2 in
            FOk c3 (tw_reset cx c3 w)
        end
    end.

Fixpoint tw_loop (fuel : nat) (cx : wctx) (data : bytes) (c : rwc) (w : tw) : rwc * tw * wres :=
  match fuel with
  | O => (c, w, WPanic)
  | S f =>
      if tw_err w then (c, w, WFail) else
      let b := match tw_buf w with Some b => b | None => [] end in
      let remaining := tw_expect w - zlen b in
      if zlen data <? remaining then
        (c, mkTw (tw_err w) (Some (b ++ data)) (tw_expect w) (tw_wenv w) (tw_latest w) (tw_wascomp w), WOk)
      else
        let now := ztake remaining data in
        let rest := zdrop remaining data in
        let full := b ++ now in
        if tw_wenv w then
          match w_senv cx with
          | None => (c, w, WPanic)
          | Some se =>
              match decode_env se (firstn 5 full) with
              | None => (report_error cx EInvalidArgument c, mkTw true (Some (skipn 5 full)) (tw_expect w) (tw_wenv w) (tw_latest w) (tw_wascomp w), WFail)
              | Some env =>
                  if w_limit cx <? e_len env then
                    (report_error cx EResourceExhausted c, mkTw true (Some (skipn 5 full)) (tw_expect w) (tw_wenv w) env (tw_wascomp w), WFail)
                  else tw_loop f cx rest c (mkTw (tw_err w) (Some []) (e_len env) false env (e_compressed env))
              end
          end
        else
          match tw_flush_message cx c (mkTw (tw_err w) (Some full) (tw_expect w) (tw_wenv w) (tw_latest w) (tw_wascomp w)) with
          | FErr e c' w' reported => ((if reported then c' else report_error cx e c'),
                                     mkTw true (tw_buf w') (tw_expect w') (tw_wenv w') (tw_latest w') (tw_wascomp w'), WFail)
          | FOk c' w' =>
              if e_trailer (tw_latest w) && (match rest with [] => true | _ => false end) then (c', w', WOk)
              else tw_loop f cx rest c' (mkTw (tw_err w') (tw_buf w') 5 true (tw_latest w') (tw_wascomp w'))
          end
  end.

(** transformingWriter.Write *)
Definition tw_write (cx : wctx) (data : bytes) (c : rwc) (w : tw) : rwc * tw * wres :=
  if tw_err w then (c, w, WFail) else
  let w := match tw_buf w with None => tw_reset cx c w | Some _ => w end in
  if tw_expect w =? -1 then
    let b := match tw_buf w with Some b => b | None => [] end in
    if w_limit cx <? zlen data + zlen b then
      (report_error cx EResourceExhausted c, mkTw true (tw_buf w) (tw_expect w) (tw_wenv w) (tw_latest w) (tw_wascomp w), WFail)
    else (c, mkTw (tw_err w) (Some (b ++ data)) (tw_expect w) (tw_wenv w) (tw_latest w) (tw_wascomp w), WOk)
  else tw_loop (2 * length data + 4) cx data c w.

(** transformingWriter.Close *)
Definition tw_close (cx : wctx) (c : rwc) (w : tw) : rwc * tw :=
  let c' :=
    if tw_err w || c_end_written c then c
    else if tw_expect w =? -1 then
      match tw_flush_message cx c w with
      | FOk c1 _ => c1
      | FErr e c1 _ reported => if reported then c1 else report_error cx e c1
      end
    else match tw_buf w with
         | Some (_ :: _) => report_error cx EOther c
         | Some [] => if tw_wenv w then c else report_error cx EOther c   (* an envelope whose message never started *)
         | None => c
         end in
  (c', mkTw true None 0 (tw_wenv w) (tw_latest w) (tw_wascomp w)).

(** * errorWriter *)
Record errw := mkErrw { xw_buf : option bytes; xw_proc : body_proc }.

Definition xw_write (cx : wctx) (data : bytes) (c : rwc) (w : errw) : rwc * errw * wres :=
  match xw_buf w with
  | None => (c, w, WFail)
  | Some b =>
      if w_limit cx <? zlen data + zlen b then (report_error cx EResourceExhausted c, w, WFail)
      else (c, mkErrw (Some (b ++ data)) (xw_proc w), WOk)
  end.

Definition xw_close (cx : wctx) (c : rwc) (w : errw) : rwc * errw :=
  match xw_buf w, c_meta c with
  | Some b, Some m =>
      let e0 := match rm_end m with Some e => e | None => mkEnd None [] 0 false end in
      let has_comp := negb (Nat.eqb (length (c_resp_comp c)) 0) in
      let '(body, e1) :=
        if has_comp && negb (Nat.eqb (length b) 0) then
          match o_decompress (w_or cx) b with
          | Some p => (Some p, e0)
          | None => (None, mkEnd (Some internal_gen) (re_trailers e0)
                                 (if (re_http e0 =? 0) || (re_http e0 =? 200) then 500 else re_http e0) (re_wascomp e0))
          end
        else (Some b, e0) in
      let e2 :=
        match body with
        | None => e1
        | Some p =>
            match xw_proc w with
            | ProcConnectErr status =>
                match eo_connect_err (w_eor cx) p with
                | Some err => mkEnd (Some err) (re_trailers e1) (re_http e1) (re_wascomp e1)
                | None => mkEnd (Some (mkErr (http_status_to_rpc status) MGen [])) (re_trailers e1) (re_http e1) (re_wascomp e1)
                end
            | ProcRestErr status ct =>
                match eo_rest_err (w_eor cx) status ct p with
                | Some err => mkEnd (Some err) (re_trailers e1) (rpc_http_status (Some err)) (re_wascomp e1)
                | None => e1
                end
            | NoProc => e1
            end
        end in
      let m' := mkMeta (Some e2) (rm_codec m) (rm_comp m) (rm_accept m) (rm_pending_trailers m) (rm_pending_keys m) in
      let c1 := mkRwc (c_hdr c) (c_flushed c) (c_end_written c) (Some m') (c_err c) (c_buf c) (c_resp_comp c) (c_out c) in
      (flush_headers cx c1, mkErrw None (xw_proc w))
  | _, _ => (c, mkErrw None (xw_proc w))
  end.

(** * responseWriter *)
Inductive bodyw := BNone | BNoBody | BErr (w : errw) | BEnv (w : ew) | BTrans (w : tw).

Record rw := mkRw { r_core : rwc; r_headers_written : bool; r_content_len : Z; r_w : bodyw }.

Definition rw_init (h : hdrs) : rw := mkRw (mkRwc h false false None false None [] []) false (-1) BNone.

Definition set_core (r : rw) (c : rwc) : rw := mkRw c (r_headers_written r) (r_content_len r) (r_w r).

(** httpExtractContentLength: None = unparsable or negative *)
Definition extract_content_length (h : hdrs) : option (Z * hdrs) :=
  match hget (s2b "Content-Length") h with
  | [] => Some (-1, h)
  | s => match parse_int64 s with
         | Some n => if n <? 0 then None else Some (n, hdel (s2b "Content-Length") h)
         | None => None
         end
  end.

(** responseWriter.WriteHeader *)
Definition rw_write_header (cx : wctx) (status : Z) (r : rw) : rw :=
  if r_headers_written r then r else
  let r := mkRw (r_core r) true (r_content_len r) (r_w r) in
  let c := r_core r in
  if c_end_written c then r else
  match extract_content_length (c_hdr c) with
  | None => set_core r (report_error cx EOther c)
  | Some (clen, h1) =>
      let '(m0, proc, h2) := extract_response (w_eor cx) (w_server cx) status h1 in
      let tkeys := parse_multi_header (hvalues (s2b "Trailer") h2) in
      let '(m1, h3) := match tkeys with
                       | [] => (m0, h2)
                       | _ => (mkMeta (rm_end m0) (rm_codec m0) (rm_comp m0) (rm_accept m0) (rm_pending_trailers m0) (map canon_key tkeys),
                               hdel (s2b "Trailer") h2)
                       end in
      let h4 := hdel (s2b "Accept-Encoding") (hdel (s2b "Content-Encoding") h3) in
      let comp := if bytes_eqb (rm_comp m1) (s2b "identity") then [] else rm_comp m1 in
      let m2 := mkMeta (rm_end m1) (rm_codec m1) comp (rm_accept m1) (rm_pending_trailers m1) (rm_pending_keys m1) in
      let c1 := mkRwc h4 (c_flushed c) (c_end_written c) (Some m2) (c_err c) (c_buf c) (c_resp_comp c) (c_out c) in
      let r1 := mkRw c1 true clen (r_w r) in
      if negb (Nat.eqb (length comp) 0) && negb (existsb (bytes_eqb comp) (w_known_comp cx)) then
        set_core r1 (report_error cx EOther c1)
      else
        let c2 := mkRwc (c_hdr c1) (c_flushed c1) (c_end_written c1) (c_meta c1) (c_err c1) (c_buf c1) comp (c_out c1) in
        match rm_end m2 with
        | Some _ =>
            match proc with
            | NoProc => mkRw (flush_headers cx c2) true clen BNoBody
            | _ => mkRw c2 true clen (BErr (mkErrw (Some []) proc))
            end
        | None =>
            if negb (Nat.eqb (length (rm_codec m2)) 0) && negb (bytes_eqb (rm_codec m2) (w_server_codec cx)) && negb (w_rest_httpbody_resp cx)
            then mkRw (report_error cx EOther c2) true clen (r_w r)
            else
              let c3 := if end_must_be_in_headers (w_client cx)
                        then mkRwc (c_hdr c2) (c_flushed c2) (c_end_written c2) (c_meta c2) (c_err c2) (Some []) (c_resp_comp c2) (c_out c2)
                        else flush_headers cx c2 in
              let mixed := negb (Nat.eqb (length (c_resp_comp c2)) 0) &&
                           match w_cenv cx, w_senv cx with None, Some _ => true | _, _ => false end in
              mkRw c3 true clen (if w_same_resp_codec cx && negb mixed then BEnv ew0 else BTrans tw0)
        end
  end.

(** responseWriter.Write *)
Definition rw_write (cx : wctx) (data : bytes) (r : rw) : rw * wres :=
  let r := if r_headers_written r then r else rw_write_header cx 200 r in
  if c_err (r_core r) then (r, WFail) else
  match r_w r with
  | BNone => (r, WPanic)
  | BNoBody => (r, WFail)
  | BErr w => let '(c, w', res) := xw_write cx data (r_core r) w in (mkRw c true (r_content_len r) (BErr w'), res)
  | BEnv w => let '(c, w', res) := ew_write cx (r_content_len r) data (r_core r) w in (mkRw c true (r_content_len r) (BEnv w'), res)
  | BTrans w => let '(c, w', res) := tw_write cx data (r_core r) w in (mkRw c true (r_content_len r) (BTrans w'), res)
  end.

(** responseWriter.close; [trailers_hdr]: the handler's final header map is [c_hdr] *)
Definition rw_close (cx : wctx) (r : rw) : rw * wres :=
  let r := if r_headers_written r then r else rw_write_header cx 200 r in
  (* w.w.Write(nil); w.w.Close() *)
  let '(r1, res) :=
    match r_w r with
    | BNone => (r, WOk)
    | BNoBody => (r, WOk)
    | BErr w => let '(c1, w1, _) := if c_end_written (r_core r) then (r_core r, w, WOk) else xw_write cx [] (r_core r) w in
                let '(c2, w2) := xw_close cx c1 w1 in (mkRw c2 true (r_content_len r) (BErr w2), WOk)
    | BEnv w => let '(c1, w1, res) := if c_end_written (r_core r) then (r_core r, w, WOk)
                                      else ew_write cx (r_content_len r) [] (r_core r) w in
                match res with
                | WPanic => (mkRw c1 true (r_content_len r) (BEnv w1), WPanic)
                | _ => let '(c2, w2) := ew_close cx c1 w1 in (mkRw c2 true (r_content_len r) (BEnv w2), WOk)
                end
    | BTrans w => let '(c1, w1, res) := if c_end_written (r_core r) then (r_core r, w, WOk)
                                        else tw_write cx [] (r_core r) w in
                  match res with
                  | WPanic => (mkRw c1 true (r_content_len r) (BTrans w1), WPanic)
                  | _ => let '(c2, w2) := tw_close cx c1 w1 in (mkRw c2 true (r_content_len r) (BTrans w2), WOk)
                  end
    end in
  match res with
  | WPanic => (r1, WPanic)
  | _ =>
      let c := r_core r1 in
      if c_end_written c then (r1, WOk) else
      match c_meta c with
      | None => (r1, WPanic)   (* w.respMeta is nil *)
      | Some m =>
          match rm_end m with
          | Some e => (set_core r1 (report_end cx e c), WOk)
          | None =>
              let '(tr, h') := http_extract_trailers (rm_pending_keys m) (c_hdr c) in
              let c1 := mkRwc h' (c_flushed c) (c_end_written c) (c_meta c) (c_err c) (c_buf c) (c_resp_comp c) (c_out c) in
              match extract_end_from_trailers (w_eor cx) (w_server cx) tr with
              | None => (set_core r1 (report_error cx EOther c1), WOk)
              | Some e => (set_core r1 (report_end cx e c1), WOk)
              end
          end
      end
  end.
