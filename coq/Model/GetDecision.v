(** Connect GET towards a Connect backend (protocol_connect.go: connectUnaryServerProtocol.
    useGet / requestLine) and acceptance of Connect GET from clients (resolveMethod). *)
From VG Require Export Model.Request Model.Stream.
Open Scope Z_scope.

(** url.QueryEscape *)
Definition q_unreserved (c : N) : bool :=
  ((48 <=? c) && (c <=? 57))%N || ((65 <=? c) && (c <=? 90))%N || ((97 <=? c) && (c <=? 122))%N ||
  (c =? 45)%N || (c =? 95)%N || (c =? 46)%N || (c =? 126)%N.
Fixpoint query_escape (s : bytes) : bytes :=
  match s with
  | [] => []
  | c :: r => (if q_unreserved c then [c] else if (c =? 32)%N then [43%N] else esc_byte c) ++ query_escape r
  end.

(** base64.RawURLEncoding *)
Definition b64url_char (n : N) : N :=
  if (n <? 26)%N then (65 + n)%N else if (n <? 52)%N then (97 + (n - 26))%N
  else if (n <? 62)%N then (48 + (n - 52))%N else if (n =? 62)%N then 45%N else 95%N.
Fixpoint b64url_raw (s : bytes) : bytes :=
  match s with
  | a :: b :: c :: r =>
      let n := (a * 65536 + b * 256 + c)%N in
      b64url_char (n / 262144) :: b64url_char (n / 4096 mod 64) :: b64url_char (n / 64 mod 64) :: b64url_char (n mod 64) :: b64url_raw r
  | [a; b] =>
      let n := (a * 65536 + b * 256)%N in
      [b64url_char (n / 262144); b64url_char (n / 4096 mod 64); b64url_char (n / 64 mod 64)]
  | [a] =>
      let n := (a * 65536)%N in
      [b64url_char (n / 262144); b64url_char (n / 4096 mod 64)]
  | [] => []
  end.

(** url.Values.Encode over the fixed keys of a Connect GET (keys sorted) *)
Definition connect_get_query (codec comp : bytes) (binary : bool) (data : bytes) : bytes :=
  let b64 := binary || negb (Nat.eqb (length comp) 0) in
  let msg := if b64 then b64url_raw data else data in
  (if b64 then s2b "base64=1&" else []) ++
  (match comp with [] => [] | _ => s2b "compression=" ++ query_escape comp ++ s2b "&" end) ++
  s2b "connect=v1&encoding=" ++ query_escape codec ++ s2b "&message=" ++ query_escape msg.

Inductive rline := RLGet (query : bytes) | RLPost.

(** connectUnaryServerProtocol.requestLine; [data] is the stable marshalling of the message in
    the server codec, compressed when the server compression is set *)
Definition connect_request_line (client_method : bytes) (m : mconf) (stable binary : bool)
           (codec comp data : bytes) : rline :=
  if bytes_eqb client_method m_get && stable && mc_no_side_effects m then
    let q := connect_get_query codec comp binary data in
    if mc_max_get m <? zlen (mc_path m) + zlen q + 1 then RLPost else RLGet q
  else RLPost.
