(** parsePathTemplate (path_parser.go, path_scanner.go) as a recursive-descent parser over
    bytes.  Character classes are regenerated from the source.  Bytes >= 0x80 decode to runes
    outside every class, so they are handled like any other non-matching character. *)
From VG Require Export Model.Bytes.
From VG Require Import Gen.Generated Model.Percent Model.Router.
Open Scope Z_scope.

Inductive pres (A : Type) := POk (a : A) | PErr | PFuel.
Arguments POk {A} a. Arguments PErr {A}. Arguments PFuel {A}.

Record tvar := mkTVar { tv_field : bytes; tv_start : nat; tv_end : option nat }.

Record pst := mkPst { ps_path : list seg (* in order *); ps_vars : list tvar; ps_seen : list bytes; ps_dbl : bool }.

Definition cls (f : Z -> bool) (c : N) : bool := f (Z.of_N c).

(** captureRun(isLiteral) *)
Fixpoint take_while (f : N -> bool) (inp acc : bytes) : bytes * bytes :=
  match inp with
  | c :: r => if f c then take_while f r (c :: acc) else (rev acc, inp)
  | [] => (rev acc, [])
  end.

(** parseLiteral on input whose first char is known to start a literal run (or not) *)
Definition parse_literal (inp : bytes) : pres (bytes * bytes) :=
  let '(lit, rest) := take_while (cls is_literal) inp [] in
  match lit with
  | [] => PErr
  | _ => match path_unescape false lit with
         | None => PErr
         | Some u => POk (path_escape false u, rest)
         end
  end.

(** parseFieldPath: ident ( '.' ident )* ; returns the captured field path *)
Fixpoint parse_field_path (fuel : nat) (inp acc : bytes) : pres (bytes * bytes) :=
  match fuel with
  | O => PFuel
  | S f =>
      match inp with
      | c :: r =>
          if cls is_ident_start c then
            let '(more, rest) := take_while (cls is_ident) r [] in
            let acc' := acc ++ c :: more in
            match rest with
            | 46%N :: r' => parse_field_path f r' (acc' ++ [46%N])
            | _ => POk (acc', rest)
            end
          else PErr
      | [] => PErr
      end
  end.

Definition push (s : seg) (st : pst) : pst := mkPst (ps_path st ++ [s]) (ps_vars st) (ps_seen st) (ps_dbl st).

Fixpoint parse_segments (fuel : nat) (st : pst) (inp : bytes) {struct fuel} : pres (pst * bytes) :=
  match fuel with
  | O => PFuel
  | S f =>
      let seg_res : pres (pst * bytes) :=
        match inp with
        | 42%N :: 42%N :: r => POk (mkPst (ps_path st ++ [dstar]) (ps_vars st) (ps_seen st) true, r)
        | 42%N :: r => POk (push star st, r)
        | 123%N :: r =>
            match parse_field_path (S (length r)) r [] with
            | PErr => PErr | PFuel => PFuel
            | POk (fp, r1) =>
                if existsb (bytes_eqb fp) (ps_seen st) then PErr else
                let st1 := mkPst (ps_path st) (ps_vars st) (fp :: ps_seen st) (ps_dbl st) in
                let start := length (ps_path st) in
                let finish (st2 : pst) : pst :=
                  mkPst (ps_path st2)
                        (ps_vars st2 ++ [mkTVar fp start (if ps_dbl st2 then None else Some (length (ps_path st2)))])
                        (ps_seen st2) (ps_dbl st2) in
                match r1 with
                | 125%N :: r2 => POk (finish (push star st1), r2)
                | 61%N :: r2 =>
                    match parse_segments f st1 r2 with
                    | PErr => PErr | PFuel => PFuel
                    | POk (st2, r3) =>
                        match r3 with
                        | 125%N :: r4 => POk (finish st2, r4)
                        | _ => PErr
                        end
                    end
                | _ => PErr
                end
            end
        | c :: _ =>
            if cls is_literal c then
              match parse_literal inp with
              | POk (lit, rest) => POk (push lit st, rest)
              | PErr => PErr | PFuel => PFuel
              end
            else PErr
        | [] => PErr
        end in
      match seg_res with
      | PErr => PErr | PFuel => PFuel
      | POk (st', r) =>
          match r with
          | 47%N :: r' => if ps_dbl st' then PErr else parse_segments f st' r'
          | _ => POk (st', r)
          end
      end
  end.

(** parseTemplate; result: path segments, verb, variables *)
Definition parse_path_template (t : bytes) : pres (list seg * bytes * list tvar) :=
  match t with
  | 47%N :: r =>
      match parse_segments (S (length r)) (mkPst [] [] [] false) r with
      | PErr => PErr | PFuel => PFuel
      | POk (st, rest) =>
          match rest with
          | [] => POk (ps_path st, [], ps_vars st)
          | 58%N :: r2 =>
              match parse_literal r2 with
              | POk (verb, []) => POk (ps_path st, verb, ps_vars st)
              | POk (_, _ :: _) => PErr
              | PErr => PErr | PFuel => PFuel
              end
          | _ => PErr
          end
      end
  | _ => PErr
  end.
