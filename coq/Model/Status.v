(** Status tables (protocol_http.go).  [http_status_from_rpc] and [http_status_to_rpc] are
    regenerated from the Go source; here are the published tables they must equal. *)
From VG Require Export Model.Bytes.
From VG Require Export Gen.Generated.
Open Scope Z_scope.

(** Connect protocol specification, "Error Codes": code -> HTTP status *)
Definition published_http_of_rpc : list (Z * Z) :=
  [(1, 499); (2, 500); (3, 400); (4, 504); (5, 404); (6, 409); (7, 403); (8, 429); (9, 400);
   (10, 409); (11, 400); (12, 501); (13, 500); (14, 503); (15, 500); (16, 401)].

Fixpoint assoc (k : Z) (l : list (Z * Z)) : option Z :=
  match l with [] => None | (a, b) :: r => if a =? k then Some b else assoc k r end.

(** what a client must observe for RPC code [c] (0 <= c < 2^32) *)
Definition spec_http_of_rpc (c : Z) : Z :=
  if c =? 0 then 200 else match assoc c published_http_of_rpc with Some s => s | None => 500 end.

(** Connect / gRPC specification, "HTTP to Error Code" *)
Definition spec_rpc_of_http (s : Z) : Z :=
  if s =? 200 then 0
  else if s =? 400 then 13
  else if s =? 401 then 16
  else if s =? 403 then 7
  else if s =? 404 then 12
  else if (s =? 429) || (s =? 502) || (s =? 503) || (s =? 504) then 14
  else 2.
