(** Buffer pool discipline (buffers.go: bufferPool.Get / Put / Wrap and the ownership rules
    of message.reset / release / compress / decompress / encode).

    A trace is the sequence of Get ('G') and Put ('P') events with buffer identities as seen
    by the verif pool observer.  [pool_trace_ok] is the safety predicate: no buffer is put
    back twice without having been handed out in between, and no buffer is handed out while
    it is still owned by someone. *)
From VG Require Export Model.Bytes.
Open Scope Z_scope.

Inductive pev := PGet (id : Z) | PPut (id : Z).

Fixpoint zmemb (x : Z) (l : list Z) : bool := match l with [] => false | y :: r => (x =? y) || zmemb x r end.
Fixpoint zremove (x : Z) (l : list Z) : list Z :=
  match l with [] => [] | y :: r => if x =? y then r else y :: zremove x r end.

(** state: buffers currently owned by some user ([out]) and buffers sitting in the pool ([idle]) *)
Record pstate := mkPs { ps_out : list Z; ps_idle : list Z }.

Definition pstep (s : pstate) (e : pev) : option pstate :=
  match e with
  | PGet id =>
      if zmemb id (ps_out s) then None                      (* handed out while still in use *)
      else Some (mkPs (id :: ps_out s) (zremove id (ps_idle s)))
  | PPut id =>
      if zmemb id (ps_idle s) then None                     (* released twice *)
      else Some (mkPs (zremove id (ps_out s)) (id :: ps_idle s))
  end.

Fixpoint prun (s : pstate) (tr : list pev) : option pstate :=
  match tr with
  | [] => Some s
  | e :: r => match pstep s e with Some s' => prun s' r | None => None end
  end.

Definition pool_trace_ok (tr : list pev) : bool :=
  match prun (mkPs [] []) tr with Some _ => true | None => false end.

(** * Contents (C15): bufferPool.Get resets whatever it hands out; Put does not keep buffers
    whose capacity exceeds maxRecycleBufferSize (regenerated constant).  sync.Pool may return
    any pooled buffer, or none: [pick] is that choice. *)
From VG Require Import Gen.Generated.

Record pbuf := mkPbuf { pb_id : Z; pb_cap : Z; pb_data : bytes }.

Definition pool_put (idle : list pbuf) (b : pbuf) : list pbuf :=
  if max_recycle_buffer_size <? pb_cap b then idle else b :: idle.

(** [pick idle] chooses what sync.Pool.Get returns: [Some (b, rest)] or [None] (then a new buffer) *)
Definition pool_get (pick : list pbuf -> option (pbuf * list pbuf)) (fresh : Z) (idle : list pbuf) : pbuf * list pbuf :=
  match pick idle with
  | Some (b, rest) => (mkPbuf (pb_id b) (pb_cap b) [], rest)
  | None => (mkPbuf fresh initial_buffer_size [], idle)
  end.

Inductive cop := CPut (b : pbuf) | CGet (fresh : Z).

(** a history of pool operations; the results of the Gets are collected *)
Fixpoint pool_history (pick : list pbuf -> option (pbuf * list pbuf)) (ops : list cop) (idle : list pbuf) (got : list pbuf)
  : list pbuf * list pbuf :=
  match ops with
  | [] => (idle, got)
  | CPut b :: r => pool_history pick r (pool_put idle b) got
  | CGet f :: r => let '(b, idle') := pool_get pick f idle in pool_history pick r idle' (got ++ [b])
  end.
