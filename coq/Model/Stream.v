(** Byte-stream primitives shared by the body transducers (transcoder.go): the upstream
    request body as a list of chunks, io.ReadFull, io.CopyN, io.Copy through hardLimitReader,
    exactLengthReader. *)
From VG Require Export Model.Bytes.
Open Scope Z_scope.

(** error classes (only the class is observable through the correspondence projection) *)
Inductive ecls :=
| EEOF                (* io.EOF *)
| EUnexpectedEOF      (* io.ErrUnexpectedEOF *)
| EResourceExhausted  (* bufferLimitError / contentLengthError *)
| EInvalidArgument    (* malformedRequestError *)
| EUpstream           (* error returned by the client's body *)
| EClosed
| EOther.

Inductive rstat := SOk | SErr (e : ecls).

Definition ecls_eqb (a b : ecls) : bool :=
  match a, b with
  | EEOF, EEOF | EUnexpectedEOF, EUnexpectedEOF | EResourceExhausted, EResourceExhausted
  | EInvalidArgument, EInvalidArgument | EUpstream, EUpstream | EClosed, EClosed | EOther, EOther => true
  | _, _ => false
  end.

Definition is_eof (s : rstat) : bool := match s with SErr EEOF => true | _ => false end.

(** The upstream body: each Read returns at most the rest of the current chunk; after the
    last chunk every Read returns (0, [u_term]).  When [u_eof_last] the final data is
    returned together with io.EOF (as net/http bodies may do). *)
Record up := mkUp { u_chunks : list bytes; u_term : ecls; u_eof_last : bool }.

(** take/drop with a Z count; the nat passed to firstn/skipn never exceeds the list length,
    so huge counts (a limit of 2^32) cost nothing *)
Definition ztake {A} (k : Z) (l : list A) : list A := firstn (Z.to_nat (Z.min (Z.max k 0) (Z.of_nat (length l)))) l.
Definition zdrop {A} (k : Z) (l : list A) : list A := skipn (Z.to_nat (Z.min (Z.max k 0) (Z.of_nat (length l)))) l.
Definition zlen {A} (l : list A) : Z := Z.of_nat (length l).

Fixpoint drop_empty (l : list bytes) : list bytes :=
  match l with [] :: r => drop_empty r | _ => l end.

Definition up_read (k : Z) (u : up) : (bytes * rstat) * up :=
  match drop_empty (u_chunks u) with
  | [] => (([], SErr (u_term u)), mkUp [] (u_term u) (u_eof_last u))
  | c :: rest =>
      let d := ztake k c in
      let c' := zdrop k c in
      match c', drop_empty rest with
      | [], [] =>
          if u_eof_last u && ecls_eqb (u_term u) EEOF
          then ((d, SErr EEOF), mkUp [] (u_term u) (u_eof_last u))
          else ((d, SOk), mkUp [] (u_term u) (u_eof_last u))
      | [], rest' => ((d, SOk), mkUp rest' (u_term u) (u_eof_last u))
      | _, _ => ((d, SOk), mkUp (c' :: rest) (u_term u) (u_eof_last u))
      end
  end.

Definition flat (u : up) : bytes := concat (u_chunks u).

(** io.ReadFull(r, buf[:n]) *)
Fixpoint read_full (fuel : nat) (n : Z) (u : up) (acc : bytes) : (bytes * rstat) * up :=
  if n <=? 0 then ((acc, SOk), u) else
  match fuel with
  | O => ((acc, SErr EOther), u)   (* out of fuel: excluded by the fuel lemma *)
  | S f =>
      let '((d, st), u') := up_read n u in
      let acc' := acc ++ d in
      let n' := n - zlen d in
      if n' <=? 0 then ((acc', SOk), u') else
      match st with
      | SOk => read_full f n' u' acc'
      | SErr EEOF => ((acc', SErr (match acc' with [] => EEOF | _ => EUnexpectedEOF end)), u')
      | SErr e => ((acc', SErr e), u')
      end
  end.

Definition fuel_of (u : up) : nat := S (S (length (u_chunks u))).

(** io.CopyN(buffer, reader, n): EOF on a short read is reported as io.EOF by CopyN and
    turned into ErrUnexpectedEOF by readRequestMessage *)
Definition copy_n (n : Z) (u : up) : (bytes * rstat) * up :=
  let '((d, st), u') := read_full (fuel_of u) n u [] in
  match st with
  | SErr EEOF => ((d, SErr EUnexpectedEOF), u')
  | _ => ((d, st), u')
  end.

(** io.Copy(buffer, &hardLimitReader{r: upstream, limit: limit}) : reads until EOF, an
    upstream error, or one byte more than [limit]. *)
Fixpoint copy_limit (fuel : nat) (limit : Z) (u : up) (acc : bytes) : (bytes * rstat) * up :=
  match fuel with
  | O => ((acc, SErr EOther), u)
  | S f =>
      let remaining := limit - zlen acc in
      if remaining <? 0 then ((acc, SErr EResourceExhausted), u) else
      (* io.Copy reads with a large buffer; hardLimitReader trims it to remaining+1 *)
      let '((d, st), u') := up_read (remaining + 1) u in
      let acc' := acc ++ d in
      if (limit <? zlen acc') && (match st with SOk | SErr EEOF => true | _ => false end)
      then ((acc', SErr EResourceExhausted), u')
      else match st with
           | SOk => copy_limit f limit u' acc'
           | SErr EEOF => ((acc', SOk), u')
           | SErr e => ((acc', SErr e), u')
           end
  end.

Definition copy_hard_limit (limit : Z) (u : up) : (bytes * rstat) * up :=
  copy_limit (fuel_of u) limit u [].
