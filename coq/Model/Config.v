(** Construction of a Transcoder from its configuration (vanguard.go: NewTranscoder and the
    service options; transcoder.go: registerService, registerMethod, registerRules, addRule;
    router.go: addRoute, makeTarget, resolvePathToFieldDescriptors, routeTrie.insert).

    The schema (messages, fields, services, methods, google.api.http annotations) is data.
    [new_transcoder] returns [None] exactly when NewTranscoder returns an error, and otherwise
    the tables the request path works from: one [mfinal] per method and the list of REST
    bindings, from which [to_tconf] gives the [tconf] of Model/Request.v. *)
From VG Require Export Model.Router Model.Request Model.PathTemplate.
From VG Require Import Gen.Generated.
Open Scope Z_scope.

(** * schema *)
(** f_kind: 0 scalar or enum, 1 message, 2 message with a scalar JSON form (well-known type);
    f_card: 0 singular, 1 list, 2 map *)
Record field := mkField { f_name : bytes; f_kind : Z; f_card : Z; f_msg : bytes }.
Record msgdesc := mkMsg { m_name : bytes; m_fields : list field }.

(** one (HTTP method, template) pattern of a google.api.HttpRule.
    b_kind: 0 no pattern, 1 get, 2 put, 3 post, 4 delete, 5 patch, 6 custom (b_custom = kind) *)
Record binding := mkB { b_kind : Z; b_custom : bytes; b_template : bytes; b_body : bytes; b_resp : bytes;
                        b_nested : bool (* has additional bindings of its own *) }.
Record rule := mkRule { r_selector : bytes; r_main : binding; r_additional : list binding }.

Record methdesc := mkMeth { md_name : bytes; md_in : bytes; md_out : bytes; md_stream : Z; md_nse : bool;
                            md_rule : option rule (* annotation *) }.
Record svcdesc := mkSvc { sd_name : bytes; sd_methods : list methdesc }.

Definition find_msg (ms : list msgdesc) (n : bytes) : option msgdesc := List.find (fun m => bytes_eqb (m_name m) n) ms.
Definition find_field (fs : list field) (n : bytes) : option field := List.find (fun f => bytes_eqb (f_name f) n) fs.

(** resolvePathToFieldDescriptors over the '.'-separated parts *)
Fixpoint resolve_parts (ms : list msgdesc) (m : msgdesc) (parts : list bytes) : option (list field) :=
  match parts with
  | [] => None
  | [p] => match find_field (m_fields m) p with Some f => Some [f] | None => None end
  | p :: rest =>
      match find_field (m_fields m) p with
      | None => None
      | Some f =>
          if negb (f_card f =? 0) then None          (* should not be a list or map *)
          else if f_kind f =? 0 then None            (* should be a message *)
          else match find_msg ms (f_msg f) with
               | None => None
               | Some m' => match resolve_parts ms m' rest with Some l => Some (f :: l) | None => None end
               end
      end
  end.

Definition resolve_path (ms : list msgdesc) (msg : bytes) (path : bytes) : option (list field) :=
  match find_msg ms msg with
  | None => None
  | Some m => resolve_parts ms m (split_on 46 path [])
  end.

(** a field that a path variable can fill from one string *)
Definition var_field_ok (f : field) : bool := (f_card f =? 0) && negb (f_kind f =? 1).

Definition last_field (l : list field) : option field := List.last (map Some l) None.

Definition http_body_name : bytes := s2b "google.api.HttpBody".

(** * service options *)
Record sopts := mkSO { so_protocols : list Z; so_codecs : list bytes; so_preferred : bytes;
                       so_comps : list bytes; so_maxbuf : Z; so_maxget : Z }.
Inductive sopt := OProtocols (l : list Z) | OCodecs (l : list bytes) | OCompression (l : list bytes)
                | OMaxBuf (n : Z) | OMaxGet (n : Z).

Definition apply_opt (o : sopts) (x : sopt) : sopts :=
  match x with
  | OProtocols l => mkSO l (so_codecs o) (so_preferred o) (so_comps o) (so_maxbuf o) (so_maxget o)
  | OCodecs l => mkSO (so_protocols o) l (match l with c :: _ => c | [] => [] end) (so_comps o) (so_maxbuf o) (so_maxget o)
  | OCompression l => mkSO (so_protocols o) (so_codecs o) (so_preferred o) l (so_maxbuf o) (so_maxget o)
  | OMaxBuf n => mkSO (so_protocols o) (so_codecs o) (so_preferred o) (so_comps o) n (so_maxget o)
  | OMaxGet n => mkSO (so_protocols o) (so_codecs o) (so_preferred o) (so_comps o) (so_maxbuf o) n
  end.

(** regenerated from the literals in NewTranscoder *)
Definition builtin_sopts : sopts :=
  mkSO default_protocols default_codec_names default_preferred_codec default_compressor_names
       default_maxMsgBufferBytes default_maxGetURLBytes.

Definition resolve_opts (defaults : sopts) (opts : list sopt) : sopts := fold_left apply_opt opts defaults.

Definition known_protocol (p : Z) : bool :=
  (p =? c_ProtocolConnect) || (p =? c_ProtocolGRPC) || (p =? c_ProtocolGRPCWeb) || (p =? c_ProtocolREST).

Definition bmem (x : bytes) (l : list bytes) : bool := existsb (bytes_eqb x) l.

(** the checks at the top of registerService *)
Definition opts_ok (codecs comps : list bytes) (o : sopts) : bool :=
  nonempty (so_protocols o) && forallb known_protocol (so_protocols o)
  && nonempty (so_codecs o) && forallb (fun c => bmem c codecs) (so_codecs o)
  && forallb (fun c => bmem c comps) (so_comps o)
  && (0 <? so_maxbuf o) && (0 <? so_maxget o).

Definition rest_only (o : sopts) : bool :=
  nonempty (so_protocols o) && forallb (fun p => p =? c_ProtocolREST) (so_protocols o).

(** * the tables *)
Record cbinding := mkCb { cb_route : route; cb_method_path : bytes; cb_body : bytes; cb_resp : bytes;
                          cb_vars : list bytes; cb_hb_req : bool; cb_hb_resp : bool }.

Record mfinal := mkMf { mf_path : bytes; mf_full : bytes (* pkg.Svc.Method *); mf_svc : bytes; mf_desc : methdesc;
                        mf_opts : sopts; mf_rule : option route (* methodConf.httpRule *) }.

Record cst := mkCst { cs_items : list item; cs_bindings : list cbinding; cs_methods : list mfinal }.

Definition http_method_of (b : binding) : option bytes :=
  let k := b_kind b in
  if k =? 1 then Some (s2b "GET") else if k =? 2 then Some (s2b "PUT") else if k =? 3 then Some (s2b "POST")
  else if k =? 4 then Some (s2b "DELETE") else if k =? 5 then Some (s2b "PATCH")
  else if k =? 6 then Some (b_custom b) else None.

Definition body_fields (ms : list msgdesc) (msg path : bytes) : option (list field) :=
  if bytes_eqb path (s2b "*") then Some []
  else match path with
       | [] => Some []
       | _ => match resolve_path ms msg path with
              | Some [f] => Some [f]
              | _ => None                       (* unknown, or not a single field *)
              end
       end.

Definition is_http_body (ms : list msgdesc) (msg path : bytes) : bool :=
  if bytes_eqb path (s2b "*") then bytes_eqb msg http_body_name
  else match path with
       | [] => false
       | _ => match resolve_path ms msg path with
              | Some [f] => (f_card f =? 0) && bytes_eqb (f_msg f) http_body_name
              | _ => false
              end
       end.

Definition pvar_of (v : tvar) : pvar := mkVar (tv_start v) (tv_end v).

(** makeTarget: None = error *)
Definition make_target (ms : list msgdesc) (md : methdesc) (mpath meth : bytes) (b : binding)
    (path : list seg) (verb : bytes) (vars : list tvar) : option cbinding :=
  match body_fields ms (md_in md) (b_body b), body_fields ms (md_out md) (b_resp b) with
  | Some _, Some _ =>
      if forallb (fun v => match resolve_path ms (md_in md) (tv_field v) with
                           | Some fs => match last_field fs with Some f => var_field_ok f | None => false end
                           | None => false
                           end) vars
      then Some (mkCb (mkRoute meth path verb (map pvar_of vars)) mpath (b_body b) (b_resp b) (map tv_field vars)
                      (is_http_body ms (md_in md) (b_body b)) (is_http_body ms (md_out md) (b_resp b)))
      else None
  | _, _ => None
  end.

(** routeTrie.addRoute *)
Definition add_route (ms : list msgdesc) (s : cst) (md : methdesc) (mpath : bytes) (b : binding) : option (cst * route) :=
  match http_method_of b with
  | None => None
  | Some meth =>
      match meth, b_template b with
      | [], _ => None
      | _, [] => None
      | _, _ =>
          match parse_path_template (b_template b) with
          | POk (path, verb, vars) =>
              match make_target ms md mpath meth b path verb vars with
              | None => None
              | Some cb =>
                  let '(items', ok) := insert (cs_items s) (length (cs_bindings s)) (cb_route cb) in
                  if ok then Some (mkCst items' (cs_bindings s ++ [cb]) (cs_methods s), cb_route cb) else None
              end
          | _ => None
          end
      end
  end.

Fixpoint add_additional (ms : list msgdesc) (s : cst) (md : methdesc) (mpath : bytes) (bs : list binding) : option cst :=
  match bs with
  | [] => Some s
  | b :: r =>
      if b_nested b then None
      else match add_route ms s md mpath b with
           | None => None
           | Some (s', _) => add_additional ms s' md mpath r
           end
  end.

Definition set_rule (mpath : bytes) (rt : route) (l : list mfinal) : list mfinal :=
  map (fun m => if bytes_eqb (mf_path m) mpath then mkMf (mf_path m) (mf_full m) (mf_svc m) (mf_desc m) (mf_opts m) (Some rt) else m) l.

(** Transcoder.addRule *)
Definition add_rule (ms : list msgdesc) (s : cst) (md : methdesc) (mpath : bytes) (r : rule) : option cst :=
  match add_route ms s md mpath (r_main r) with
  | None => None
  | Some (s1, rt) =>
      let s2 := mkCst (cs_items s1) (cs_bindings s1) (set_rule mpath rt (cs_methods s1)) in
      add_additional ms s2 md mpath (r_additional r)
  end.

Definition method_path (svc meth : bytes) : bytes := [47%N] ++ svc ++ [47%N] ++ meth.
Definition method_full (svc meth : bytes) : bytes := svc ++ [46%N] ++ meth.

(** registerMethod *)
Definition register_method (ms : list msgdesc) (svc : bytes) (o : sopts) (s : cst) (md : methdesc) : option cst :=
  let mpath := method_path svc (md_name md) in
  if existsb (fun m => bytes_eqb (mf_path m) mpath) (cs_methods s) then None
  else
    let s1 := mkCst (cs_items s) (cs_bindings s) (cs_methods s ++ [mkMf mpath (method_full svc (md_name md)) svc md o None]) in
    match md_rule md with
    | None => Some s1
    | Some r => add_rule ms s1 md mpath r
    end.

Fixpoint ofold {A B} (f : A -> B -> option A) (a : A) (l : list B) : option A :=
  match l with
  | [] => Some a
  | x :: r => match f a x with Some a' => ofold f a' r | None => None end
  end.

Record svcreg := mkSvcReg { sr_desc : svcdesc; sr_opts : list sopt }.

(** registerService *)
Definition register_service (ms : list msgdesc) (codecs comps : list bytes) (defaults : sopts) (s : cst) (sv : svcreg) : option cst :=
  let o := resolve_opts defaults (sr_opts sv) in
  if opts_ok codecs comps o then ofold (register_method ms (sd_name (sr_desc sv)) o) s (sd_methods (sr_desc sv))
  else None.

(** selectors of WithRules *)
Fixpoint index_of (c : N) (s : bytes) (i : nat) : option nat :=
  match s with [] => None | x :: r => if (x =? c)%N then Some i else index_of c r (S i) end.

Definition ends_with_dot (s : bytes) : bool := match rev s with 46%N :: _ => true | _ => false end.

(** None = malformed selector; Some (wildcard, text) *)
Definition parse_selector (sel : bytes) : option (bool * bytes) :=
  match sel with
  | [] => None
  | _ =>
      match index_of 42 sel 0 with
      | None => Some (false, sel)
      | Some i =>
          if negb (Nat.eqb i (length sel - 1)) then None
          else let p := firstn i sel in
               if nonempty p && negb (ends_with_dot p) then None else Some (true, p)
      end
  end.

Definition selector_matches (wild : bool) (text name : bytes) : bool :=
  if wild then is_prefix text name else bytes_eqb text name.

(** registerRules, one rule: applied to every selected method, in registration order *)
Definition apply_rule (ms : list msgdesc) (s : cst) (r : rule) : option cst :=
  match parse_selector (r_selector r) with
  | None => None
  | Some (wild, text) =>
      let sel := filter (fun m => selector_matches wild text (mf_full m)) (cs_methods s) in
      match sel with
      | [] => None
      | _ => ofold (fun st m => add_rule ms st (mf_desc m) (mf_path m) r) s sel
      end
  end.

Record tcfg := mkTcfg { t_codecs : list bytes; t_comps : list bytes; t_defaults : list sopt;
                        t_services : list svcreg; t_rules : list rule }.

Definition rest_only_ok (s : cst) (sv : svcreg) (defaults : sopts) : bool :=
  if rest_only (resolve_opts defaults (sr_opts sv)) then
    existsb (fun m => bytes_eqb (mf_svc m) (sd_name (sr_desc sv)) && match mf_rule m with Some _ => true | None => false end) (cs_methods s)
  else true.

Definition new_transcoder (ms : list msgdesc) (c : tcfg) : option cst :=
  let codecs := builtin_codecs ++ t_codecs c in
  let comps := builtin_compressors ++ t_comps c in
  let defaults := resolve_opts builtin_sopts (t_defaults c) in
  match ofold (register_service ms codecs comps defaults) (mkCst [] [] []) (t_services c) with
  | None => None
  | Some s1 =>
      match ofold (apply_rule ms) s1 (t_rules c) with
      | None => None
      | Some s2 => if forallb (fun sv => rest_only_ok s2 sv defaults) (t_services c) then Some s2 else None
      end
  end.

(** * the request path's view *)
Definition mconf_of (m : mfinal) : mconf :=
  mkMconf (mf_path m) (md_stream (mf_desc m)) (md_nse (mf_desc m)) (match mf_rule m with Some _ => true | None => false end)
          (so_protocols (mf_opts m)) (so_codecs (mf_opts m)) (so_preferred (mf_opts m)) (so_comps (mf_opts m))
          (so_maxbuf (mf_opts m)) (so_maxget (mf_opts m)).

Definition rbinding_of (b : cbinding) : rbinding := mkRb (cb_route b) (cb_method_path b) (cb_hb_req b) (cb_hb_resp b).

Definition to_tconf (c : tcfg) (has_unknown : bool) (s : cst) : tconf :=
  mkTconf (map mconf_of (cs_methods s)) (map rbinding_of (cs_bindings s))
          (builtin_codecs ++ t_codecs c) (builtin_compressors ++ t_comps c) has_unknown.

(** matching a request line against the accepted bindings *)
Definition route_request (s : cst) (uri meth : bytes) : mres :=
  let routes := map cb_route (cs_bindings s) in
  trie_match routes (fst (build routes)) uri meth.
