(** Request-body adapters (transcoder.go): envelopingReader (re-framing only) and
    transformingReader (decompress / decode / encode / compress per message), with
    readRequestMessage, processRequestEnvelope, determineReadLimit, hardLimitReader and
    message.advanceToStage. *)
From VG Require Export Model.Stream Model.Envelope.
Open Scope Z_scope.

(** Per-operation context fixed by validate/handle. *)
Record rctx := mkRctx {
  cenv : option envk;        (* op.clientEnveloper *)
  senv : option envk;        (* op.serverEnveloper *)
  limit : Z;                 (* methodConf.maxMsgBufferBytes *)
  content_len : Z;           (* op.contentLen, -1 = unknown *)
  client_comp : bool;        (* op.client.reqCompression != nil *)
  server_comp : bool;        (* op.server.reqCompression != nil *)
  single_only : bool;        (* op.singleRequestMessageOnly() *)
  same_codec : bool;         (* message.sameCodec *)
  same_comp : bool;          (* message.sameCompression *)
  first_may_be_empty : bool  (* op.clientReqNeedsPrep: an absent body is an empty first message *)
}.

(** * envelopingReader *)

Inductive cur :=
| CNone
| CUp                          (* the upstream body itself *)
| CExact (n : Z)               (* exactLengthReader *)
| CHard (lim read : Z)         (* hardLimitReader *)
| CBuf (b : bytes).            (* buffered body (bytes.Buffer) *)

Record ereader := mkER {
  er_up : up;
  er_err : option ecls;
  er_cur : cur;
  er_env : bytes;
  er_envrem : nat;
  er_msgs : nat;
  er_reports : list ecls       (* errors handed to responseWriter.reportError, oldest first *)
}.

Definition er_init (u : up) : ereader := mkER u None CNone [] 0 0 [].

(** current.Read(data[:k]) *)
Definition cur_read (c : cur) (u : up) (k : Z) : (bytes * rstat) * cur * up * list ecls :=
  match c with
  | CNone => (([], SErr EOther), c, u, [])
  | CUp => let '(r, u') := up_read k u in (r, CUp, u', [])
  | CExact n =>
      if n <=? 0 then (([], SErr EEOF), c, u, []) else
      let '((d, st), u') := up_read (Z.min k n) u in
      let n' := n - zlen d in
      let st' := if (0 <? n') && is_eof st then SErr EUnexpectedEOF else st in
      ((d, st'), CExact n', u', [])
  | CHard lim read =>
      let remaining := lim - read in
      if remaining <? 0 then (([], SErr EResourceExhausted), c, u, []) else
      let k' := if remaining <? k then remaining + 1 else k in
      let '((d, st), u') := up_read k' u in
      let read' := read + zlen d in
      if (lim <? read') && (match st with SOk | SErr EEOF => true | _ => false end)
      then ((d, SErr EResourceExhausted), CHard lim read', u', [EResourceExhausted])
      else ((d, st), CHard lim read', u', [])
  | CBuf b =>
      match b with
      | [] => (([], SErr EEOF), c, u, [])
      | _ => ((ztake k b, SOk), CBuf (zdrop k b), u, [])
      end
  end.

Inductive prep := PrepOk (c : cur) (env : bytes) (u : up) (msgs : nat) (reports : list ecls)
                | PrepErr (e : ecls) (u : up) (msgs : nat) (reports : list ecls).

(** envelopingReader.prepareNext *)
Definition er_prepare (cx : rctx) (r : ereader) : prep :=
  let u := er_up r in
  match cenv cx, senv cx with
  | None, None => PrepOk CUp [] u (er_msgs r) []
  | None, Some s =>
      match er_cur r with
      | CNone =>
          if content_len cx =? -1 then
            let '((data, st), u') := copy_hard_limit (limit cx) u in
            match st with
            | SOk => PrepOk (CBuf data) (encode_env s (mkEnv false (client_comp cx) (Z.of_nat (length data)))) u' (er_msgs r) []
            | SErr EResourceExhausted => PrepErr EResourceExhausted u' (er_msgs r) [EResourceExhausted]
            | SErr e => PrepErr e u' (er_msgs r) []
            end
          else if limit cx <? content_len cx then PrepErr EResourceExhausted u (er_msgs r) []
          else PrepOk (CHard (content_len cx) 0) (encode_env s (mkEnv false (client_comp cx) (content_len cx))) u (er_msgs r) []
      | _ => PrepErr EEOF u (er_msgs r) []
      end
  | Some c, so =>
      let '((hdr, st), u') := read_full (fuel_of u) 5 u [] in
      match st with
      | SErr e => PrepErr e u' (er_msgs r) []
      | SOk =>
          match decode_env c hdr with
          | None => PrepErr EInvalidArgument u' (er_msgs r) [EInvalidArgument]
          | Some env =>
              let msgs := S (er_msgs r) in
              if (1 <? msgs)%nat && single_only cx then PrepErr EInvalidArgument u' msgs [EInvalidArgument]
              else PrepOk (CExact (e_len env))
                          (match so with Some s => encode_env s env | None => [] end) u' msgs []
          end
      end
  end.

(** the prepare-and-read loop at the end of envelopingReader.Read; it repeats only for an empty
    message of an enveloped client towards a backend without envelopes, and every repetition
    consumes an envelope from upstream: fuel = number of upstream bytes suffices *)
Fixpoint er_next (fuel : nat) (cx : rctx) (r0 : ereader) (k : Z) : (bytes * rstat) * ereader :=
  match fuel with
  | O => (([], SErr EOther), r0)
  | S f =>
      match er_prepare cx r0 with
      | PrepErr e u' msgs rep =>
          (([], SErr e), mkER u' (Some e) (er_cur r0) (er_env r0) 0 msgs (er_reports r0 ++ rep))
      | PrepOk c env u' msgs rep =>
          let envrem := length env in
          if k <? Z.of_nat envrem then
            ((ztake k env, SOk), mkER u' None c env (envrem - Z.to_nat k) msgs (er_reports r0 ++ rep))
          else
            let '((d, st), c', u'', rep2) :=
              if Z.of_nat envrem <? k then cur_read c u' (k - Z.of_nat envrem) else (([], SOk), c, u', []) in
            let r1 := mkER u'' None c' env 0 msgs (er_reports r0 ++ rep ++ rep2) in
            let enveloped_client := match cenv cx with Some _ => true | None => false end in
            if is_eof st && ((0 <? envrem)%nat || enveloped_client) then
              match env ++ d with
              | [] => er_next f cx r1 k
              | out => ((out, SOk), r1)
              end
            else ((env ++ d, st), r1)
      end
  end.

(** envelopingReader.Read(data) with len(data) = k >= 1 *)
Definition er_read (cx : rctx) (r : ereader) (k : Z) : (bytes * rstat) * ereader :=
  match er_err r with
  | Some e => (([], SErr e), r)
  | None =>
      match er_envrem r with
      | S _ =>
          let tail := skipn (length (er_env r) - er_envrem r) (er_env r) in
          let d := ztake k tail in
          ((d, SOk), mkER (er_up r) None (er_cur r) (er_env r) (er_envrem r - length d) (er_msgs r) (er_reports r))
      | O =>
          (* phase 1: the current message *)
          let phase1 :=
            match er_cur r with
            | CNone => None
            | c =>
                let '((d, st), c', u', rep) := cur_read c (er_up r) k in
                let r' := mkER u' None c' (er_env r) 0 (er_msgs r) (er_reports r ++ rep) in
                match d, st with
                | _ :: _, SOk | _ :: _, SErr EEOF => Some ((d, SOk), r')
                | _, SErr EEOF | [], SOk => None
                | _, SErr e => Some ((d, SErr e), mkER u' (Some e) c' (er_env r) 0 (er_msgs r) (er_reports r ++ rep))
                end
            end in
          match phase1 with
          | Some res => res
          | None =>
              (* the state after a fall-through: cur_read consumed nothing when it reported EOF
                 with no data, so recomputing from [r] is faithful *)
              let r0 :=
                match er_cur r with
                | CNone => r
                | c => let '(_, c', u', rep) := cur_read c (er_up r) k in
                       mkER u' None c' (er_env r) 0 (er_msgs r) (er_reports r ++ rep)
                end in
              er_next (S (length (flat (er_up r0)))) cx r0 k
          end
      end
  end.

(** * message.advanceToStage(stageSend) for a request message: the bytes handed to the
    backend for one message, given oracles for the four library operations. *)
Record oracles := mkOr {
  o_decompress : bytes -> option bytes;  (* client request compression, bounded by limit: None = error *)
  o_decode : bytes -> option bytes;      (* client codec (or body preparer): wire bytes -> message *)
  o_encode : bytes -> option bytes;      (* server codec (or body preparer): message -> wire bytes *)
  o_compress : bytes -> bytes;           (* server request compression *)
  o_toobig : bytes -> bool               (* decompression stopped because the output exceeds the limit *)
}.

Definition decomp_class (o : oracles) (b : bytes) : ecls := if o_toobig o b then EResourceExhausted else EOther.

(** result: the bytes to send, or the class of the error reported to the client *)
(** message.mustCompress: the server side has no per-message flag but declared a compression *)
Definition must_compress (cx : rctx) : bool :=
  match senv cx with None => server_comp cx | Some _ => false end.

Definition advance_send (cx : rctx) (o : oracles) (was_compressed : bool) (b : bytes) : bytes + ecls :=
  if same_codec cx && (negb was_compressed || same_comp cx) && (was_compressed || negb (must_compress cx)) then inl b   (* fast path *)
  else if negb (same_codec cx) then
    (* stageRead -> stageDecoded -> stageSend *)
    let plain := if was_compressed && client_comp cx && negb (Nat.eqb (length b) 0)
                 then match o_decompress o b with Some p => inl p | None => inr (decomp_class o b) end else inl b in
    match plain with
    | inr e => inr e
    | inl p =>
        match o_decode o p with
        | None => inr EOther
        | Some m =>
            match o_encode o m with
            | None => inr EOther
            | Some e => inl (if (was_compressed || must_compress cx) && server_comp cx then o_compress o e else e)
            end
        end
    end
  else
    (* same codec: decompress what was compressed, then compress for the server side *)
    let plain := if was_compressed && client_comp cx && negb (Nat.eqb (length b) 0)
                 then match o_decompress o b with Some p => inl p | None => inr (decomp_class o b) end else inl b in
    match plain with
    | inr e => inr e
    | inl p => inl (if server_comp cx then o_compress o p else p)
    end.

(** * transformingReader *)

Record treader := mkTR {
  tr_up : up;
  tr_err : option ecls;
  tr_consumed_first : bool;
  tr_buf : option bytes;      (* r.buffer: None = nil *)
  tr_env : bytes;
  tr_envrem : nat;
  tr_reports : list ecls
}.

Definition tr_init (u : up) : treader := mkTR u None false None [] 0 [].

Inductive rmsg := MsgOk (payload : bytes) (compressed : bool) (u : up)
                | MsgErr (e : ecls) (u : up) (reports : list ecls).

(** operation.readRequestMessage (with rw != nil) *)
Definition read_request_message (cx : rctx) (u : up) : rmsg :=
  match cenv cx with
  | Some c =>
      let '((hdr, st), u1) := read_full (fuel_of u) 5 u [] in
      match st with
      | SErr e => MsgErr e u1 []
      | SOk =>
          match decode_env c hdr with
          | None => MsgErr EInvalidArgument u1 [EInvalidArgument]
          | Some env =>
              if e_trailer env then MsgErr EInvalidArgument u1 [EInvalidArgument]
              else if limit cx <? e_len env then MsgErr EResourceExhausted u1 [EResourceExhausted]
              else
                let '((d, st2), u2) := copy_n (e_len env) u1 in
                match st2 with
                | SOk => MsgOk d (e_compressed env) u2
                | SErr e => MsgErr e u2 []
                end
          end
      end
  | None =>
      (* determineReadLimit *)
      if (negb (content_len cx =? -1)) && (limit cx <? content_len cx) then MsgErr EResourceExhausted u [EResourceExhausted]
      else
        let lim := if content_len cx =? -1 then limit cx else content_len cx in
        let '((d, st), u1) := copy_hard_limit lim u in
        match st with
        | SOk => match d with [] => MsgErr EEOF u1 [] | _ => MsgOk d (client_comp cx) u1 end
        | SErr EResourceExhausted => MsgErr EResourceExhausted u1 [EResourceExhausted]
        | SErr e => MsgErr e u1 []
        end
  end.

(** transformingReader.prepareMessage: Some (buffer, envelope) or None (error) *)
Definition tr_prepare (cx : rctx) (o : oracles) (payload : bytes) (compressed : bool) : option (bytes * bytes) * option ecls :=
  match advance_send cx o compressed payload with
  | inr e => (None, Some e)
  | inl b =>
      if limit cx <? Z.of_nat (length b) then (None, Some EResourceExhausted)
      else match senv cx with
           | None => (Some (b, []), None)
           | Some s => (Some (b, encode_env s (mkEnv false (compressed && server_comp cx) (Z.of_nat (length b)))), None)
           end
  end.

(** transformingReader.Read(data) with len(data) = k >= 1.  The Go loop runs at most twice:
    once it has a message prepared it returns bytes, except for an empty message towards an
    un-enveloped backend, for which it goes on to the next message; fuel covers that. *)
Fixpoint tr_read (fuel : nat) (cx : rctx) (o : oracles) (r : treader) (k : Z) : (bytes * rstat) * treader :=
  match tr_err r with
  | Some e => (([], SErr e), r)
  | None =>
      if k <? Z.of_nat (tr_envrem r) then
        let tail := skipn (length (tr_env r) - tr_envrem r) (tr_env r) in
        ((ztake k tail, SOk), mkTR (tr_up r) None (tr_consumed_first r) (tr_buf r) (tr_env r) (tr_envrem r - Z.to_nat k) (tr_reports r))
      else
        let tail := skipn (length (tr_env r) - tr_envrem r) (tr_env r) in
        let offset := Z.of_nat (tr_envrem r) in
        let '(d, buf') :=
          match tr_buf r with
          | Some b => if offset <? k then (ztake (k - offset) b, Some (zdrop (k - offset) b)) else ([], Some b)
          | None => ([], None)
          end in
        match tail ++ d with
        | (_ :: _) as out => ((out, SOk), mkTR (tr_up r) None (tr_consumed_first r) buf' (tr_env r) 0 (tr_reports r))
        | [] =>
            match fuel with
            | O => (([], SErr EOther), r)
            | S f =>
                let fail e u rep :=
                  (([], SErr e), mkTR u (Some e) (tr_consumed_first r) buf' (tr_env r) 0 (tr_reports r ++ rep)) in
                let continue_with payload compressed u rep :=
                  if tr_consumed_first r && single_only cx then
                    (([], SErr EInvalidArgument),
                     mkTR u (Some EInvalidArgument) true buf' (tr_env r) 0 (tr_reports r ++ rep ++ [EInvalidArgument]))
                  else
                    match tr_prepare cx o payload compressed with
                    | (Some (b, env), _) =>
                        tr_read f cx o (mkTR u None true (Some b) env (length env) (tr_reports r ++ rep)) k
                    | (None, e) =>
                        let e' := match e with Some x => x | None => EOther end in
                        (* r.err = err; rw.reportError(err); return 0, io.EOF *)
                        (([], SErr EEOF), mkTR u (Some e') true buf' (tr_env r) 0 (tr_reports r ++ rep ++ [e']))
                    end in
                match read_request_message cx (tr_up r) with
                | MsgOk payload compressed u => continue_with payload compressed u []
                | MsgErr e u rep =>
                    if negb (tr_consumed_first r) && ecls_eqb e EEOF && first_may_be_empty cx
                    then continue_with [] (client_comp cx) u rep
                    else fail e u rep
                end
            end
        end
  end.
