(** Transcoder.ServeHTTP up to the dispatch (transcoder.go: ServeHTTP, operation.handle's
    request-line and header rewriting, adapter selection). *)
From VG Require Export Model.Request Model.Reader.
Open Scope Z_scope.

(** what the downstream handler is given as request head *)
Record bhead := mkBhead { bh_method : bytes; bh_path : bytes; bh_has_query : bool; bh_proto_major : Z; bh_hdr : hdrs; bh_content_len : Z }.

Inductive adapter := ANone (* body forwarded untouched *) | AEnveloping | ATransforming | ADrain.

Inductive dispatch :=
| DReject (status : Z) (allow : option bytes)       (* no handler invoked *)
| DNotFound                                          (* 404, no handler invoked *)
| DUnknown (h : bhead)                               (* unknown-endpoint handler, request untouched *)
| DPass (h : bhead)                                  (* service handler, request untouched *)
| DHandle (h : bhead) (a : adapter) (cx : rctx) (o : opv)
| DNeedsMessage (o : opv).                           (* request line needs the first message (GET / REST targets) *)

Definition original_head (r : creq) : bhead :=
  mkBhead (q_method r) (q_path r) (q_has_query r) (q_proto_major r) (q_hdr r) (q_content_len r).

Definition request_ctx (r : creq) (o : opv) : rctx :=
  let same_codec := bytes_eqb (op_client_codec o) (op_server_codec o) in
  let client_prep := match op_client o with CConnectGet | CRest => true | _ => false end in
  let same_req_codec := same_codec && negb client_prep in
  mkRctx (client_env (op_client o)) (server_env (op_server o)) (mc_limit (op_method o)) (q_content_len r)
         (negb (Nat.eqb (length (op_client_comp o)) 0)) (negb (Nat.eqb (length (op_server_comp o)) 0))
         (match server_env (op_server o) with None => true | Some _ => false end)
         same_req_codec (bytes_eqb (op_client_comp o) (op_server_comp o))
         (client_prep || match client_env (op_client o) with None => true | Some _ => false end).

Definition serve_head (pf : bytes -> option Z) (ff : Z -> bytes) (t : tconf) (r : creq) : dispatch :=
  match validate pf t r with
  | VNotFound => if tc_has_unknown t then DUnknown (original_head r) else DNotFound
  | VError st allow => DReject st allow
  | VOk o =>
      if is_passthrough o then DPass (original_head r) else
      (* connectUnaryServerProtocol.useGet: the client's own method was GET, the method has no side
         effects (and the codec is stable): the request line then depends on the first message *)
      let may_use_get := bytes_eqb (q_method r) m_get && mc_no_side_effects (op_method o) in
      match op_server o, may_use_get with
      | SRest, _ => DNeedsMessage o
      | SConnectUnary, true => DNeedsMessage o
      | s, _ =>
          let accept := filter (fun n => bmem n (tc_known_comps t)) (rq_accept (op_meta o)) in
          let h := add_request_headers ff s (op_server_codec o) (op_server_comp o) accept (rq_tmo (op_meta o)) (op_hdr o) in
          let cx := request_ctx r o in
          let mixed := must_compress cx && match cenv cx with Some _ => true | None => false end in
          let a := if same_codec cx && same_comp cx && negb mixed then AEnveloping else ATransforming in
          DHandle (mkBhead m_post (mc_path (op_method o)) false (op_proto_major o) h (-1)) a cx o
      end
  end.

(** * Response side of an operation driven by a backend script *)
From VG Require Import Model.Response.

Inductive baction :=
| BHadd (k v : bytes) | BHset (k v : bytes)
| BStatus (code : Z)
| BWrite (data : bytes)
| BFlush
| BReadFault (e : ecls).   (* the handler reads the request at this point and the request side reports an error *)

(** the response-side context fixed by validate *)
Definition response_ctx (t : tconf) (o : opv) (ro : oracles) (eo : eoracles) (end_len : rend -> Z) : wctx :=
  let same_codec := bytes_eqb (op_client_codec o) (op_server_codec o) in
  mkWctx (op_client o) (op_server o) (client_env (op_client o)) (server_env (op_server o)) (mc_limit (op_method o))
         (tc_known_comps t) (op_client_codec o) (op_server_codec o) same_codec false ro eo end_len.

(** the handler's calls on the responseWriter; the result also records the outcome of every
    Write as seen by the handler *)
Fixpoint run_script (cx : wctx) (s : list baction) (r : rw) (wr : list wres) : rw * list wres :=
  match s with
  | [] => (r, wr)
  | a :: rest =>
      match a with
      (* responseWriter.Header() hands out a scratch map once the end is written *)
      | BHadd k v => if c_end_written (r_core r) then run_script cx rest r wr else
                     run_script cx rest (set_core r (let c := r_core r in
                         mkRwc (hadd k v (c_hdr c)) (c_flushed c) (c_end_written c) (c_meta c) (c_err c) (c_buf c) (c_resp_comp c) (c_out c))) wr
      | BHset k v => if c_end_written (r_core r) then run_script cx rest r wr else
                     run_script cx rest (set_core r (let c := r_core r in
                         mkRwc (hset k v (c_hdr c)) (c_flushed c) (c_end_written c) (c_meta c) (c_err c) (c_buf c) (c_resp_comp c) (c_out c))) wr
      | BStatus code => run_script cx rest (rw_write_header cx code r) wr
      | BWrite d => let '(r', res) := rw_write cx d r in
                    match res with
                    | WPanic => (r', wr ++ [WPanic])
                    | _ => run_script cx rest r' (wr ++ [res])
                    end
      | BFlush => run_script cx rest r wr
      | BReadFault e => run_script cx rest (set_core r (report_error cx e (r_core r))) wr
      end
  end.

Definition serve_response (cx : wctx) (initial_hdr : hdrs) (s : list baction) : rw * list wres * wres :=
  let '(r, wr) := run_script cx s (rw_init initial_hdr) [] in
  if existsb (fun x => match x with WPanic => true | _ => false end) wr then (r, wr, WPanic)
  else let '(r', res) := rw_close cx r in (r', wr, res).
