(** Type resolution (type_resolver.go: fallbackResolver; transcoder.go: registerMethod's use of
    the resolver).  A resolver answers a lookup with a value, "not found", or another error. *)
From VG Require Export Model.Bytes.
Open Scope Z_scope.

Inductive rres := RFound (who : Z) | RNotFound | RErr (who : Z).

(** outcome codes as the harness scripts them: 0 found, 1 not found, otherwise another error *)
Definition answer (code : Z) (who : Z) : rres :=
  if code =? 0 then RFound who else if code =? 1 then RNotFound else RErr who.

(** fallbackResolver.Find*: the first resolver that finds the type wins; if none does, the error
    of the last one asked (NotFound for an empty list) *)
Fixpoint fallback_go (answers : list Z) (who : Z) (last : option rres) : rres :=
  match answers with
  | [] => match last with Some e => e | None => RNotFound end
  | a :: r => match answer a who with
              | RFound w => RFound w
              | e => fallback_go r (who + 1) (Some e)
              end
  end.

Definition fallback (answers : list Z) : rres := fallback_go answers 0 None.

(** registerMethod: a type the resolver does not know becomes a dynamic message; any other
    error fails the registration *)
Inductive tres := TResolved | TDynamic | TFail.
Definition resolve_for_method (r : rres) : tres :=
  match r with RFound _ => TResolved | RNotFound => TDynamic | RErr _ => TFail end.
