(** Envelope codecs (protocol_grpc.go, protocol_connect.go: decodeEnvelope / encodeEnvelope
    of the six enveloped protocol handlers).  The flag predicates and flag encoders are
    regenerated from the Go source (Gen/Generated.v); the big-endian length is modelled here. *)
From VG Require Export Model.Bytes.
From VG Require Import Gen.Generated.
Open Scope Z_scope.

Record envelope := mkEnv { e_trailer : bool; e_compressed : bool; e_len : Z }.

Inductive envk := GrpcC | GrpcS | WebC | WebS | ConnC | ConnS.

Definition flags_bad (k : envk) : Z -> bool :=
  match k with
  | GrpcC => env_grpc_client_flags_bad | GrpcS => env_grpc_server_flags_bad
  | WebC => env_grpcweb_client_flags_bad | WebS => env_grpcweb_server_flags_bad
  | ConnC => env_connect_client_flags_bad | ConnS => env_connect_server_flags_bad
  end.
Definition flags_compressed (k : envk) : Z -> bool :=
  match k with
  | GrpcC => env_grpc_client_compressed | GrpcS => env_grpc_server_compressed
  | WebC => env_grpcweb_client_compressed | WebS => env_grpcweb_server_compressed
  | ConnC => env_connect_client_compressed | ConnS => env_connect_server_compressed
  end.
Definition flags_trailer (k : envk) : Z -> bool :=
  match k with
  | GrpcC => env_grpc_client_trailer | GrpcS => env_grpc_server_trailer
  | WebC => env_grpcweb_client_trailer | WebS => env_grpcweb_server_trailer
  | ConnC => env_connect_client_trailer | ConnS => env_connect_server_trailer
  end.
Definition encode_flags (k : envk) : bool -> bool -> Z :=
  match k with
  | GrpcC => env_grpc_client_encode_flags | GrpcS => env_grpc_server_encode_flags
  | WebC => env_grpcweb_client_encode_flags | WebS => env_grpcweb_server_encode_flags
  | ConnC => env_connect_client_encode_flags | ConnS => env_connect_server_encode_flags
  end.

(** binary.BigEndian.Uint32 / PutUint32 *)
Definition be32 (b1 b2 b3 b4 : N) : Z :=
  Z.of_N b1 * 16777216 + Z.of_N b2 * 65536 + Z.of_N b3 * 256 + Z.of_N b4.
Definition put_be32 (v : Z) : bytes :=
  [Z.to_N (v / 16777216 mod 256); Z.to_N (v / 65536 mod 256); Z.to_N (v / 256 mod 256); Z.to_N (v mod 256)].

(** decodeEnvelope on a 5-byte prefix; None = error. *)
Definition decode_env (k : envk) (b : bytes) : option envelope :=
  match b with
  | [f; b1; b2; b3; b4] =>
      let fl := Z.of_N f in
      if flags_bad k fl then None
      else Some (mkEnv (flags_trailer k fl) (flags_compressed k fl) (be32 b1 b2 b3 b4))
  | _ => None
  end.

Definition encode_env (k : envk) (e : envelope) : bytes :=
  Z.to_N (encode_flags k (e_compressed e) (e_trailer e)) :: put_be32 (e_len e).

(** the side that reads what [k] wrote *)
Definition peer (k : envk) : envk :=
  match k with GrpcC => GrpcS | GrpcS => GrpcC | WebC => WebS | WebS => WebC | ConnC => ConnS | ConnS => ConnC end.

(** Flag legality per protocol specification, written independently of the code:
    gRPC and gRPC-Web/Connect request frames: 0 or 1.  gRPC-Web response frames: bit 0
    (compressed) and bit 7 (trailers).  Connect response frames: bit 0 and bit 1 (end-stream). *)
Definition spec_legal (k : envk) (f : Z) : bool :=
  match k with
  | WebS => (f =? 0) || (f =? 1) || (f =? 128) || (f =? 129)
  | ConnS => (f =? 0) || (f =? 1) || (f =? 2) || (f =? 3)
  | _ => (f =? 0) || (f =? 1)
  end.
(** which writers may mark a frame as the end of the stream *)
Definition writes_trailer (k : envk) : bool := match k with WebC | ConnC => true | _ => false end.
