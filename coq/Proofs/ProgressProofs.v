(** Progress on the request side (C16): the readers hand over what they have without waiting for
    more, and never read past the message they are delivering (Model/Reader.v). *)
From VG Require Import Model.Bytes Model.Stream Model.Envelope Model.Reader.
From VG Require Import Proofs.StreamProofs.
From Coq Require Import Lia.
Open Scope Z_scope.

Lemma ztake_nonempty {A} k (l : list A) : 1 <= k -> l <> [] -> ztake k l <> [].
Proof.
  intros Hk Hl E. pose proof (zlen_ztake k l) as Z. rewrite E in Z. change (zlen (@nil A)) with 0 in Z.
  assert (0 < zlen l) by (destruct l; [congruence|unfold zlen; cbn [length]; lia]). lia.
Qed.

(** transformingReader: while an envelope or a prepared message is being handed out, Read returns
    bytes at once and leaves the client's body alone *)
Theorem tr_read_served_from_buffer f cx o r k :
  tr_err r = None -> 1 <= k -> (tr_envrem r <= length (tr_env r))%nat ->
  ((0 < tr_envrem r)%nat \/ exists b, tr_buf r = Some b /\ b <> []) ->
  let '((d, st), r') := tr_read f cx o r k in d <> [] /\ st = SOk /\ tr_up r' = tr_up r.
Proof.
  intros He Hk Hle Hb.
  set (tail := skipn (length (tr_env r) - tr_envrem r) (tr_env r)).
  assert (Lt : length tail = tr_envrem r) by (unfold tail; rewrite skipn_length; lia).
  assert (Tne : (0 < tr_envrem r)%nat -> forall d, tail ++ d <> []).
  { intros P d E. apply app_eq_nil in E as [E _]. rewrite E in Lt. cbn in Lt. lia. }
  assert (Main : forall X : option bytes -> (bytes * rstat) * treader,
    let '((d, st), r') :=
      (if k <? Z.of_nat (tr_envrem r) then
         ((ztake k tail, SOk), mkTR (tr_up r) None (tr_consumed_first r) (tr_buf r) (tr_env r) (tr_envrem r - Z.to_nat k) (tr_reports r))
       else
         let offset := Z.of_nat (tr_envrem r) in
         let '(d, buf') :=
           match tr_buf r with
           | Some b => if offset <? k then (ztake (k - offset) b, Some (zdrop (k - offset) b)) else ([], Some b)
           | None => ([], None)
           end in
         match tail ++ d with
         | (_ :: _) as out => ((out, SOk), mkTR (tr_up r) None (tr_consumed_first r) buf' (tr_env r) 0 (tr_reports r))
         | [] => X buf'
         end) in d <> [] /\ st = SOk /\ tr_up r' = tr_up r).
  { intros X. destruct (Z.ltb_spec k (Z.of_nat (tr_envrem r))) as [L|L].
    { split; [|auto]. apply ztake_nonempty; [exact Hk|]. intros E. rewrite E in Lt. cbn in Lt. lia. }
    cbv zeta. destruct Hb as [Hpos|(b & Eb & Nb)].
    - destruct (tr_buf r) as [b|]; [destruct (Z.of_nat (tr_envrem r) <? k)|];
        match goal with |- context [tail ++ ?d] => pose proof (Tne Hpos d) as Hd; destruct (tail ++ d); [congruence|split; [discriminate|auto]] end.
    - rewrite Eb. destruct (Z.ltb_spec (Z.of_nat (tr_envrem r)) k) as [L2|L2].
      + assert (Hd : tail ++ ztake (k - Z.of_nat (tr_envrem r)) b <> [])
          by (intros E; apply app_eq_nil in E as [_ E]; revert E; apply ztake_nonempty; [lia|exact Nb]).
        destruct (tail ++ ztake (k - Z.of_nat (tr_envrem r)) b); [congruence|split; [discriminate|auto]].
      + assert (Hpos : (0 < tr_envrem r)%nat) by lia. pose proof (Tne Hpos []) as Hd. destruct (tail ++ []); [congruence|split; [discriminate|auto]]. }
  destruct f; cbn [tr_read]; rewrite He; fold tail; apply Main.
Qed.

(** envelopingReader, inside a message of which [n] bytes are still to come: a Read takes from the
    client's body exactly the bytes it hands over, at most [n] of them - it never reads on into
    the next envelope, so a message is delivered without waiting for its successor *)
Theorem er_read_stays_inside_the_message cx r k n :
  er_err r = None -> er_envrem r = 0%nat -> er_cur r = CExact n -> 0 < n -> 1 <= k -> flat (er_up r) <> [] ->
  let '((d, st), r') := er_read cx r k in
  d <> [] /\ zlen d <= n /\ zlen d <= k /\ flat (er_up r) = d ++ flat (er_up r').
Proof.
  intros He Hr Hc Hn Hk Hf. unfold er_read. rewrite He, Hr, Hc. cbn [cur_read].
  destruct (Z.leb_spec n 0) as [D|_]; [lia|].
  pose proof (up_read_spec (Z.min k n) (er_up r) ltac:(lia)) as S.
  destruct (up_read (Z.min k n) (er_up r)) as [[d st] u'].
  destruct S as (_ & _ & Hfl & _ & _ & Hne). destruct (Hne Hf) as (Dn & Dl & Hst & _).
  assert (Dk : zlen d <= k) by lia. assert (Dnn : zlen d <= n) by lia.
  destruct d as [|x d']; [congruence|].
  destruct Hst as [->|(-> & _ & _)].
  - cbn [is_eof andb]. rewrite Bool.andb_false_r. cbn [er_up]. split; [discriminate|]. auto.
  - cbn [is_eof]. destruct (0 <? n - zlen (x :: d')); cbn [andb er_up fst snd]; (split; [discriminate|]); auto.
Qed.
