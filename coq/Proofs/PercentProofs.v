From VG Require Import Model.Bytes Gen.Generated Model.Percent.
From Coq Require Import ZifyBool ZifyNat ZifyN.
Ltac Zify.zify_post_hook ::= Z.div_mod_to_equations.
Open Scope Z_scope.

Definition all_bytes : list N := map N.of_nat (seq 0 256).
Lemma in_all_bytes c : wf_byte c = true -> In c all_bytes.
Proof.
  unfold wf_byte. intros H. apply in_map_iff. exists (N.to_nat c). split; [lia|]. apply in_seq. lia.
Qed.

(** finite sweep over all 256 byte values: the escape of a byte is '%' followed by two hex
    digits that [unhex] maps back to the byte, and never forms the multi-segment "%2F" *)
Definition esc_sweep : bool :=
  forallb (fun c =>
    let h1 := upperhex (c / 16) in let h2 := upperhex (c mod 16) in
    ishex h1 && ishex h2 && ((unhex h1 * 16 + unhex h2) =? c)%N &&
    negb (grpc_should_escape (Z.of_N h1)) && negb (grpc_should_escape (Z.of_N h2)) &&
    negb (path_should_escape (Z.of_N h1)) && negb (path_should_escape (Z.of_N h2)) &&
    implb (is_hex_slash h1 h2) (c =? 47)%N) all_bytes.
Lemma esc_sweep_true : esc_sweep = true.
Proof. vm_compute. reflexivity. Qed.

Lemma esc_facts c : wf_byte c = true ->
  let h1 := upperhex (c / 16) in let h2 := upperhex (c mod 16) in
  ishex h1 = true /\ ishex h2 = true /\ (unhex h1 * 16 + unhex h2)%N = c /\
  (is_hex_slash h1 h2 = true -> c = 47%N).
Proof.
  intros W. pose proof esc_sweep_true as S. unfold esc_sweep in S. rewrite forallb_forall in S.
  specialize (S c (in_all_bytes c W)). cbv zeta in *.
  repeat (apply andb_true_iff in S; destruct S as [S ?]).
  repeat split; auto. lia. intros E. rewrite E in *. simpl in *. lia.
Qed.

(** * grpc-message: decode (encode s) = s for every byte string *)
Lemma grpc_percent_roundtrip s : wf_bytes s = true -> grpc_percent_decode (grpc_percent_encode s) = Some s.
Proof.
  unfold grpc_percent_decode. induction s as [|c r IH]; intros W; [reflexivity|].
  cbn [wf_bytes forallb] in W. apply andb_true_iff in W as [Wc Wr]. specialize (IH Wr).
  cbn [grpc_percent_encode]. destruct (grpc_should_escape (Z.of_N c)) eqn:E.
  - destruct (esc_facts c Wc) as (H1 & H2 & H3 & _). unfold esc_byte. cbn [app unescape].
    rewrite N.eqb_refl, H1, H2, IH. cbn [andb]. rewrite H3. reflexivity.
  - cbn [app unescape]. destruct (c =? 37)%N eqn:E37.
    + apply N.eqb_eq in E37. subst. vm_compute in E. discriminate.
    + rewrite IH. reflexivity.
Qed.

(** the encoded form uses only printable ASCII without a bare '%' problem: every byte of the
    output is in 0x20..0x7E *)
Lemma grpc_percent_printable s : wf_bytes s = true ->
  forallb (fun c => (32 <=? c)%N && (c <=? 126)%N) (grpc_percent_encode s) = true.
Proof.
  induction s as [|c r IH]; intros W; [reflexivity|].
  cbn [wf_bytes forallb] in W. apply andb_true_iff in W as [Wc Wr]. specialize (IH Wr).
  cbn [grpc_percent_encode]. rewrite forallb_app, IH, andb_true_r.
  destruct (grpc_should_escape (Z.of_N c)) eqn:E.
  - unfold esc_byte, upperhex. cbn [forallb]. unfold wf_byte in Wc.
    destruct (c / 16 <? 10)%N eqn:A, (c mod 16 <? 10)%N eqn:B; rewrite !andb_true_iff; repeat split; lia.
  - unfold grpc_should_escape in E. cbn [forallb]. lia.
Qed.

(** decoding never fails on a valid escape and is total (no index out of range): by
    construction [unescape] is a total function; malformed escapes give None. *)
Lemma unescape_bad_tail k a : unescape k [37%N; a] = None.
Proof. reflexivity. Qed.
Lemma unescape_bad_tail0 k : unescape k [37%N] = None.
Proof. reflexivity. Qed.

(** * path escaping (single-segment mode): unescape (escape s) = s *)
Lemma path_escape_single_roundtrip s : wf_bytes s = true -> path_unescape false (path_escape false s) = Some s.
Proof.
  unfold path_unescape. induction s as [|c r IH]; intros W; [reflexivity|].
  cbn [wf_bytes forallb] in W. apply andb_true_iff in W as [Wc Wr]. specialize (IH Wr).
  assert (E : path_escape false (c :: r) =
              (if path_should_escape (Z.of_N c) then esc_byte c else [c]) ++ path_escape false r).
  { cbn [path_escape]. destruct r as [|a [|b r']]; reflexivity. }
  rewrite E. destruct (path_should_escape (Z.of_N c)) eqn:P.
  - destruct (esc_facts c Wc) as (H1 & H2 & H3 & _). unfold esc_byte. cbn [app unescape].
    rewrite N.eqb_refl, H1, H2, IH. cbn [andb]. rewrite H3. reflexivity.
  - cbn [app unescape]. destruct (c =? 37)%N eqn:E37.
    + apply N.eqb_eq in E37. subst. vm_compute in P. discriminate.
    + rewrite IH. reflexivity.
Qed.

(** escaped output consists only of characters allowed in a path segment literal
    (isVariable or '%'), in particular never '/' *)
Lemma path_escape_chars multi s : wf_bytes s = true ->
  forallb (fun c => is_literal (Z.of_N c)) (path_escape multi s) = true.
Proof.
  remember (length s) as n eqn:L. revert s L. induction n as [n IHn] using lt_wf_ind. intros s L W.
  destruct s as [|c r]; [reflexivity|].
  cbn [wf_bytes forallb] in W. apply andb_true_iff in W as [Wc Wr].
  assert (G : forallb (fun c0 => is_literal (Z.of_N c0))
                ((if path_should_escape (Z.of_N c) then esc_byte c else [c]) ++ path_escape multi r) = true).
  { rewrite forallb_app. rewrite (IHn (length r)) by (subst; simpl; auto; lia). rewrite andb_true_r.
    destruct (path_should_escape (Z.of_N c)) eqn:P.
    - unfold esc_byte, upperhex. cbn [forallb]. unfold wf_byte in Wc.
      destruct (c / 16 <? 10)%N eqn:A, (c mod 16 <? 10)%N eqn:B;
        unfold is_literal, is_variable, is_field_path, is_ident, is_ident_start, is_digit_rune; lia.
    - cbn [forallb]. unfold path_should_escape in P. unfold is_literal. rewrite andb_true_r.
      apply negb_false_iff in P. rewrite P. reflexivity. }
  cbn [path_escape]. destruct r as [|a [|b r']]; try exact G.
  destruct (multi && (c =? 37)%N && is_hex_slash a b) eqn:M; [|exact G].
  cbn [forallb]. cbn [wf_bytes forallb] in Wr. repeat (apply andb_true_iff in Wr; destruct Wr as [? Wr]).
  rewrite (IHn (length r')) by (subst; simpl; auto; lia). reflexivity.
Qed.
