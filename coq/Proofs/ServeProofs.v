(** Facts about operation.validate and the dispatch decision (Model/Request.v, Model/Serve.v). *)
From VG Require Import Model.Bytes Model.Headers Model.RespMeta Model.Request Model.Serve Gen.Generated.
From Coq Require Import Lia.
Open Scope Z_scope.

Lemma zmem_in z l : zmem z l = true <-> In z l.
Proof.
  unfold zmem. rewrite existsb_exists. split.
  - intros (x & Hin & E). apply Z.eqb_eq in E. subst. exact Hin.
  - intros Hin. exists z. split; [exact Hin|apply Z.eqb_refl].
Qed.

Lemma bmem_in b l : bmem b l = true <-> In b l.
Proof.
  unfold bmem. rewrite existsb_exists. split.
  - intros (x & Hin & E). apply bytes_eqb_eq in E. subst. exact Hin.
  - intros Hin. exists b. split; [exact Hin|apply bytes_eqb_refl].
Qed.

Lemma negotiate_spec client accepted p :
  negotiate_protocol client accepted = Some p ->
  In p accepted /\ (In client accepted -> p = client) /\ (~ In client accepted -> In p all_protocols).
Proof.
  unfold negotiate_protocol. destruct (zmem client accepted) eqn:E.
  - intros [= <-]. apply zmem_in in E. repeat split; auto. intros N. contradiction.
  - intros H. apply List.find_some in H as (Hin & Hz). apply zmem_in in Hz. split; [exact Hz|]. split.
    + intros Hc. apply zmem_in in Hc. congruence.
    + intros _. exact Hin.
Qed.

Lemma server_handler_protocol p stream s : server_handler p stream = Some s -> sproto_protocol s = p.
Proof.
  unfold server_handler.
  destruct (Z.eqb_spec p c_ProtocolConnect) as [->|_]; [intros [= <-]; destruct (stream =? 0); reflexivity|].
  destruct (Z.eqb_spec p c_ProtocolGRPC) as [->|_]; [intros [= <-]; reflexivity|].
  destruct (Z.eqb_spec p c_ProtocolGRPCWeb) as [->|_]; [intros [= <-]; reflexivity|].
  destruct (Z.eqb_spec p c_ProtocolREST) as [->|_]; [intros [= <-]; reflexivity|discriminate].
Qed.

(** what a successfully validated operation looks like *)
Theorem validate_ok pf t r o :
  validate pf t r = VOk o ->
  let m := op_method o in
  let cp := cproto_protocol (op_client o) in
  (* the backend protocol is one the service accepts; the client's own when it is acceptable *)
  In (sproto_protocol (op_server o)) (mc_protocols m) /\
  (In cp (mc_protocols m) -> sproto_protocol (op_server o) = cp) /\
  (* codec: REST backends take JSON; otherwise the client's when acceptable, else the preferred one *)
  (op_server o = SRest -> op_server_codec o = s2b "json") /\
  (op_server o <> SRest -> In (op_client_codec o) (mc_codecs m) -> op_server_codec o = op_client_codec o) /\
  (op_server o <> SRest -> ~ In (op_client_codec o) (mc_codecs m) -> op_server_codec o = mc_preferred m) /\
  (* compression: the client's when acceptable, else none *)
  (op_server_comp o = [] \/ (op_server_comp o = op_client_comp o /\ In (op_server_comp o) (mc_comps m))) /\
  (In (op_client_comp o) (mc_comps m) -> op_server_comp o = op_client_comp o) /\
  (* what the client sent is something the transcoder knows *)
  In (op_client_codec o) (tc_known_codecs t) /\
  (op_client_comp o = [] \/ In (op_client_comp o) (tc_known_comps t)) /\
  ~ bytes_eqb (op_client_comp o) (s2b "identity") = true.
Proof.
  unfold validate. destruct (classify_request r) as [c|]; [|discriminate].
  destruct (resolve_method t c r) as [st allow| |m rest]; try discriminate.
  match goal with |- context [if negb ?b then VError 415 None else _] => destruct b end; cbn [negb]; [|discriminate].
  destruct ((mc_stream m =? 3) && (q_proto_major r <? 2)); [discriminate|].
  destruct ((cproto_protocol c =? c_ProtocolGRPC) && negb (q_proto_major r =? 2)); [discriminate|].
  destruct (extract_request pf _ c r (q_hdr r)) as [[meta h]|]; [|discriminate].
  match goal with |- context [if ?b then VError 415 None else _] => destruct b end; [discriminate|].
  set (comp := if bytes_eqb (rq_comp meta) (s2b "identity") then [] else rq_comp meta).
  destruct (negb (Nat.eqb (length comp) 0) && negb (bmem comp (tc_known_comps t))) eqn:Kc; [discriminate|].
  destruct (bmem (rq_codec meta) (tc_known_codecs t)) eqn:Kd; cbn [negb]; [|discriminate].
  destruct (negotiate_protocol (cproto_protocol c) (mc_protocols m)) as [p|] eqn:Np; [|discriminate].
  destruct (server_handler p (mc_stream m)) as [s|] eqn:Sh; [|discriminate].
  match goal with |- context [if ?b then VNotFound else _] => destruct b end; [discriminate|].
  intros [= <-]. cbv zeta. cbn [op_method op_client op_server op_server_codec op_client_codec op_client_comp op_server_comp].
  destruct (negotiate_spec _ _ _ Np) as (Pin & Pkeep & _). pose proof (server_handler_protocol _ _ _ Sh) as Sp.
  split; [rewrite Sp; exact Pin|]. split; [intros Hc; rewrite Sp; apply Pkeep; exact Hc|].
  split; [intros ->; reflexivity|].
  split. { intros Ns Hc. apply bmem_in in Hc. rewrite Hc. destruct s; try reflexivity. contradiction. }
  split. { intros Ns Hc. destruct (bmem (rq_codec meta) (mc_codecs m)) eqn:B; [apply bmem_in in B; contradiction|]. destruct s; try reflexivity. contradiction. }
  split.
  { destruct (negb (Nat.eqb (length comp) 0) && bmem comp (mc_comps m)) eqn:B; [|left; reflexivity].
    right. apply Bool.andb_true_iff in B as (_ & B). apply bmem_in in B. auto. }
  split.
  { intros Hc. apply bmem_in in Hc. rewrite Hc. destruct comp; reflexivity. }
  split; [apply bmem_in; exact Kd|]. split.
  { destruct comp as [|x cs] eqn:Ec; [left; reflexivity|right]. cbn [length Nat.eqb negb andb] in Kc.
    destruct (bmem (x :: cs) (tc_known_comps t)) eqn:B; [apply bmem_in; exact B|discriminate]. }
  unfold comp. destruct (bytes_eqb (rq_comp meta) (s2b "identity")) eqn:I; [cbn; discriminate|]. rewrite I. discriminate.
Qed.

(** pass-through and unknown endpoints hand the request on untouched *)
Lemma serve_head_pass pf ff t r h : serve_head pf ff t r = DPass h ->
  h = original_head r /\ exists o, validate pf t r = VOk o /\ is_passthrough o = true.
Proof.
  unfold serve_head. destruct (validate pf t r) as [st a| |o] eqn:V.
  - discriminate.
  - destruct (tc_has_unknown t); discriminate.
  - destruct (is_passthrough o) eqn:P.
    + intros [= <-]. split; [reflexivity|]. exists o. auto.
    + destruct (op_server o); try discriminate;
        try (destruct (bytes_eqb (q_method r) m_get && mc_no_side_effects (op_method o)); discriminate).
Qed.

Lemma serve_head_unknown pf ff t r h : serve_head pf ff t r = DUnknown h ->
  h = original_head r /\ validate pf t r = VNotFound /\ tc_has_unknown t = true.
Proof.
  unfold serve_head. destruct (validate pf t r) as [st a| |o] eqn:V.
  - discriminate.
  - destruct (tc_has_unknown t) eqn:U; [intros [= <-]; auto|discriminate].
  - destruct (is_passthrough o); [discriminate|].
    destruct (op_server o); try discriminate;
      try (destruct (bytes_eqb (q_method r) m_get && mc_no_side_effects (op_method o)); discriminate).
Qed.

(** when the service accepts the client's protocol, codec and compression, nothing is transcoded *)
Lemma acceptable_is_passthrough pf t r o :
  validate pf t r = VOk o -> op_server o <> SRest ->
  In (cproto_protocol (op_client o)) (mc_protocols (op_method o)) ->
  In (op_client_codec o) (mc_codecs (op_method o)) ->
  (op_client_comp o = [] \/ In (op_client_comp o) (mc_comps (op_method o))) ->
  is_passthrough o = true.
Proof.
  intros V Ns Hp Hc Hm. destruct (validate_ok pf t r o V) as (_ & Kp & _ & Kc & _ & Sc & Km & _).
  unfold is_passthrough. rewrite (Kp Hp), Z.eqb_refl, (Kc Ns Hc), bytes_eqb_refl. cbn [andb].
  destruct Hm as [E|Hin]; [|rewrite (Km Hin); apply bytes_eqb_refl].
  destruct Sc as [S|(S & _)]; rewrite S, ?E; reflexivity.
Qed.

(** a handler is reached only through a validated operation, or as the unknown-endpoint handler *)
Lemma serve_head_cases pf ff t r :
  match serve_head pf ff t r with
  | DReject st a => validate pf t r = VError st a
  | DNotFound => validate pf t r = VNotFound /\ tc_has_unknown t = false
  | DUnknown _ => validate pf t r = VNotFound /\ tc_has_unknown t = true
  | DPass _ => exists o, validate pf t r = VOk o /\ is_passthrough o = true
  | DHandle _ _ _ o => validate pf t r = VOk o /\ is_passthrough o = false
  | DNeedsMessage o => validate pf t r = VOk o /\ is_passthrough o = false
  end.
Proof.
  unfold serve_head. destruct (validate pf t r) as [st a| |o] eqn:V; [reflexivity| |].
  - destruct (tc_has_unknown t); auto.
  - destruct (is_passthrough o) eqn:P; [eauto|].
    destruct (op_server o); try (split; [reflexivity|exact P]);
      destruct (bytes_eqb (q_method r) m_get && mc_no_side_effects (op_method o)); split; first [reflexivity|exact P].
Qed.
