From VG Require Import Model.Status.
From Coq Require Import ZifyBool ZifyNat ZifyN.
Open Scope Z_scope.

Definition small_ok : bool :=
  forallb (fun c => match http_status_from_rpc c with Some s => s =? spec_http_of_rpc c | None => false end)
          (map Z.of_nat (seq 0 40)).
Lemma small_ok_true : small_ok = true.
Proof. vm_compute. reflexivity. Qed.

Lemma status_total c : 0 <= c -> http_status_from_rpc c = Some (spec_http_of_rpc c).
Proof.
  intros H. destruct (Z_lt_le_dec c 40) as [L|G].
  - pose proof small_ok_true as S. unfold small_ok in S. rewrite forallb_forall in S.
    specialize (S c). assert (I : In c (map Z.of_nat (seq 0 40))).
    { apply in_map_iff. exists (Z.to_nat c). split; [lia|]. apply in_seq. lia. }
    specialize (S I). destruct (http_status_from_rpc c) as [s|]; [|discriminate].
    f_equal. lia.
  - unfold http_status_from_rpc, spec_http_of_rpc.
    assert (E : assoc c published_http_of_rpc = None).
    { unfold published_http_of_rpc. cbn [assoc].
      repeat (match goal with |- context [?a =? c] => destruct (Z.eqb_spec a c); [lia|] end). reflexivity. }
    rewrite E.
    repeat (match goal with |- context [?a <=? c] => destruct (Z.leb_spec a c); [|lia] end).
    repeat (match goal with |- context [?a <? c] => destruct (Z.ltb_spec a c); [|lia] end).
    destruct (c =? 0) eqn:E0; [lia|]. reflexivity.
Qed.

Lemma to_rpc_spec s : http_status_to_rpc s = spec_rpc_of_http s.
Proof.
  unfold http_status_to_rpc, spec_rpc_of_http.
  repeat (match goal with |- context [s =? ?a] => destruct (Z.eqb_spec s a) end; try reflexivity; try lia).
Qed.
