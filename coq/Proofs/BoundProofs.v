(** Bounded buffering on the response side (Model/Response.v): nothing the responseWriter or its
    body writers hold ever exceeds the configured limit (or the 5 bytes of an envelope). *)
From VG Require Import Model.Bytes Model.Stream Model.Envelope Model.Headers Model.RespMeta Model.Reader Model.Response.
From VG Require Import Proofs.StreamProofs Proofs.ResponseProofs.
From Coq Require Import Lia.
Open Scope Z_scope.

Definition bnd (cx : wctx) : Z := Z.max 5 (w_limit cx).

Definition CoreB (cx : wctx) (c : rwc) : Prop := match c_buf c with Some b => zlen b <= w_limit cx | None => True end.

Transparent write_end report_end report_error.

Lemma write_end_buf cx e wih c : c_buf (write_end cx e wih c) = c_buf c.
Proof. unfold write_end. destruct (encode_end _ _ _ _ _); reflexivity. Qed.

Lemma flush_headers_buf cx c : c_buf (flush_headers cx c) = None \/ flush_headers cx c = c.
Proof.
  unfold flush_headers. destruct (c_flushed c); [right; reflexivity|]. destruct (c_meta c) as [m|]; [|right; reflexivity].
  left. destruct (c_buf c), (rm_end m), (has_err m); cbn -[write_end]; rewrite ?write_end_buf; reflexivity.
Qed.

Lemma report_end_bufB cx e c : CoreB cx c -> CoreB cx (report_end cx e c).
Proof.
  intros HB. unfold report_end. destruct (c_end_written c); [exact HB|].
  destruct (c_flushed c).
  - unfold CoreB. cbn [c_buf emit]. rewrite write_end_buf. exact HB.
  - unfold CoreB. cbn [c_buf emit].
    match goal with |- context [flush_headers cx ?c0] => destruct (flush_headers_buf cx c0) as [E|E]; rewrite E end; [exact I|exact HB].
Qed.

Lemma report_error_bufB cx e c : CoreB cx c -> CoreB cx (report_error cx e c).
Proof. apply report_end_bufB. Qed.

Lemma flush_headers_bufB cx c : CoreB cx c -> CoreB cx (flush_headers cx c).
Proof. intros HB. destruct (flush_headers_buf cx c) as [E|E]; [unfold CoreB; rewrite E; exact I|rewrite E; exact HB]. Qed.
Opaque write_end report_end report_error.

Lemma sink_write_B cx d c c' ok : CoreB cx c -> sink_write cx d c = (c', ok) -> CoreB cx c'.
Proof.
  intros HB H. unfold sink_write in H. destruct (end_must_be_in_headers (w_client cx)).
  - destruct (c_buf c) as [b|] eqn:Eb; [|injection H as <- <-; exact HB].
    destruct (Z.ltb_spec (w_limit cx) (zlen b + zlen d)); injection H as <- <-; [apply report_error_bufB; exact HB|].
    unfold CoreB. cbn. rewrite zlen_app. lia.
  - destruct d; injection H as <- <-; exact HB.
Qed.

Lemma flush_message_B cx c : CoreB cx c -> CoreB cx (flush_message c).
Proof. intros HB. unfold flush_message. destruct (c_buf c) eqn:E; [exact HB|]. unfold CoreB. cbn. rewrite E. exact I. Qed.

(** * transformingWriter *)
Definition TwB (cx : wctx) (w : tw) : Prop :=
  tw_expect w <= bnd cx /\ match tw_buf w with Some b => zlen b <= bnd cx | None => True end.

Lemma tw_reset_B cx c w : TwB cx (tw_reset cx c w).
Proof. unfold tw_reset, TwB, bnd. destruct (w_senv cx); cbn; lia. Qed.

Lemma tw_flush_message_B cx c w : CoreB cx c ->
  match tw_flush_message cx c w with
  | FOk c' w' => CoreB cx c' /\ (TwB cx w -> TwB cx w')
  | FErr _ c' w' _ => CoreB cx c' /\ (TwB cx w -> TwB cx w')
  end.
Proof.
  intros HB. unfold tw_flush_message.
  destruct (e_trailer (tw_latest w)).
  - match goal with |- context [match ?p with Some _ => _ | None => _ end] => destruct p as [pl|] end; [|auto].
    destruct (decode_end_from_message cx pl) as [e|]; (split; [first [apply report_end_bufB|apply report_error_bufB]; exact HB|]); auto.
  - destruct (advance_resp cx _ _ _) as [out|e]; [|auto].
    match goal with |- context [match ?p with Some _ => _ | None => _ end] => destruct p as [env|] end; [|auto].
    assert (S1 : exists c1 ok1, (match env with [] => (c, true) | _ => sink_write cx env c end) = (c1, ok1) /\ CoreB cx c1).
    { destruct env as [|x en]; [exists c, true; auto|].
      destruct (sink_write cx (x :: en) c) as [c1 ok1] eqn:S. exists c1, ok1. split; [reflexivity|eapply sink_write_B; eauto]. }
    destruct S1 as (c1 & ok1 & -> & B1). destruct ok1; cbn [negb]; [|split; [exact B1|]; unfold TwB; cbn; auto].
    destruct (sink_write cx out c1) as [c2 ok2] eqn:S2. pose proof (sink_write_B _ _ _ _ _ B1 S2) as B2.
    destruct ok2; cbn [negb]; [|split; [exact B2|]; unfold TwB; cbn; auto].
    split; [apply flush_message_B; exact B2|]. intros _. apply tw_reset_B.
Qed.

Lemma zlen_skipn_le {A} n (l : list A) : zlen (skipn n l) <= zlen l.
Proof. unfold zlen. rewrite skipn_length. lia. Qed.

Lemma tw_loop_B cx : 0 <= w_limit cx -> forall f data c w c' w' r,
  CoreB cx c -> TwB cx w -> tw_loop f cx data c w = (c', w', r) -> CoreB cx c' /\ TwB cx w'.
Proof.
  intros Hl. induction f as [|f IH]; intros data c w c' w' r HB HW H; cbn [tw_loop] in H.
  { injection H as <- <- <-. auto. }
  destruct (tw_err w); [injection H as <- <- <-; auto|]. cbv zeta in H.
  destruct HW as (He & Hb).
  set (b := match tw_buf w with Some b => b | None => [] end) in *.
  assert (Hbb : zlen b <= bnd cx) by (unfold b; destruct (tw_buf w); [exact Hb|unfold bnd; cbn; lia]).
  destruct (Z.ltb_spec (zlen data) (tw_expect w - zlen b)) as [Hlt|Hge].
  { injection H as <- <- <-. split; [exact HB|]. unfold TwB; cbn [tw_expect tw_buf]. split; [exact He|]. rewrite zlen_app. lia. }
  set (now := ztake (tw_expect w - zlen b) data) in *.
  assert (Hfull : zlen (b ++ now) <= bnd cx).
  { rewrite zlen_app. unfold now. rewrite zlen_ztake. pose proof (zlen_nonneg b). lia. }
  destruct (tw_wenv w).
  - destruct (w_senv cx) as [se|]; [|injection H as <- <- <-; split; [exact HB|split; assumption]].
    destruct (decode_env se (firstn 5 (b ++ now))) as [env|].
    + destruct (Z.ltb_spec (w_limit cx) (e_len env)) as [Hov|Hfit].
      * injection H as <- <- <-. split; [apply report_error_bufB; exact HB|]. unfold TwB; cbn [tw_expect tw_buf]. split; [exact He|].
        pose proof (zlen_skipn_le 5 (b ++ now)). unfold bnd in *. change (zlen (skipn 5 (b ++ now)) <= Z.max 5 (w_limit cx)). lia.
      * eapply IH; [exact HB| |exact H]. unfold TwB, bnd; cbn [tw_expect tw_buf]. unfold zlen. cbn [length Z.of_nat]. lia.
    + injection H as <- <- <-. split; [apply report_error_bufB; exact HB|]. unfold TwB; cbn [tw_expect tw_buf]. split; [exact He|].
      pose proof (zlen_skipn_le 5 (b ++ now)). unfold bnd in *. change (zlen (skipn 5 (b ++ now)) <= Z.max 5 (w_limit cx)). lia.
  - match type of H with context [tw_flush_message cx c ?w0] =>
      pose proof (tw_flush_message_B cx c w0 HB) as FM; destruct (tw_flush_message cx c w0) as [c1 w1|e c1 w1 rep] end.
    + destruct FM as (B1 & W1). assert (HW1 : TwB cx w1) by (apply W1; unfold TwB; cbn; split; assumption).
      match type of H with (if ?bb then _ else _) = _ => destruct bb end; [injection H as <- <- <-; auto|].
      eapply IH; [exact B1| |exact H]. destruct HW1 as (_ & Hb1). unfold TwB, bnd; cbn [tw_expect tw_buf]. split; [lia|exact Hb1].
    + destruct FM as (B1 & W1). assert (HW1 : TwB cx w1) by (apply W1; unfold TwB; cbn; split; assumption).
      injection H as <- <- <-. split; [destruct rep; [exact B1|apply report_error_bufB; exact B1]|].
      destruct HW1. unfold TwB; cbn [tw_expect tw_buf]. auto.
Qed.

Lemma tw_write_B cx d c w c' w' r : 0 <= w_limit cx ->
  CoreB cx c -> TwB cx w -> tw_write cx d c w = (c', w', r) -> CoreB cx c' /\ TwB cx w'.
Proof.
  intros Hl HB HW H. unfold tw_write in H.
  destruct (tw_err w); [injection H as <- <- <-; auto|].
  set (w0 := match tw_buf w with None => tw_reset cx c w | Some _ => w end) in *.
  assert (HW0 : TwB cx w0) by (unfold w0; destruct (tw_buf w); [exact HW|apply tw_reset_B]).
  destruct (tw_expect w0 =? -1).
  - destruct HW0 as (He & Hb).
    match type of H with (if ?bb then _ else _) = _ => destruct bb eqn:Cnd end; injection H as <- <- <-.
    + split; [apply report_error_bufB; exact HB|]. unfold TwB; cbn [tw_expect tw_buf]. split; assumption.
    + split; [exact HB|]. unfold TwB; cbn [tw_expect tw_buf]. split; [exact He|].
      apply Z.ltb_ge in Cnd. rewrite zlen_app. unfold bnd. lia.
  - eapply tw_loop_B; eauto.
Qed.

(** * errorWriter *)
Definition XwB (cx : wctx) (w : errw) : Prop := match xw_buf w with Some b => zlen b <= w_limit cx | None => True end.

Lemma xw_write_B cx d c w c' w' r : CoreB cx c -> XwB cx w -> xw_write cx d c w = (c', w', r) -> CoreB cx c' /\ XwB cx w'.
Proof.
  intros HB HX H. unfold xw_write in H. destruct (xw_buf w) as [b|] eqn:Eb; [|injection H as <- <- <-; auto].
  destruct (Z.ltb_spec (w_limit cx) (zlen d + zlen b)); injection H as <- <- <-.
  - split; [apply report_error_bufB; exact HB|exact HX].
  - split; [exact HB|]. unfold XwB. cbn. rewrite zlen_app. lia.
Qed.

(** * envelopingWriter *)
Definition EwB (cx : wctx) (w : ew) : Prop :=
  (ew_wenv w = true -> zlen (ew_envacc w) + ew_remaining w = 5 /\ 0 <= ew_remaining w) /\
  match ew_cur w with
  | ECTrailer b => zlen b + Z.max 0 (ew_remaining w) <= w_limit cx /\ ew_is_trailer w = true /\ 0 <= ew_remaining w
  | ECMeasure b => zlen b <= w_limit cx
  | _ => True
  end.

Lemma ew_cur_write_B cx d c w c' w' r :
  CoreB cx c -> EwB cx w -> ew_wenv w = false -> zlen d <= Z.max 0 (ew_remaining w) \/ (match ew_cur w with ECTrailer _ => False | _ => True end) ->
  ew_cur_write cx d c w = (c', w', r) ->
  CoreB cx c' /\ ew_wenv w' = false /\ ew_remaining w' = ew_remaining w /\ (r <> WOk -> w' = w) /\
  match ew_cur w' with
  | ECTrailer b => zlen b + (Z.max 0 (ew_remaining w) - zlen d) <= w_limit cx /\ ew_is_trailer w' = true /\ 0 <= ew_remaining w
  | ECMeasure b => zlen b <= w_limit cx
  | _ => True
  end.
Proof.
  intros HB (He & Hc) Hw Hd H. unfold ew_cur_write in H. destruct (ew_cur w) as [| |b|b] eqn:Ec.
  - injection H as <- <- <-. rewrite Ec. auto.
  - destruct (sink_write cx d c) as [c1 ok] eqn:S. injection H as <- <- <-. rewrite Ec.
    split; [eapply sink_write_B; eauto|auto].
  - injection H as <- <- <-. cbn. split; [exact HB|]. split; [exact Hw|]. split; [reflexivity|]. split; [congruence|]. destruct Hc as (Hc & Ht & Hr0). split; [rewrite zlen_app; lia|split; [exact Ht|exact Hr0]].
  - destruct (Z.ltb_spec (w_limit cx) (zlen b + zlen d)); injection H as <- <- <-.
    + rewrite Ec. split; [apply report_error_bufB; exact HB|auto].
    + cbn. split; [exact HB|]. split; [exact Hw|]. split; [reflexivity|]. split; [congruence|]. rewrite zlen_app. lia.
Qed.

Lemma EwB_set_err cx w : EwB cx w -> EwB cx (ew_set_err w).
Proof. intros H. exact H. Qed.

Ltac curB w0 :=
  destruct (ew_cur w0); auto;
  try match goal with R : ew_remaining _ = ew_remaining _ |- _ => rewrite ?R in * end; try lia;
  repeat match goal with H : _ /\ _ |- _ => destruct H end;
  try (split; [lia|split; [first [assumption|cbn; assumption|reflexivity]|lia]]);
  try (exfalso; match goal with I : ew_is_trailer _ = false |- _ => cbn in I; congruence end).

Lemma ew_loop_B cx : forall f data c w c' w' r,
  CoreB cx c -> EwB cx w -> 0 <= ew_remaining w -> ew_loop f cx data c w = (c', w', r) -> CoreB cx c' /\ EwB cx w'.
Proof.
  induction f as [|f IH]; intros data c w c' w' r HB HW Hr H; cbn [ew_loop] in H.
  { injection H as <- <- <-. auto. }
  destruct (ew_err w); [injection H as <- <- <-; auto|].
  pose proof HW as HW0. destruct HW as (He & Hc). pose proof (zlen_nonneg data) as Hd0.
  destruct (Z.ltb_spec (zlen data) (ew_remaining w)) as [Hlt|Hge].
  { destruct (ew_wenv w) eqn:Ew.
    - injection H as <- <- <-. split; [exact HB|]. destruct (He eq_refl) as (E5 & _).
      unfold EwB, ew_upd. cbn. split; [intros _; rewrite zlen_app; pose proof (zlen_nonneg data); lia|].
      curB w.
    - destruct (ew_cur_write cx data c w) as [[c1 w1] r1] eqn:CW.
      assert (Hdd : zlen data <= Z.max 0 (ew_remaining w)) by lia.
      destruct (ew_cur_write_B _ _ _ _ _ _ _ HB HW0 Ew (or_introl Hdd) CW) as (B1 & W1 & R1 & U1 & C1).
      destruct r1; injection H as <- <- <-; (split; [exact B1|]).
      + unfold EwB, ew_upd; cbn; rewrite W1. split; [discriminate|]. curB w1.
      + rewrite (U1 ltac:(discriminate)). exact HW0.
      + rewrite (U1 ltac:(discriminate)). exact HW0. }
  destruct (ew_wenv w) eqn:Ew.
  { destruct (w_senv cx) as [se|]; [|injection H as <- <- <-; split; [exact HB|exact HW0]].
    destruct (decode_env se _) as [env|] eqn:De.
    2:{ injection H as <- <- <-. split; [apply report_error_bufB; exact HB|]. unfold EwB, ew_set_err, ew_upd. cbn.
        split; [discriminate|]. curB w. }
    assert (Hlen : 0 <= e_len env).
    { unfold decode_env in De. destruct (ew_envacc w ++ ztake (ew_remaining w) data) as [|f0 [|b1 [|b2 [|b3 [|b4 [|]]]]]]; try discriminate.
      destruct (flags_bad se (Z.of_N f0)); [discriminate|]. injection De as <-. cbn. unfold be32. lia. }
    destruct (e_trailer env).
    - destruct (Z.ltb_spec (w_limit cx) (e_len env)).
      + injection H as <- <- <-. split; [apply report_error_bufB; exact HB|]. unfold EwB, ew_set_err, ew_upd. cbn.
        split; [discriminate|]. curB w.
      + apply (fun P Q => IH _ _ _ _ _ _ HB P Q H); [|cbn; exact Hlen]. unfold EwB, ew_upd. cbn. split; [discriminate|]. split; [unfold zlen; cbn; lia|split; [reflexivity|exact Hlen]].
    - destruct (w_cenv cx) as [ce|].
      + destruct (sink_write cx _ c) as [c1 ok] eqn:S. pose proof (sink_write_B _ _ _ _ _ HB S) as B1.
        destruct ok.
        * apply (fun P Q => IH _ _ _ _ _ _ B1 P Q H); [|cbn; exact Hlen]. unfold EwB, ew_upd. cbn. split; [discriminate|exact I].
        * injection H as <- <- <-. split; [exact B1|]. unfold EwB, ew_set_err, ew_upd. cbn. split; [discriminate|]. curB w.
      + apply (fun P Q => IH _ _ _ _ _ _ HB P Q H); [|cbn; exact Hlen]. unfold EwB, ew_upd. cbn. split; [discriminate|exact I]. }
  destruct (ew_cur_write cx _ c w) as [[c1 w1] r1] eqn:CW.
  assert (Hnow : zlen (ztake (ew_remaining w) data) <= Z.max 0 (ew_remaining w)) by (rewrite zlen_ztake; lia).
  destruct (ew_cur_write_B _ _ _ _ _ _ _ HB HW0 Ew (or_introl Hnow) CW) as (B1 & W1 & R1 & U1 & C1).
  assert (Tail : EwB cx (ew_upd w1 (ew_wenv w1) (ew_envacc w1) 0 (ew_cur w1) (ew_is_trailer w1) (ew_trailer_comp w1))).
  { unfold EwB, ew_upd. cbn. rewrite W1. split; [discriminate|]. curB w1. }
  destruct r1.
  - match type of H with (if ?b then _ else _) = _ => destruct b eqn:It end.
    + match type of H with (match ?p with _ => _ end) = _ => destruct p as [pl|] end.
      * destruct (decode_end_from_message cx pl); injection H as <- <- <-;
          (split; [first [apply report_end_bufB|apply report_error_bufB]; exact B1|]);
          unfold EwB, ew_set_err, ew_upd; cbn; rewrite W1; (split; [discriminate|]); curB w1.
      * injection H as <- <- <-. split; [exact B1|]. unfold EwB, ew_set_err, ew_upd; cbn; rewrite W1. split; [discriminate|]. curB w1.
    + match type of H with (if ?b then _ else _) = _ => destruct b end.
      * destruct (zdrop (ew_remaining w) data); injection H as <- <- <-;
          (split; [first [apply report_error_bufB; apply flush_message_B; exact B1|apply flush_message_B; exact B1]|]);
          unfold EwB, ew_set_err, ew_upd; cbn; rewrite W1; (split; [discriminate|]); curB w1.
      * apply (fun P Q => IH _ _ _ _ _ _ (flush_message_B cx c1 B1) P Q H); [|cbn; lia].
        unfold EwB, ew_upd. cbn. split; [intros _; unfold zlen; cbn; lia|]. cbn in It. curB w1.
  - injection H as <- <- <-. split; [exact B1|]. rewrite (U1 ltac:(discriminate)). exact HW0.
  - injection H as <- <- <-. split; [exact B1|]. rewrite (U1 ltac:(discriminate)). exact HW0.
Qed.

Lemma decode_env_len_nonneg k b env : decode_env k b = Some env -> 0 <= e_len env.
Proof.
  unfold decode_env. destruct b as [|f0 [|b1 [|b2 [|b3 [|b4 [|]]]]]]; try discriminate.
  destruct (flags_bad k (Z.of_N f0)); [discriminate|]. intros [= <-]. cbn. unfold be32. lia.
Qed.

Lemma ew_cur_write_rem cx d c w c' w' r : ew_cur_write cx d c w = (c', w', r) -> ew_remaining w' = ew_remaining w.
Proof.
  unfold ew_cur_write. destruct (ew_cur w) as [| |b|b]; try (intros [= <- <- <-]; reflexivity).
  - destruct (sink_write cx d c). intros [= <- <- <-]. reflexivity.
  - destruct (w_limit cx <? zlen b + zlen d); intros [= <- <- <-]; reflexivity.
Qed.

Lemma ew_loop_rem cx : forall f data c w c' w' r,
  0 <= ew_remaining w -> ew_loop f cx data c w = (c', w', r) -> 0 <= ew_remaining w'.
Proof.
  induction f as [|f IH]; intros data c w c' w' r Hr H; cbn [ew_loop] in H.
  { injection H as <- <- <-. exact Hr. }
  destruct (ew_err w); [injection H as <- <- <-; exact Hr|]. pose proof (zlen_nonneg data).
  destruct (Z.ltb_spec (zlen data) (ew_remaining w)).
  { destruct (ew_wenv w); [injection H as <- <- <-; cbn; lia|].
    destruct (ew_cur_write cx data c w) as [[c1 w1] r1] eqn:CW. pose proof (ew_cur_write_rem _ _ _ _ _ _ _ CW) as R1.
    destruct r1; injection H as <- <- <-; cbn; lia. }
  destruct (ew_wenv w).
  { destruct (w_senv cx) as [se|]; [|injection H as <- <- <-; exact Hr].
    destruct (decode_env se _) as [env|] eqn:De; [|injection H as <- <- <-; cbn; lia].
    pose proof (decode_env_len_nonneg _ _ _ De).
    destruct (e_trailer env).
    - destruct (w_limit cx <? e_len env); [injection H as <- <- <-; cbn; lia|]. eapply IH; [|exact H]. cbn. lia.
    - destruct (w_cenv cx).
      + destruct (sink_write cx _ c) as [c1 ok]. destruct ok; [eapply IH; [|exact H]; cbn; lia|injection H as <- <- <-; cbn; lia].
      + eapply IH; [|exact H]. cbn. lia. }
  destruct (ew_cur_write cx _ c w) as [[c1 w1] r1] eqn:CW. pose proof (ew_cur_write_rem _ _ _ _ _ _ _ CW) as R1.
  destruct r1; try (injection H as <- <- <-; cbn; lia).
  match type of H with (if ?b then _ else _) = _ => destruct b end.
  - match type of H with (match ?p with _ => _ end) = _ => destruct p as [pl|] end; [|injection H as <- <- <-; cbn; lia].
    destruct (decode_end_from_message cx pl); injection H as <- <- <-; cbn; lia.
  - match type of H with (if ?b then _ else _) = _ => destruct b end.
    + destruct (zdrop (ew_remaining w) data); injection H as <- <- <-; cbn; lia.
    + eapply IH; [|exact H]. cbn. lia.
Qed.

Lemma ew_maybe_init_B cx cl c w c' w' : 0 <= w_limit cx -> -1 <= cl ->
  CoreB cx c -> EwB cx w -> -1 <= ew_remaining w -> ew_maybe_init cx cl c w = (c', w') ->
  CoreB cx c' /\ EwB cx w' /\ -1 <= ew_remaining w'.
Proof.
  intros Hlim Hcl HB HW Hr H. unfold ew_maybe_init in H.
  destruct (ew_init w); [injection H as <- <-; auto|].
  destruct (w_senv cx); [injection H as <- <-; split; [exact HB|]; split; [|cbn; lia]; unfold EwB; cbn; split; [intros _; unfold zlen; cbn; lia|exact I]|].
  destruct (w_cenv cx) as [ce|]; [|injection H as <- <-; split; [exact HB|]; split; [|cbn; lia]; unfold EwB; cbn; split; [discriminate|exact I]].
  destruct (cl =? -1); [injection H as <- <-; split; [exact HB|]; split; [|cbn; lia]; unfold EwB; cbn; split; [discriminate|unfold zlen; cbn; lia]|].
  destruct (Z.ltb_spec (w_limit cx) cl).
  - injection H as <- <-. split; [apply report_error_bufB; exact HB|]. split; [|cbn; lia]. unfold EwB; cbn. split; [discriminate|exact I].
  - destruct (sink_write cx _ c) as [c1 ok] eqn:S. injection H as <- <-. split; [eapply sink_write_B; eauto|].
    split; [|cbn; lia]. unfold EwB; cbn. split; [discriminate|exact I].
Qed.

Lemma ew_write_B cx cl d c w c' w' r : 0 <= w_limit cx -> -1 <= cl ->
  CoreB cx c -> EwB cx w -> -1 <= ew_remaining w -> ew_write cx cl d c w = (c', w', r) ->
  CoreB cx c' /\ EwB cx w' /\ -1 <= ew_remaining w'.
Proof.
  intros Hlim Hcl HB HW Hr H. unfold ew_write in H.
  destruct (ew_maybe_init cx cl c w) as [c0 w0] eqn:MI.
  destruct (ew_maybe_init_B _ _ _ _ _ _ Hlim Hcl HB HW Hr MI) as (B0 & W0 & R0).
  destruct (ew_err w0); [injection H as <- <- <-; auto|].
  destruct (ew_complete w0).
  - destruct d; injection H as <- <- <-; [auto|]. split; [apply report_error_bufB; exact B0|]. split; [exact W0|exact R0].
  - destruct (Z.eqb_spec (ew_remaining w0) (-1)) as [E1|N1].
    + destruct (ew_cur_write cx d c0 w0) as [[c1 w1] r1] eqn:CW.
      pose proof (ew_cur_write_rem _ _ _ _ _ _ _ CW) as R1.
      assert (Wn : ew_wenv w0 = false).
      { destruct (ew_wenv w0) eqn:E; [|reflexivity]. destruct W0 as (W0a & _). destruct (W0a E) as (_ & Hn). lia. }
      assert (Hd : zlen d <= Z.max 0 (ew_remaining w0) \/ match ew_cur w0 with ECTrailer _ => False | _ => True end).
      { right. destruct W0 as (_ & W0b). destruct (ew_cur w0); auto. destruct W0b as (_ & _ & Hn). lia. }
      destruct (ew_cur_write_B _ _ _ _ _ _ _ B0 W0 Wn Hd CW) as (B1 & W1 & _ & U1 & C1).
      assert (EW1 : EwB cx w1).
      { unfold EwB. rewrite W1. split; [discriminate|]. destruct (ew_cur w1); auto. destruct C1 as (_ & _ & Hn). lia. }
      destruct r1; injection H as <- <- <-; (split; [exact B1|]); (split; [exact EW1|cbn; lia]).
    + assert (Hr0 : 0 <= ew_remaining w0) by lia.
      destruct (ew_loop_B cx _ _ _ _ _ _ _ B0 W0 Hr0 H) as (B1 & W1). pose proof (ew_loop_rem cx _ _ _ _ _ _ _ Hr0 H).
      split; [exact B1|]. split; [exact W1|lia].
Qed.

Lemma ew_close_B cx c w c' w' : CoreB cx c -> ew_close cx c w = (c', w') -> CoreB cx c'.
Proof.
  intros HB H. unfold ew_close in H.
  set (w0 := if c_end_written c then ew_set_err w else w) in *.
  assert (T : forall c1 w1 (cc : rwc) (ww : ew), CoreB cx c1 ->
            (let normal_eof := ew_wenv w1 && (ew_remaining w1 =? 5) in
             let c2 := if (0 <? ew_remaining w1) && negb normal_eof then report_error cx EOther c1 else c1 in
             (c2, mkEw (ew_init w1) true (ew_wenv w1) (ew_envacc w1) 0 ECNone (ew_is_trailer w1) (ew_trailer_comp w1) (ew_fixed w1) (ew_complete w1))) = (cc, ww) ->
            CoreB cx cc).
  { intros c1 w1 cc ww B1 E. cbv zeta in E. injection E as <- <-.
    destruct ((0 <? ew_remaining w1) && negb (ew_wenv w1 && (ew_remaining w1 =? 5))); [apply report_error_bufB; exact B1|exact B1]. }
  destruct (ew_cur w0) as [| |b|b] eqn:Ec; try (eapply T; [exact HB|exact H]).
  destruct ((ew_remaining w0 =? -1) && negb (ew_err w0)); [|eapply T; [exact HB|exact H]].
  destruct (w_cenv cx) as [ce|]; [|eapply T; [exact HB|exact H]].
  cbv zeta in H.
  match type of H with context [sink_write cx ?e c] => destruct (sink_write cx e c) as [c1 ok] eqn:S1 end.
  pose proof (sink_write_B _ _ _ _ _ HB S1) as B1.
  destruct ok; [|eapply T; [exact B1|exact H]].
  destruct (sink_write cx b c1) as [c2 ok2] eqn:S2. pose proof (sink_write_B _ _ _ _ _ B1 S2) as B2.
  eapply T; [exact B2|exact H].
Qed.

(** * responseWriter *)
Definition RwB (cx : wctx) (r : rw) : Prop :=
  CoreB cx (r_core r) /\ -1 <= r_content_len r /\
  match r_w r with
  | BTrans w => TwB cx w
  | BEnv w => EwB cx w /\ -1 <= ew_remaining w
  | BErr w => XwB cx w
  | _ => True
  end.

Lemma extract_content_length_ge h clen h1 : extract_content_length h = Some (clen, h1) -> -1 <= clen.
Proof.
  unfold extract_content_length. destruct (hget (s2b "Content-Length") h) as [|x s]; [intros [= <- _]; lia|].
  destruct (Model.Timeout.parse_int64 (x :: s)) as [n|]; [|discriminate].
  destruct (Z.ltb_spec n 0); [discriminate|]. intros [= <- _]. lia.
Qed.

Lemma CoreB_same_buf cx c c' : c_buf c' = c_buf c -> CoreB cx c -> CoreB cx c'.
Proof. unfold CoreB. intros ->. auto. Qed.

Lemma rw_write_header_B cx st r : 0 <= w_limit cx -> RwB cx r -> RwB cx (rw_write_header cx st r).
Proof.
  intros Hl (HB & Hc & HW). unfold rw_write_header.
  destruct (r_headers_written r); [split; [exact HB|split; assumption]|].
  cbn [r_core r_w r_content_len].
  destruct (c_end_written (r_core r)); [split; [exact HB|split; assumption]|].
  destruct (extract_content_length (c_hdr (r_core r))) as [[clen h1]|] eqn:EC.
  2:{ unfold set_core. split; [cbn; apply report_error_bufB; exact HB|split; assumption]. }
  pose proof (extract_content_length_ge _ _ _ EC) as Hcl.
  destruct (extract_response (w_eor cx) (w_server cx) st h1) as [[m0 proc] h2].
  match goal with |- context [let '(m1, h3) := ?p in _] => destruct p as [m1 h3] end.
  cbv zeta.
  set (c1 := mkRwc _ _ _ (Some _) _ _ _ _).
  assert (B1 : CoreB cx c1) by (eapply CoreB_same_buf; [|exact HB]; reflexivity).
  match goal with |- context [if ?b then set_core _ _ else _] => destruct b end.
  { unfold set_core. split; [cbn; apply report_error_bufB; exact B1|split; [cbn; exact Hcl|exact HW]]. }
  set (c2 := mkRwc (c_hdr c1) _ _ _ _ _ _ _).
  assert (B2 : CoreB cx c2) by (eapply CoreB_same_buf; [|exact B1]; reflexivity).
  match goal with |- context [match rm_end ?m with Some _ => _ | None => _ end] => destruct (rm_end m) end.
  - destruct proc; (split; [cbn [r_core]; first [apply flush_headers_bufB; exact B2|exact B2]|split; [cbn; exact Hcl|cbn; auto]]);
      unfold XwB; cbn; unfold zlen; cbn; lia.
  - match goal with |- context [if ?b then mkRw (report_error _ _ _) _ _ _ else _] => destruct b end.
    { split; [cbn; apply report_error_bufB; exact B2|split; [cbn; exact Hcl|exact HW]]. }
    assert (B3 : CoreB cx (if end_must_be_in_headers (w_client cx)
                           then mkRwc (c_hdr c2) (c_flushed c2) (c_end_written c2) (c_meta c2) (c_err c2) (Some []) (c_resp_comp c2) (c_out c2)
                           else flush_headers cx c2)).
    { destruct (end_must_be_in_headers (w_client cx)); [unfold CoreB; cbn; unfold zlen; cbn; lia|apply flush_headers_bufB; exact B2]. }
    split; [exact B3|]. split; [cbn; exact Hcl|]. cbn [r_w].
    match goal with |- context [if ?b then BEnv ew0 else BTrans tw0] => destruct b end.
    + split; [|cbn; lia]. unfold EwB. cbn. split; [discriminate|exact I].
    + unfold TwB, bnd. cbn. lia.
Qed.

Lemma rw_write_B cx d r r' res : 0 <= w_limit cx -> RwB cx r -> rw_write cx d r = (r', res) -> RwB cx r'.
Proof.
  intros Hl HR H. unfold rw_write in H.
  set (r0 := if r_headers_written r then r else rw_write_header cx 200 r) in *.
  assert (HR0 : RwB cx r0) by (unfold r0; destruct (r_headers_written r); [exact HR|apply rw_write_header_B; assumption]).
  clearbody r0. destruct HR0 as (HB & Hc & HW).
  destruct (c_err (r_core r0)); [injection H as <- <-; split; [exact HB|split; assumption]|].
  destruct (r_w r0) as [| |w|w|w] eqn:Ew0; try (injection H as <- <-; split; [exact HB|split; [exact Hc|rewrite Ew0; exact HW]]).
  - destruct (xw_write cx d (r_core r0) w) as [[c w'] rs] eqn:X. injection H as <- <-.
    destruct (xw_write_B _ _ _ _ _ _ _ HB HW X). split; [assumption|split; [exact Hc|assumption]].
  - destruct HW as (HW & Hr). destruct (ew_write cx _ d (r_core r0) w) as [[c w'] rs] eqn:X. injection H as <- <-.
    destruct (ew_write_B _ _ _ _ _ _ _ _ Hl Hc HB HW Hr X) as (B1 & W1 & R1). split; [exact B1|split; [exact Hc|split; assumption]].
  - destruct (tw_write cx d (r_core r0) w) as [[c w'] rs] eqn:X. injection H as <- <-.
    destruct (tw_write_B _ _ _ _ _ _ _ Hl HB HW X). split; [assumption|split; [exact Hc|assumption]].
Qed.

(** every state the handler's script can reach keeps every buffer within the limit *)
From VG Require Import Model.Request Model.Serve.

Theorem run_script_B cx : 0 <= w_limit cx -> forall s r wr r' wr', RwB cx r -> run_script cx s r wr = (r', wr') -> RwB cx r'.
Proof.
  intros Hl. induction s as [|a rest IH]; intros r wr r' wr' HR H; cbn [run_script] in H.
  { injection H as <- <-. exact HR. }
  destruct a as [k v|k v|code|d| |e].
  - destruct (c_end_written (r_core r)); [eapply IH; eauto|]. eapply IH; [|exact H].
    destruct HR as (HB & Hc & HW). split; [eapply CoreB_same_buf; [|exact HB]; reflexivity|split; assumption].
  - destruct (c_end_written (r_core r)); [eapply IH; eauto|]. eapply IH; [|exact H].
    destruct HR as (HB & Hc & HW). split; [eapply CoreB_same_buf; [|exact HB]; reflexivity|split; assumption].
  - eapply IH; [|exact H]. apply rw_write_header_B; assumption.
  - destruct (rw_write cx d r) as [r1 rs] eqn:W. pose proof (rw_write_B _ _ _ _ _ Hl HR W) as HR1.
    destruct rs; [eapply IH; eauto|eapply IH; eauto|injection H as <- <-; exact HR1].
  - eapply IH; eauto.
  - eapply IH; [|exact H]. destruct HR as (HB & Hc & HW). split; [cbn; apply report_error_bufB; exact HB|split; assumption].
Qed.

Lemma RwB_init cx h : 0 <= w_limit cx -> RwB cx (rw_init h).
Proof. intros Hl. split; [exact I|]. split; [cbn; lia|exact I]. Qed.

(** in plain terms: what each holder holds *)
Theorem reachable_buffers_bounded cx s h r wr :
  0 <= w_limit cx -> run_script cx s (rw_init h) [] = (r, wr) ->
  (forall b, c_buf (r_core r) = Some b -> zlen b <= w_limit cx) /\
  match r_w r with
  | BTrans w => forall b, tw_buf w = Some b -> zlen b <= Z.max 5 (w_limit cx)
  | BEnv w => zlen (ew_envacc w) <= 5 \/ ew_wenv w = false /\
              match ew_cur w with ECTrailer b | ECMeasure b => zlen b <= w_limit cx | _ => True end
  | BErr w => forall b, xw_buf w = Some b -> zlen b <= w_limit cx
  | _ => True
  end.
Proof.
  intros Hl H. pose proof (run_script_B cx Hl s _ _ _ _ (RwB_init cx h Hl) H) as (HB & _ & HW).
  split; [intros b E; unfold CoreB in HB; rewrite E in HB; exact HB|].
  destruct (r_w r) as [| |w|w|w]; auto.
  - intros b E. unfold XwB in HW. rewrite E in HW. exact HW.
  - destruct HW as ((Ha & Hc) & _). destruct (ew_wenv w) eqn:Ew.
    + left. destruct (Ha eq_refl). lia.
    + right. split; [reflexivity|]. destruct (ew_cur w) as [| |b|b]; auto. destruct Hc as (Hc & _). lia.
  - intros b E. destruct HW as (_ & Hb). rewrite E in Hb. exact Hb.
Qed.
