(** Invariants of the tables NewTranscoder builds (Model/Config.v). *)
From VG Require Import Model.Bytes Model.Router Model.PathTemplate Model.Request Model.Config Gen.Generated.
From VG Require Import Proofs.RouterProofs Proofs.TemplateProofs.
From Coq Require Import Lia.
Open Scope Z_scope.

(** * folds that may fail *)
Lemma ofold_inv {A B} (f : A -> B -> option A) (P : A -> Prop) l :
  (forall a x a', In x l -> P a -> f a x = Some a' -> P a') ->
  forall a a', P a -> ofold f a l = Some a' -> P a'.
Proof.
  induction l as [|x r IH]; intros Hstep a a' Pa H; cbn [ofold] in H.
  - injection H as <-. exact Pa.
  - destruct (f a x) as [a1|] eqn:E; [|discriminate].
    eapply IH; [|eapply Hstep; [left; reflexivity|exact Pa|exact E]|exact H].
    intros; eapply Hstep; eauto. right; assumption.
Qed.

Lemma ofold_all_some {A B} (f : A -> B -> option A) l : forall a a',
  ofold f a l = Some a' -> forall x, In x l -> exists a0 a1, f a0 x = Some a1.
Proof.
  induction l as [|y r IH]; intros a a' H x Hin; [destruct Hin|]. cbn [ofold] in H.
  destruct (f a y) as [a1|] eqn:E; [|discriminate]. destruct Hin as [<-|Hin]; [eauto|eapply IH; eauto].
Qed.

(** * incremental insertion is [build] *)
Lemma build_from_app rs1 : forall items idx rs2,
  build_from items idx (rs1 ++ rs2) =
  let '(it1, ok1) := build_from items idx rs1 in
  let '(it2, ok2) := build_from it1 (idx + length rs1) rs2 in (it2, ok1 ++ ok2).
Proof.
  induction rs1 as [|r rest IH]; intros items idx rs2; cbn [build_from app length].
  - rewrite Nat.add_0_r. destruct (build_from items idx rs2). reflexivity.
  - destruct (insert items idx r) as [items' ok]. rewrite IH.
    destruct (build_from items' (S idx) rest) as [it1 ok1].
    replace (idx + S (length rest))%nat with (S idx + length rest)%nat by lia.
    destruct (build_from it1 (S idx + length rest) rs2). reflexivity.
Qed.

Lemma build_snoc rs r :
  build (rs ++ [r]) =
  let '(it, oks) := build rs in let '(it', b) := insert it (length rs) r in (it', oks ++ [b]).
Proof.
  unfold build. rewrite build_from_app. destruct (build_from [] 0 rs) as [it oks]. cbn [build_from Nat.add].
  destruct (insert it (length rs) r). reflexivity.
Qed.

(** * the invariant *)
Definition routes_of (s : cst) : list route := map cb_route (cs_bindings s).

(** where a table entry comes from: a pattern [b] of a rule, applied to method [md] *)
Definition from_binding (ms : list msgdesc) (md : methdesc) (mpath : bytes) (b : binding) (cb : cbinding) : Prop :=
  exists meth path verb vars,
    http_method_of b = Some meth /\ meth <> [] /\ b_template b <> [] /\
    parse_path_template (b_template b) = POk (path, verb, vars) /\
    make_target ms md mpath meth b path verb vars = Some cb.

Definition Inv (ms : list msgdesc) (s : cst) : Prop :=
  build (routes_of s) = (cs_items s, repeat true (length (cs_bindings s)))
  /\ routes_wf (routes_of s)
  /\ NoDup (map mf_path (cs_methods s))
  /\ (forall m rt, In m (cs_methods s) -> mf_rule m = Some rt ->
        exists cb, In cb (cs_bindings s) /\ cb_route cb = rt /\ cb_method_path cb = mf_path m)
  /\ (forall cb, In cb (cs_bindings s) ->
        exists m b, In m (cs_methods s) /\ mf_path m = cb_method_path cb /\ from_binding ms (mf_desc m) (mf_path m) b cb).

Lemma Inv_empty ms : Inv ms (mkCst [] [] []).
Proof.
  unfold Inv, routes_of. cbn. repeat split; try constructor; intros; try contradiction.
  intros r [].
Qed.

Lemma make_target_route ms md mpath meth b path verb vars cb :
  make_target ms md mpath meth b path verb vars = Some cb ->
  cb_route cb = mkRoute meth path verb (map pvar_of vars) /\ cb_method_path cb = mpath.
Proof.
  unfold make_target. destruct (body_fields ms (md_in md) (b_body b)); [|discriminate].
  destruct (body_fields ms (md_out md) (b_resp b)); [|discriminate].
  destruct (forallb _ vars); [|discriminate]. intros [= <-]. split; reflexivity.
Qed.

Lemma repeat_snoc {A} (x : A) n : repeat x n ++ [x] = repeat x (S n).
Proof. induction n as [|n IH]; cbn; [reflexivity|]. f_equal. exact IH. Qed.

(** addRoute *)
Lemma add_route_inv ms s md mpath b s' rt :
  Inv ms s -> add_route ms s md mpath b = Some (s', rt) ->
  (exists m, In m (cs_methods s) /\ mf_path m = mpath /\ mf_desc m = md) ->
  Inv ms s' /\ cs_methods s' = cs_methods s /\
  exists cb, cs_bindings s' = cs_bindings s ++ [cb] /\ cb_route cb = rt /\ cb_method_path cb = mpath /\ from_binding ms md mpath b cb.
Proof.
  intros (Hb & Hw & Hn & Hr & Hc) H (m0 & Hm0 & Hp0 & Hd0). unfold add_route in H.
  destruct (http_method_of b) as [meth|] eqn:Hm; [|discriminate].
  destruct meth as [|m1 mr] eqn:Emeth; [discriminate|].
  destruct (b_template b) as [|t1 tr] eqn:Et; [discriminate|].
  destruct (parse_path_template (t1 :: tr)) as [[[path verb] vars]| |] eqn:Hp; try discriminate.
  destruct (make_target ms md mpath (m1 :: mr) b path verb vars) as [cb|] eqn:Hmt; [|discriminate].
  destruct (insert (cs_items s) (length (cs_bindings s)) (cb_route cb)) as [items' ok] eqn:Hi.
  destruct ok; [|discriminate]. injection H as <- <-.
  assert (FB : from_binding ms md mpath b cb).
  { exists (m1 :: mr), path, verb, vars. rewrite Et. repeat split; auto; discriminate. }
  split; [|split; [reflexivity|exists cb; cbn; repeat split; auto; apply (make_target_route _ _ _ _ _ _ _ _ _ Hmt)]].
  unfold Inv, routes_of. cbn [cs_items cs_bindings cs_methods]. rewrite map_app. cbn [map].
  split; [|split; [|split; [exact Hn|split]]].
  - rewrite build_snoc. unfold routes_of in Hb. rewrite Hb. rewrite map_length, Hi.
    rewrite app_length. cbn [length]. rewrite Nat.add_1_r. rewrite repeat_snoc. reflexivity.
  - intros r Hin. apply in_app_iff in Hin as [Hin|[<-|[]]]; [apply Hw; exact Hin|].
    destruct (make_target_route _ _ _ _ _ _ _ _ _ Hmt) as (-> & _). cbn.
    eapply parse_template_wf. exact Hp.
  - intros m rt' Hin Hrule. destruct (Hr m rt' Hin Hrule) as (cb' & Hin' & E1 & E2).
    exists cb'. split; [apply in_app_iff; left; exact Hin'|]. auto.
  - intros cb' Hin. apply in_app_iff in Hin as [Hin|[<-|[]]].
    + destruct (Hc cb' Hin) as (m & b' & ?). exists m, b'. assumption.
    + exists m0, b. destruct (make_target_route _ _ _ _ _ _ _ _ _ Hmt) as (_ & ->).
      split; [exact Hm0|]. split; [exact Hp0|]. rewrite Hd0, Hp0. exact FB.
Qed.

(** everything about a method except its current rule *)
Definition mcore (m : mfinal) := (mf_path m, mf_full m, mf_svc m, mf_desc m, mf_opts m).

Lemma set_rule_core p rt l : map mcore (set_rule p rt l) = map mcore l.
Proof.
  unfold set_rule. rewrite map_map. apply map_ext. intros m. destruct (bytes_eqb (mf_path m) p); reflexivity.
Qed.

Lemma mcore_path l l' : map mcore l = map mcore l' -> map mf_path l = map mf_path l'.
Proof.
  intros H. assert (E : forall l0, map mf_path l0 = map (fun c => fst (fst (fst (fst c)))) (map mcore l0)).
  { intros l0. rewrite map_map. reflexivity. }
  rewrite (E l), (E l'), H. reflexivity.
Qed.

Lemma cons_inj {A} (a b : A) l l' : a :: l = b :: l' -> a = b /\ l = l'.
Proof. intros H; injection H; auto. Qed.

Lemma in_mcore m l l' : map mcore l = map mcore l' -> In m l -> exists m', In m' l' /\ mcore m' = mcore m.
Proof.
  revert l'. induction l as [|x r IH]; intros l' H Hin; [destruct Hin|].
  destruct l' as [|y r']; [discriminate|]. cbn [map] in H. apply cons_inj in H as (Hxy & Hr).
  destruct Hin as [<-|Hin]; [exists y; split; [left; reflexivity|symmetry; exact Hxy]|].
  destruct (IH r' Hr Hin) as (m' & ? & ?). exists m'. split; [right|]; assumption.
Qed.

Lemma set_rule_in p rt l m :
  In m (set_rule p rt l) ->
  exists m0, In m0 l /\ mcore m = mcore m0 /\
             ((mf_path m0 <> p /\ mf_rule m = mf_rule m0) \/ (mf_path m0 = p /\ mf_rule m = Some rt)).
Proof.
  unfold set_rule. intros H. apply in_map_iff in H as (m0 & <- & Hin). exists m0. split; [exact Hin|].
  destruct (bytes_eqb (mf_path m0) p) eqn:E.
  - apply bytes_eqb_eq in E. split; [reflexivity|right; split; [exact E|reflexivity]].
  - split; [reflexivity|left; split; [|reflexivity]]. intros Ep. rewrite Ep, bytes_eqb_refl in E. discriminate.
Qed.

Lemma set_rule_hit p rt l m0 :
  In m0 l -> mf_path m0 = p -> exists m, In m (set_rule p rt l) /\ mcore m = mcore m0 /\ mf_rule m = Some rt.
Proof.
  intros Hin E. unfold set_rule.
  exists (mkMf (mf_path m0) (mf_full m0) (mf_svc m0) (mf_desc m0) (mf_opts m0) (Some rt)).
  split; [|split; reflexivity]. apply in_map_iff. exists m0. split; [|exact Hin].
  rewrite E, bytes_eqb_refl. rewrite <- E. reflexivity.
Qed.

Definition has_method (s : cst) (mpath : bytes) (md : methdesc) : Prop :=
  exists m, In m (cs_methods s) /\ mf_path m = mpath /\ mf_desc m = md.

Lemma has_method_core s s' mpath md :
  map mcore (cs_methods s') = map mcore (cs_methods s) -> has_method s mpath md -> has_method s' mpath md.
Proof.
  intros H (m & Hin & E1 & E2). destruct (in_mcore m _ _ (eq_sym H) Hin) as (m' & Hin' & Ec).
  exists m'. split; [exact Hin'|]. unfold mcore in Ec. injection Ec as ? ? ? ? ?. split; congruence.
Qed.

(** the entries a list of patterns contributes, in order *)
Definition from_bindings ms md mpath (bs : list binding) (cbs : list cbinding) : Prop :=
  Forall2 (fun b cb => from_binding ms md mpath b cb /\ cb_method_path cb = mpath) bs cbs.

Lemma add_additional_inv ms md mpath : forall bs s s',
  Inv ms s -> add_additional ms s md mpath bs = Some s' -> has_method s mpath md ->
  Inv ms s' /\ cs_methods s' = cs_methods s /\
  exists cbs, cs_bindings s' = cs_bindings s ++ cbs /\ from_bindings ms md mpath bs cbs /\
              Forall (fun b => b_nested b = false) bs.
Proof.
  induction bs as [|b r IH]; intros s s' HI H HM; cbn [add_additional] in H.
  - injection H as <-. split; [exact HI|]. split; [reflexivity|]. exists []. rewrite app_nil_r.
    split; [reflexivity|]. split; constructor.
  - destruct (b_nested b) eqn:Nb; [discriminate|].
    destruct (add_route ms s md mpath b) as [[s1 rt]|] eqn:AR; [|discriminate].
    destruct (add_route_inv _ _ _ _ _ _ _ HI AR HM) as (HI1 & HM1 & cb & Hb1 & _ & Hp1 & FB).
    assert (HMs : has_method s1 mpath md) by (unfold has_method; rewrite HM1; exact HM).
    destruct (IH s1 s' HI1 H HMs) as (HI' & HM' & cbs & Hb' & FBs & Nn).
    split; [exact HI'|]. split; [congruence|]. exists (cb :: cbs). rewrite Hb', Hb1, <- app_assoc. split; [reflexivity|].
    split; constructor; auto.
Qed.

Lemma Inv_set_rule ms s mpath rt cb :
  Inv ms s -> In cb (cs_bindings s) -> cb_route cb = rt -> cb_method_path cb = mpath ->
  Inv ms (mkCst (cs_items s) (cs_bindings s) (set_rule mpath rt (cs_methods s))).
Proof.
  intros (Hb & Hw & Hn & Hr & Hc) Hin E1 E2. unfold Inv, routes_of. cbn [cs_items cs_bindings cs_methods].
  split; [exact Hb|]. split; [exact Hw|]. split; [|split].
  - rewrite (mcore_path _ _ (set_rule_core mpath rt (cs_methods s))). exact Hn.
  - intros m rt' Hm Hrule. apply set_rule_in in Hm as (m0 & Hin0 & Ec & [(_ & Er)|(Ep & Er)]).
    + rewrite Er in Hrule. destruct (Hr m0 rt' Hin0 Hrule) as (cb' & ? & ? & ?).
      exists cb'. repeat split; auto. unfold mcore in Ec. injection Ec as ? ? ? ? ?. congruence.
    + exists cb. split; [exact Hin|]. rewrite Er in Hrule. injection Hrule as <-. split; [exact E1|].
      unfold mcore in Ec. injection Ec as ? ? ? ? ?. congruence.
  - intros cb' Hin'. destruct (Hc cb' Hin') as (m & b & Hm & Ep & FB).
    destruct (in_mcore m _ _ (eq_sym (set_rule_core mpath rt (cs_methods s))) Hm) as (m' & Hm' & Ec).
    unfold mcore in Ec. injection Ec as ? ? ? ? ?. exists m', b. split; [exact Hm'|]. split; [congruence|]. congruence.
Qed.

(** addRule *)
Lemma add_rule_inv ms s md mpath r s' :
  Inv ms s -> add_rule ms s md mpath r = Some s' -> has_method s mpath md ->
  Inv ms s' /\ map mcore (cs_methods s') = map mcore (cs_methods s) /\
  exists cb cbs, cs_bindings s' = cs_bindings s ++ cb :: cbs /\
                 from_bindings ms md mpath (r_main r :: r_additional r) (cb :: cbs) /\
                 Forall (fun b => b_nested b = false) (r_additional r) /\
                 (forall m, In m (cs_methods s') -> mf_path m = mpath -> mf_rule m = Some (cb_route cb)) /\
                 (forall m, In m (cs_methods s') -> mf_path m <> mpath ->
                    exists m0, In m0 (cs_methods s) /\ mcore m0 = mcore m /\ mf_rule m0 = mf_rule m).
Proof.
  intros HI H HM. unfold add_rule in H.
  destruct (add_route ms s md mpath (r_main r)) as [[s1 rt]|] eqn:AR; [|discriminate].
  destruct (add_route_inv _ _ _ _ _ _ _ HI AR HM) as (HI1 & HM1 & cb & Hb1 & Hrt & Hp1 & FB).
  set (s2 := mkCst (cs_items s1) (cs_bindings s1) (set_rule mpath rt (cs_methods s1))) in *.
  assert (HI2 : Inv ms s2).
  { eapply Inv_set_rule; eauto. rewrite Hb1. apply in_app_iff. right. left. reflexivity. }
  assert (Hcore2 : map mcore (cs_methods s2) = map mcore (cs_methods s)).
  { unfold s2. cbn [cs_methods]. rewrite set_rule_core, HM1. reflexivity. }
  assert (HM2 : has_method s2 mpath md) by (eapply has_method_core; eauto).
  destruct (add_additional_inv _ _ _ _ _ _ HI2 H HM2) as (HI' & HM' & cbs & Hb' & FBs & Nn).
  split; [exact HI'|]. split; [rewrite HM'; exact Hcore2|].
  exists cb, cbs. split; [rewrite Hb'; unfold s2; cbn [cs_bindings]; rewrite Hb1, <- app_assoc; reflexivity|].
  split; [constructor; auto|]. split; [exact Nn|]. rewrite HM'. unfold s2. cbn [cs_methods]. split.
  - intros m Hm Ep. apply set_rule_in in Hm as (m0 & Hin0 & Ec & [(Np & _)|(_ & Er)]).
    + exfalso. apply Np. unfold mcore in Ec. injection Ec as ? ? ? ? ?. congruence.
    + rewrite Er, Hrt. reflexivity.
  - intros m Hm Np. apply set_rule_in in Hm as (m0 & Hin0 & Ec & [(_ & Er)|(Ep0 & _)]).
    + exists m0. rewrite <- HM1. split; [exact Hin0|]. split; congruence.
    + exfalso. apply Np. unfold mcore in Ec. injection Ec as ? ? ? ? ?. congruence.
Qed.

Lemma NoDup_app_snoc {A} (l : list A) x : NoDup l -> ~ In x l -> NoDup (l ++ [x]).
Proof.
  induction l as [|y r IH]; intros Hn Hx; cbn [app]; [constructor; [intros []|constructor]|].
  inversion Hn as [|? ? Hy Hr]; subst. constructor.
  - intros Hin. apply in_app_iff in Hin as [Hin|[<-|[]]]; [exact (Hy Hin)|]. apply Hx. left. reflexivity.
  - apply IH; [exact Hr|]. intros Hin. apply Hx. right. exact Hin.
Qed.

Lemma Forall2_in_r {A B} (R : A -> B -> Prop) l l' : Forall2 R l l' -> forall y, In y l' -> exists x, In x l /\ R x y.
Proof.
  induction 1 as [|x y l l' Hxy _ IH]; intros z Hz; [destruct Hz|].
  destruct Hz as [<-|Hz]; [exists x; split; [left; reflexivity|exact Hxy]|].
  destruct (IH z Hz) as (x' & ? & ?). exists x'. split; [right|]; assumption.
Qed.

(** registerMethod *)
Definition core_of (svc : bytes) (o : sopts) (md : methdesc) :=
  (method_path svc (md_name md), method_full svc (md_name md), svc, md, o).

Lemma register_method_inv ms svc o s md s' :
  Inv ms s -> register_method ms svc o s md = Some s' ->
  Inv ms s' /\ map mcore (cs_methods s') = map mcore (cs_methods s) ++ [core_of svc o md] /\
  ~ In (method_path svc (md_name md)) (map mf_path (cs_methods s)) /\
  exists added, cs_bindings s' = cs_bindings s ++ added /\
    forall cb, In cb added -> cb_method_path cb = method_path svc (md_name md) /\
      exists r0 b, md_rule md = Some r0 /\ In b (r_main r0 :: r_additional r0) /\
                   from_binding ms md (method_path svc (md_name md)) b cb.
Proof.
  intros HI H. unfold register_method in H.
  set (mpath := method_path svc (md_name md)) in *.
  destruct (existsb (fun m => bytes_eqb (mf_path m) mpath) (cs_methods s)) eqn:Ex; [discriminate|].
  assert (Fresh : ~ In mpath (map mf_path (cs_methods s))).
  { intros Hin. apply in_map_iff in Hin as (m & Em & Hm).
    assert (existsb (fun m => bytes_eqb (mf_path m) mpath) (cs_methods s) = true).
    { apply existsb_exists. exists m. split; [exact Hm|]. rewrite Em. apply bytes_eqb_refl. }
    congruence. }
  set (mnew := mkMf mpath (method_full svc (md_name md)) svc md o None) in *.
  set (s1 := mkCst (cs_items s) (cs_bindings s) (cs_methods s ++ [mnew])) in *.
  assert (HI1 : Inv ms s1).
  { destruct HI as (Hb & Hw & Hn & Hr & Hc). unfold Inv, routes_of, s1. cbn [cs_items cs_bindings cs_methods].
    split; [exact Hb|]. split; [exact Hw|]. split; [|split].
    - rewrite map_app. cbn [map]. apply NoDup_app_snoc; assumption.
    - intros m rt Hm Hrule. apply in_app_iff in Hm as [Hm|[<-|[]]]; [|discriminate].
      apply (Hr m rt Hm Hrule).
    - intros cb Hin. destruct (Hc cb Hin) as (m & b & Hm & ?). exists m, b. split; [apply in_app_iff; left; exact Hm|assumption]. }
  assert (Hcore1 : map mcore (cs_methods s1) = map mcore (cs_methods s) ++ [core_of svc o md]).
  { unfold s1. cbn [cs_methods]. rewrite map_app. reflexivity. }
  destruct (md_rule md) as [r|] eqn:Er.
  - assert (HM1 : has_method s1 mpath md).
    { exists mnew. split; [unfold s1; cbn; apply in_app_iff; right; left; reflexivity|split; reflexivity]. }
    destruct (add_rule_inv _ _ _ _ _ _ HI1 H HM1) as (HI' & Hc' & cb & cbs & Hb' & FBs & _).
    split; [exact HI'|]. split; [rewrite Hc'; exact Hcore1|]. split; [exact Fresh|].
    exists (cb :: cbs). split; [exact Hb'|]. intros cb' Hin.
    destruct (Forall2_in_r _ _ _ FBs cb' Hin) as (b & Hb & FB & Ep). split; [exact Ep|].
    exists r, b. split; [reflexivity|]. split; [exact Hb|exact FB].
  - injection H as <-. split; [exact HI1|]. split; [exact Hcore1|]. split; [exact Fresh|].
    exists []. split; [unfold s1; cbn; rewrite app_nil_r; reflexivity|intros ? []].
Qed.

Lemma register_methods_inv ms svc o : forall mds s s',
  Inv ms s -> ofold (register_method ms svc o) s mds = Some s' ->
  Inv ms s' /\ map mcore (cs_methods s') = map mcore (cs_methods s) ++ map (core_of svc o) mds.
Proof.
  induction mds as [|md r IH]; intros s s' HI H; cbn [ofold] in H.
  - injection H as <-. split; [exact HI|]. cbn. rewrite app_nil_r. reflexivity.
  - destruct (register_method ms svc o s md) as [s1|] eqn:RM; [|discriminate].
    destruct (register_method_inv _ _ _ _ _ _ HI RM) as (HI1 & Hc1 & _).
    destruct (IH s1 s' HI1 H) as (HI' & Hc'). split; [exact HI'|].
    rewrite Hc', Hc1, <- app_assoc. reflexivity.
Qed.

(** every entry made while registering services comes from an annotation of its method *)
Definition anno_prov (ms : list msgdesc) (s : cst) : Prop :=
  forall cb, In cb (cs_bindings s) ->
    exists m r0 b, In m (cs_methods s) /\ mf_path m = cb_method_path cb /\ md_rule (mf_desc m) = Some r0 /\
                   In b (r_main r0 :: r_additional r0) /\ from_binding ms (mf_desc m) (mf_path m) b cb.

Lemma anno_prov_core ms s s' :
  map mcore (cs_methods s') = map mcore (cs_methods s) -> cs_bindings s' = cs_bindings s -> anno_prov ms s -> anno_prov ms s'.
Proof.
  intros Hc Hb P cb Hin. rewrite Hb in Hin. destruct (P cb Hin) as (m & r0 & b & Hm & E1 & E2 & Hb0 & FB).
  destruct (in_mcore m _ _ (eq_sym Hc) Hm) as (m' & Hm' & Ec). unfold mcore in Ec. injection Ec as ? ? ? ? ?.
  exists m', r0, b. split; [exact Hm'|]. repeat split; congruence.
Qed.

Lemma register_method_prov ms svc o s md s' :
  Inv ms s -> anno_prov ms s -> register_method ms svc o s md = Some s' -> anno_prov ms s'.
Proof.
  intros HI P H. destruct (register_method_inv _ _ _ _ _ _ HI H) as (_ & Hc & _ & added & Hb & Hadd).
  intros cb Hin. rewrite Hb in Hin. apply in_app_iff in Hin as [Hin|Hin].
  - destruct (P cb Hin) as (m & r0 & b & Hm & E1 & E2 & Hb0 & FB).
    assert (Hc0 : In (mcore m) (map mcore (cs_methods s'))) by (rewrite Hc; apply in_app_iff; left; apply in_map; exact Hm).
    apply in_map_iff in Hc0 as (m' & Ec & Hm'). unfold mcore in Ec. injection Ec as ? ? ? ? ?.
    exists m', r0, b. split; [exact Hm'|]. repeat split; congruence.
  - destruct (Hadd cb Hin) as (Ep & r0 & b & Er & Hb0 & FB).
    assert (Hc0 : In (core_of svc o md) (map mcore (cs_methods s'))) by (rewrite Hc; apply in_app_iff; right; left; reflexivity).
    apply in_map_iff in Hc0 as (m' & Ec & Hm'). unfold mcore, core_of in Ec. injection Ec as E1 E2 E3 E4 E5.
    exists m', r0, b. split; [exact Hm'|]. rewrite E1, E4. repeat split; auto.
Qed.

Definition svc_cores (defaults : sopts) (sv : svcreg) :=
  map (core_of (sd_name (sr_desc sv)) (resolve_opts defaults (sr_opts sv))) (sd_methods (sr_desc sv)).

Lemma register_service_inv ms codecs comps defaults s sv s' :
  Inv ms s -> register_service ms codecs comps defaults s sv = Some s' ->
  opts_ok codecs comps (resolve_opts defaults (sr_opts sv)) = true /\
  Inv ms s' /\ map mcore (cs_methods s') = map mcore (cs_methods s) ++ svc_cores defaults sv.
Proof.
  intros HI H. unfold register_service in H.
  destruct (opts_ok codecs comps (resolve_opts defaults (sr_opts sv))) eqn:Ok; [|discriminate].
  split; [reflexivity|]. apply (register_methods_inv _ _ _ _ _ _ HI H).
Qed.

Lemma register_services_inv ms codecs comps defaults : forall svs s s',
  Inv ms s -> ofold (register_service ms codecs comps defaults) s svs = Some s' ->
  Forall (fun sv => opts_ok codecs comps (resolve_opts defaults (sr_opts sv)) = true) svs /\
  Inv ms s' /\ map mcore (cs_methods s') = map mcore (cs_methods s) ++ flat_map (svc_cores defaults) svs.
Proof.
  induction svs as [|sv r IH]; intros s s' HI H; cbn [ofold] in H.
  - injection H as <-. split; [constructor|]. split; [exact HI|]. cbn. rewrite app_nil_r. reflexivity.
  - destruct (register_service ms codecs comps defaults s sv) as [s1|] eqn:RS; [|discriminate].
    destruct (register_service_inv _ _ _ _ _ _ _ HI RS) as (Ok & HI1 & Hc1).
    destruct (IH s1 s' HI1 H) as (Oks & HI' & Hc'). split; [constructor; assumption|]. split; [exact HI'|].
    rewrite Hc', Hc1, <- app_assoc. reflexivity.
Qed.

(** * selectors *)
Lemma selector_exact text name : selector_matches false text name = true <-> text = name.
Proof. unfold selector_matches. apply bytes_eqb_eq. Qed.

Lemma selector_wild text name : selector_matches true text name = true <-> exists rest, name = text ++ rest.
Proof.
  unfold selector_matches. revert name. induction text as [|c t IH]; intros name; cbn [is_prefix].
  - split; [intros _; exists name; reflexivity|reflexivity].
  - destruct name as [|d n]; [split; [discriminate|intros (rest & E); discriminate]|].
    rewrite Bool.andb_true_iff, N.eqb_eq, IH. split.
    + intros (-> & rest & ->). exists rest. reflexivity.
    + intros (rest & E). injection E as -> ->. split; [reflexivity|exists rest; reflexivity].
Qed.

Lemma index_of_spec c : forall s i k, index_of c s i = Some k ->
  exists pre post, s = pre ++ c :: post /\ ~ In c pre /\ k = (i + length pre)%nat.
Proof.
  induction s as [|x r IH]; intros i k H; cbn [index_of] in H; [discriminate|].
  destruct (N.eqb_spec x c) as [->|Ne].
  - injection H as <-. exists [], r. split; [reflexivity|]. split; [intros []|cbn; lia].
  - destruct (IH _ _ H) as (pre & post & -> & Hn & ->). exists (x :: pre), post.
    split; [reflexivity|]. split; [intros [E|Hin]; [congruence|exact (Hn Hin)]|cbn; lia].
Qed.

Lemma index_of_none c : forall s i, index_of c s i = None -> ~ In c s.
Proof.
  induction s as [|x r IH]; intros i H; cbn [index_of] in H; [intros []|].
  destruct (N.eqb_spec x c) as [->|Ne]; [discriminate|]. intros [E|Hin]; [congruence|exact (IH _ H Hin)].
Qed.

(** a well-formed selector is a full name, or a prefix that is empty or ends at a '.', followed by
    one final '*' *)
Lemma parse_selector_spec sel wild text :
  parse_selector sel = Some (wild, text) ->
  sel <> [] /\
  ((wild = false /\ text = sel /\ ~ In 42%N sel) \/
   (wild = true /\ sel = text ++ [42%N] /\ ~ In 42%N text /\ (text = [] \/ ends_with_dot text = true))).
Proof.
  unfold parse_selector. destruct sel as [|c0 r0] eqn:Es; [discriminate|]. rewrite <- Es. intros H.
  split; [rewrite Es; discriminate|].
  destruct (index_of 42 sel 0) as [i|] eqn:Ix.
  - destruct (index_of_spec _ _ _ _ Ix) as (pre & post & E & Hn & ->). cbn [Nat.add] in H.
    destruct (Nat.eqb_spec (length pre) (length sel - 1)) as [El|Nl]; cbn [negb] in H; [|discriminate].
    assert (post = []) as ->.
    { rewrite E, app_length in El. cbn [length] in El. destruct post; [reflexivity|cbn [length] in El; lia]. }
    assert (Ef : firstn (length pre) sel = pre) by (rewrite E, firstn_app, Nat.sub_diag, firstn_all; cbn; apply app_nil_r).
    rewrite Ef in H. destruct (nonempty pre && negb (ends_with_dot pre)) eqn:B; [discriminate|].
    injection H as <- <-. right. split; [reflexivity|]. split; [exact E|]. split; [exact Hn|].
    destruct pre as [|p0 pr]; [left; reflexivity|right]. cbn [nonempty andb] in B.
    destruct (ends_with_dot (p0 :: pr)); [reflexivity|discriminate].
  - injection H as <- <-. left. split; [reflexivity|]. split; [reflexivity|]. eapply index_of_none; eauto.
Qed.

(** * WithRules *)
Lemma add_rules_inv ms r : forall sel s s',
  Inv ms s -> (forall m, In m sel -> has_method s (mf_path m) (mf_desc m)) ->
  ofold (fun st m => add_rule ms st (mf_desc m) (mf_path m) r) s sel = Some s' ->
  Inv ms s' /\ map mcore (cs_methods s') = map mcore (cs_methods s) /\
  exists added, cs_bindings s' = cs_bindings s ++ added /\
    (forall cb, In cb added -> exists m b, In m sel /\ In b (r_main r :: r_additional r) /\
                 cb_method_path cb = mf_path m /\ from_binding ms (mf_desc m) (mf_path m) b cb) /\
    (forall m, In m sel -> exists cb, In cb added /\ from_binding ms (mf_desc m) (mf_path m) (r_main r) cb /\
                 cb_method_path cb = mf_path m) /\
    (sel <> [] -> Forall (fun b => b_nested b = false) (r_additional r)).
Proof.
  induction sel as [|m rest IH]; intros s s' HI HM H; cbn [ofold] in H.
  - injection H as <-. split; [exact HI|]. split; [reflexivity|]. exists []. rewrite app_nil_r.
    split; [reflexivity|]. split; [intros ? []|]. split; [intros ? []|]. intros N. exfalso. apply N. reflexivity.
  - destruct (add_rule ms s (mf_desc m) (mf_path m) r) as [s1|] eqn:AR; [|discriminate].
    destruct (add_rule_inv _ _ _ _ _ _ HI AR (HM m (or_introl eq_refl))) as (HI1 & Hc1 & cb & cbs & Hb1 & FBs & Nn & _ & _).
    assert (HM1 : forall m', In m' rest -> has_method s1 (mf_path m') (mf_desc m')).
    { intros m' Hin. eapply has_method_core; [exact Hc1|]. apply HM. right. exact Hin. }
    destruct (IH s1 s' HI1 HM1 H) as (HI' & Hc' & added & Hb' & Hsrc & Hall & _).
    split; [exact HI'|]. split; [congruence|]. exists ((cb :: cbs) ++ added).
    split; [rewrite Hb', Hb1, <- app_assoc; reflexivity|]. split; [|split; [|intros _; exact Nn]].
    + intros cb' Hin. apply in_app_iff in Hin as [Hin|Hin].
      * destruct (Forall2_in_r _ _ _ FBs cb' Hin) as (b & Hb & FB & Ep).
        exists m, b. split; [left; reflexivity|]. split; [exact Hb|]. split; [exact Ep|exact FB].
      * destruct (Hsrc cb' Hin) as (m' & b & Hm' & ?). exists m', b. split; [right; exact Hm'|assumption].
    + intros m' [<-|Hin].
      * inversion FBs as [|? ? ? ? (FB & Ep) _]; subst. exists cb. split; [left; reflexivity|]. split; assumption.
      * destruct (Hall m' Hin) as (cb' & Hin' & ?). exists cb'. split; [apply in_app_iff; right; exact Hin'|assumption].
Qed.

Definition selected (r : rule) (wild : bool) (text : bytes) (l : list mfinal) : list mfinal :=
  filter (fun m => selector_matches wild text (mf_full m)) l.

Lemma apply_rule_inv ms s r s' :
  Inv ms s -> apply_rule ms s r = Some s' ->
  Inv ms s' /\ map mcore (cs_methods s') = map mcore (cs_methods s) /\
  exists wild text added,
    parse_selector (r_selector r) = Some (wild, text) /\
    selected r wild text (cs_methods s) <> [] /\
    Forall (fun b => b_nested b = false) (r_additional r) /\
    cs_bindings s' = cs_bindings s ++ added /\
    (forall cb, In cb added -> exists m b, In m (selected r wild text (cs_methods s)) /\ In b (r_main r :: r_additional r) /\
                 cb_method_path cb = mf_path m /\ from_binding ms (mf_desc m) (mf_path m) b cb) /\
    (forall m, In m (selected r wild text (cs_methods s)) ->
       exists cb, In cb added /\ from_binding ms (mf_desc m) (mf_path m) (r_main r) cb /\ cb_method_path cb = mf_path m).
Proof.
  intros HI H. unfold apply_rule in H.
  destruct (parse_selector (r_selector r)) as [[wild text]|] eqn:PS; [|discriminate].
  fold (selected r wild text (cs_methods s)) in H.
  destruct (selected r wild text (cs_methods s)) as [|m0 rest] eqn:Sel; [discriminate|]. rewrite <- Sel in *.
  assert (HM : forall m, In m (selected r wild text (cs_methods s)) -> has_method s (mf_path m) (mf_desc m)).
  { intros m Hin. unfold selected in Hin. apply filter_In in Hin as (Hin & _). exists m. repeat split; auto. }
  destruct (add_rules_inv _ _ _ _ _ HI HM H) as (HI' & Hc' & added & Hb' & Hsrc & Hall & Nn).
  split; [exact HI'|]. split; [exact Hc'|]. exists wild, text, added.
  split; [reflexivity|]. split; [rewrite Sel; discriminate|]. split; [apply Nn; rewrite Sel; discriminate|].
  split; [exact Hb'|]. split; assumption.
Qed.

Lemma register_methods_prov ms svc o : forall mds s s',
  Inv ms s -> anno_prov ms s -> ofold (register_method ms svc o) s mds = Some s' -> anno_prov ms s'.
Proof.
  induction mds as [|md r IH]; intros s s' HI P H; cbn [ofold] in H.
  - injection H as <-. exact P.
  - destruct (register_method ms svc o s md) as [s1|] eqn:RM; [|discriminate].
    destruct (register_method_inv _ _ _ _ _ _ HI RM) as (HI1 & _).
    eapply IH; [exact HI1| |exact H]. eapply (register_method_prov ms svc o s md s1); eauto.
Qed.

Lemma register_services_prov ms codecs comps defaults : forall svs s s',
  Inv ms s -> anno_prov ms s -> ofold (register_service ms codecs comps defaults) s svs = Some s' -> anno_prov ms s'.
Proof.
  induction svs as [|sv r IH]; intros s s' HI P H; cbn [ofold] in H.
  - injection H as <-. exact P.
  - destruct (register_service ms codecs comps defaults s sv) as [s1|] eqn:RS; [|discriminate].
    destruct (register_service_inv _ _ _ _ _ _ _ HI RS) as (_ & HI1 & _).
    eapply IH; [exact HI1| |exact H]. unfold register_service in RS.
    destruct (opts_ok codecs comps (resolve_opts defaults (sr_opts sv))); [|discriminate].
    eapply (register_methods_prov ms _ _ _ s s1); eauto.
Qed.

(** where an entry of the finished table comes from: an annotation of its method, or a rule whose
    selector names the method *)
Definition provenance (ms : list msgdesc) (rules : list rule) (s : cst) : Prop :=
  forall cb, In cb (cs_bindings s) ->
    exists m b, In m (cs_methods s) /\ mf_path m = cb_method_path cb /\ from_binding ms (mf_desc m) (mf_path m) b cb /\
      ((exists r0, md_rule (mf_desc m) = Some r0 /\ In b (r_main r0 :: r_additional r0)) \/
       (exists r wild text, In r rules /\ parse_selector (r_selector r) = Some (wild, text) /\
                            selector_matches wild text (mf_full m) = true /\ In b (r_main r :: r_additional r))).

Lemma provenance_of_anno ms rules s : anno_prov ms s -> provenance ms rules s.
Proof.
  intros P cb Hin. destruct (P cb Hin) as (m & r0 & b & Hm & E1 & E2 & Hb & FB).
  exists m, b. repeat split; auto. left. exists r0. auto.
Qed.

Lemma provenance_mono ms rules r s : provenance ms rules s -> provenance ms (rules ++ [r]) s.
Proof.
  intros P cb Hin. destruct (P cb Hin) as (m & b & Hm & E & FB & [A|(r1 & w & t & Hr & ?)]).
  - exists m, b. repeat split; auto.
  - exists m, b. repeat split; auto. right. exists r1, w, t. split; [apply in_app_iff; left; exact Hr|assumption].
Qed.

Lemma apply_rule_prov ms rules s r s' :
  Inv ms s -> provenance ms rules s -> apply_rule ms s r = Some s' -> provenance ms (rules ++ [r]) s'.
Proof.
  intros HI P H. destruct (apply_rule_inv _ _ _ _ HI H) as (_ & Hc & wild & text & added & PS & _ & _ & Hb & Hsrc & _).
  intros cb Hin. rewrite Hb in Hin. apply in_app_iff in Hin as [Hin|Hin].
  - destruct (provenance_mono _ _ r _ P cb Hin) as (m & b & Hm & E & FB & Src).
    destruct (in_mcore m _ _ (eq_sym Hc) Hm) as (m' & Hm' & Ec). unfold mcore in Ec. injection Ec as E1 E2 E3 E4 E5.
    exists m', b. split; [exact Hm'|]. rewrite E1, E2, E4. repeat split; auto.
  - destruct (Hsrc cb Hin) as (m & b & Hsel & Hb0 & Ep & FB). unfold selected in Hsel. apply filter_In in Hsel as (Hm & Hmatch).
    destruct (in_mcore m _ _ (eq_sym Hc) Hm) as (m' & Hm' & Ec). unfold mcore in Ec. injection Ec as E1 E2 E3 E4 E5.
    exists m', b. split; [exact Hm'|]. rewrite E1, E2, E4. split; [symmetry; exact Ep|]. split; [exact FB|].
    right. exists r, wild, text. split; [apply in_app_iff; right; left; reflexivity|]. auto.
Qed.

(** each rule, once applied: its selector is well formed, names at least one registered method,
    and every method it names has an entry made from the rule's main pattern *)
Definition rule_applied (ms : list msgdesc) (s : cst) (r : rule) : Prop :=
  exists wild text,
    parse_selector (r_selector r) = Some (wild, text) /\
    (exists m, In m (cs_methods s) /\ selector_matches wild text (mf_full m) = true) /\
    Forall (fun b => b_nested b = false) (r_additional r) /\
    forall m, In m (cs_methods s) -> selector_matches wild text (mf_full m) = true ->
      exists cb, In cb (cs_bindings s) /\ from_binding ms (mf_desc m) (mf_path m) (r_main r) cb /\ cb_method_path cb = mf_path m.

Lemma rule_applied_later ms s s' r :
  map mcore (cs_methods s') = map mcore (cs_methods s) -> (exists more, cs_bindings s' = cs_bindings s ++ more) ->
  rule_applied ms s r -> rule_applied ms s' r.
Proof.
  intros Hc (more & Hb) (wild & text & PS & (m0 & Hm0 & Hmatch0) & Nn & Hall). exists wild, text.
  split; [exact PS|]. split; [|split; [exact Nn|]].
  - destruct (in_mcore m0 _ _ (eq_sym Hc) Hm0) as (m' & Hm' & Ec). unfold mcore in Ec. injection Ec as E1 E2 E3 E4 E5.
    exists m'. split; [exact Hm'|]. rewrite E2. exact Hmatch0.
  - intros m Hm Hmatch. destruct (in_mcore m _ _ Hc Hm) as (m1 & Hm1 & Ec). unfold mcore in Ec. injection Ec as E1 E2 E3 E4 E5.
    rewrite <- E2 in Hmatch. destruct (Hall m1 Hm1 Hmatch) as (cb & Hin & FB & Ep).
    exists cb. split; [rewrite Hb; apply in_app_iff; left; exact Hin|]. rewrite <- E1, <- E4. split; assumption.
Qed.

Lemma apply_rules_inv ms : forall rules done s s',
  Inv ms s -> provenance ms done s -> Forall (rule_applied ms s) done ->
  ofold (apply_rule ms) s rules = Some s' ->
  Inv ms s' /\ map mcore (cs_methods s') = map mcore (cs_methods s) /\
  provenance ms (done ++ rules) s' /\ Forall (rule_applied ms s') (done ++ rules).
Proof.
  induction rules as [|r rest IH]; intros done s s' HI P F H; cbn [ofold] in H.
  - injection H as <-. rewrite app_nil_r. auto.
  - destruct (apply_rule ms s r) as [s1|] eqn:AR; [|discriminate].
    destruct (apply_rule_inv _ _ _ _ HI AR) as (HI1 & Hc1 & wild & text & added & PS & Hne & Nn & Hb1 & Hsrc & Hall).
    assert (P1 : provenance ms (done ++ [r]) s1) by (exact (apply_rule_prov ms done s r s1 HI P AR)).
    assert (F1 : Forall (rule_applied ms s1) (done ++ [r])).
    { apply Forall_app. split.
      - eapply Forall_impl; [|exact F]. intros r0. apply rule_applied_later; [exact Hc1|exists added; exact Hb1].
      - constructor; [|constructor]. exists wild, text. split; [exact PS|]. split; [|split; [exact Nn|]].
        + destruct (selected r wild text (cs_methods s)) as [|m0 l0] eqn:Sel; [exfalso; apply Hne; reflexivity|].
          assert (Hin0 : In m0 (selected r wild text (cs_methods s))) by (rewrite Sel; left; reflexivity).
          unfold selected in Hin0. apply filter_In in Hin0 as (Hm0 & Hmatch0).
          destruct (in_mcore m0 _ _ (eq_sym Hc1) Hm0) as (m' & Hm' & Ec). unfold mcore in Ec. injection Ec as E1 E2 E3 E4 E5.
          exists m'. split; [exact Hm'|]. rewrite E2. exact Hmatch0.
        + intros m Hm Hmatch. destruct (in_mcore m _ _ Hc1 Hm) as (m1 & Hm1 & Ec). unfold mcore in Ec. injection Ec as E1 E2 E3 E4 E5.
          assert (Hsel : In m1 (selected r wild text (cs_methods s))).
          { unfold selected. apply filter_In. split; [exact Hm1|]. rewrite E2. exact Hmatch. }
          destruct (Hall m1 Hsel) as (cb & Hin & FB & Ep). exists cb.
          split; [rewrite Hb1; apply in_app_iff; right; exact Hin|]. rewrite <- E1, <- E4. split; assumption. }
    destruct (IH (done ++ [r]) s1 s' HI1 P1 F1 H) as (HI' & Hc' & P' & F').
    split; [exact HI'|]. split; [congruence|]. rewrite <- app_assoc in P', F'. split; assumption.
Qed.

(** * the finished table *)
Theorem new_transcoder_sound ms c s :
  new_transcoder ms c = Some s ->
  let codecs := builtin_codecs ++ t_codecs c in
  let comps := builtin_compressors ++ t_comps c in
  let defaults := resolve_opts builtin_sopts (t_defaults c) in
  Forall (fun sv => opts_ok codecs comps (resolve_opts defaults (sr_opts sv)) = true) (t_services c) /\
  Inv ms s /\
  map mcore (cs_methods s) = flat_map (svc_cores defaults) (t_services c) /\
  provenance ms (t_rules c) s /\
  Forall (rule_applied ms s) (t_rules c) /\
  Forall (fun sv => rest_only_ok s sv defaults = true) (t_services c).
Proof.
  unfold new_transcoder. intros H. cbv zeta.
  set (codecs := builtin_codecs ++ t_codecs c) in *. set (comps := builtin_compressors ++ t_comps c) in *.
  set (defaults := resolve_opts builtin_sopts (t_defaults c)) in *.
  destruct (ofold (register_service ms codecs comps defaults) (mkCst [] [] []) (t_services c)) as [s1|] eqn:RS; [|discriminate].
  destruct (ofold (apply_rule ms) s1 (t_rules c)) as [s2|] eqn:AR; [|discriminate].
  destruct (forallb (fun sv => rest_only_ok s2 sv defaults) (t_services c)) eqn:RO; [|discriminate].
  injection H as <-.
  destruct (register_services_inv _ _ _ _ _ _ _ (Inv_empty ms) RS) as (Oks & HI1 & Hc1). cbn [cs_methods map app] in Hc1.
  assert (P1 : anno_prov ms s1).
  { eapply (register_services_prov ms codecs comps defaults (t_services c) (mkCst [] [] [])); eauto.
    - apply Inv_empty.
    - intros cb []. }
  destruct (apply_rules_inv ms (t_rules c) [] s1 s2 HI1 (provenance_of_anno _ _ _ P1) (Forall_nil _) AR) as (HI2 & Hc2 & P2 & F2).
  cbn [app] in P2, F2.
  split; [exact Oks|]. split; [exact HI2|]. split; [congruence|]. split; [exact P2|]. split; [exact F2|].
  apply Forall_forall. intros sv Hin. exact (proj1 (forallb_forall _ _) RO sv Hin).
Qed.

(** * every inserted route has its entry *)
Lemma build_from_inserted rs : forall items idx,
  key_unique items ->
  snd (build_from items idx rs) = repeat true (length rs) ->
  forall k r, nth_error rs k = Some r ->
    exists it, In it (fst (build_from items idx rs)) /\ it_idx it = (idx + k)%nat /\ it_tmpl it = r_path r /\
               it_rem it = r_path r /\ it_verb it = r_verb r /\ it_meth it = r_meth r.
Proof.
  induction rs as [|r0 rest IH]; intros items idx U H k r Hn; [destruct k; discriminate|].
  cbn [build_from] in *. destruct (insert items idx r0) as [items' ok] eqn:Hi.
  destruct (build_from items' (S idx) rest) as [final oks] eqn:B. cbn [snd fst length repeat] in *.
  injection H as Hok Hoks. subst ok.
  unfold insert in Hi. destruct (existsb (same_key (r_path r0) (r_verb r0) (r_meth r0)) items) eqn:Ex; [discriminate|].
  injection Hi as <-.
  assert (U' : key_unique (items ++ [mkItem idx (r_path r0) (r_path r0) (r_verb r0) (r_meth r0)])).
  { intros a b Ha Hb E1 E2 E3. apply in_app_iff in Ha, Hb.
    destruct Ha as [Ha|[<-|[]]], Hb as [Hb|[<-|[]]]; auto.
    - exfalso. apply (existsb_same_key_false _ _ _ _ Ex a Ha). simpl in *. tauto.
    - exfalso. apply (existsb_same_key_false _ _ _ _ Ex b Hb). simpl in *. intuition congruence. }
  destruct k as [|k].
  - injection Hn as <-. exists (mkItem idx (r_path r0) (r_path r0) (r_verb r0) (r_meth r0)).
    split; [|cbn; rewrite Nat.add_0_r; repeat split; reflexivity].
    pose proof (build_from_spec rest _ (S idx) U') as Sp. rewrite B in Sp. cbn [fst] in Sp.
    destruct Sp as (_ & Sub & _). apply Sub. apply in_app_iff. right. left. reflexivity.
  - specialize (IH _ (S idx) U'). rewrite B in IH. cbn [snd fst] in IH.
    destruct (IH Hoks k r Hn) as (it & Hin & Hidx & ?). exists it. split; [exact Hin|]. split; [lia|assumption].
Qed.

Lemma pick_method_some m l it : In it l -> it_meth it = m -> exists x, pick_method m l = Some x.
Proof.
  intros Hin E. destruct (pick_method m l) eqn:P; [eauto|].
  exfalso. exact (proj1 (pick_method_none m l) P it Hin E).
Qed.

(** A request whose path matches the template of an accepted binding, and no other accepted
    template with that verb, is routed to that binding when sent with the binding's HTTP method. *)
Theorem binding_reachable ms s i cb path :
  Inv ms s -> nth_error (cs_bindings s) i = Some cb ->
  tmatch (r_path (cb_route cb)) path = true ->
  (forall cb', In cb' (cs_bindings s) -> tmatch (r_path (cb_route cb')) path = true ->
               r_verb (cb_route cb') = r_verb (cb_route cb) -> r_path (cb_route cb') = r_path (cb_route cb)) ->
  exists it, get_target (r_meth (cb_route cb)) (Router.find (cs_items s) path (r_verb (cb_route cb))) = Some it /\ it_idx it = i.
Proof.
  intros (Hb & Hw & _) Hn Tm Uniq. set (rs := routes_of s) in *. set (r := cb_route cb) in *.
  assert (Hnr : nth_error rs i = Some r) by (unfold rs, routes_of; rewrite nth_error_map, Hn; reflexivity).
  assert (Eit : cs_items s = items_of rs) by (unfold items_of; rewrite Hb; reflexivity).
  assert (Hfl : snd (build_from [] 0 rs) = repeat true (length rs)).
  { unfold build in Hb. rewrite Hb. cbn [snd]. unfold rs, routes_of. rewrite map_length. reflexivity. }
  destruct (build_from_inserted rs [] 0%nat (fun a b (Ha : In a []) => match Ha with end) Hfl i r Hnr)
    as (it0 & Hin0 & Hidx0 & Ht0 & Hr0 & Hv0 & Hm0).
  cbn [Nat.add] in Hidx0. fold (build rs) in Hin0. fold (items_of rs) in Hin0.
  rewrite Eit.
  (* something is found *)
  destruct (Router.find (items_of rs) path (r_verb r)) as [|a0 l0] eqn:Ef.
  { exfalso. apply (proj1 (route_404 rs path (r_verb r) Hw) Ef it0 Hin0). rewrite Hr0. split; [exact Tm|exact Hv0]. }
  rewrite <- Ef.
  assert (Ha0 : In a0 (Router.find (items_of rs) path (r_verb r))) by (rewrite Ef; left; reflexivity).
  (* what is found belongs to this template *)
  assert (Tmpl : forall a, In a (Router.find (items_of rs) path (r_verb r)) -> it_tmpl a = r_path r).
  { intros a Ha. destruct (find_sound path _ _ _ (items_of_wf rs Hw) Ha) as (ia & Ia & Sa & Tma & Va & _).
    destruct (items_of_spec rs) as (_ & Sp). destruct (Sp ia Ia) as (ra & Hna & Hta & Hra & Hva & _).
    destruct Sa as (_ & Sat & _). rewrite Sat, Hta.
    assert (Hcb : exists cb', In cb' (cs_bindings s) /\ cb_route cb' = ra).
    { apply nth_error_In in Hna. unfold rs, routes_of in Hna. apply in_map_iff in Hna as (cb' & E & Hin'). eauto. }
    destruct Hcb as (cb' & Hin' & <-). apply Uniq; [exact Hin'| |congruence]. rewrite <- Hra. exact Tma. }
  destruct (route_whole_template rs path (r_verb r) a0 it0 Ha0 Hin0) as (it' & Hin' & Se).
  { rewrite Ht0. symmetry. apply Tmpl. exact Ha0. }
  { exact Hv0. }
  destruct Se as (Si & _ & _ & Sm).
  destruct (pick_method_some (r_meth r) _ it' Hin') as (x & Px); [congruence|].
  exists x. unfold get_target. rewrite Px. split; [reflexivity|].
  destruct (pick_method_in _ _ _ Px) as (Hx & Mx).
  assert (x = it') as ->; [|congruence].
  apply (find_meth_unique rs path (r_verb r) Hw); auto. congruence.
Qed.

(** * options: the last option of a kind wins, a service's own before the defaults *)
Fixpoint last_some {A} (f : sopt -> option A) (opts : list sopt) (acc : option A) : option A :=
  match opts with [] => acc | o :: r => last_some f r (match f o with Some a => Some a | None => acc end) end.

Definition get_protocols (o : sopt) := match o with OProtocols l => Some l | _ => None end.
Definition get_codecs (o : sopt) := match o with OCodecs l => Some l | _ => None end.
Definition get_comps (o : sopt) := match o with OCompression l => Some l | _ => None end.
Definition get_maxbuf (o : sopt) := match o with OMaxBuf n => Some n | _ => None end.
Definition get_maxget (o : sopt) := match o with OMaxGet n => Some n | _ => None end.

Definition or_else {A} (x : option A) (d : A) : A := match x with Some a => a | None => d end.

Lemma resolve_opts_lookup opts : forall d,
  let o := resolve_opts d opts in
  so_protocols o = or_else (last_some get_protocols opts None) (so_protocols d) /\
  so_codecs o = or_else (last_some get_codecs opts None) (so_codecs d) /\
  so_preferred o = or_else (option_map (fun l => hd [] l) (last_some get_codecs opts None)) (so_preferred d) /\
  so_comps o = or_else (last_some get_comps opts None) (so_comps d) /\
  so_maxbuf o = or_else (last_some get_maxbuf opts None) (so_maxbuf d) /\
  so_maxget o = or_else (last_some get_maxget opts None) (so_maxget d).
Proof.
  assert (G : forall A (f : sopt -> option A) l acc, last_some f l acc = match last_some f l None with Some a => Some a | None => acc end).
  { intros A f l. induction l as [|x r IH]; intros acc; cbn [last_some]; [reflexivity|].
    rewrite IH. rewrite (IH (match f x with Some a => Some a | None => None end)).
    destruct (last_some f r None); [reflexivity|]. destruct (f x); reflexivity. }
  unfold resolve_opts. induction opts as [|x r IH]; intros d; cbn [fold_left last_some].
  - cbn. repeat split; reflexivity.
  - specialize (IH (apply_opt d x)). cbv zeta in *. destruct IH as (I1 & I2 & I3 & I4 & I5 & I6).
    rewrite I1, I2, I3, I4, I5, I6.
    rewrite (G _ get_protocols r (match get_protocols x with Some a => Some a | None => None end)),
            (G _ get_codecs r (match get_codecs x with Some a => Some a | None => None end)),
            (G _ get_comps r (match get_comps x with Some a => Some a | None => None end)),
            (G _ get_maxbuf r (match get_maxbuf x with Some a => Some a | None => None end)),
            (G _ get_maxget r (match get_maxget x with Some a => Some a | None => None end)).
    destruct x; cbn;
      destruct (last_some get_protocols r None), (last_some get_codecs r None), (last_some get_comps r None),
               (last_some get_maxbuf r None), (last_some get_maxget r None); cbn; repeat split; try reflexivity;
      destruct l; reflexivity.
Qed.

(** * refusals, as contrapositives of soundness *)
Lemma reject_bad_options ms c sv :
  In sv (t_services c) ->
  opts_ok (builtin_codecs ++ t_codecs c) (builtin_compressors ++ t_comps c)
          (resolve_opts (resolve_opts builtin_sopts (t_defaults c)) (sr_opts sv)) = false ->
  new_transcoder ms c = None.
Proof.
  intros Hin Hbad. destruct (new_transcoder ms c) as [s|] eqn:E; [exfalso|reflexivity].
  destruct (new_transcoder_sound ms c s E) as (Oks & _). rewrite Forall_forall in Oks.
  specialize (Oks sv Hin). cbv zeta in Oks. congruence.
Qed.

Lemma forallb_false_intro {A} (f : A -> bool) l x : In x l -> f x = false -> forallb f l = false.
Proof.
  intros Hin Hf. destruct (forallb f l) eqn:E; [|reflexivity].
  rewrite forallb_forall in E. rewrite (E x Hin) in Hf. discriminate.
Qed.

Lemma opts_ok_cases codecs comps o :
  (so_protocols o = [] \/ (exists p, In p (so_protocols o) /\ known_protocol p = false) \/
   so_codecs o = [] \/ (exists n, In n (so_codecs o) /\ bmem n codecs = false) \/
   (exists n, In n (so_comps o) /\ bmem n comps = false)) ->
  opts_ok codecs comps o = false.
Proof.
  unfold opts_ok. intros [E|[(p & Hp & Kp)|[E|[(n & Hn & Kn)|(n & Hn & Kn)]]]].
  - rewrite E. reflexivity.
  - rewrite (forallb_false_intro known_protocol _ p Hp Kp). rewrite Bool.andb_false_r. reflexivity.
  - rewrite E. cbn [nonempty]. rewrite Bool.andb_false_r. reflexivity.
  - rewrite (forallb_false_intro (fun c => bmem c codecs) _ n Hn Kn). repeat rewrite Bool.andb_false_r. reflexivity.
  - rewrite (forallb_false_intro (fun c => bmem c comps) _ n Hn Kn). repeat rewrite Bool.andb_false_r. reflexivity.
Qed.

Definition core_path {A B C D} (core : bytes * A * B * C * D) : bytes := fst (fst (fst (fst core))).
Definition core_full {B C D} (core : bytes * bytes * B * C * D) : bytes := snd (fst (fst (fst core))).

Lemma reject_duplicate_method ms c :
  ~ NoDup (map (fun core => fst (fst (fst (fst core))))
               (flat_map (svc_cores (resolve_opts builtin_sopts (t_defaults c))) (t_services c))) ->
  new_transcoder ms c = None.
Proof.
  intros Hd. destruct (new_transcoder ms c) as [s|] eqn:E; [exfalso|reflexivity].
  destruct (new_transcoder_sound ms c s E) as (_ & (_ & _ & Hn & _) & Hc & _). cbv zeta in Hc.
  apply Hd. rewrite <- Hc, map_map. exact Hn.
Qed.

Lemma reject_bad_rule ms c r :
  In r (t_rules c) ->
  (parse_selector (r_selector r) = None \/
   (forall wild text, parse_selector (r_selector r) = Some (wild, text) ->
      forall core, In core (flat_map (svc_cores (resolve_opts builtin_sopts (t_defaults c))) (t_services c)) ->
                   selector_matches wild text (snd (fst (fst (fst core)))) = false) \/
   (exists b, In b (r_additional r) /\ b_nested b = true)) ->
  new_transcoder ms c = None.
Proof.
  intros Hin Hbad. destruct (new_transcoder ms c) as [s|] eqn:E; [exfalso|reflexivity].
  destruct (new_transcoder_sound ms c s E) as (_ & _ & Hc & _ & F & _). cbv zeta in Hc.
  rewrite Forall_forall in F. destruct (F r Hin) as (wild & text & PS & (m & Hm & Hmatch) & Nn & _).
  destruct Hbad as [N|[Nm|(b & Hb & Nb)]].
  - congruence.
  - assert (Hcore : In (mcore m) (flat_map (svc_cores (resolve_opts builtin_sopts (t_defaults c))) (t_services c))).
    { rewrite <- Hc. apply in_map. exact Hm. }
    specialize (Nm wild text PS (mcore m) Hcore). cbn in Nm. congruence.
  - rewrite Forall_forall in Nn. rewrite (Nn b Hb) in Nb. discriminate.
Qed.

Lemma from_binding_fields ms md mpath b cb :
  from_binding ms md mpath b cb ->
  wf_tmpl (r_path (cb_route cb)) = true /\
  body_fields ms (md_in md) (b_body b) <> None /\ body_fields ms (md_out md) (b_resp b) <> None /\
  (forall v, In v (cb_vars cb) ->
     exists fs f, resolve_path ms (md_in md) v = Some fs /\ last_field fs = Some f /\ var_field_ok f = true).
Proof.
  intros (meth & path & verb & vars & _ & _ & _ & Hp & Hmt). unfold make_target in Hmt.
  destruct (body_fields ms (md_in md) (b_body b)) eqn:B1; [|discriminate].
  destruct (body_fields ms (md_out md) (b_resp b)) eqn:B2; [|discriminate].
  match type of Hmt with (if forallb ?f vars then _ else _) = _ => destruct (forallb f vars) eqn:Fv; [|discriminate] end.
  injection Hmt as <-. cbn [cb_route r_path cb_vars].
  split; [eapply parse_template_wf; exact Hp|]. split; [discriminate|]. split; [discriminate|].
  intros v Hv. apply in_map_iff in Hv as (tv & <- & Htv). rewrite forallb_forall in Fv. specialize (Fv tv Htv). cbn beta in Fv.
  destruct (resolve_path ms (md_in md) (tv_field tv)) as [fs|]; [|discriminate].
  destruct (last_field fs) as [f|] eqn:Lf; [|discriminate]. exists fs, f. repeat split; auto.
Qed.

Lemma rest_only_bound ms c s sv :
  new_transcoder ms c = Some s -> In sv (t_services c) ->
  rest_only (resolve_opts (resolve_opts builtin_sopts (t_defaults c)) (sr_opts sv)) = true ->
  exists m, In m (cs_methods s) /\ mf_svc m = sd_name (sr_desc sv) /\ mf_rule m <> None.
Proof.
  intros H Hin Ro. destruct (new_transcoder_sound ms c s H) as (_ & _ & _ & _ & _ & F). cbv zeta in F.
  rewrite Forall_forall in F. specialize (F sv Hin). unfold rest_only_ok in F. rewrite Ro in F.
  apply existsb_exists in F as (m & Hm & Hb). apply Bool.andb_true_iff in Hb as (E1 & E2). apply bytes_eqb_eq in E1.
  exists m. split; [exact Hm|]. split; [exact E1|]. destruct (mf_rule m); [discriminate|discriminate].
Qed.

(** * acceptance without REST rules *)
Lemma NoDup_move {A} (l r : list A) x : NoDup (l ++ x :: r) -> NoDup ((l ++ [x]) ++ r).
Proof. rewrite <- app_assoc. cbn [app]. auto. Qed.

Lemma register_methods_plain ms svc o : forall mds s,
  Forall (fun md => md_rule md = None) mds ->
  NoDup (map mf_path (cs_methods s) ++ map (fun md => method_path svc (md_name md)) mds) ->
  exists s', ofold (register_method ms svc o) s mds = Some s' /\
             map mf_path (cs_methods s') = map mf_path (cs_methods s) ++ map (fun md => method_path svc (md_name md)) mds /\
             cs_bindings s' = cs_bindings s /\
             (Forall (fun m => mf_rule m = None) (cs_methods s) -> Forall (fun m => mf_rule m = None) (cs_methods s')) /\
             (forall m, In m (cs_methods s') -> In m (cs_methods s) \/ mf_svc m = svc).
Proof.
  induction mds as [|md r IH]; intros s Hn Hd; cbn [ofold map].
  - exists s. split; [reflexivity|]. split; [rewrite app_nil_r; reflexivity|]. split; [reflexivity|]. split; auto.
  - inversion Hn as [|? ? Hmd Hr]; subst.
    unfold register_method at 1.
    assert (Fresh : existsb (fun m => bytes_eqb (mf_path m) (method_path svc (md_name md))) (cs_methods s) = false).
    { destruct (existsb _ (cs_methods s)) eqn:Ex; [|reflexivity]. exfalso.
      apply existsb_exists in Ex as (m & Hm & Eb). apply bytes_eqb_eq in Eb.
      cbn [map] in Hd. apply NoDup_remove_2 in Hd. apply Hd. apply in_app_iff. left. rewrite <- Eb. apply in_map. exact Hm. }
    rewrite Fresh, Hmd.
    set (mnew := mkMf (method_path svc (md_name md)) (method_full svc (md_name md)) svc md o None).
    set (s1 := mkCst (cs_items s) (cs_bindings s) (cs_methods s ++ [mnew])).
    destruct (IH s1 Hr) as (s' & Hs' & Hp' & Hb' & Hk & Hsv).
    { unfold s1. cbn [cs_methods]. rewrite map_app. cbn [map]. apply NoDup_move. exact Hd. }
    exists s'. split; [exact Hs'|]. split; [|split; [exact Hb'|split]].
    + rewrite Hp'. unfold s1. cbn [cs_methods]. rewrite map_app, <- app_assoc. reflexivity.
    + intros Hall. apply Hk. unfold s1. cbn [cs_methods].
      apply Forall_app. split; [exact Hall|]. constructor; [reflexivity|constructor].
    + intros m Hm. destruct (Hsv m Hm) as [Hin|E]; [|right; exact E]. unfold s1 in Hin. cbn [cs_methods] in Hin.
      apply in_app_iff in Hin as [Hin|[<-|[]]]; [left; exact Hin|right; reflexivity].
Qed.

Lemma svc_cores_paths defaults sv :
  map (fun core => fst (fst (fst (fst core)))) (svc_cores defaults sv) =
  map (fun md => method_path (sd_name (sr_desc sv)) (md_name md)) (sd_methods (sr_desc sv)).
Proof. unfold svc_cores. rewrite map_map. reflexivity. Qed.

Lemma NoDup_app_l {A} (l r : list A) : NoDup (l ++ r) -> NoDup l.
Proof.
  induction l as [|x l IH]; intros H; [constructor|]. cbn [app] in H. inversion H as [|? ? Hx Hr]; subst.
  constructor; [intros Hin; apply Hx; apply in_app_iff; left; exact Hin|apply IH; exact Hr].
Qed.

Lemma register_services_plain ms codecs comps defaults : forall svs s,
  Forall (fun sv => Forall (fun md => md_rule md = None) (sd_methods (sr_desc sv))) svs ->
  Forall (fun sv => opts_ok codecs comps (resolve_opts defaults (sr_opts sv)) = true) svs ->
  NoDup (map mf_path (cs_methods s) ++ map (fun core => fst (fst (fst (fst core)))) (flat_map (svc_cores defaults) svs)) ->
  exists s', ofold (register_service ms codecs comps defaults) s svs = Some s' /\
             cs_bindings s' = cs_bindings s /\
             (Forall (fun m => mf_rule m = None) (cs_methods s) -> Forall (fun m => mf_rule m = None) (cs_methods s')).
Proof.
  induction svs as [|sv r IH]; intros s Hn Ho Hd; cbn [ofold].
  - exists s. auto.
  - inversion Hn as [|? ? Hn1 Hnr]; subst. inversion Ho as [|? ? Ho1 Hor]; subst.
    unfold register_service at 1. rewrite Ho1.
    cbn [flat_map] in Hd. rewrite map_app, svc_cores_paths, app_assoc in Hd.
    destruct (register_methods_plain ms (sd_name (sr_desc sv)) (resolve_opts defaults (sr_opts sv)) (sd_methods (sr_desc sv)) s Hn1)
      as (s1 & Hs1 & Hp1 & Hb1 & Hk1 & _).
    { apply NoDup_app_l in Hd. exact Hd. }
    rewrite Hs1. destruct (IH s1 Hnr Hor) as (s' & Hs' & Hb' & Hk').
    { rewrite Hp1. exact Hd. }
    exists s'. split; [exact Hs'|]. split; [congruence|]. auto.
Qed.

Lemma accept_plain ms c :
  t_rules c = [] ->
  Forall (fun sv => Forall (fun md => md_rule md = None) (sd_methods (sr_desc sv))) (t_services c) ->
  Forall (fun sv => opts_ok (builtin_codecs ++ t_codecs c) (builtin_compressors ++ t_comps c)
                            (resolve_opts (resolve_opts builtin_sopts (t_defaults c)) (sr_opts sv)) = true) (t_services c) ->
  Forall (fun sv => rest_only (resolve_opts (resolve_opts builtin_sopts (t_defaults c)) (sr_opts sv)) = false) (t_services c) ->
  NoDup (map (fun core => fst (fst (fst (fst core))))
             (flat_map (svc_cores (resolve_opts builtin_sopts (t_defaults c))) (t_services c))) ->
  new_transcoder ms c <> None.
Proof.
  intros Hr Hn Ho Hro Hd. unfold new_transcoder.
  destruct (register_services_plain ms _ _ _ (t_services c) (mkCst [] [] []) Hn Ho) as (s1 & Hs1 & _ & _).
  { cbn [cs_methods map app]. exact Hd. }
  rewrite Hs1, Hr. cbn [ofold].
  assert (F : forallb (fun sv => rest_only_ok s1 sv (resolve_opts builtin_sopts (t_defaults c))) (t_services c) = true).
  { apply forallb_forall. intros sv Hin. rewrite Forall_forall in Hro. unfold rest_only_ok. rewrite (Hro sv Hin). reflexivity. }
  rewrite F. discriminate.
Qed.
