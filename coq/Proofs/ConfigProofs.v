(** Invariants of the tables NewTranscoder builds (Model/Config.v). *)
From VG Require Import Model.Bytes Model.Router Model.PathTemplate Model.Request Model.Config Gen.Generated.
From VG Require Import Proofs.RouterProofs Proofs.TemplateProofs.
From Coq Require Import Lia.
Open Scope Z_scope.

(** * folds that may fail *)
Lemma ofold_inv {A B} (f : A -> B -> option A) (P : A -> Prop) l :
  (forall a x a', In x l -> P a -> f a x = Some a' -> P a') ->
  forall a a', P a -> ofold f a l = Some a' -> P a'.
Proof.
  induction l as [|x r IH]; intros Hstep a a' Pa H; cbn [ofold] in H.
  - injection H as <-. exact Pa.
  - destruct (f a x) as [a1|] eqn:E; [|discriminate].
    eapply IH; [|eapply Hstep; [left; reflexivity|exact Pa|exact E]|exact H].
    intros; eapply Hstep; eauto. right; assumption.
Qed.

Lemma ofold_all_some {A B} (f : A -> B -> option A) l : forall a a',
  ofold f a l = Some a' -> forall x, In x l -> exists a0 a1, f a0 x = Some a1.
Proof.
  induction l as [|y r IH]; intros a a' H x Hin; [destruct Hin|]. cbn [ofold] in H.
  destruct (f a y) as [a1|] eqn:E; [|discriminate]. destruct Hin as [<-|Hin]; [eauto|eapply IH; eauto].
Qed.

(** * incremental insertion is [build] *)
Lemma build_from_app rs1 : forall items idx rs2,
  build_from items idx (rs1 ++ rs2) =
  let '(it1, ok1) := build_from items idx rs1 in
  let '(it2, ok2) := build_from it1 (idx + length rs1) rs2 in (it2, ok1 ++ ok2).
Proof.
  induction rs1 as [|r rest IH]; intros items idx rs2; cbn [build_from app length].
  - rewrite Nat.add_0_r. destruct (build_from items idx rs2). reflexivity.
  - destruct (insert items idx r) as [items' ok]. rewrite IH.
    destruct (build_from items' (S idx) rest) as [it1 ok1].
    replace (idx + S (length rest))%nat with (S idx + length rest)%nat by lia.
    destruct (build_from it1 (S idx + length rest) rs2). reflexivity.
Qed.

Lemma build_snoc rs r :
  build (rs ++ [r]) =
  let '(it, oks) := build rs in let '(it', b) := insert it (length rs) r in (it', oks ++ [b]).
Proof.
  unfold build. rewrite build_from_app. destruct (build_from [] 0 rs) as [it oks]. cbn [build_from Nat.add].
  destruct (insert it (length rs) r). reflexivity.
Qed.

(** * the invariant *)
Definition routes_of (s : cst) : list route := map cb_route (cs_bindings s).

(** where a table entry comes from: a pattern [b] of a rule, applied to method [md] *)
Definition from_binding (ms : list msgdesc) (md : methdesc) (mpath : bytes) (b : binding) (cb : cbinding) : Prop :=
  exists meth path verb vars,
    http_method_of b = Some meth /\ meth <> [] /\ b_template b <> [] /\
    parse_path_template (b_template b) = POk (path, verb, vars) /\
    make_target ms md mpath meth b path verb vars = Some cb.

Definition Inv (ms : list msgdesc) (s : cst) : Prop :=
  build (routes_of s) = (cs_items s, repeat true (length (cs_bindings s)))
  /\ routes_wf (routes_of s)
  /\ NoDup (map mf_path (cs_methods s))
  /\ (forall m rt, In m (cs_methods s) -> mf_rule m = Some rt ->
        exists cb, In cb (cs_bindings s) /\ cb_route cb = rt /\ cb_method_path cb = mf_path m)
  /\ (forall cb, In cb (cs_bindings s) ->
        exists m b, In m (cs_methods s) /\ mf_path m = cb_method_path cb /\ from_binding ms (mf_desc m) (mf_path m) b cb).

Lemma Inv_empty ms : Inv ms (mkCst [] [] []).
Proof.
  unfold Inv, routes_of. cbn. repeat split; try constructor; intros; try contradiction.
  intros r [].
Qed.

Lemma make_target_route ms md mpath meth b path verb vars cb :
  make_target ms md mpath meth b path verb vars = Some cb ->
  cb_route cb = mkRoute meth path verb (map pvar_of vars) /\ cb_method_path cb = mpath.
Proof.
  unfold make_target. destruct (body_fields ms (md_in md) (b_body b)); [|discriminate].
  destruct (body_fields ms (md_out md) (b_resp b)); [|discriminate].
  destruct (forallb _ vars); [|discriminate]. intros [= <-]. split; reflexivity.
Qed.

Lemma repeat_snoc {A} (x : A) n : repeat x n ++ [x] = repeat x (S n).
Proof. induction n as [|n IH]; cbn; [reflexivity|]. f_equal. exact IH. Qed.

(** addRoute *)
Lemma add_route_inv ms s md mpath b s' rt :
  Inv ms s -> add_route ms s md mpath b = Some (s', rt) ->
  (exists m, In m (cs_methods s) /\ mf_path m = mpath /\ mf_desc m = md) ->
  Inv ms s' /\ cs_methods s' = cs_methods s /\
  exists cb, cs_bindings s' = cs_bindings s ++ [cb] /\ cb_route cb = rt /\ cb_method_path cb = mpath /\ from_binding ms md mpath b cb.
Proof.
  intros (Hb & Hw & Hn & Hr & Hc) H (m0 & Hm0 & Hp0 & Hd0). unfold add_route in H.
  destruct (http_method_of b) as [meth|] eqn:Hm; [|discriminate].
  destruct meth as [|m1 mr] eqn:Emeth; [discriminate|].
  destruct (b_template b) as [|t1 tr] eqn:Et; [discriminate|].
  destruct (parse_path_template (t1 :: tr)) as [[[path verb] vars]| |] eqn:Hp; try discriminate.
  destruct (make_target ms md mpath (m1 :: mr) b path verb vars) as [cb|] eqn:Hmt; [|discriminate].
  destruct (insert (cs_items s) (length (cs_bindings s)) (cb_route cb)) as [items' ok] eqn:Hi.
  destruct ok; [|discriminate]. injection H as <- <-.
  assert (FB : from_binding ms md mpath b cb).
  { exists (m1 :: mr), path, verb, vars. rewrite Et. repeat split; auto; discriminate. }
  split; [|split; [reflexivity|exists cb; cbn; repeat split; auto; apply (make_target_route _ _ _ _ _ _ _ _ _ Hmt)]].
  unfold Inv, routes_of. cbn [cs_items cs_bindings cs_methods]. rewrite map_app. cbn [map].
  split; [|split; [|split; [exact Hn|split]]].
  - rewrite build_snoc. unfold routes_of in Hb. rewrite Hb. rewrite map_length, Hi.
    rewrite app_length. cbn [length]. rewrite Nat.add_1_r. rewrite repeat_snoc. reflexivity.
  - intros r Hin. apply in_app_iff in Hin as [Hin|[<-|[]]]; [apply Hw; exact Hin|].
    destruct (make_target_route _ _ _ _ _ _ _ _ _ Hmt) as (-> & _). cbn.
    eapply parse_template_wf. exact Hp.
  - intros m rt' Hin Hrule. destruct (Hr m rt' Hin Hrule) as (cb' & Hin' & E1 & E2).
    exists cb'. split; [apply in_app_iff; left; exact Hin'|]. auto.
  - intros cb' Hin. apply in_app_iff in Hin as [Hin|[<-|[]]].
    + destruct (Hc cb' Hin) as (m & b' & ?). exists m, b'. assumption.
    + exists m0, b. destruct (make_target_route _ _ _ _ _ _ _ _ _ Hmt) as (_ & ->).
      split; [exact Hm0|]. split; [exact Hp0|]. rewrite Hd0, Hp0. exact FB.
Qed.

(** everything about a method except its current rule *)
Definition mcore (m : mfinal) := (mf_path m, mf_full m, mf_svc m, mf_desc m, mf_opts m).

Lemma set_rule_core p rt l : map mcore (set_rule p rt l) = map mcore l.
Proof.
  unfold set_rule. rewrite map_map. apply map_ext. intros m. destruct (bytes_eqb (mf_path m) p); reflexivity.
Qed.

Lemma mcore_path l l' : map mcore l = map mcore l' -> map mf_path l = map mf_path l'.
Proof.
  intros H. assert (E : forall l0, map mf_path l0 = map (fun c => fst (fst (fst (fst c)))) (map mcore l0)).
  { intros l0. rewrite map_map. reflexivity. }
  rewrite (E l), (E l'), H. reflexivity.
Qed.

Lemma cons_inj {A} (a b : A) l l' : a :: l = b :: l' -> a = b /\ l = l'.
Proof. intros H; injection H; auto. Qed.

Lemma in_mcore m l l' : map mcore l = map mcore l' -> In m l -> exists m', In m' l' /\ mcore m' = mcore m.
Proof.
  revert l'. induction l as [|x r IH]; intros l' H Hin; [destruct Hin|].
  destruct l' as [|y r']; [discriminate|]. cbn [map] in H. apply cons_inj in H as (Hxy & Hr).
  destruct Hin as [<-|Hin]; [exists y; split; [left; reflexivity|symmetry; exact Hxy]|].
  destruct (IH r' Hr Hin) as (m' & ? & ?). exists m'. split; [right|]; assumption.
Qed.

Lemma set_rule_in p rt l m :
  In m (set_rule p rt l) ->
  exists m0, In m0 l /\ mcore m = mcore m0 /\
             ((mf_path m0 <> p /\ mf_rule m = mf_rule m0) \/ (mf_path m0 = p /\ mf_rule m = Some rt)).
Proof.
  unfold set_rule. intros H. apply in_map_iff in H as (m0 & <- & Hin). exists m0. split; [exact Hin|].
  destruct (bytes_eqb (mf_path m0) p) eqn:E.
  - apply bytes_eqb_eq in E. split; [reflexivity|right; split; [exact E|reflexivity]].
  - split; [reflexivity|left; split; [|reflexivity]]. intros Ep. rewrite Ep, bytes_eqb_refl in E. discriminate.
Qed.

Lemma set_rule_hit p rt l m0 :
  In m0 l -> mf_path m0 = p -> exists m, In m (set_rule p rt l) /\ mcore m = mcore m0 /\ mf_rule m = Some rt.
Proof.
  intros Hin E. unfold set_rule.
  exists (mkMf (mf_path m0) (mf_full m0) (mf_svc m0) (mf_desc m0) (mf_opts m0) (Some rt)).
  split; [|split; reflexivity]. apply in_map_iff. exists m0. split; [|exact Hin].
  rewrite E, bytes_eqb_refl. rewrite <- E. reflexivity.
Qed.

Definition has_method (s : cst) (mpath : bytes) (md : methdesc) : Prop :=
  exists m, In m (cs_methods s) /\ mf_path m = mpath /\ mf_desc m = md.

Lemma has_method_core s s' mpath md :
  map mcore (cs_methods s') = map mcore (cs_methods s) -> has_method s mpath md -> has_method s' mpath md.
Proof.
  intros H (m & Hin & E1 & E2). destruct (in_mcore m _ _ (eq_sym H) Hin) as (m' & Hin' & Ec).
  exists m'. split; [exact Hin'|]. unfold mcore in Ec. injection Ec as ? ? ? ? ?. split; congruence.
Qed.

(** the entries a list of patterns contributes, in order *)
Definition from_bindings ms md mpath (bs : list binding) (cbs : list cbinding) : Prop :=
  Forall2 (fun b cb => from_binding ms md mpath b cb /\ cb_method_path cb = mpath) bs cbs.

Lemma add_additional_inv ms md mpath : forall bs s s',
  Inv ms s -> add_additional ms s md mpath bs = Some s' -> has_method s mpath md ->
  Inv ms s' /\ cs_methods s' = cs_methods s /\
  exists cbs, cs_bindings s' = cs_bindings s ++ cbs /\ from_bindings ms md mpath bs cbs /\
              Forall (fun b => b_nested b = false) bs.
Proof.
  induction bs as [|b r IH]; intros s s' HI H HM; cbn [add_additional] in H.
  - injection H as <-. split; [exact HI|]. split; [reflexivity|]. exists []. rewrite app_nil_r.
    split; [reflexivity|]. split; constructor.
  - destruct (b_nested b) eqn:Nb; [discriminate|].
    destruct (add_route ms s md mpath b) as [[s1 rt]|] eqn:AR; [|discriminate].
    destruct (add_route_inv _ _ _ _ _ _ _ HI AR HM) as (HI1 & HM1 & cb & Hb1 & _ & Hp1 & FB).
    assert (HMs : has_method s1 mpath md) by (unfold has_method; rewrite HM1; exact HM).
    destruct (IH s1 s' HI1 H HMs) as (HI' & HM' & cbs & Hb' & FBs & Nn).
    split; [exact HI'|]. split; [congruence|]. exists (cb :: cbs). rewrite Hb', Hb1, <- app_assoc. split; [reflexivity|].
    split; constructor; auto.
Qed.

Lemma Inv_set_rule ms s mpath rt cb :
  Inv ms s -> In cb (cs_bindings s) -> cb_route cb = rt -> cb_method_path cb = mpath ->
  Inv ms (mkCst (cs_items s) (cs_bindings s) (set_rule mpath rt (cs_methods s))).
Proof.
  intros (Hb & Hw & Hn & Hr & Hc) Hin E1 E2. unfold Inv, routes_of. cbn [cs_items cs_bindings cs_methods].
  split; [exact Hb|]. split; [exact Hw|]. split; [|split].
  - rewrite (mcore_path _ _ (set_rule_core mpath rt (cs_methods s))). exact Hn.
  - intros m rt' Hm Hrule. apply set_rule_in in Hm as (m0 & Hin0 & Ec & [(_ & Er)|(Ep & Er)]).
    + rewrite Er in Hrule. destruct (Hr m0 rt' Hin0 Hrule) as (cb' & ? & ? & ?).
      exists cb'. repeat split; auto. unfold mcore in Ec. injection Ec as ? ? ? ? ?. congruence.
    + exists cb. split; [exact Hin|]. rewrite Er in Hrule. injection Hrule as <-. split; [exact E1|].
      unfold mcore in Ec. injection Ec as ? ? ? ? ?. congruence.
  - intros cb' Hin'. destruct (Hc cb' Hin') as (m & b & Hm & Ep & FB).
    destruct (in_mcore m _ _ (eq_sym (set_rule_core mpath rt (cs_methods s))) Hm) as (m' & Hm' & Ec).
    unfold mcore in Ec. injection Ec as ? ? ? ? ?. exists m', b. split; [exact Hm'|]. split; [congruence|]. congruence.
Qed.

(** addRule *)
Lemma add_rule_inv ms s md mpath r s' :
  Inv ms s -> add_rule ms s md mpath r = Some s' -> has_method s mpath md ->
  Inv ms s' /\ map mcore (cs_methods s') = map mcore (cs_methods s) /\
  exists cb cbs, cs_bindings s' = cs_bindings s ++ cb :: cbs /\
                 from_bindings ms md mpath (r_main r :: r_additional r) (cb :: cbs) /\
                 Forall (fun b => b_nested b = false) (r_additional r) /\
                 (forall m, In m (cs_methods s') -> mf_path m = mpath -> mf_rule m = Some (cb_route cb)) /\
                 (forall m, In m (cs_methods s') -> mf_path m <> mpath ->
                    exists m0, In m0 (cs_methods s) /\ mcore m0 = mcore m /\ mf_rule m0 = mf_rule m).
Proof.
  intros HI H HM. unfold add_rule in H.
  destruct (add_route ms s md mpath (r_main r)) as [[s1 rt]|] eqn:AR; [|discriminate].
  destruct (add_route_inv _ _ _ _ _ _ _ HI AR HM) as (HI1 & HM1 & cb & Hb1 & Hrt & Hp1 & FB).
  set (s2 := mkCst (cs_items s1) (cs_bindings s1) (set_rule mpath rt (cs_methods s1))) in *.
  assert (HI2 : Inv ms s2).
  { eapply Inv_set_rule; eauto. rewrite Hb1. apply in_app_iff. right. left. reflexivity. }
  assert (Hcore2 : map mcore (cs_methods s2) = map mcore (cs_methods s)).
  { unfold s2. cbn [cs_methods]. rewrite set_rule_core, HM1. reflexivity. }
  assert (HM2 : has_method s2 mpath md) by (eapply has_method_core; eauto).
  destruct (add_additional_inv _ _ _ _ _ _ HI2 H HM2) as (HI' & HM' & cbs & Hb' & FBs & Nn).
  split; [exact HI'|]. split; [rewrite HM'; exact Hcore2|].
  exists cb, cbs. split; [rewrite Hb'; unfold s2; cbn [cs_bindings]; rewrite Hb1, <- app_assoc; reflexivity|].
  split; [constructor; auto|]. split; [exact Nn|]. rewrite HM'. unfold s2. cbn [cs_methods]. split.
  - intros m Hm Ep. apply set_rule_in in Hm as (m0 & Hin0 & Ec & [(Np & _)|(_ & Er)]).
    + exfalso. apply Np. unfold mcore in Ec. injection Ec as ? ? ? ? ?. congruence.
    + rewrite Er, Hrt. reflexivity.
  - intros m Hm Np. apply set_rule_in in Hm as (m0 & Hin0 & Ec & [(_ & Er)|(Ep0 & _)]).
    + exists m0. rewrite <- HM1. split; [exact Hin0|]. split; congruence.
    + exfalso. apply Np. unfold mcore in Ec. injection Ec as ? ? ? ? ?. congruence.
Qed.

Lemma NoDup_app_snoc {A} (l : list A) x : NoDup l -> ~ In x l -> NoDup (l ++ [x]).
Proof.
  induction l as [|y r IH]; intros Hn Hx; cbn [app]; [constructor; [intros []|constructor]|].
  inversion Hn as [|? ? Hy Hr]; subst. constructor.
  - intros Hin. apply in_app_iff in Hin as [Hin|[<-|[]]]; [exact (Hy Hin)|]. apply Hx. left. reflexivity.
  - apply IH; [exact Hr|]. intros Hin. apply Hx. right. exact Hin.
Qed.

(** registerMethod *)
Definition core_of (svc : bytes) (o : sopts) (md : methdesc) :=
  (method_path svc (md_name md), method_full svc (md_name md), svc, md, o).

Lemma register_method_inv ms svc o s md s' :
  Inv ms s -> register_method ms svc o s md = Some s' ->
  Inv ms s' /\ map mcore (cs_methods s') = map mcore (cs_methods s) ++ [core_of svc o md] /\
  ~ In (method_path svc (md_name md)) (map mf_path (cs_methods s)).
Proof.
  intros HI H. unfold register_method in H.
  set (mpath := method_path svc (md_name md)) in *.
  destruct (existsb (fun m => bytes_eqb (mf_path m) mpath) (cs_methods s)) eqn:Ex; [discriminate|].
  assert (Fresh : ~ In mpath (map mf_path (cs_methods s))).
  { intros Hin. apply in_map_iff in Hin as (m & Em & Hm).
    assert (existsb (fun m => bytes_eqb (mf_path m) mpath) (cs_methods s) = true).
    { apply existsb_exists. exists m. split; [exact Hm|]. rewrite Em. apply bytes_eqb_refl. }
    congruence. }
  set (mnew := mkMf mpath (method_full svc (md_name md)) svc md o None) in *.
  set (s1 := mkCst (cs_items s) (cs_bindings s) (cs_methods s ++ [mnew])) in *.
  assert (HI1 : Inv ms s1).
  { destruct HI as (Hb & Hw & Hn & Hr & Hc). unfold Inv, routes_of, s1. cbn [cs_items cs_bindings cs_methods].
    split; [exact Hb|]. split; [exact Hw|]. split; [|split].
    - rewrite map_app. cbn [map]. apply NoDup_app_snoc; assumption.
    - intros m rt Hm Hrule. apply in_app_iff in Hm as [Hm|[<-|[]]]; [|discriminate].
      apply (Hr m rt Hm Hrule).
    - intros cb Hin. destruct (Hc cb Hin) as (m & b & Hm & ?). exists m, b. split; [apply in_app_iff; left; exact Hm|assumption]. }
  assert (Hcore1 : map mcore (cs_methods s1) = map mcore (cs_methods s) ++ [core_of svc o md]).
  { unfold s1. cbn [cs_methods]. rewrite map_app. reflexivity. }
  destruct (md_rule md) as [r|] eqn:Er.
  - assert (HM1 : has_method s1 mpath md).
    { exists mnew. split; [unfold s1; cbn; apply in_app_iff; right; left; reflexivity|split; reflexivity]. }
    destruct (add_rule_inv _ _ _ _ _ _ HI1 H HM1) as (HI' & Hc' & _).
    split; [exact HI'|]. split; [rewrite Hc'; exact Hcore1|exact Fresh].
  - injection H as <-. split; [exact HI1|]. split; [exact Hcore1|exact Fresh].
Qed.

Lemma register_methods_inv ms svc o : forall mds s s',
  Inv ms s -> ofold (register_method ms svc o) s mds = Some s' ->
  Inv ms s' /\ map mcore (cs_methods s') = map mcore (cs_methods s) ++ map (core_of svc o) mds.
Proof.
  induction mds as [|md r IH]; intros s s' HI H; cbn [ofold] in H.
  - injection H as <-. split; [exact HI|]. cbn. rewrite app_nil_r. reflexivity.
  - destruct (register_method ms svc o s md) as [s1|] eqn:RM; [|discriminate].
    destruct (register_method_inv _ _ _ _ _ _ HI RM) as (HI1 & Hc1 & _).
    destruct (IH s1 s' HI1 H) as (HI' & Hc'). split; [exact HI'|].
    rewrite Hc', Hc1, <- app_assoc. reflexivity.
Qed.

Definition svc_cores (defaults : sopts) (sv : svcreg) :=
  map (core_of (sd_name (sr_desc sv)) (resolve_opts defaults (sr_opts sv))) (sd_methods (sr_desc sv)).

Lemma register_service_inv ms codecs comps defaults s sv s' :
  Inv ms s -> register_service ms codecs comps defaults s sv = Some s' ->
  opts_ok codecs comps (resolve_opts defaults (sr_opts sv)) = true /\
  Inv ms s' /\ map mcore (cs_methods s') = map mcore (cs_methods s) ++ svc_cores defaults sv.
Proof.
  intros HI H. unfold register_service in H.
  destruct (opts_ok codecs comps (resolve_opts defaults (sr_opts sv))) eqn:Ok; [|discriminate].
  split; [reflexivity|]. apply (register_methods_inv _ _ _ _ _ _ HI H).
Qed.

Lemma register_services_inv ms codecs comps defaults : forall svs s s',
  Inv ms s -> ofold (register_service ms codecs comps defaults) s svs = Some s' ->
  Forall (fun sv => opts_ok codecs comps (resolve_opts defaults (sr_opts sv)) = true) svs /\
  Inv ms s' /\ map mcore (cs_methods s') = map mcore (cs_methods s) ++ flat_map (svc_cores defaults) svs.
Proof.
  induction svs as [|sv r IH]; intros s s' HI H; cbn [ofold] in H.
  - injection H as <-. split; [constructor|]. split; [exact HI|]. cbn. rewrite app_nil_r. reflexivity.
  - destruct (register_service ms codecs comps defaults s sv) as [s1|] eqn:RS; [|discriminate].
    destruct (register_service_inv _ _ _ _ _ _ _ HI RS) as (Ok & HI1 & Hc1).
    destruct (IH s1 s' HI1 H) as (Oks & HI' & Hc'). split; [constructor; assumption|]. split; [exact HI'|].
    rewrite Hc', Hc1, <- app_assoc. reflexivity.
Qed.

(** * selectors *)
Lemma selector_exact text name : selector_matches false text name = true <-> text = name.
Proof. unfold selector_matches. apply bytes_eqb_eq. Qed.

Lemma selector_wild text name : selector_matches true text name = true <-> exists rest, name = text ++ rest.
Proof.
  unfold selector_matches. revert name. induction text as [|c t IH]; intros name; cbn [is_prefix].
  - split; [intros _; exists name; reflexivity|reflexivity].
  - destruct name as [|d n]; [split; [discriminate|intros (rest & E); discriminate]|].
    rewrite Bool.andb_true_iff, N.eqb_eq, IH. split.
    + intros (-> & rest & ->). exists rest. reflexivity.
    + intros (rest & E). injection E as -> ->. split; [reflexivity|exists rest; reflexivity].
Qed.

Lemma index_of_spec c : forall s i k, index_of c s i = Some k ->
  exists pre post, s = pre ++ c :: post /\ ~ In c pre /\ k = (i + length pre)%nat.
Proof.
  induction s as [|x r IH]; intros i k H; cbn [index_of] in H; [discriminate|].
  destruct (N.eqb_spec x c) as [->|Ne].
  - injection H as <-. exists [], r. split; [reflexivity|]. split; [intros []|cbn; lia].
  - destruct (IH _ _ H) as (pre & post & -> & Hn & ->). exists (x :: pre), post.
    split; [reflexivity|]. split; [intros [E|Hin]; [congruence|exact (Hn Hin)]|cbn; lia].
Qed.

Lemma index_of_none c : forall s i, index_of c s i = None -> ~ In c s.
Proof.
  induction s as [|x r IH]; intros i H; cbn [index_of] in H; [intros []|].
  destruct (N.eqb_spec x c) as [->|Ne]; [discriminate|]. intros [E|Hin]; [congruence|exact (IH _ H Hin)].
Qed.

(** a well-formed selector is a full name, or a prefix that is empty or ends at a '.', followed by
    one final '*' *)
Lemma parse_selector_spec sel wild text :
  parse_selector sel = Some (wild, text) ->
  sel <> [] /\
  ((wild = false /\ text = sel /\ ~ In 42%N sel) \/
   (wild = true /\ sel = text ++ [42%N] /\ ~ In 42%N text /\ (text = [] \/ ends_with_dot text = true))).
Proof.
  unfold parse_selector. destruct sel as [|c0 r0] eqn:Es; [discriminate|]. rewrite <- Es. intros H.
  split; [rewrite Es; discriminate|].
  destruct (index_of 42 sel 0) as [i|] eqn:Ix.
  - destruct (index_of_spec _ _ _ _ Ix) as (pre & post & E & Hn & ->). cbn [Nat.add] in H.
    destruct (Nat.eqb_spec (length pre) (length sel - 1)) as [El|Nl]; cbn [negb] in H; [|discriminate].
    assert (post = []) as ->.
    { rewrite E, app_length in El. cbn [length] in El. destruct post; [reflexivity|cbn [length] in El; lia]. }
    assert (Ef : firstn (length pre) sel = pre) by (rewrite E, firstn_app, Nat.sub_diag, firstn_all; cbn; apply app_nil_r).
    rewrite Ef in H. destruct (nonempty pre && negb (ends_with_dot pre)) eqn:B; [discriminate|].
    injection H as <- <-. right. split; [reflexivity|]. split; [exact E|]. split; [exact Hn|].
    destruct pre as [|p0 pr]; [left; reflexivity|right]. cbn [nonempty andb] in B.
    destruct (ends_with_dot (p0 :: pr)); [reflexivity|discriminate].
  - injection H as <- <-. left. split; [reflexivity|]. split; [reflexivity|]. eapply index_of_none; eauto.
Qed.
