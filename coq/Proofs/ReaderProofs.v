(** The request-body adapters see the client's body only as a byte string: the way the bytes
    arrive in chunks (and whether the last chunk comes with io.EOF) changes nothing
    (Model/Reader.v). *)
From VG Require Import Model.Bytes Model.Stream Model.Envelope Model.Reader.
From VG Require Import Proofs.StreamProofs.
From Coq Require Import Lia.
Open Scope Z_scope.

Definition up_equiv (u u' : up) : Prop := flat u = flat u' /\ u_term u = u_term u'.

Lemma up_equiv_refl u : up_equiv u u.
Proof. split; reflexivity. Qed.

Definition rmsg_equiv (a b : rmsg) : Prop :=
  match a, b with
  | MsgOk p c u, MsgOk p' c' u' => p = p' /\ c = c' /\ up_equiv u u'
  | MsgErr e u rep, MsgErr e' u' rep' => e = e' /\ rep = rep' /\ up_equiv u u'
  | _, _ => False
  end.

Lemma limit_ok cx : -1 <= limit cx \/ True. Proof. right. exact I. Qed.

(** operation.readRequestMessage *)
Theorem read_request_message_chunking cx u u' :
  up_equiv u u' -> -1 <= limit cx -> -1 <= content_len cx ->
  rmsg_equiv (read_request_message cx u) (read_request_message cx u').
Proof.
  intros (Hf & Ht) Hl Hc. unfold read_request_message.
  destruct (cenv cx) as [c|].
  - destruct (read_full_spec (fuel_of u) 5 u [] ltac:(unfold fuel_of; lia)) as (u1 & E1 & F1 & T1 & _).
    destruct (read_full_spec (fuel_of u') 5 u' [] ltac:(unfold fuel_of; lia)) as (u1' & E1' & F1' & T1' & _).
    rewrite E1, E1'. cbn [app]. rewrite <- Hf, <- Ht.
    assert (Q1 : up_equiv u1 u1') by (split; congruence).
    destruct (5 <=? zlen (flat u)).
    + destruct (decode_env c (ztake 5 (flat u))) as [env|]; [|cbn; auto].
      destruct (e_trailer env); [cbn; auto|].
      destruct (limit cx <? e_len env); [cbn; auto|].
      destruct (copy_n_spec (e_len env) u1) as (u2 & E2 & F2 & T2 & _).
      destruct (copy_n_spec (e_len env) u1') as (u2' & E2' & F2' & T2' & _).
      rewrite E2, E2'. destruct Q1 as (Qf & Qt). rewrite <- Qf, <- Qt.
      assert (Q2 : up_equiv u2 u2') by (split; congruence).
      destruct (e_len env <=? zlen (flat u1)); cbn; auto.
    + unfold short_status. cbn. auto.
  - destruct (negb (content_len cx =? -1) && (limit cx <? content_len cx)); [cbn; split; [reflexivity|split; [reflexivity|split; assumption]]|].
    set (lim := if content_len cx =? -1 then limit cx else content_len cx).
    assert (Hlim : -1 <= lim) by (unfold lim; destruct (content_len cx =? -1); lia).
    destruct (copy_hard_limit_spec lim u Hlim) as (u1 & E1 & T1 & _ & F1).
    destruct (copy_hard_limit_spec lim u' Hlim) as (u1' & E1' & T1' & _ & F1').
    rewrite E1, E1'. rewrite <- Hf, <- Ht.
    assert (Q1 : up_equiv u1 u1') by (split; congruence).
    destruct (lim <? zlen (flat u)); [cbn; auto|].
    unfold end_status. destruct (u_term u); cbn; auto.
    destruct (ztake (lim + 1) (flat u)); cbn; auto.
Qed.

(** * transformingReader *)
Definition tr_equiv (r r' : treader) : Prop :=
  up_equiv (tr_up r) (tr_up r') /\ tr_err r = tr_err r' /\ tr_consumed_first r = tr_consumed_first r' /\
  tr_buf r = tr_buf r' /\ tr_env r = tr_env r' /\ tr_envrem r = tr_envrem r' /\ tr_reports r = tr_reports r'.

Lemma tr_equiv_mk u u' e cf b env er rep : up_equiv u u' -> tr_equiv (mkTR u e cf b env er rep) (mkTR u' e cf b env er rep).
Proof. intros Q. unfold tr_equiv. cbn. auto 10. Qed.

Theorem tr_read_chunking cx o : -1 <= limit cx -> -1 <= content_len cx ->
  forall f r r' k, tr_equiv r r' ->
  fst (tr_read f cx o r k) = fst (tr_read f cx o r' k) /\ tr_equiv (snd (tr_read f cx o r k)) (snd (tr_read f cx o r' k)).
Proof.
  intros Hl Hc. induction f as [|f IH]; intros r r' k Q;
    destruct r as [u e cf b env er rep], r' as [u' e' cf' b' env' er' rep'];
    destruct Q as (Qu & Qe & Qc & Qb & Qv & Qr & Qp); cbn in Qu, Qe, Qc, Qb, Qv, Qr, Qp; subst e' cf' b' env' er' rep'.
  - cbn [tr_read tr_err tr_envrem tr_env tr_buf tr_up tr_consumed_first tr_reports].
    destruct e; [cbn; split; [reflexivity|apply tr_equiv_mk; exact Qu]|].
    destruct (k <? Z.of_nat er); [cbn; split; [reflexivity|apply tr_equiv_mk; exact Qu]|].
    match goal with |- context [let '(d, buf') := ?p in _] => destruct p as [d buf'] end.
    destruct (skipn (length env - er) env ++ d); cbn; (split; [reflexivity|apply tr_equiv_mk; exact Qu]).
  - cbn [tr_read tr_err tr_envrem tr_env tr_buf tr_up tr_consumed_first tr_reports].
    destruct e; [cbn; split; [reflexivity|apply tr_equiv_mk; exact Qu]|].
    destruct (k <? Z.of_nat er); [cbn; split; [reflexivity|apply tr_equiv_mk; exact Qu]|].
    match goal with |- context [let '(d, buf') := ?p in _] => destruct p as [d buf'] end.
    destruct (skipn (length env - er) env ++ d); [|cbn; split; [reflexivity|apply tr_equiv_mk; exact Qu]].
    pose proof (read_request_message_chunking cx u u' Qu Hl Hc) as M.
    destruct (read_request_message cx u) as [p c u1|e1 u1 rep1], (read_request_message cx u') as [p' c' u1'|e1' u1' rep1']; cbn in M; try contradiction.
    + destruct M as (<- & <- & Q1).
      destruct (cf && single_only cx); [cbn; split; [reflexivity|apply tr_equiv_mk; exact Q1]|].
      destruct (tr_prepare cx o p c) as [[[bb ee]|] e2].
      * apply IH. apply tr_equiv_mk. exact Q1.
      * cbn. split; [reflexivity|apply tr_equiv_mk; exact Q1].
    + destruct M as (<- & <- & Q1).
      destruct (negb cf && ecls_eqb e1 EEOF && first_may_be_empty cx).
      * destruct (cf && single_only cx); [cbn; split; [reflexivity|apply tr_equiv_mk; exact Q1]|].
        destruct (tr_prepare cx o [] (client_comp cx)) as [[[bb ee]|] e2].
        -- apply IH. apply tr_equiv_mk. exact Q1.
        -- cbn. split; [reflexivity|apply tr_equiv_mk; exact Q1].
      * cbn. split; [reflexivity|apply tr_equiv_mk; exact Q1].
Qed.

(** every Read the backend makes, for one and the same sequence of buffer sizes *)
Fixpoint tr_drain (fuel : nat) (rfuel : nat) (cx : rctx) (o : oracles) (r : treader) (ks : list Z) : list (bytes * rstat) :=
  match fuel, ks with
  | S f, k :: ks' =>
      let '(res, r') := tr_read rfuel cx o r k in
      match snd res with
      | SOk => res :: tr_drain f rfuel cx o r' ks'
      | _ => [res]
      end
  | _, _ => []
  end.

Theorem tr_drain_chunking cx o rfuel : -1 <= limit cx -> -1 <= content_len cx ->
  forall fuel ks r r', tr_equiv r r' -> tr_drain fuel rfuel cx o r ks = tr_drain fuel rfuel cx o r' ks.
Proof.
  intros Hl Hc. induction fuel as [|f IH]; intros ks r r' Q; [reflexivity|]. destruct ks as [|k ks']; [reflexivity|].
  cbn [tr_drain]. destruct (tr_read_chunking cx o Hl Hc rfuel r r' k Q) as (E & Q').
  destruct (tr_read rfuel cx o r k) as [res r1], (tr_read rfuel cx o r' k) as [res' r1']. cbn in E, Q'. subst res'.
  destruct (snd res); [f_equal; apply IH; exact Q'|reflexivity].
Qed.

(** * what readRequestMessage returns, in terms of the bytes of the body *)
Definition cut_status (term : ecls) : ecls := match term with EEOF => EUnexpectedEOF | e => e end.

Theorem read_enveloped_spec cx c u :
  cenv cx = Some c ->
  let fl := flat u in
  match read_request_message cx u with
  | MsgOk p comp u2 =>
      5 <= zlen fl /\
      exists env, decode_env c (ztake 5 fl) = Some env /\ e_trailer env = false /\ e_len env <= limit cx /\
                  e_len env <= zlen (zdrop 5 fl) /\ p = ztake (e_len env) (zdrop 5 fl) /\ comp = e_compressed env /\
                  flat u2 = zdrop (e_len env) (zdrop 5 fl) /\ u_term u2 = u_term u
  | MsgErr e u2 rep =>
      (zlen fl < 5 /\ rep = [] /\
         e = match u_term u with EEOF => match fl with [] => EEOF | _ => EUnexpectedEOF end | t => t end) \/
      (5 <= zlen fl /\ decode_env c (ztake 5 fl) = None /\ e = EInvalidArgument /\ rep = [EInvalidArgument]) \/
      (5 <= zlen fl /\ exists env, decode_env c (ztake 5 fl) = Some env /\
         ((e_trailer env = true /\ e = EInvalidArgument /\ rep = [EInvalidArgument]) \/
          (e_trailer env = false /\ limit cx < e_len env /\ e = EResourceExhausted /\ rep = [EResourceExhausted]) \/
          (e_trailer env = false /\ e_len env <= limit cx /\ zlen (zdrop 5 fl) < e_len env /\ e = cut_status (u_term u) /\ rep = [])))
  end.
Proof.
  intros Ec. cbv zeta. unfold read_request_message. rewrite Ec.
  destruct (read_full_spec (fuel_of u) 5 u [] ltac:(unfold fuel_of; lia)) as (u1 & E1 & F1 & T1 & _).
  rewrite E1. cbn [app].
  destruct (Z.leb_spec 5 (zlen (flat u))) as [H5|H5].
  - destruct (decode_env c (ztake 5 (flat u))) as [env|] eqn:De; [|right; left; auto].
    destruct (e_trailer env) eqn:Tr; [right; right; split; [exact H5|]; exists env; split; [reflexivity|]; left; auto|].
    destruct (Z.ltb_spec (limit cx) (e_len env)) as [Hlim|Hlim];
      [right; right; split; [exact H5|]; exists env; split; [reflexivity|]; right; left; auto|].
    destruct (copy_n_spec (e_len env) u1) as (u2 & E2 & F2 & T2 & _). rewrite E2. rewrite F1.
    destruct (Z.leb_spec (e_len env) (zlen (zdrop 5 (flat u)))) as [Hp|Hp].
    + split; [exact H5|]. exists env. repeat split; auto; congruence.
    + right; right. split; [exact H5|]. exists env. split; [reflexivity|]. right; right.
      split; [exact Tr|]. split; [exact Hlim|]. split; [exact Hp|]. split; [|reflexivity]. unfold cut_status. rewrite T1. destruct (u_term u); reflexivity.
  - left. split; [exact H5|]. split; [reflexivity|]. unfold short_status. cbn [app]. destruct (u_term u); reflexivity.
Qed.

(** a request body that stops inside an envelope or inside a message is never a message *)
Corollary cut_inside_envelope cx c u :
  cenv cx = Some c -> 0 < zlen (flat u) < 5 -> u_term u = EEOF ->
  exists u2, read_request_message cx u = MsgErr EUnexpectedEOF u2 [].
Proof.
  intros Ec Hl Ht. pose proof (read_enveloped_spec cx c u Ec) as S. cbv zeta in S.
  destruct (read_request_message cx u) as [p comp u2|e u2 rep].
  - destruct S as (H5 & _). lia.
  - destruct S as [(_ & -> & ->)|[(H5 & _)|(H5 & _)]]; try lia. exists u2. rewrite Ht.
    destruct (flat u) eqn:E; [cbn in Hl; lia|reflexivity].
Qed.

Corollary cut_inside_message cx c u env :
  cenv cx = Some c -> 5 <= zlen (flat u) -> decode_env c (ztake 5 (flat u)) = Some env ->
  e_trailer env = false -> e_len env <= limit cx -> zlen (zdrop 5 (flat u)) < e_len env -> u_term u = EEOF ->
  exists u2, read_request_message cx u = MsgErr EUnexpectedEOF u2 [].
Proof.
  intros Ec H5 De Tr Hlim Hcut Ht. pose proof (read_enveloped_spec cx c u Ec) as S. cbv zeta in S.
  destruct (read_request_message cx u) as [p comp u2|e u2 rep].
  - destruct S as (_ & env' & De' & _ & _ & Hfit & _). rewrite De in De'. injection De' as <-. lia.
  - destruct S as [(H & _)|[(_ & Dn & _)|(_ & env' & De' & S)]]; [lia|congruence|].
    rewrite De in De'. injection De' as <-.
    destruct S as [(T & _)|[(_ & L & _)|(_ & _ & _ & -> & ->)]]; [congruence|lia|].
    exists u2. rewrite Ht. reflexivity.
Qed.

(** a message handed on is complete: exactly the announced number of bytes *)
Corollary message_is_complete cx c u p comp u2 :
  cenv cx = Some c -> read_request_message cx u = MsgOk p comp u2 ->
  exists env, decode_env c (ztake 5 (flat u)) = Some env /\ zlen p = e_len env /\ 0 <= e_len env.
Proof.
  intros Ec E. pose proof (read_enveloped_spec cx c u Ec) as S. cbv zeta in S. rewrite E in S.
  destruct S as (_ & env & De & _ & _ & Hfit & -> & _). exists env. split; [exact De|].
  assert (Hn : 0 <= e_len env).
  { unfold decode_env in De. destruct (ztake 5 (flat u)) as [|f [|b1 [|b2 [|b3 [|b4 [|]]]]]]; try discriminate.
    destruct (flags_bad c (Z.of_N f)); [discriminate|]. injection De as <-. cbn. unfold be32. lia. }
  split; [|exact Hn]. rewrite zlen_ztake. lia.
Qed.

(** an error of readRequestMessage reaches the backend as that error, never as a clean end of
    the body - except an absent first message where the protocol allows an empty one *)
Lemma tr_read_error_surfaces f cx o r k e u rep :
  tr_err r = None -> tr_envrem r = 0%nat -> (tr_buf r = None \/ tr_buf r = Some []) -> 0 < k ->
  read_request_message cx (tr_up r) = MsgErr e u rep ->
  (negb (tr_consumed_first r) && ecls_eqb e EEOF && first_may_be_empty cx = false) ->
  fst (tr_read (S f) cx o r k) = ([], SErr e).
Proof.
  intros He Hr Hb Hk Hm Hx. cbn [tr_read]. rewrite He, Hr. cbn [Z.of_nat].
  destruct (Z.ltb_spec k 0); [lia|]. rewrite Nat.sub_0_r, skipn_all. cbn [app].
  assert (Ed : exists b', (match tr_buf r with
          | Some b => if 0 <? k then (ztake (k - 0) b, Some (zdrop (k - 0) b)) else ([], Some b)
          | None => ([], None) end) = ([], b')).
  { destruct Hb as [->| ->]; [eexists; reflexivity|]. destruct (0 <? k); [|eexists; reflexivity].
    exists (Some (zdrop (k - 0) [])). rewrite (ztake_all (k - 0) (@nil N)) by (cbn; lia). reflexivity. }
  destruct Ed as (b' & ->). rewrite Hm, Hx. reflexivity.
Qed.

(** * bounds (C10) *)
Theorem request_message_bounded cx u p comp u2 :
  -1 <= limit cx -> read_request_message cx u = MsgOk p comp u2 -> zlen p <= Z.max 0 (limit cx).
Proof.
  intros Hl E. destruct (cenv cx) as [c|] eqn:Ec.
  - pose proof (read_enveloped_spec cx c u Ec) as S. cbv zeta in S. rewrite E in S.
    destruct S as (_ & env & _ & _ & Hlim & _ & -> & _). rewrite zlen_ztake. lia.
  - unfold read_request_message in E. rewrite Ec in E.
    destruct (negb (content_len cx =? -1) && (limit cx <? content_len cx)) eqn:G; [discriminate|].
    set (lim := if content_len cx =? -1 then limit cx else content_len cx) in *.
    assert (Hlim : lim <= limit cx).
    { unfold lim. destruct (Z.eqb_spec (content_len cx) (-1)); [lia|]. cbn [negb andb] in G. destruct (Z.ltb_spec (limit cx) (content_len cx)); [discriminate|lia]. }
    destruct (Z.le_gt_cases (-1) lim) as [Hm|Hm].
    + destruct (copy_hard_limit_spec lim u Hm) as (u1 & E1 & _). rewrite E1 in E.
      destruct (Z.ltb_spec lim (zlen (flat u))) as [Hx|Hx]; [discriminate|].
      destruct (end_status (u_term u)); [|destruct e; discriminate].
      destruct (ztake (lim + 1) (flat u)) eqn:Et; [discriminate|]. injection E as <- _ _. rewrite <- Et, zlen_ztake. lia.
    + (* a negative declared length: nothing is read *)
      unfold copy_hard_limit, fuel_of in E. cbn [copy_limit] in E. cbn [zlen length Z.of_nat] in E. rewrite Z.sub_0_r in E.
      destruct (Z.ltb_spec lim 0); [|lia]. discriminate.
Qed.

Theorem prepared_message_bounded cx o p comp b env :
  tr_prepare cx o p comp = (Some (b, env), None) -> zlen b <= limit cx /\ (length env <= 5)%nat.
Proof.
  unfold tr_prepare. destruct (advance_send cx o comp p) as [b0|e]; [|discriminate].
  destruct (Z.ltb_spec (limit cx) (Z.of_nat (length b0))) as [H|H]; [discriminate|].
  destruct (senv cx); intros [= <- <-]; (split; [exact H|cbn; lia]).
Qed.
