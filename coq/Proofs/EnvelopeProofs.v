From VG Require Import Model.Bytes Gen.Generated Model.Envelope.
From Coq Require Import ZifyBool ZifyNat ZifyN.
Ltac Zify.zify_post_hook ::= Z.div_mod_to_equations.
Open Scope Z_scope.

Definition all_kinds := [GrpcC; GrpcS; WebC; WebS; ConnC; ConnS].
Definition all_flags : list Z := map Z.of_nat (seq 0 256).

Lemma in_all_flags f : 0 <= f < 256 -> In f all_flags.
Proof.
  intros H. unfold all_flags. apply in_map_iff. exists (Z.to_nat f). split; [lia|].
  apply in_seq. lia.
Qed.

Lemma in_all_kinds k : In k all_kinds.
Proof. destruct k; simpl; tauto. Qed.

(** finite sweep: for every kind and every flag byte, the code's validity test is the
    specification's legality *)
Definition sweep_ok : bool :=
  forallb (fun k => forallb (fun f => Bool.eqb (flags_bad k f) (negb (spec_legal k f))) all_flags) all_kinds.

Lemma sweep_ok_true : sweep_ok = true.
Proof. vm_compute. reflexivity. Qed.

Lemma flags_bad_spec k f : 0 <= f < 256 -> flags_bad k f = negb (spec_legal k f).
Proof.
  intros H. pose proof sweep_ok_true as S. unfold sweep_ok in S.
  rewrite forallb_forall in S. specialize (S k (in_all_kinds k)).
  rewrite forallb_forall in S. specialize (S f (in_all_flags f H)).
  apply Bool.eqb_prop in S. exact S.
Qed.

(** decoded bits agree with the spec's bit positions *)
Definition bits_ok : bool :=
  forallb (fun k => forallb (fun f =>
      if spec_legal k f then
        Bool.eqb (flags_compressed k f) (Z.odd f) &&
        Bool.eqb (flags_trailer k f) (match k with WebS => 128 <=? f | ConnS => 2 <=? f | _ => false end)
      else true) all_flags) all_kinds.
Lemma bits_ok_true : bits_ok = true.
Proof. vm_compute. reflexivity. Qed.

Lemma wf_byte_Z b : wf_byte b = true -> 0 <= Z.of_N b < 256.
Proof. unfold wf_byte. lia. Qed.

Lemma decode_env_flags k f b1 b2 b3 b4 : wf_byte f = true ->
  (decode_env k [f; b1; b2; b3; b4] = None <-> spec_legal k (Z.of_N f) = false).
Proof.
  intros W. unfold decode_env. rewrite (flags_bad_spec k _ (wf_byte_Z _ W)).
  destruct (spec_legal k (Z.of_N f)); simpl; split; congruence.
Qed.

Lemma be32_put v : 0 <= v < 4294967296 ->
  match put_be32 v with [a; b; c; d] => be32 a b c d = v | _ => False end.
Proof. intros H. unfold put_be32, be32. rewrite !Z2N.id by (apply Z.mod_pos_bound; lia). lia. Qed.

Lemma put_be32_wf v : wf_bytes (put_be32 v) = true.
Proof. unfold put_be32, wf_bytes, wf_byte. simpl. rewrite !andb_true_iff. repeat split; lia. Qed.

(** every encoder output is accepted by the reader on the other side and decodes to the
    same envelope (trailer bit only for writers that have one) *)
Lemma encode_decode k c t len : 0 <= len < 4294967296 -> (t = true -> writes_trailer k = true) ->
  decode_env (peer k) (encode_env k (mkEnv t c len)) = Some (mkEnv t c len).
Proof.
  intros H T. unfold encode_env. cbn [e_compressed e_trailer e_len].
  pose proof (be32_put len H) as P. unfold put_be32 in *. cbn [decode_env].
  destruct k, c, t; cbn [writes_trailer] in T; try (specialize (T eq_refl); discriminate);
    cbn; rewrite P; reflexivity.
Qed.

Lemma encode_env_len k e : length (encode_env k e) = 5%nat.
Proof. reflexivity. Qed.

(** re-framing a request envelope (what envelopingReader does): flags 0/1 and the length
    survive any client/server pairing *)
Definition is_client (k : envk) := match k with GrpcC | WebC | ConnC => true | _ => false end.
Lemma reframe_request kc ks f b1 b2 b3 b4 e :
  is_client kc = true -> is_client ks = false ->
  wf_byte b1 = true -> wf_byte b2 = true -> wf_byte b3 = true -> wf_byte b4 = true ->
  decode_env kc [f; b1; b2; b3; b4] = Some e ->
  e_trailer e = false /\
  encode_env ks e = [if e_compressed e then 1%N else 0%N; b1; b2; b3; b4] /\
  f = (if e_compressed e then 1%N else 0%N).
Proof.
  intros C S W1 W2 W3 W4 D. unfold decode_env in D.
  destruct (flags_bad kc (Z.of_N f)) eqn:FB; [discriminate|]. inversion D; subst; clear D.
  cbn [e_trailer e_compressed e_len].
  assert (Hf : f = 0%N \/ f = 1%N).
  { destruct kc; try discriminate; cbv in FB;
      destruct f as [|[p|p|]]; auto; try discriminate; destruct p; discriminate. }
  assert (PB : put_be32 (be32 b1 b2 b3 b4) = [b1; b2; b3; b4]).
  { unfold wf_byte in *. unfold put_be32, be32. repeat f_equal; lia. }
  unfold encode_env. cbn [e_trailer e_compressed e_len]. rewrite PB.
  destruct Hf as [-> | ->]; destruct kc, ks; try discriminate; cbv; auto.
Qed.
