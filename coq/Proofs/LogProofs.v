(** The response side never looks at its own log (used by Proofs/SegmentProofs.v: C08, writer half).

    What the client's connection sees is the log [c_out] up to the way adjacent body writes are
    cut ([blocks] merges them: bytes between two other events).  Nothing on the response side
    ever looks at the log ([*_pre]: every function commutes with putting events in front of it),
    so a handler that hands the same bytes to Write in different pieces drives the writer
    through states that differ at most in that cutting. *)
From VG Require Import Model.Bytes Model.Response Model.Serve.
From VG Require Import Proofs.ResponseProofs Proofs.BoundProofs Proofs.NoPanicProofs.
From Coq Require Import Lia.
Open Scope Z_scope.

(** * The log up to the cutting of adjacent writes *)
Fixpoint blocks (l : list devent) : list devent :=
  match l with
  | [] => []
  | DWrite a :: r => match blocks r with DWrite b :: r' => DWrite (a ++ b) :: r' | br => DWrite a :: br end
  | e :: r => e :: blocks r
  end.

Lemma blocks_app_norm o d : blocks (o ++ d) = blocks (blocks o ++ d).
Proof.
  induction o as [|e r IH]; [reflexivity|].
  destruct e; cbn [blocks app]; try (rewrite IH; reflexivity).
  destruct (blocks r) as [|x r'] eqn:Br.
  - cbn [app blocks]. rewrite IH. reflexivity.
  - destruct x; cbn [app blocks]; rewrite IH; cbn [app blocks]; try reflexivity.
    destruct (blocks (r' ++ d)) as [|y r'']; [reflexivity|]. destruct y; try reflexivity.
    rewrite app_assoc. reflexivity.
Qed.

Lemma blocks_app_congr o o' d : blocks o = blocks o' -> blocks (o ++ d) = blocks (o' ++ d).
Proof. intros H. rewrite (blocks_app_norm o), (blocks_app_norm o'), H. reflexivity. Qed.

Lemma blocks_two_writes o a b : a <> [] -> blocks (o ++ [DWrite a; DWrite b]) = blocks (o ++ [DWrite (a ++ b)]).
Proof.
  intros _. induction o as [|e r IH]; [reflexivity|].
  destruct e; cbn [blocks app]; rewrite IH; reflexivity.
Qed.

(** * Putting events in front of the log *)
Definition set_out (c : rwc) (o : list devent) : rwc :=
  mkRwc (c_hdr c) (c_flushed c) (c_end_written c) (c_meta c) (c_err c) (c_buf c) (c_resp_comp c) o.
Definition pre (o : list devent) (c : rwc) : rwc := set_out c (o ++ c_out c).

Definition pre2 {B} (o : list devent) (x : rwc * B) : rwc * B := (pre o (fst x), snd x).
Definition pre3 {B C} (o : list devent) (x : rwc * B * C) : rwc * B * C := (pre o (fst (fst x)), snd (fst x), snd x).

Lemma pre_mk o h f e m er b rc l : pre o (mkRwc h f e m er b rc l) = mkRwc h f e m er b rc (o ++ l).
Proof. reflexivity. Qed.

Lemma pre_pre o o' c : pre o (pre o' c) = pre (o ++ o') c.
Proof. unfold pre, set_out. cbn. rewrite app_assoc. reflexivity. Qed.

Lemma pre_nil c : pre [] c = c.
Proof. destruct c. reflexivity. Qed.

Ltac fin := unfold pre2, pre3, pre, set_out, emit; cbn [c_hdr c_flushed c_end_written c_meta c_err c_buf c_resp_comp c_out fst snd];
            rewrite <- ?app_assoc; cbn [app]; try reflexivity.

Lemma emit_pre o e c : emit e (pre o c) = pre o (emit e c).
Proof. unfold emit. fin. Qed.

Transparent write_end report_end report_error.

Lemma write_end_pre cx e wih o c : write_end cx e wih (pre o c) = pre o (write_end cx e wih c).
Proof.
  unfold write_end. destruct (encode_end _ _ _ e wih); fin.
Qed.

Lemma flush_headers_pre cx o c : flush_headers cx (pre o c) = pre o (flush_headers cx c).
Proof.
  destruct c as [h f e m er b rc l]. rewrite pre_mk. unfold flush_headers. cbn [c_hdr c_flushed c_end_written c_meta c_err c_buf c_resp_comp c_out].
  destruct f; [reflexivity|]. destruct m as [m|]; [|reflexivity].
  unfold emit. cbn [c_hdr c_flushed c_end_written c_meta c_err c_buf c_resp_comp c_out].
  destruct b as [b|]; destruct (has_err m); destruct (rm_end m) as [en|];
    cbn [c_hdr c_flushed c_end_written c_meta c_err c_buf c_resp_comp c_out];
    rewrite <- ?app_assoc; rewrite <- ?pre_mk; rewrite ?write_end_pre; fin.
Qed.

Ltac prj := cbn [c_hdr c_flushed c_end_written c_meta c_err c_buf c_resp_comp c_out fst snd].

Lemma report_end_pre cx e o c : report_end cx e (pre o c) = pre o (report_end cx e c).
Proof.
  destruct c as [h f en m er b rc l]. rewrite pre_mk. unfold report_end. prj.
  destruct en; [reflexivity|].
  destruct f.
  - rewrite <- pre_mk, write_end_pre. fin.
  - rewrite <- pre_mk, flush_headers_pre. fin.
Qed.

Lemma report_error_pre cx e o c : report_error cx e (pre o c) = pre o (report_error cx e c).
Proof. apply report_end_pre. Qed.

Lemma flush_message_pre o c : flush_message (pre o c) = pre o (flush_message c).
Proof. destruct c as [h f en m er b rc l]. unfold flush_message. prj. destruct b; fin. Qed.

Lemma sink_write_pre cx d o c : sink_write cx d (pre o c) = pre2 o (sink_write cx d c).
Proof.
  destruct c as [h f en m er b rc l]. rewrite pre_mk. unfold sink_write. prj.
  destruct (end_must_be_in_headers (w_client cx)).
  - destruct b as [b|]; [|reflexivity]. destruct (w_limit cx <? zlen b + zlen d); [|reflexivity].
    rewrite <- pre_mk, report_error_pre. reflexivity.
  - destruct d; fin.
Qed.

Opaque write_end report_end report_error.

(** * envelopingWriter *)
Lemma pre_fields o c : c_resp_comp (pre o c) = c_resp_comp c /\ c_end_written (pre o c) = c_end_written c /\ c_meta (pre o c) = c_meta c
  /\ c_err (pre o c) = c_err c /\ c_buf (pre o c) = c_buf c /\ c_hdr (pre o c) = c_hdr c /\ c_flushed (pre o c) = c_flushed c.
Proof. repeat split. Qed.

Ltac sw := match goal with |- context [sink_write ?cx ?d (pre ?o ?c)] => rewrite (sink_write_pre cx d o c); destruct (sink_write cx d c) as [? []]; unfold pre2; prj end.

Lemma ew_maybe_init_pre cx cl o c w : ew_maybe_init cx cl (pre o c) w = pre2 o (ew_maybe_init cx cl c w).
Proof.
  unfold ew_maybe_init. destruct (ew_init w); [reflexivity|].
  destruct (w_senv cx); [reflexivity|]. destruct (w_cenv cx); [|reflexivity].
  destruct (cl =? -1); [reflexivity|]. destruct (w_limit cx <? cl).
  - rewrite report_error_pre. reflexivity.
  - change (c_resp_comp (pre o c)) with (c_resp_comp c). sw; reflexivity.
Qed.

Lemma ew_cur_write_pre cx d o c w : ew_cur_write cx d (pre o c) w = pre3 o (ew_cur_write cx d c w).
Proof.
  unfold ew_cur_write. destruct (ew_cur w); try reflexivity.
  - sw; reflexivity.
  - destruct (w_limit cx <? zlen b + zlen d); [rewrite report_error_pre|]; reflexivity.
Qed.

Lemma ew_loop_pre cx o : forall f d c w, ew_loop f cx d (pre o c) w = pre3 o (ew_loop f cx d c w).
Proof.
  induction f as [|f IH]; intros d c w; [reflexivity|]. cbn [ew_loop].
  destruct (ew_err w); [reflexivity|].
  destruct (zlen d <? ew_remaining w).
  { destruct (ew_wenv w); [reflexivity|]. rewrite ew_cur_write_pre. destruct (ew_cur_write cx d c w) as [[c1 w1] []]; reflexivity. }
  cbv zeta.
  destruct (ew_wenv w).
  - destruct (w_senv cx); [|reflexivity].
    destruct (decode_env _ _) as [env|]; [|rewrite report_error_pre; reflexivity].
    destruct (e_trailer env).
    + destruct (w_limit cx <? e_len env); [rewrite report_error_pre; reflexivity|]. apply IH.
    + destruct (w_cenv cx); [|apply IH]. sw; [apply IH|reflexivity].
  - rewrite ew_cur_write_pre. destruct (ew_cur_write cx _ c w) as [[c1 w1] []]; unfold pre3; prj; try reflexivity.
    match goal with |- context [if ?b then _ else _] => destruct b end.
    + change (c_resp_comp (pre o c1)) with (c_resp_comp c1).
      match goal with |- context [match ?p with Some _ => _ | None => _ end] => destruct p as [pl|] end; [|reflexivity].
      destruct (decode_end_from_message cx pl); [|rewrite report_error_pre; reflexivity].
      Transparent report_end. rewrite report_end_pre. Opaque report_end. reflexivity.
    + rewrite flush_message_pre.
      match goal with |- context [if ?b then _ else _] => destruct b end.
      * destruct (zdrop _ _); [reflexivity|]. rewrite report_error_pre. reflexivity.
      * apply IH.
Qed.

Lemma ew_write_pre cx cl d o c w : ew_write cx cl d (pre o c) w = pre3 o (ew_write cx cl d c w).
Proof.
  unfold ew_write. rewrite ew_maybe_init_pre. destruct (ew_maybe_init cx cl c w) as [c1 w1]. unfold pre2; prj.
  destruct (ew_err w1); [reflexivity|]. destruct (ew_complete w1).
  - destruct d; [reflexivity|]. rewrite report_error_pre. reflexivity.
  - destruct (ew_remaining w1 =? -1); [|apply ew_loop_pre].
    rewrite ew_cur_write_pre. destruct (ew_cur_write cx d c1 w1) as [[c2 w2] []]; reflexivity.
Qed.

Lemma ew_close_pre cx o c w : ew_close cx (pre o c) w = pre2 o (ew_close cx c w).
Proof.
  unfold ew_close. change (c_end_written (pre o c)) with (c_end_written c). change (c_resp_comp (pre o c)) with (c_resp_comp c).
  set (w0 := if c_end_written c then ew_set_err w else w).
  assert (E : forall (X : rwc * ew), (let '(c1, w1) := pre2 o X in
      let normal_eof := ew_wenv w1 && (ew_remaining w1 =? 5) in
      let c2 := if (0 <? ew_remaining w1) && negb normal_eof then report_error cx EOther c1 else c1 in
      (c2, mkEw (ew_init w1) true (ew_wenv w1) (ew_envacc w1) 0 ECNone (ew_is_trailer w1) (ew_trailer_comp w1) (ew_fixed w1) (ew_complete w1)))
    = pre2 o (let '(c1, w1) := X in
      let normal_eof := ew_wenv w1 && (ew_remaining w1 =? 5) in
      let c2 := if (0 <? ew_remaining w1) && negb normal_eof then report_error cx EOther c1 else c1 in
      (c2, mkEw (ew_init w1) true (ew_wenv w1) (ew_envacc w1) 0 ECNone (ew_is_trailer w1) (ew_trailer_comp w1) (ew_fixed w1) (ew_complete w1)))).
  { intros [c1 w1]. unfold pre2; prj. cbv zeta. destruct ((0 <? ew_remaining w1) && negb _); [rewrite report_error_pre|]; reflexivity. }
  destruct (ew_cur w0) as [| |b|b]; try (apply (E (c, w0))).
  destruct ((ew_remaining w0 =? -1) && negb (ew_err w0)); [|apply (E (c, w0))].
  destruct (w_cenv cx) as [ce|]; [|apply (E (c, w0))].
  rewrite sink_write_pre. destruct (sink_write cx _ c) as [c1 []]; unfold pre2 at 1; prj.
  - rewrite sink_write_pre. destruct (sink_write cx b c1) as [c2 []]; unfold pre2 at 1; prj; apply (E (c2, _)).
  - apply (E (c1, _)).
Qed.

(** * transformingWriter *)
Definition pref (o : list devent) (x : fres) : fres :=
  match x with FOk c w => FOk (pre o c) w | FErr e c w rep => FErr e (pre o c) w rep end.

Lemma tw_reset_pre cx o c w : tw_reset cx (pre o c) w = tw_reset cx c w.
Proof. reflexivity. Qed.

Lemma tw_flush_message_pre cx o c w : tw_flush_message cx (pre o c) w = pref o (tw_flush_message cx c w).
Proof.
  unfold tw_flush_message. change (c_resp_comp (pre o c)) with (c_resp_comp c). cbv zeta.
  destruct (e_trailer (tw_latest w)).
  - match goal with |- context [match ?p with Some _ => _ | None => _ end] => destruct p as [pl|] end; [|reflexivity].
    destruct (decode_end_from_message cx pl); [|rewrite report_error_pre; reflexivity].
    Transparent report_end. rewrite report_end_pre. Opaque report_end. reflexivity.
  - destruct (advance_resp cx _ _ _) as [out|]; [|reflexivity].
    match goal with |- context [match ?p with Some _ => _ | None => _ end] => destruct p as [env|] end; [|reflexivity].
    destruct env as [|x env'].
    + rewrite sink_write_pre. destruct (sink_write cx out c) as [c2 []]; unfold pre2; prj; cbn [negb]; [|reflexivity].
      rewrite flush_message_pre. reflexivity.
    + rewrite sink_write_pre. destruct (sink_write cx (x :: env') c) as [c1 []]; unfold pre2 at 1; prj; cbn [negb]; [|reflexivity].
      rewrite sink_write_pre. destruct (sink_write cx out c1) as [c2 []]; unfold pre2; prj; cbn [negb]; [|reflexivity].
      rewrite flush_message_pre. reflexivity.
Qed.

Lemma tw_loop_pre cx o : forall f d c w, tw_loop f cx d (pre o c) w = pre3 o (tw_loop f cx d c w).
Proof.
  induction f as [|f IH]; intros d c w; [reflexivity|]. cbn [tw_loop].
  destruct (tw_err w); [reflexivity|]. cbv zeta.
  match goal with |- context [if ?b then _ else _] => destruct b end; [reflexivity|].
  destruct (tw_wenv w).
  - destruct (w_senv cx); [|reflexivity].
    destruct (decode_env _ _) as [env|]; [|rewrite report_error_pre; reflexivity].
    destruct (w_limit cx <? e_len env); [rewrite report_error_pre; reflexivity|]. apply IH.
  - rewrite tw_flush_message_pre.
    match goal with |- context [tw_flush_message cx c ?w0] => destruct (tw_flush_message cx c w0) as [c1 w1|e c1 w1 rep] end; unfold pref.
    + match goal with |- context [if ?b then _ else _] => destruct b end; [reflexivity|apply IH].
    + destruct rep; [reflexivity|]. rewrite report_error_pre. reflexivity.
Qed.

Lemma tw_write_pre cx d o c w : tw_write cx d (pre o c) w = pre3 o (tw_write cx d c w).
Proof.
  unfold tw_write. destruct (tw_err w); [reflexivity|]. rewrite tw_reset_pre.
  set (w0 := match tw_buf w with None => tw_reset cx c w | Some _ => w end).
  destruct (tw_expect w0 =? -1); [|apply tw_loop_pre].
  match goal with |- context [if ?b then _ else _] => destruct b end; [rewrite report_error_pre|]; reflexivity.
Qed.

Lemma tw_close_pre cx o c w : tw_close cx (pre o c) w = pre2 o (tw_close cx c w).
Proof.
  unfold tw_close. change (c_end_written (pre o c)) with (c_end_written c).
  destruct (tw_err w || c_end_written c); [reflexivity|].
  destruct (tw_expect w =? -1).
  - rewrite tw_flush_message_pre. destruct (tw_flush_message cx c w) as [c1 w1|e c1 w1 rep]; unfold pref; [reflexivity|].
    destruct rep; [reflexivity|]. rewrite report_error_pre. reflexivity.
  - destruct (tw_buf w) as [[|x b]|]; try reflexivity; [|rewrite report_error_pre; reflexivity].
    destruct (tw_wenv w); [reflexivity|]. rewrite report_error_pre; reflexivity.
Qed.

(** * errorWriter *)
Lemma xw_write_pre cx d o c w : xw_write cx d (pre o c) w = pre3 o (xw_write cx d c w).
Proof.
  unfold xw_write. destruct (xw_buf w) as [b|]; [|reflexivity].
  destruct (w_limit cx <? zlen d + zlen b); [rewrite report_error_pre|]; reflexivity.
Qed.

Lemma xw_close_pre cx o c w : xw_close cx (pre o c) w = pre2 o (xw_close cx c w).
Proof.
  unfold xw_close. change (c_meta (pre o c)) with (c_meta c). change (c_resp_comp (pre o c)) with (c_resp_comp c).
  destruct (xw_buf w) as [b|]; [|reflexivity]. destruct (c_meta c) as [m|]; [|reflexivity].
  match goal with |- context [let '(body, e1) := ?p in _] => destruct p as [body e1] end.
  prj. unfold pre2. cbn [fst snd]. f_equal.
  match goal with |- flush_headers cx ?a = pre o (flush_headers cx ?b) => change a with (pre o b) end.
  apply flush_headers_pre.
Qed.

(** * responseWriter *)
Definition prer (o : list devent) (r : rw) : rw := set_core r (pre o (r_core r)).
Definition prer2 {B} (o : list devent) (x : rw * B) : rw * B := (prer o (fst x), snd x).

Lemma prer_mk o c hw cl w : prer o (mkRw c hw cl w) = mkRw (pre o c) hw cl w.
Proof. reflexivity. Qed.

Lemma rw_write_header_pre cx st o r : rw_write_header cx st (prer o r) = prer o (rw_write_header cx st r).
Proof.
  destruct r as [c hw cl w]. rewrite prer_mk. unfold rw_write_header. cbn [r_headers_written r_core r_content_len r_w].
  destruct hw; [reflexivity|].
  change (c_end_written (pre o c)) with (c_end_written c). destruct (c_end_written c); [reflexivity|].
  change (c_hdr (pre o c)) with (c_hdr c).
  destruct (extract_content_length (c_hdr c)) as [[clen h1]|]; [|unfold set_core; cbn [r_headers_written r_core r_content_len r_w]; rewrite report_error_pre; reflexivity].
  destruct (extract_response _ _ st h1) as [[m0 proc] h2].
  match goal with |- context [let '(m1, h3) := ?p in _] => destruct p as [m1 h3] end.
  cbv zeta. prj.
  match goal with |- context [if ?b then _ else _] => destruct b end.
  { unfold set_core; cbn [r_headers_written r_core r_content_len r_w].
    match goal with |- mkRw (report_error cx EOther ?a) _ _ _ = prer o (mkRw (report_error cx EOther ?b) _ _ _) => change a with (pre o b) end.
    rewrite report_error_pre. reflexivity. }
  destruct (rm_end _) as [en|].
  - destruct proc; try reflexivity.
    match goal with |- mkRw (flush_headers cx ?a) _ _ _ = prer o (mkRw (flush_headers cx ?b) _ _ _) => change a with (pre o b) end.
    rewrite flush_headers_pre. reflexivity.
  - match goal with |- context [if ?b then _ else _] => destruct b end.
    { match goal with |- mkRw (report_error cx EOther ?a) _ _ _ = prer o (mkRw (report_error cx EOther ?b) _ _ _) => change a with (pre o b) end.
      rewrite report_error_pre. reflexivity. }
    destruct (end_must_be_in_headers (w_client cx)); [reflexivity|].
    match goal with |- mkRw (flush_headers cx ?a) _ _ _ = prer o (mkRw (flush_headers cx ?b) _ _ _) => change a with (pre o b) end.
    rewrite flush_headers_pre. reflexivity.
Qed.

Lemma prer_core o r : r_core (prer o r) = pre o (r_core r).
Proof. reflexivity. Qed.
Lemma prer_w o r : r_w (prer o r) = r_w r. Proof. reflexivity. Qed.
Lemma prer_hw o r : r_headers_written (prer o r) = r_headers_written r. Proof. reflexivity. Qed.
Lemma prer_cl o r : r_content_len (prer o r) = r_content_len r. Proof. reflexivity. Qed.

Lemma rw_write_pre cx d o r : rw_write cx d (prer o r) = prer2 o (rw_write cx d r).
Proof.
  unfold rw_write. rewrite prer_hw.
  assert (E : (if r_headers_written r then prer o r else rw_write_header cx 200 (prer o r))
              = prer o (if r_headers_written r then r else rw_write_header cx 200 r)).
  { destruct (r_headers_written r); [reflexivity|apply rw_write_header_pre]. }
  rewrite E. set (r0 := if r_headers_written r then r else rw_write_header cx 200 r). clearbody r0.
  rewrite prer_core, prer_w, prer_cl. change (c_err (pre o (r_core r0))) with (c_err (r_core r0)).
  destruct (c_err (r_core r0)); [reflexivity|].
  destruct (r_w r0) as [| |w|w|w]; try reflexivity.
  - rewrite xw_write_pre. destruct (xw_write cx d (r_core r0) w) as [[c1 w1] res]. reflexivity.
  - rewrite ew_write_pre. destruct (ew_write cx _ d (r_core r0) w) as [[c1 w1] res]. reflexivity.
  - rewrite tw_write_pre. destruct (tw_write cx d (r_core r0) w) as [[c1 w1] res]. reflexivity.
Qed.

Lemma rw_close_pre cx o r : rw_close cx (prer o r) = prer2 o (rw_close cx r).
Proof.
  unfold rw_close. rewrite prer_hw.
  assert (E : (if r_headers_written r then prer o r else rw_write_header cx 200 (prer o r))
              = prer o (if r_headers_written r then r else rw_write_header cx 200 r)).
  { destruct (r_headers_written r); [reflexivity|apply rw_write_header_pre]. }
  rewrite E. set (r0 := if r_headers_written r then r else rw_write_header cx 200 r). clearbody r0.
  rewrite prer_w, prer_cl, !prer_core. change (c_end_written (pre o (r_core r0))) with (c_end_written (r_core r0)).
  (* the tail: once the body writer is closed *)
  assert (T : forall (X : rw * wres),
    (let '(r1, res) := prer2 o X in
     match res with
     | WPanic => (r1, WPanic)
     | _ => let c := r_core r1 in
            if c_end_written c then (r1, WOk) else
            match c_meta c with
            | None => (r1, WPanic)
            | Some m => match rm_end m with
                        | Some e => (set_core r1 (report_end cx e c), WOk)
                        | None => let '(tr, h') := http_extract_trailers (rm_pending_keys m) (c_hdr c) in
                                  let c1 := mkRwc h' (c_flushed c) (c_end_written c) (c_meta c) (c_err c) (c_buf c) (c_resp_comp c) (c_out c) in
                                  match extract_end_from_trailers (w_eor cx) (w_server cx) tr with
                                  | None => (set_core r1 (report_error cx EOther c1), WOk)
                                  | Some e => (set_core r1 (report_end cx e c1), WOk)
                                  end
                        end
            end
     end) = prer2 o
    (let '(r1, res) := X in
     match res with
     | WPanic => (r1, WPanic)
     | _ => let c := r_core r1 in
            if c_end_written c then (r1, WOk) else
            match c_meta c with
            | None => (r1, WPanic)
            | Some m => match rm_end m with
                        | Some e => (set_core r1 (report_end cx e c), WOk)
                        | None => let '(tr, h') := http_extract_trailers (rm_pending_keys m) (c_hdr c) in
                                  let c1 := mkRwc h' (c_flushed c) (c_end_written c) (c_meta c) (c_err c) (c_buf c) (c_resp_comp c) (c_out c) in
                                  match extract_end_from_trailers (w_eor cx) (w_server cx) tr with
                                  | None => (set_core r1 (report_error cx EOther c1), WOk)
                                  | Some e => (set_core r1 (report_end cx e c1), WOk)
                                  end
                        end
            end
     end)).
  { intros [r1 res]. unfold prer2 at 1. cbn [fst snd].
    assert (G : forall res', res' <> WPanic ->
      (let c := r_core (prer o r1) in
            if c_end_written c then (prer o r1, WOk) else
            match c_meta c with
            | None => (prer o r1, WPanic)
            | Some m => match rm_end m with
                        | Some e => (set_core (prer o r1) (report_end cx e c), WOk)
                        | None => let '(tr, h') := http_extract_trailers (rm_pending_keys m) (c_hdr c) in
                                  let c1 := mkRwc h' (c_flushed c) (c_end_written c) (c_meta c) (c_err c) (c_buf c) (c_resp_comp c) (c_out c) in
                                  match extract_end_from_trailers (w_eor cx) (w_server cx) tr with
                                  | None => (set_core (prer o r1) (report_error cx EOther c1), WOk)
                                  | Some e => (set_core (prer o r1) (report_end cx e c1), WOk)
                                  end
                        end
            end) = prer2 o
      (let c := r_core r1 in
            if c_end_written c then (r1, WOk) else
            match c_meta c with
            | None => (r1, WPanic)
            | Some m => match rm_end m with
                        | Some e => (set_core r1 (report_end cx e c), WOk)
                        | None => let '(tr, h') := http_extract_trailers (rm_pending_keys m) (c_hdr c) in
                                  let c1 := mkRwc h' (c_flushed c) (c_end_written c) (c_meta c) (c_err c) (c_buf c) (c_resp_comp c) (c_out c) in
                                  match extract_end_from_trailers (w_eor cx) (w_server cx) tr with
                                  | None => (set_core r1 (report_error cx EOther c1), WOk)
                                  | Some e => (set_core r1 (report_end cx e c1), WOk)
                                  end
                        end
            end)).
    { intros _ _. cbv zeta. rewrite prer_core.
      change (c_end_written (pre o (r_core r1))) with (c_end_written (r_core r1)).
      change (c_meta (pre o (r_core r1))) with (c_meta (r_core r1)).
      change (c_hdr (pre o (r_core r1))) with (c_hdr (r_core r1)).
      destruct (c_end_written (r_core r1)) eqn:Ee; [reflexivity|]. destruct (c_meta (r_core r1)) as [m|]; [|reflexivity].
      Transparent report_end.
      destruct (rm_end m) as [e|]; [rewrite report_end_pre; reflexivity|].
      destruct (http_extract_trailers _ _) as [tr h'].
      match goal with |- context [report_error cx EOther ?a] =>
        match goal with |- _ = prer2 o ?rhs => match rhs with context [report_error cx EOther ?b] => change a with (pre o b) end end end.
      destruct (extract_end_from_trailers _ _ tr); [rewrite report_end_pre|rewrite report_error_pre]; reflexivity.
      Opaque report_end. }
    destruct res; [apply (G WOk); discriminate|apply (G WFail); discriminate|reflexivity]. }
  destruct (r_w r0) as [| |w|w|w].
  - exact (T (r0, WOk)).
  - exact (T (r0, WOk)).
  - destruct (c_end_written (r_core r0)).
    + rewrite xw_close_pre. destruct (xw_close cx (r_core r0) w) as [c2 w2]. exact (T (mkRw c2 true (r_content_len r0) (BErr w2), WOk)).
    + rewrite xw_write_pre. destruct (xw_write cx [] (r_core r0) w) as [[c1 w1] res]. unfold pre3. cbn [fst snd].
      rewrite xw_close_pre. destruct (xw_close cx c1 w1) as [c2 w2]. exact (T (mkRw c2 true (r_content_len r0) (BErr w2), WOk)).
  - destruct (c_end_written (r_core r0)).
    + rewrite ew_close_pre. destruct (ew_close cx (r_core r0) w) as [c2 w2]. exact (T (mkRw c2 true (r_content_len r0) (BEnv w2), WOk)).
    + rewrite ew_write_pre. destruct (ew_write cx _ [] (r_core r0) w) as [[c1 w1] res]. unfold pre3. cbn [fst snd].
      destruct res; try (rewrite ew_close_pre; destruct (ew_close cx c1 w1) as [c2 w2]; exact (T (mkRw c2 true (r_content_len r0) (BEnv w2), WOk))).
      exact (T (mkRw c1 true (r_content_len r0) (BEnv w1), WPanic)).
  - destruct (c_end_written (r_core r0)).
    + rewrite tw_close_pre. destruct (tw_close cx (r_core r0) w) as [c2 w2]. exact (T (mkRw c2 true (r_content_len r0) (BTrans w2), WOk)).
    + rewrite tw_write_pre. destruct (tw_write cx [] (r_core r0) w) as [[c1 w1] res]. unfold pre3. cbn [fst snd].
      destruct res; try (rewrite tw_close_pre; destruct (tw_close cx c1 w1) as [c2 w2]; exact (T (mkRw c2 true (r_content_len r0) (BTrans w2), WOk))).
      exact (T (mkRw c1 true (r_content_len r0) (BTrans w1), WPanic)).
Qed.

Lemma run_script_pre cx o : forall s r wr, run_script cx s (prer o r) wr = prer2 o (run_script cx s r wr).
Proof.
  induction s as [|a rest IH]; intros r wr; [reflexivity|]. cbn [run_script].
  destruct a as [k v|k v|code|d| |e].
  - rewrite prer_core. change (c_end_written (pre o (r_core r))) with (c_end_written (r_core r)).
    destruct (c_end_written (r_core r)); [apply IH|]. rewrite <- IH. reflexivity.
  - rewrite prer_core. change (c_end_written (pre o (r_core r))) with (c_end_written (r_core r)).
    destruct (c_end_written (r_core r)); [apply IH|]. rewrite <- IH. reflexivity.
  - rewrite rw_write_header_pre. apply IH.
  - rewrite rw_write_pre. destruct (rw_write cx d r) as [r1 res]. unfold prer2 at 1. cbn [fst snd].
    destruct res; try apply IH. reflexivity.
  - apply IH.
  - rewrite prer_core, report_error_pre. rewrite <- IH. reflexivity.
Qed.

Theorem serve_response_pre cx h s o :
  (let '(r, wr) := run_script cx s (prer o (rw_init h)) [] in
   if existsb (fun x => match x with WPanic => true | _ => false end) wr then (r, wr, WPanic)
   else let '(r', res) := rw_close cx r in (r', wr, res))
  = (let '(r, wr, res) := serve_response cx h s in (prer o r, wr, res)).
Proof.
  unfold serve_response. rewrite run_script_pre. destruct (run_script cx s (rw_init h) []) as [r wr]. unfold prer2. cbn [fst snd].
  destruct (existsb _ wr); [reflexivity|]. rewrite rw_close_pre. destruct (rw_close cx r) as [r' res]. reflexivity.
Qed.

(** * States that differ only in the cutting of writes *)
Definition ceq (c c' : rwc) : Prop := set_out c [] = set_out c' [] /\ blocks (c_out c) = blocks (c_out c').

Lemma ceq_refl c : ceq c c. Proof. split; reflexivity. Qed.
Lemma ceq_sym c c' : ceq c c' -> ceq c' c. Proof. intros [A B]; split; symmetry; assumption. Qed.
Lemma ceq_trans a b c : ceq a b -> ceq b c -> ceq a c.
Proof. intros [A B] [C D]; split; [rewrite A; exact C|rewrite B; exact D]. Qed.

Lemma as_pre c : c = pre (c_out c) (set_out c []).
Proof. destruct c. unfold pre, set_out. cbn. rewrite app_nil_r. reflexivity. Qed.

Lemma ceq_pre o o' c : blocks o = blocks o' -> ceq (pre o c) (pre o' c).
Proof. intros H. split; [reflexivity|]. unfold pre, set_out. cbn. apply blocks_app_congr. exact H. Qed.

(** every function of the response side respects [ceq] *)
Lemma ceq_map (f : rwc -> rwc) : (forall o c, f (pre o c) = pre o (f c)) -> forall c c', ceq c c' -> ceq (f c) (f c').
Proof.
  intros Hf c c' [A B]. rewrite (as_pre c), (as_pre c'), !Hf, A. apply ceq_pre. exact B.
Qed.

Definition req (r r' : rw) : Prop :=
  ceq (r_core r) (r_core r') /\ r_headers_written r = r_headers_written r' /\ r_content_len r = r_content_len r' /\ r_w r = r_w r'.

Lemma as_prer r : r = prer (c_out (r_core r)) (set_core r (set_out (r_core r) [])).
Proof. destruct r as [c hw cl w]. unfold prer, set_core. cbn. rewrite <- as_pre. reflexivity. Qed.

Lemma req_prer o o' r : blocks o = blocks o' -> req (prer o r) (prer o' r).
Proof. intros H. split; [apply ceq_pre; exact H|]. repeat split. Qed.

Lemma req_base r r' : req r r' -> set_core r (set_out (r_core r) []) = set_core r' (set_out (r_core r') []).
Proof. destruct r, r'. intros ([A B] & C & D & E). cbn in *. unfold set_core. cbn. rewrite A. subst. reflexivity. Qed.

Lemma req_map2 {B} (f : rw -> rw * B) : (forall o r, f (prer o r) = prer2 o (f r)) ->
  forall r r', req r r' -> req (fst (f r)) (fst (f r')) /\ snd (f r) = snd (f r').
Proof.
  intros Hf r r' H. pose proof (req_base _ _ H) as E. destruct H as ([_ Bk] & _).
  rewrite (as_prer r), (as_prer r'), !Hf, E. unfold prer2. cbn [fst snd]. split; [apply req_prer; exact Bk|reflexivity].
Qed.

