(** Application headers pass through the request-side rewriting untouched (Model/Request.v:
    extract_request, validate, add_request_headers; Model/Serve.v: serve_head). *)
From VG Require Import Model.Bytes Model.Headers Model.RespMeta Model.Timeout Model.Request Model.Response Model.Serve Gen.Generated.
From VG Require Import Proofs.ResponseProofs Proofs.ServeProofs.
Open Scope Z_scope.

(** the header names the protocols themselves use on a request *)
Definition request_control_keys : list bytes :=
  map s2b ["Te"; "Grpc-Timeout"; "Content-Type"; "Grpc-Encoding"; "Grpc-Accept-Encoding"; "Connect-Timeout-Ms";
           "Accept-Encoding"; "Connect-Protocol-Version"; "Content-Encoding"; "Connect-Content-Encoding";
           "Connect-Accept-Encoding"; "X-Server-Timeout"; "Content-Length"]%string.

Definition app_key (k : bytes) : Prop := forallb (fun r => negb (bytes_eqb r k)) request_control_keys = true.

Ltac app_facts H :=
  unfold app_key, request_control_keys in H; cbn [map forallb] in H;
  repeat (apply Bool.andb_true_iff in H; let H1 := fresh "K" in destruct H as (H1 & H); apply Bool.negb_true_iff in H1).

(* the side conditions are looked up syntactically on key literals in normal form: [assumption]
   would try to unify string literals up to conversion, which costs minutes *)
Ltac lit_keys :=
  repeat match goal with
         | K : context [s2b ?s] |- _ => let v := eval vm_compute in (s2b s) in change (s2b s) with v in K
         end;
  repeat match goal with
         | |- context [s2b ?s] => let v := eval vm_compute in (s2b s) in change (s2b s) with v
         | |- context [hdel ?a _] => is_const a; let v := eval vm_compute in a in change a with v
         | |- context [hput ?a _ _] => is_const a; let v := eval vm_compute in a in change a with v
         end.
Ltac hv :=
  lit_keys;
  repeat first
    [ match goal with
      | K : bytes_eqb ?a ?k = false |- context [hvalues ?k (hdel ?a ?h)] => rewrite (hvalues_hdel_other k a h K)
      | K : bytes_eqb ?a ?k = false |- context [hvalues ?k (hput ?a ?vs ?h)] => rewrite (hvalues_hput_other k a vs h K)
      end
    | progress (unfold hset; lit_keys) ].

Lemma extract_request_keeps pf hb c r h meta h' k :
  app_key k -> extract_request pf hb c r h = HOk (meta, h') -> hvalues k h' = hvalues k h.
Proof.
  intros A H. app_facts A. unfold extract_request in H. destruct c.
  - (* connect post *)
    destruct (connect_extract _); [|discriminate]. injection H as _ <-. hv. reflexivity.
  - destruct (connect_extract _); [|discriminate]. injection H as _ <-. hv. reflexivity.
  - destruct (connect_extract _); [|discriminate]. injection H as _ <-. hv. reflexivity.
  - destruct (grpc_extract _); [|discriminate]. injection H as _ <-. hv. reflexivity.
  - destruct (grpc_extract _); [|discriminate]. injection H as _ <-. hv. reflexivity.
  - destruct (rest_extract pf _); [|discriminate]. injection H as _ <-. hv. reflexivity.
Qed.

Lemma add_request_headers_keeps ff s codec comp accept t h k :
  app_key k -> hvalues k (add_request_headers ff s codec comp accept t h) = hvalues k h.
Proof.
  intros A. app_facts A. unfold add_request_headers.
  destruct s; destruct comp as [|c0 cs]; destruct accept as [|a0 as_];
    repeat match goal with |- context [match inject ?f ?e ?t0 with Some _ => _ | None => _ end] => destruct (inject f e t0) end;
    hv; reflexivity.
Qed.

Theorem validate_keeps_app_headers pf t r o k :
  app_key k -> validate pf t r = VOk o -> hvalues k (op_hdr o) = hvalues k (q_hdr r).
Proof.
  intros A. pose proof A as A0. unfold validate. destruct (classify_request r) as [c|]; [|discriminate].
  destruct (resolve_method t c r) as [st allow| |m rest]; try discriminate.
  match goal with |- context [if negb ?b then VError 415 None else _] => destruct b end; cbn [negb]; [|discriminate].
  destruct ((mc_stream m =? 3) && (q_proto_major r <? 2)); [discriminate|].
  destruct ((cproto_protocol c =? c_ProtocolGRPC) && negb (q_proto_major r =? 2)); [discriminate|].
  destruct (extract_request pf _ c r (q_hdr r)) as [[meta h]|] eqn:EX; [|discriminate].
  match goal with |- context [if ?b then VError 415 None else _] => destruct b end; [discriminate|].
  match goal with |- context [if ?b then VError 415 None else _] => destruct b end; [discriminate|].
  match goal with |- context [if ?b then VError 415 None else _] => destruct b end; [discriminate|].
  destruct (negotiate_protocol _ _) as [p|]; [|discriminate].
  destruct (server_handler p (mc_stream m)) as [s|]; [|discriminate].
  match goal with |- context [if ?b then VNotFound else _] => destruct b end; [discriminate|].
  intros [= <-]. cbn [op_hdr]. app_facts A. hv. eapply extract_request_keeps; eauto.
Qed.

(** the head the backend's handler is given on a transcoded call *)
Theorem backend_sees_app_headers pf ff t r h a cx o k :
  app_key k -> serve_head pf ff t r = DHandle h a cx o -> hvalues k (bh_hdr h) = hvalues k (q_hdr r).
Proof.
  intros A H. pose proof (serve_head_cases pf ff t r) as C. rewrite H in C. destruct C as (V & _).
  unfold serve_head in H. rewrite V in H. destruct (is_passthrough o); [discriminate|].
  destruct (op_server o) eqn:Es; try discriminate;
    try (destruct (bytes_eqb (q_method r) m_get && mc_no_side_effects (op_method o)); try discriminate);
    cbv zeta in H;
    match type of H with context [add_request_headers ?a1 ?a2 ?a3 ?a4 ?a5 ?a6 ?a7] =>
      pose proof (add_request_headers_keeps a1 a2 a3 a4 a5 a6 a7 k A) as KK; set (hh := add_request_headers a1 a2 a3 a4 a5 a6 a7) in * end;
    injection H as <- _ _; cbn [bh_hdr]; rewrite KK; eapply validate_keeps_app_headers; eauto.
Qed.

(** * response head *)
Definition response_control_keys : list bytes :=
  map s2b ["Content-Type"; "Content-Length"; "Content-Encoding"; "Accept-Encoding"; "Trailer"; "Grpc-Encoding"; "Grpc-Accept-Encoding";
           "Grpc-Status"; "Grpc-Message"; "Grpc-Status-Details-Bin"; "Connect-Content-Encoding"; "Connect-Accept-Encoding"]%string.

Definition resp_app_key (k : bytes) : Prop := forallb (fun r => negb (bytes_eqb r k)) response_control_keys = true.

Ltac resp_facts H :=
  unfold resp_app_key, response_control_keys in H; cbn [map forallb] in H;
  repeat (apply Bool.andb_true_iff in H; let H1 := fresh "K" in destruct H as (H1 & H); apply Bool.negb_true_iff in H1).

Lemma hvalues_declare_trailers m h k : bytes_eqb (s2b "Trailer") k = false -> hvalues k (grpc_declare_trailers m h) = hvalues k h.
Proof.
  intros N. unfold grpc_declare_trailers.
  repeat match goal with |- context [if ?b then _ else _] => destruct b end;
    rewrite ?hvalues_hadd_other, ?hvalues_fold_hadd_other by exact N; reflexivity.
Qed.

(** a head that does not carry the end: every application header the handler set is there, with its values *)
Theorem response_head_keeps_app_headers c m h k :
  resp_app_key k -> rm_end m = None -> hvalues k (ho_hdrs (add_response_headers c m h)) = hvalues k h.
Proof.
  intros A He. resp_facts A. unfold add_response_headers. rewrite He.
  destruct c; cbn [ho_hdrs];
    try rewrite hvalues_declare_trailers by assumption;
    destruct (rm_comp m) as [|c0 cs]; destruct (rm_accept m) as [|a0 as_];
    try (destruct (hhas k_content_type h));
    cbn [negb]; hv; reflexivity.
Qed.

(** where the client finds the trailers: the place its protocol defines *)
Theorem trailers_go_where_the_protocol_says c lim elen e :
  match c with
  | CGrpc => encode_end c lim elen e false = EndTrailers e                 (* HTTP trailers *)
  | CGrpcWeb => encode_end c lim elen e false = EndBody e                  (* trailer frame in the body *)
  | CConnectStream => elen e <= lim -> encode_end c lim elen e false = EndBody e   (* end-stream message *)
  | _ => True
  end.
Proof.
  destruct c; cbn; auto. intros H. destruct (Z.ltb_spec lim (elen e)); [lia|reflexivity].
Qed.

(** Connect unary and REST clients get them as Trailer- prefixed headers of the head *)
Theorem connect_unary_trailers_in_head c m h e k vs :
  match c with CConnectPost | CConnectGet => True | _ => False end ->
  rm_end m = Some e -> NoDup (map fst (re_trailers e)) -> In (k, vs) (re_trailers e) ->
  bytes_eqb (s2b "Accept-Encoding") (s2b "Trailer-" ++ k) = false ->
  hvalues (s2b "Trailer-" ++ k) (ho_hdrs (add_response_headers c m h)) = vs.
Proof.
  intros Hc He Nd Hin Na.
  assert (F : forall (l : hdrs) h0, NoDup (map fst l) -> In (k, vs) l ->
              hvalues (s2b "Trailer-" ++ k) (fold_left (fun acc kv => hput (s2b "Trailer-" ++ fst kv) (snd kv) acc) l h0) = vs).
  { induction l as [|[k1 v1] r IH]; intros h0 N I0; [destruct I0|]. cbn [fold_left fst snd].
    inversion N as [|? ? Hnot Nr]; subst. destruct I0 as [E|I0].
    - injection E as -> ->.
      assert (G : forall (l2 : hdrs) h2, ~ In k (map fst l2) ->
                 hvalues (s2b "Trailer-" ++ k) (fold_left (fun acc kv => hput (s2b "Trailer-" ++ fst kv) (snd kv) acc) l2 h2) = hvalues (s2b "Trailer-" ++ k) h2).
      { induction l2 as [|[k2 v2] r2 IH2]; intros h2 Nn; [reflexivity|]. cbn [fold_left fst snd]. rewrite IH2 by (intros X; apply Nn; right; exact X).
        apply hvalues_hput_other. destruct (bytes_eqb (s2b "Trailer-" ++ k2) (s2b "Trailer-" ++ k)) eqn:E; [|reflexivity].
        apply bytes_eqb_eq in E. apply app_inv_head in E. exfalso. apply Nn. left. exact E. }
      rewrite G by exact Hnot. apply hvalues_hput_same.
    - apply IH; assumption. }
  destruct c; try contradiction; unfold add_response_headers; rewrite He; cbn [ho_hdrs];
    (destruct (rm_accept m) as [|a0 as_]; [|unfold hset; rewrite hvalues_hput_other by exact Na]; apply F; assumption).
Qed.

(** * Trailers of a gRPC backend: from the handler's header map to the end the client is given *)
Lemma is_prefix_split p s : is_prefix p s = true -> s = p ++ skipn (length p) s.
Proof.
  revert s. induction p as [|a p IH]; intros s H; [reflexivity|]. destruct s as [|b s]; [discriminate|]. cbn in H.
  apply Bool.andb_true_iff in H as [E H]. apply N.eqb_eq in E. subst b. cbn. f_equal. apply IH. exact H.
Qed.

Lemma is_prefix_app p s : is_prefix p (p ++ s) = true.
Proof. induction p as [|a p IH]; [reflexivity|]. cbn. rewrite N.eqb_refl. exact IH. Qed.

Lemma skipn_app_len {A} (p s : list A) : skipn (length p) (p ++ s) = s.
Proof. induction p; [reflexivity|]. cbn. assumption. Qed.

Lemma bytes_eqb_false a b : a <> b -> bytes_eqb a b = false.
Proof. intros H. destruct (bytes_eqb a b) eqn:E; [apply bytes_eqb_eq in E; congruence|reflexivity]. Qed.

(** a trailer named [k] given with the "Trailer:" prefix (the only way, [k] not being declared) *)
Lemma extract_prefixed_trailer known h k :
  existsb (bytes_eqb k) known = false -> is_prefix trailer_prefix k = false ->
  hvalues k (fst (http_extract_trailers known h)) = hvalues (trailer_prefix ++ k) h.
Proof.
  intros Hk Hp. induction h as [|[k' vs'] r IH]; [reflexivity|]. cbn [http_extract_trailers].
  destruct (http_extract_trailers known r) as [t rest]. cbn [fst] in IH. cbn [hvalues].
  destruct (is_prefix trailer_prefix k') eqn:P.
  - cbn [fst hvalues]. unfold strip_prefix. rewrite P.
    destruct (bytes_eqb k' (trailer_prefix ++ k)) eqn:E.
    + apply bytes_eqb_eq in E. subst k'. rewrite skipn_app_len, bytes_eqb_refl. reflexivity.
    + rewrite bytes_eqb_false; [exact IH|]. intros D. apply is_prefix_split in P. rewrite D in P. rewrite P, bytes_eqb_refl in E. discriminate.
  - assert (E : bytes_eqb k' (trailer_prefix ++ k) = false).
    { apply bytes_eqb_false. intros ->. rewrite is_prefix_app in P. discriminate. }
    rewrite E. destruct (existsb (bytes_eqb k') known) eqn:Kn; [|exact IH].
    cbn [fst hvalues]. rewrite bytes_eqb_false; [exact IH|]. intros ->.
    assert (existsb (bytes_eqb k) known = true); [|congruence].
    clear - Kn. induction known as [|x l IHl]; [discriminate|]. cbn in *. apply Bool.orb_true_iff in Kn as [Q|Q].
    + apply bytes_eqb_eq in Q. subst x. rewrite bytes_eqb_refl. reflexivity.
    + rewrite (IHl Q). apply Bool.orb_true_r.
Qed.

Definition grpc_status_keys : list bytes := [k_grpc_status; k_grpc_message; k_grpc_details].

Lemma grpc_extract_error_keeps eo t k : forallb (fun s => negb (bytes_eqb s k)) grpc_status_keys = true ->
  hvalues k (snd (grpc_extract_error eo t)) = hvalues k t.
Proof.
  intros H. cbn in H. apply Bool.andb_true_iff in H as [H1 H]. apply Bool.andb_true_iff in H as [H2 H]. apply Bool.andb_true_iff in H as [H3 _].
  apply Bool.negb_true_iff in H1, H2, H3. unfold grpc_extract_error. cbn [snd].
  rewrite !hvalues_hdel_other by assumption. reflexivity.
Qed.

(** what the backend set as "Trailer:k" comes out of the extraction as trailer [k] of the end *)
Theorem grpc_backend_trailer_extracted eo known h k :
  existsb (bytes_eqb k) known = false -> is_prefix trailer_prefix k = false ->
  forallb (fun s => negb (bytes_eqb s k)) grpc_status_keys = true ->
  exists e, extract_end_from_trailers eo SGrpc (fst (http_extract_trailers known h)) = Some e /\
            hvalues k (re_trailers e) = hvalues (trailer_prefix ++ k) h.
Proof.
  intros Hk Hp Hs. unfold extract_end_from_trailers.
  destruct (grpc_extract_error eo (fst (http_extract_trailers known h))) as [err t'] eqn:G.
  eexists. split; [reflexivity|]. cbn [re_trailers].
  pose proof (grpc_extract_error_keeps eo (fst (http_extract_trailers known h)) k Hs) as K. rewrite G in K. cbn [snd] in K.
  rewrite K. apply extract_prefixed_trailer; assumption.
Qed.

(** ... and the end is handed to the client as it is, in the place its protocol has for it *)
Definition end_events (o : end_out) : list devent :=
  match o with EndNothing => [] | EndBody e => [DEnd e] | EndTrailers e => [DTrailers e] end.

Transparent report_end write_end.
Theorem reported_end_is_delivered cx e c m : c_end_written c = false -> c_flushed c = true ->
  c_meta c = Some m -> rm_pending_trailers m = [] ->
  c_out (report_end cx e c) =
  c_out c ++ end_events (encode_end (w_client cx) (w_limit cx) (w_end_len cx) e false) ++ [DDone; DFlush].
Proof.
  intros Ew Fl Em Ep. unfold report_end. rewrite Ew, Fl, Em, Ep. unfold write_end.
  destruct (encode_end _ _ _ e false); unfold emit; cbn [c_out end_events]; rewrite <- ?app_assoc; reflexivity.
Qed.
Opaque report_end write_end.
