(** The response side never reaches a state the Go code would panic in (a nil sink, a nil
    enveloper, a nil respMeta), and the fuel of the model's loops always suffices
    (Model/Response.v). *)
From VG Require Import Model.Bytes Model.Stream Model.Envelope Model.Headers Model.RespMeta Model.Reader Model.Response.
From VG Require Import Proofs.StreamProofs Proofs.ResponseProofs Proofs.BoundProofs.
From Coq Require Import Lia.
Open Scope Z_scope.

Lemma zdrop_length_le {A} k (l : list A) : (length (zdrop k l) <= length l)%nat.
Proof. unfold zdrop. rewrite skipn_length. lia. Qed.

Lemma zdrop_length_lt {A} k (l : list A) : 1 <= k -> l <> [] -> (length (zdrop k l) < length l)%nat.
Proof.
  intros Hk Hl. unfold zdrop. rewrite skipn_length. destruct l; [congruence|]. cbn [length]. lia.
Qed.

(** * envelopingWriter *)
Definition EwNP (cx : wctx) (w : ew) : Prop :=
  (ew_fixed w = false -> 0 <= ew_remaining w -> w_senv cx <> None) /\
  (ew_wenv w = true -> ew_fixed w = false /\ 0 < ew_remaining w) /\
  (ew_wenv w = false -> ew_cur w <> ECNone).

Definition ew_measure (data : bytes) (w : ew) : nat := (2 * length data + (if ew_wenv w then 1 else 2))%nat.

Lemma ew_cur_write_np cx d c w c' w' r :
  ew_cur w <> ECNone -> ew_cur_write cx d c w = (c', w', r) -> r <> WPanic /\ ew_cur w' <> ECNone /\ ew_wenv w' = ew_wenv w /\ ew_fixed w' = ew_fixed w.
Proof.
  intros Hc H. unfold ew_cur_write in H. destruct (ew_cur w) as [| |b|b] eqn:Ec; [congruence| | |].
  - destruct (sink_write cx d c) as [c1 ok]. injection H as <- <- <-. rewrite Ec. destruct ok; repeat split; discriminate.
  - injection H as <- <- <-. cbn. repeat split; discriminate.
  - destruct (w_limit cx <? zlen b + zlen d); injection H as <- <- <-; [rewrite Ec|cbn]; repeat split; discriminate.
Qed.

Definition EwOK (cx : wctx) (w : ew) : Prop := ew_err w = true \/ EwNP cx w.

Ltac ew_err_left := left; reflexivity.

Lemma ew_loop_np cx : forall f data c w c' w' r,
  (ew_measure data w < f)%nat -> EwOK cx w -> 0 <= ew_remaining w -> ew_loop f cx data c w = (c', w', r) -> r <> WPanic /\ EwOK cx w'.
Proof.
  induction f as [|f IH]; intros data c w c' w' r Hf HN Hr0 H; [lia|]. cbn [ew_loop] in H.
  destruct (ew_err w) eqn:Er; [injection H as _ <- <-; split; [discriminate|left; exact Er]|].
  destruct HN as [HN|(Hfx & Ha & Hb)]; [congruence|].
  pose proof (zlen_nonneg data) as Hd0.
  destruct (Z.ltb_spec (zlen data) (ew_remaining w)) as [Hlt|Hge].
  { destruct (ew_wenv w) eqn:Ew.
    - injection H as _ <- <-. split; [discriminate|]. right. destruct (Ha eq_refl) as (Hfix & _).
      unfold EwNP, ew_upd. cbn. split; [intros F0 _; apply Hfx; [exact F0|exact Hr0]|]. split; [intros _; split; [exact Hfix|lia]|discriminate].
    - destruct (ew_cur_write cx data c w) as [[c1 w1] r1] eqn:CW.
      destruct (ew_cur_write_np _ _ _ _ _ _ _ (Hb eq_refl) CW) as (Np & Hc1 & Hw1 & Hf1).
      destruct r1; injection H as _ <- <-; (split; [try discriminate; congruence|]).
      + right. unfold EwNP, ew_upd. cbn. rewrite Hw1, Hf1, Ew. split; [intros F0 _; apply Hfx; [exact F0|exact Hr0]|]. split; [discriminate|intros _; exact Hc1].
      + left. reflexivity.
      + congruence. }
  destruct (ew_wenv w) eqn:Ew.
  { destruct (Ha eq_refl) as (Hfix & Hr). pose proof (Hfx Hfix Hr0) as Hs.
    destruct (w_senv cx) as [se|] eqn:Es; [|congruence].
    assert (Hnz : data <> []) by (intros ->; cbn in Hge; lia).
    assert (Hshort : (length (zdrop (ew_remaining w) data) < length data)%nat) by (apply zdrop_length_lt; [lia|exact Hnz]).
    destruct (decode_env se _) as [env|] eqn:De; [|injection H as _ <- <-; split; [discriminate|left; reflexivity]].
    destruct (e_trailer env).
    - destruct (w_limit cx <? e_len env); [injection H as _ <- <-; split; [discriminate|left; reflexivity]|].
      eapply IH; [|right| |exact H]; [unfold ew_measure, ew_upd in *; cbn; rewrite Ew in Hf; lia| |cbn; eapply decode_env_len_nonneg; exact De].
      unfold EwNP, ew_upd. cbn. rewrite Es. split; [intros _ _; discriminate|]. split; [discriminate|intros _; discriminate].
    - destruct (w_cenv cx) as [ce|].
      + destruct (sink_write cx _ c) as [c1 ok]. destruct ok; [|injection H as _ <- <-; split; [discriminate|left; reflexivity]].
        eapply IH; [|right| |exact H]; [unfold ew_measure, ew_upd in *; cbn; rewrite Ew in Hf; lia| |cbn; eapply decode_env_len_nonneg; exact De].
        unfold EwNP, ew_upd. cbn. rewrite Es. split; [intros _ _; discriminate|]. split; [discriminate|intros _; discriminate].
      + eapply IH; [|right| |exact H]; [unfold ew_measure, ew_upd in *; cbn; rewrite Ew in Hf; lia| |cbn; eapply decode_env_len_nonneg; exact De].
        unfold EwNP, ew_upd. cbn. rewrite Es. split; [intros _ _; discriminate|]. split; [discriminate|intros _; discriminate]. }
  destruct (ew_cur_write cx _ c w) as [[c1 w1] r1] eqn:CW.
  destruct (ew_cur_write_np _ _ _ _ _ _ _ (Hb eq_refl) CW) as (Np & Hc1 & Hw1 & Hf1).
  destruct r1; try (injection H as _ <- <-; split; [try discriminate; congruence|left; reflexivity]).
  2:{ congruence. }
  match type of H with (if ?b then _ else _) = _ => destruct b end.
  - match type of H with (match ?p with _ => _ end) = _ => destruct p as [pl|] end; [|injection H as _ <- <-; split; [discriminate|left; reflexivity]].
    destruct (decode_end_from_message cx pl); injection H as _ <- <-; (split; [try (destruct (zdrop _ data)); discriminate|left; reflexivity]).
  - match type of H with (if ?b then _ else _) = _ => destruct b eqn:Fx end.
    + destruct (zdrop (ew_remaining w) data); injection H as _ <- <-; (split; [discriminate|]); [|left; reflexivity].
      right. cbn in Fx. unfold EwNP. cbn. rewrite Hw1, Ew. split; [intros D; discriminate|]. split; [discriminate|intros _; exact Hc1].
    + eapply IH; [|right| |exact H].
      * pose proof (zdrop_length_le (ew_remaining w) data). unfold ew_measure, ew_upd in *. cbn. rewrite Ew in Hf. lia.
      * cbn in Fx. unfold EwNP, ew_upd. cbn. split; [intros _ _; apply Hfx; [congruence|exact Hr0]|]. split; [intros _; split; [exact Fx|lia]|discriminate].
      * cbn. lia.
Qed.

(** the state between Writes: not yet initialised, or consistent *)
Definition EwReady (cx : wctx) (w : ew) : Prop := ew_init w = false \/ (EwOK cx w /\ -1 <= ew_remaining w).

Lemma ew_maybe_init_np cx cl c w c' w' : -1 <= cl ->
  EwReady cx w -> ew_maybe_init cx cl c w = (c', w') -> EwOK cx w' /\ -1 <= ew_remaining w'.
Proof.
  intros Hcl HN H. unfold ew_maybe_init in H. destruct (ew_init w) eqn:Ei.
  { injection H as <- <-. destruct HN as [D|HN]; [congruence|exact HN]. }
  destruct (w_senv cx) as [se|] eqn:Es.
  { injection H as <- <-. split; [|cbn; lia]. right. unfold EwNP. cbn. rewrite Es. split; [intros _ _; discriminate|]. split; [intros _; split; [reflexivity|lia]|discriminate]. }
  destruct (w_cenv cx) as [ce|].
  - destruct (Z.eqb_spec cl (-1)).
    + injection H as <- <-. split; [|cbn; lia]. right. unfold EwNP. cbn. split; [intros _ D; lia|]. split; [discriminate|intros _; discriminate].
    + destruct (w_limit cx <? cl); [injection H as <- <-; split; [left; reflexivity|cbn; lia]|].
      destruct (sink_write cx _ c) as [c1 ok]. injection H as <- <-. split; [|cbn; lia]. right. unfold EwNP. cbn.
      split; [discriminate|]. split; [discriminate|intros _; discriminate].
  - injection H as <- <-. split; [|cbn; lia]. right. unfold EwNP. cbn. split; [intros _ D; lia|]. split; [discriminate|intros _; discriminate].
Qed.

Lemma ew_write_np cx cl d c w c' w' r : -1 <= cl ->
  EwReady cx w -> ew_write cx cl d c w = (c', w', r) -> r <> WPanic /\ EwOK cx w' /\ -1 <= ew_remaining w'.
Proof.
  intros Hcl HN H. unfold ew_write in H.
  destruct (ew_maybe_init cx cl c w) as [c0 w0] eqn:MI.
  destruct (ew_maybe_init_np _ _ _ _ _ _ Hcl HN MI) as (OK0 & R0).
  destruct (ew_err w0) eqn:Er; [injection H as _ <- <-; split; [discriminate|split; [left; exact Er|exact R0]]|].
  destruct OK0 as [D|NP]; [congruence|].
  destruct (ew_complete w0).
  - destruct d; injection H as _ <- <-; (split; [discriminate|split; [|exact R0]]); [right; exact NP|left; reflexivity].
  - destruct (Z.eqb_spec (ew_remaining w0) (-1)) as [E1|N1].
    + destruct NP as (Hfx & Ha & Hb).
      assert (Wn : ew_wenv w0 = false) by (destruct (ew_wenv w0) eqn:E; [destruct (Ha eq_refl); lia|reflexivity]).
      destruct (ew_cur_write cx d c0 w0) as [[c1 w1] r1] eqn:CW.
      destruct (ew_cur_write_np _ _ _ _ _ _ _ (Hb Wn) CW) as (Np & Hc1 & Hw1 & Hf1).
      assert (R1 : ew_remaining w1 = ew_remaining w0) by (eapply ew_cur_write_rem; eauto).
      destruct r1; injection H as _ <- <-; (split; [try discriminate; congruence|split; [|cbn; lia]]).
      * right. unfold EwNP. rewrite Hw1, Hf1, Wn, R1, E1. split; [intros _ D; lia|]. split; [discriminate|intros _; exact Hc1].
      * left. reflexivity.
      * congruence.
    + assert (Hr0 : 0 <= ew_remaining w0) by lia.
      assert (Hfu : (ew_measure d w0 < ew_fuel d)%nat) by (unfold ew_fuel, ew_measure; destruct (ew_wenv w0); lia).
      destruct (ew_loop_np cx _ _ _ _ _ _ _ Hfu (or_intror NP) Hr0 H) as (Np & OK1).
      split; [exact Np|]. split; [exact OK1|]. pose proof (ew_loop_rem cx _ _ _ _ _ _ _ Hr0 H). lia.
Qed.

(** * transformingWriter *)
Definition tw_b (w : tw) : bytes := match tw_buf w with Some b => b | None => [] end.

Definition TwNP (cx : wctx) (w : tw) : Prop :=
  w_senv cx <> None /\ (tw_wenv w = true -> zlen (tw_b w) < tw_expect w) /\ tw_expect w <> -1.

Definition TwOK (cx : wctx) (w : tw) : Prop := tw_err w = true \/ TwNP cx w.

Definition tw_measure (data : bytes) (w : tw) : nat := (2 * length data + (if tw_wenv w then 1 else 2))%nat.

Lemma tw_reset_np cx c w : w_senv cx <> None -> TwNP cx (tw_reset cx c w).
Proof.
  intros Hs. unfold tw_reset. destruct (w_senv cx) eqn:Es; [|congruence].
  unfold TwNP, tw_b. cbn. rewrite Es. split; [exact Hs|]. split; [intros _; unfold zlen; cbn; lia|lia].
Qed.

Lemma tw_flush_message_w cx c w c' w' : tw_flush_message cx c w = FOk c' w' ->
  tw_err w' = true \/ w' = tw_reset cx c' w.
Proof.
  unfold tw_flush_message. destruct (e_trailer (tw_latest w)).
  - match goal with |- context [match ?p with Some _ => _ | None => _ end] => destruct p as [pl|] end; [|discriminate].
    destruct (decode_end_from_message cx pl); [|discriminate]. intros [= <- <-]. left. reflexivity.
  - destruct (advance_resp cx _ _ _); [|discriminate].
    match goal with |- context [match ?p with Some _ => _ | None => _ end] => destruct p as [env|] end; [|discriminate].
    match goal with |- context [let '(c1, ok1) := ?p in _] => destruct p as [c1 ok1] end.
    destruct ok1; cbn [negb]; [|discriminate]. destruct (sink_write cx b c1) as [c2 ok2]. destruct ok2; cbn [negb]; [|discriminate].
    intros [= <- <-]. right. reflexivity.
Qed.

Lemma tw_loop_np cx : forall f data c w c' w' r,
  (tw_measure data w < f)%nat -> TwOK cx w -> tw_loop f cx data c w = (c', w', r) -> r <> WPanic /\ TwOK cx w'.
Proof.
  induction f as [|f IH]; intros data c w c' w' r Hf HN H; [lia|]. cbn [tw_loop] in H.
  destruct (tw_err w) eqn:Er; [injection H as _ <- <-; split; [discriminate|left; exact Er]|].
  destruct HN as [D|(Hs & Hb & He)]; [congruence|]. cbv zeta in H. fold (tw_b w) in H.
  pose proof (zlen_nonneg data) as Hd0.
  destruct (Z.ltb_spec (zlen data) (tw_expect w - zlen (tw_b w))) as [Hlt|Hge].
  { injection H as _ <- <-. split; [discriminate|]. right. unfold TwNP, tw_b. cbn. split; [exact Hs|]. split; [intros _; fold (tw_b w); rewrite zlen_app; lia|exact He]. }
  destruct (tw_wenv w) eqn:Ew.
  - destruct (w_senv cx) as [se|] eqn:Es; [|congruence].
    specialize (Hb eq_refl).
    assert (Hnz : data <> []) by (intros ->; cbn in Hge; lia).
    assert (Hshort : (length (zdrop (tw_expect w - zlen (tw_b w)) data) < length data)%nat) by (apply zdrop_length_lt; [lia|exact Hnz]).
    match type of H with (match ?p with Some _ => _ | None => _ end) = _ => destruct p as [env|] eqn:De end;
      [|injection H as _ <- <-; split; [discriminate|left; reflexivity]].
    destruct (w_limit cx <? e_len env); [injection H as _ <- <-; split; [discriminate|left; reflexivity]|].
    pose proof (decode_env_len_nonneg _ _ _ De) as Hlen.
    eapply IH; [|right|exact H]; [unfold tw_measure in *; cbn; rewrite Ew in Hf; lia|].
    unfold TwNP, tw_b. cbn. rewrite Es. split; [discriminate|]. split; [discriminate|lia].
  - match type of H with context [tw_flush_message cx c ?w0] => destruct (tw_flush_message cx c w0) as [c1 w1|e c1 w1 rep] eqn:FM end.
    + match type of H with (if ?b then _ else _) = _ => destruct b end.
      * injection H as _ <- <-. split; [discriminate|].
        destruct (tw_flush_message_w _ _ _ _ _ FM) as [E|E]; [left; exact E|right; rewrite E; apply tw_reset_np; exact Hs].
      * eapply IH; [| |exact H].
        -- pose proof (zdrop_length_le (tw_expect w - zlen (tw_b w)) data). unfold tw_measure in *. cbn. rewrite Ew in Hf. lia.
        -- destruct (tw_flush_message_w _ _ _ _ _ FM) as [E|E]; [left; cbn; exact E|]. rewrite E.
           right. pose proof (tw_reset_np cx c1 (mkTw (tw_err w) (Some (tw_b w ++ ztake (tw_expect w - zlen (tw_b w)) data)) (tw_expect w) false (tw_latest w) (tw_wascomp w)) Hs) as (R1 & R2 & R3).
           unfold TwNP, tw_b in *. cbn. split; [exact Hs|]. split; [|lia].
           intros _. unfold tw_reset in *. destruct (w_senv cx); [cbn; unfold zlen; cbn; lia|congruence].
    + injection H as _ <- <-. split; [discriminate|left; reflexivity].
Qed.

Definition TwReady (cx : wctx) (w : tw) : Prop :=
  tw_err w = true \/ tw_buf w = None \/ tw_expect w = -1 \/ TwNP cx w.

Lemma tw_write_np cx d c w c' w' r : TwReady cx w -> tw_write cx d c w = (c', w', r) -> r <> WPanic /\ TwReady cx w'.
Proof.
  intros HN H. unfold tw_write in H.
  destruct (tw_err w) eqn:Er; [injection H as _ <- <-; split; [discriminate|left; exact Er]|].
  set (w0 := match tw_buf w with None => tw_reset cx c w | Some _ => w end) in *.
  assert (H0 : tw_err w0 = false /\ (tw_expect w0 = -1 \/ TwNP cx w0)).
  { unfold w0. destruct (tw_buf w) eqn:Eb.
    - split; [exact Er|]. destruct HN as [D|[D|[E|N]]]; [congruence|congruence|left; exact E|right; exact N].
    - unfold tw_reset. destruct (w_senv cx) eqn:Es; cbn; (split; [exact Er|]); [right|left; reflexivity].
      unfold TwNP, tw_b. cbn. rewrite Es. split; [discriminate|]. split; [intros _; unfold zlen; cbn; lia|lia]. }
  clearbody w0. destruct H0 as (Er0 & H0).
  destruct (Z.eqb_spec (tw_expect w0) (-1)) as [E1|N1].
  - match type of H with (if ?b then _ else _) = _ => destruct b end; injection H as _ <- <-; (split; [discriminate|]); [left; reflexivity|].
    right; right; left. exact E1.
  - destruct H0 as [D|NP]; [congruence|].
    assert (Hfu : (tw_measure d w0 < 2 * length d + 4)%nat) by (unfold tw_measure; destruct (tw_wenv w0); lia).
    destruct (tw_loop_np cx _ _ _ _ _ _ _ Hfu (or_intror NP) H) as (Np & [E|N]).
    + split; [exact Np|left; exact E].
    + split; [exact Np|right; right; right; exact N].
Qed.

(** * respMeta, once set, stays set *)
Definition MS (c : rwc) : Prop := c_meta c <> None.

Transparent report_end report_error write_end.
Lemma write_end_ms cx e wih c : MS c -> MS (write_end cx e wih c).
Proof. unfold MS, write_end. destruct (encode_end _ _ _ _ _); cbn; auto. Qed.

Lemma flush_headers_ms cx c : MS c -> MS (flush_headers cx c).
Proof.
  intros H. destruct (c_flushed c) eqn:Fl; [rewrite flush_headers_noop by exact Fl; exact H|].
  unfold MS in *. destruct (c_meta c) as [m|] eqn:Em; [|congruence].
  destruct (flush_headers_spec cx c m Fl Em) as (evs & _ & _ & _ & _ & Hm & _). rewrite Hm. discriminate.
Qed.

Lemma report_end_ms cx e c : MS c -> MS (report_end cx e c).
Proof.
  intros H. unfold report_end. destruct (c_end_written c); [exact H|].
  set (e' := match c_meta c with Some m => _ | None => e end). clearbody e'.
  destruct (c_flushed c) eqn:Fl.
  - unfold MS. cbn [c_meta emit]. apply write_end_ms. exact H.
  - set (c0 := mkRwc _ _ _ (Some _) _ _ _ _). unfold MS. cbn [c_meta emit].
    apply (flush_headers_ms cx c0). unfold MS, c0. cbn. discriminate.
Qed.
Lemma report_error_ms cx e c : MS c -> MS (report_error cx e c).
Proof. apply report_end_ms. Qed.
Opaque report_end report_error write_end.

Lemma sink_write_ms cx d c c' ok : MS c -> sink_write cx d c = (c', ok) -> MS c'.
Proof.
  intros H E. unfold sink_write in E. destruct (end_must_be_in_headers (w_client cx)).
  - destruct (c_buf c) as [b|]; [|injection E as <- <-; exact H].
    destruct (w_limit cx <? zlen b + zlen d); injection E as <- <-; [apply report_error_ms; exact H|exact H].
  - destruct d; injection E as <- <-; exact H.
Qed.

Lemma flush_message_ms c : MS c -> MS (flush_message c).
Proof. unfold flush_message. destruct (c_buf c); auto. Qed.

Lemma ew_cur_write_ms cx d c w c' w' r : MS c -> ew_cur_write cx d c w = (c', w', r) -> MS c'.
Proof.
  intros H E. unfold ew_cur_write in E. destruct (ew_cur w) as [| |b|b]; try (injection E as <- _ _; exact H).
  - destruct (sink_write cx d c) as [c1 ok] eqn:S. injection E as <- _ _. eapply sink_write_ms; eauto.
  - destruct (w_limit cx <? zlen b + zlen d); injection E as <- _ _; [apply report_error_ms; exact H|exact H].
Qed.

Lemma ew_loop_ms cx : forall f data c w c' w' r, MS c -> ew_loop f cx data c w = (c', w', r) -> MS c'.
Proof.
  induction f as [|f IH]; intros data c w c' w' r HM H; cbn [ew_loop] in H; [injection H as <- _ _; exact HM|].
  destruct (ew_err w); [injection H as <- _ _; exact HM|].
  destruct (zlen data <? ew_remaining w).
  { destruct (ew_wenv w); [injection H as <- _ _; exact HM|].
    destruct (ew_cur_write cx data c w) as [[c1 w1] r1] eqn:CW. pose proof (ew_cur_write_ms _ _ _ _ _ _ _ HM CW).
    destruct r1; injection H as <- _ _; assumption. }
  destruct (ew_wenv w).
  { destruct (w_senv cx) as [se|]; [|injection H as <- _ _; exact HM].
    destruct (decode_env se _) as [env|]; [|injection H as <- _ _; apply report_error_ms; exact HM].
    destruct (e_trailer env).
    - destruct (w_limit cx <? e_len env); [injection H as <- _ _; apply report_error_ms; exact HM|eapply IH; eauto].
    - destruct (w_cenv cx); [|eapply IH; eauto].
      destruct (sink_write cx _ c) as [c1 ok] eqn:S. pose proof (sink_write_ms _ _ _ _ _ HM S).
      destruct ok; [eapply IH; eauto|injection H as <- _ _; assumption]. }
  destruct (ew_cur_write cx _ c w) as [[c1 w1] r1] eqn:CW. pose proof (ew_cur_write_ms _ _ _ _ _ _ _ HM CW) as M1.
  destruct r1; try (injection H as <- _ _; exact M1).
  match type of H with (if ?b then _ else _) = _ => destruct b end.
  - match type of H with (match ?p with _ => _ end) = _ => destruct p as [pl|] end; [|injection H as <- _ _; exact M1].
    destruct (decode_end_from_message cx pl); injection H as <- _ _; [apply report_end_ms|apply report_error_ms]; exact M1.
  - match type of H with (if ?b then _ else _) = _ => destruct b end; [|eapply IH; [apply flush_message_ms; exact M1|exact H]].
    destruct (zdrop (ew_remaining w) data); injection H as <- _ _; [|apply report_error_ms]; apply flush_message_ms; exact M1.
Qed.

Lemma ew_write_ms cx cl d c w c' w' r : MS c -> ew_write cx cl d c w = (c', w', r) -> MS c'.
Proof.
  intros HM H. unfold ew_write in H.
  assert (M0 : forall c0 w0, ew_maybe_init cx cl c w = (c0, w0) -> MS c0).
  { intros c0 w0 E. unfold ew_maybe_init in E. destruct (ew_init w); [injection E as <- _; exact HM|].
    destruct (w_senv cx); [injection E as <- _; exact HM|]. destruct (w_cenv cx); [|injection E as <- _; exact HM].
    destruct (cl =? -1); [injection E as <- _; exact HM|]. destruct (w_limit cx <? cl); [injection E as <- _; apply report_error_ms; exact HM|].
    destruct (sink_write cx _ c) as [c1 ok] eqn:S. injection E as <- _. eapply sink_write_ms; eauto. }
  destruct (ew_maybe_init cx cl c w) as [c0 w0]. specialize (M0 _ _ eq_refl).
  destruct (ew_err w0); [injection H as <- _ _; exact M0|].
  destruct (ew_complete w0).
  - destruct d; injection H as <- _ _; [exact M0|apply report_error_ms; exact M0].
  - destruct (ew_remaining w0 =? -1).
    + destruct (ew_cur_write cx d c0 w0) as [[c1 w1] r1] eqn:CW. pose proof (ew_cur_write_ms _ _ _ _ _ _ _ M0 CW).
      destruct r1; injection H as <- _ _; assumption.
    + eapply ew_loop_ms; eauto.
Qed.

Lemma ew_close_ms cx c w c' w' : MS c -> ew_close cx c w = (c', w') -> MS c'.
Proof.
  intros HM H. unfold ew_close in H.
  set (w0 := if c_end_written c then ew_set_err w else w) in *.
  assert (T : forall c1 w1 (cc : rwc) (ww : ew), MS c1 ->
            (let normal_eof := ew_wenv w1 && (ew_remaining w1 =? 5) in
             let c2 := if (0 <? ew_remaining w1) && negb normal_eof then report_error cx EOther c1 else c1 in
             (c2, mkEw (ew_init w1) true (ew_wenv w1) (ew_envacc w1) 0 ECNone (ew_is_trailer w1) (ew_trailer_comp w1) (ew_fixed w1) (ew_complete w1))) = (cc, ww) ->
            MS cc).
  { intros c1 w1 cc ww B1 E. cbv zeta in E. injection E as <- <-.
    destruct ((0 <? ew_remaining w1) && negb (ew_wenv w1 && (ew_remaining w1 =? 5))); [apply report_error_ms; exact B1|exact B1]. }
  destruct (ew_cur w0) as [| |b|b] eqn:Ec; try (eapply T; [exact HM|exact H]).
  destruct ((ew_remaining w0 =? -1) && negb (ew_err w0)); [|eapply T; [exact HM|exact H]].
  destruct (w_cenv cx) as [ce|]; [|eapply T; [exact HM|exact H]].
  cbv zeta in H.
  match type of H with context [sink_write cx ?e c] => destruct (sink_write cx e c) as [c1 ok] eqn:S1 end.
  pose proof (sink_write_ms _ _ _ _ _ HM S1) as B1.
  destruct ok; [|eapply T; [exact B1|exact H]].
  destruct (sink_write cx b c1) as [c2 ok2] eqn:S2. pose proof (sink_write_ms _ _ _ _ _ B1 S2) as B2.
  eapply T; [exact B2|exact H].
Qed.

Lemma tw_flush_message_ms cx c w : MS c ->
  match tw_flush_message cx c w with FOk c' _ => MS c' | FErr _ c' _ _ => MS c' end.
Proof.
  intros HM. unfold tw_flush_message. destruct (e_trailer (tw_latest w)).
  - match goal with |- context [match ?p with Some _ => _ | None => _ end] => destruct p as [pl|] end; [|exact HM].
    destruct (decode_end_from_message cx pl); [apply report_end_ms|apply report_error_ms]; exact HM.
  - destruct (advance_resp cx _ _ _); [|exact HM].
    match goal with |- context [match ?p with Some _ => _ | None => _ end] => destruct p as [env|] end; [|exact HM].
    assert (S1 : exists c1 ok1, (match env with [] => (c, true) | _ => sink_write cx env c end) = (c1, ok1) /\ MS c1).
    { destruct env as [|x en]; [exists c, true; auto|]. destruct (sink_write cx (x :: en) c) as [c1 ok1] eqn:S. exists c1, ok1. split; [reflexivity|eapply sink_write_ms; eauto]. }
    destruct S1 as (c1 & ok1 & -> & M1). destruct ok1; cbn [negb]; [|exact M1].
    destruct (sink_write cx b c1) as [c2 ok2] eqn:S2. pose proof (sink_write_ms _ _ _ _ _ M1 S2) as M2.
    destruct ok2; cbn [negb]; [apply flush_message_ms; exact M2|exact M2].
Qed.

Lemma tw_loop_ms cx : forall f data c w c' w' r, MS c -> tw_loop f cx data c w = (c', w', r) -> MS c'.
Proof.
  induction f as [|f IH]; intros data c w c' w' r HM H; cbn [tw_loop] in H; [injection H as <- _ _; exact HM|].
  destruct (tw_err w); [injection H as <- _ _; exact HM|]. cbv zeta in H.
  match type of H with (if ?b then _ else _) = _ => destruct b end; [injection H as <- _ _; exact HM|].
  destruct (tw_wenv w).
  - destruct (w_senv cx) as [se|]; [|injection H as <- _ _; exact HM].
    match type of H with (match ?p with Some _ => _ | None => _ end) = _ => destruct p as [env|] end; [|injection H as <- _ _; apply report_error_ms; exact HM].
    destruct (w_limit cx <? e_len env); [injection H as <- _ _; apply report_error_ms; exact HM|eapply IH; eauto].
  - match type of H with context [tw_flush_message cx c ?w0] => pose proof (tw_flush_message_ms cx c w0 HM) as FM; destruct (tw_flush_message cx c w0) as [c1 w1|e c1 w1 rep] end.
    + match type of H with (if ?b then _ else _) = _ => destruct b end; [injection H as <- _ _; exact FM|eapply IH; eauto].
    + injection H as <- _ _. destruct rep; [exact FM|apply report_error_ms; exact FM].
Qed.

Lemma tw_write_ms cx d c w c' w' r : MS c -> tw_write cx d c w = (c', w', r) -> MS c'.
Proof.
  intros HM H. unfold tw_write in H. destruct (tw_err w); [injection H as <- _ _; exact HM|].
  match type of H with (if ?b then _ else _) = _ => destruct b end; [|eapply tw_loop_ms; eauto].
  match type of H with (if ?b then _ else _) = _ => destruct b end; injection H as <- _ _; [apply report_error_ms|]; exact HM.
Qed.

Lemma tw_close_ms cx c w c' w' : MS c -> tw_close cx c w = (c', w') -> MS c'.
Proof.
  intros HM H. unfold tw_close in H. injection H as <- _.
  destruct (tw_err w || c_end_written c); [exact HM|].
  destruct (tw_expect w =? -1).
  - pose proof (tw_flush_message_ms cx c w HM) as FM. destruct (tw_flush_message cx c w) as [c1 w1|e c1 w1 rep]; [exact FM|].
    destruct rep; [exact FM|apply report_error_ms; exact FM].
  - destruct (tw_buf w) as [[|x b]|]; try exact HM; try (apply report_error_ms; exact HM).
    destruct (tw_wenv w); [exact HM|apply report_error_ms; exact HM].
Qed.

(** * responseWriter *)
Definition RwNP (cx : wctx) (r : rw) : Prop :=
  RwInv cx r /\ -1 <= r_content_len r /\
  (r_headers_written r = true -> c_end_written (r_core r) = false -> r_w r <> BNone /\ MS (r_core r)) /\
  match r_w r with BEnv w => EwReady cx w | BTrans w => TwReady cx w | _ => True end.

Lemma report_error_ended' cx e c : c_end_written (report_error cx e c) = true.
Proof. apply report_error_ended. Qed.

Lemma rw_write_header_np cx st r : RwNP cx r -> RwNP cx (rw_write_header cx st r).
Proof.
  intros (HR & Hc & HW & HB). pose proof (rw_write_header_inv cx st r HR) as HR'.
  split; [exact HR'|]. clear HR'. unfold rw_write_header.
  destruct (r_headers_written r) eqn:Hw; [split; [exact Hc|split; [rewrite Hw; exact HW|exact HB]]|].
  destruct HR as (_ & _ & H0). destruct (H0 Hw) as (Wn & _ & Fe). clear H0.
  cbn [r_core r_w r_content_len].
  destruct (c_end_written (r_core r)) eqn:Ew.
  { split; [exact Hc|]. split; [cbn; intros _ E; congruence|cbn; rewrite Wn; exact I]. }
  assert (Fl : c_flushed (r_core r) = false) by (destruct (c_flushed (r_core r)); [specialize (Fe eq_refl); discriminate|reflexivity]).
  destruct (extract_content_length (c_hdr (r_core r))) as [[clen h1]|] eqn:EC.
  2:{ unfold set_core. split; [exact Hc|]. split; [cbn; intros _ E; rewrite report_error_ended in E; discriminate|cbn; rewrite Wn; exact I]. }
  pose proof (extract_content_length_ge _ _ _ EC) as Hcl.
  destruct (extract_response (w_eor cx) (w_server cx) st h1) as [[m0 proc] h2].
  match goal with |- context [let '(m1, h3) := ?p in _] => destruct p as [m1 h3] end.
  cbv zeta.
  match goal with |- context [if ?b then set_core _ _ else _] => destruct b end.
  { unfold set_core. split; [cbn; exact Hcl|]. split; [cbn; intros _ E; rewrite report_error_ended in E; discriminate|cbn; rewrite Wn; exact I]. }
  set (m2 := mkMeta (rm_end m1) (rm_codec m1) _ (rm_accept m1) (rm_pending_trailers m1) (rm_pending_keys m1)).
  set (c1 := mkRwc _ _ _ (Some m2) _ _ _ _).
  set (c2 := mkRwc (c_hdr c1) _ _ _ _ _ _ _).
  assert (Fl2 : c_flushed c2 = false) by (unfold c2, c1; cbn; exact Fl).
  assert (M2 : c_meta c2 = Some m2) by reflexivity.
  destruct (flush_headers_spec cx c2 m2 Fl2 M2) as (evs & _ & _ & _ & _ & Hm & Hwr & _).
  destruct (rm_end m2) as [e1|] eqn:Ee.
  - destruct proc.
    + split; [cbn; exact Hcl|]. split; [|cbn; exact I]. cbn [r_headers_written r_core r_w]. intros _ E. rewrite Hwr in E. discriminate.
    + split; [cbn; exact Hcl|]. split; [|cbn; exact I]. cbn [r_headers_written r_core r_w]. intros _ _. split; [discriminate|unfold MS, c2, c1; cbn; discriminate].
    + split; [cbn; exact Hcl|]. split; [|cbn; exact I]. cbn [r_headers_written r_core r_w]. intros _ _. split; [discriminate|unfold MS, c2, c1; cbn; discriminate].
  - match goal with |- context [if ?b then mkRw (report_error _ _ _) _ _ _ else _] => destruct b end.
    { split; [cbn; exact Hcl|]. split; [cbn; intros _ E; rewrite report_error_ended in E; discriminate|cbn; rewrite Wn; exact I]. }
    split; [cbn; exact Hcl|]. cbn [r_headers_written r_core r_w]. split.
    + intros _ _. split; [match goal with |- context [if ?b then BEnv ew0 else BTrans tw0] => destruct b end; discriminate|].
      destruct (end_must_be_in_headers (w_client cx)); [unfold MS; cbn; discriminate|unfold MS; rewrite Hm; discriminate].
    + match goal with |- context [if ?b then BEnv ew0 else BTrans tw0] => destruct b end; [left; reflexivity|right; left; reflexivity].
Qed.

Lemma rw_write_np cx d r r' res : RwNP cx r -> rw_write cx d r = (r', res) -> res <> WPanic /\ RwNP cx r'.
Proof.
  intros HN H. pose proof HN as (HR & _). destruct (rw_write_inv cx d r r' res HR H) as (HR' & Hw').
  unfold rw_write in H.
  set (r0 := if r_headers_written r then r else rw_write_header cx 200 r) in *.
  assert (HN0 : RwNP cx r0) by (unfold r0; destruct (r_headers_written r); [exact HN|apply rw_write_header_np; exact HN]).
  assert (HW0 : r_headers_written r0 = true) by (unfold r0; destruct (r_headers_written r) eqn:E; [exact E|apply rw_write_header_written]).
  clearbody r0. destruct HN0 as (HR0 & Hc0 & HX0 & HB0).
  destruct (c_err (r_core r0)) eqn:Er.
  { injection H as <- <-. split; [discriminate|]. split; [exact HR0|]. split; [exact Hc0|]. split; [exact HX0|exact HB0]. }
  assert (Ew : c_end_written (r_core r0) = false) by (destruct HR0 as ((_ & _ & _ & He) & _); congruence).
  destruct (HX0 HW0 Ew) as (Wnn & HM0).
  destruct (r_w r0) as [| |w|w|w] eqn:Ew0; [congruence| | | |].
  - injection H as <- <-. split; [discriminate|]. split; [exact HR0|]. split; [exact Hc0|]. split; [rewrite Ew0; exact HX0|rewrite Ew0; exact I].
  - destruct (xw_write cx d (r_core r0) w) as [[c w'] rs] eqn:X. injection H as <- <-.
    assert (Rs : rs <> WPanic) by (unfold xw_write in X; destruct (xw_buf w); [destruct (w_limit cx <? _)|]; injection X as _ _ <-; discriminate).
    split; [exact Rs|]. split; [exact HR'|]. split; [cbn; exact Hc0|]. split; [|cbn; exact I].
    cbn. intros _ _. split; [discriminate|]. unfold xw_write in X. destruct (xw_buf w); [destruct (w_limit cx <? _)|]; injection X as <- _ _;
      first [apply report_error_ms; exact HM0|exact HM0].
  - destruct (ew_write cx _ d (r_core r0) w) as [[c w'] rs] eqn:X. injection H as <- <-.
    destruct (ew_write_np _ _ _ _ _ _ _ _ Hc0 HB0 X) as (Np & OK & Rm).
    split; [exact Np|]. split; [exact HR'|]. split; [cbn; exact Hc0|]. split; [|cbn; right; split; assumption].
    cbn. intros _ _. split; [discriminate|eapply ew_write_ms; eauto].
  - destruct (tw_write cx d (r_core r0) w) as [[c w'] rs] eqn:X. injection H as <- <-.
    destruct (tw_write_np _ _ _ _ _ _ _ HB0 X) as (Np & OK).
    split; [exact Np|]. split; [exact HR'|]. split; [cbn; exact Hc0|]. split; [|cbn; exact OK].
    cbn. intros _ _. split; [discriminate|eapply tw_write_ms; eauto].
Qed.

Lemma xw_close_ms cx c w c' w' : MS c -> xw_close cx c w = (c', w') -> MS c'.
Proof.
  intros HM H. unfold xw_close in H. destruct (xw_buf w); [|injection H as <- _; exact HM].
  destruct (c_meta c) eqn:Em; [|injection H as <- _; exact HM]. cbv zeta in H.
  match type of H with (let '(_, _) := ?p in _) = _ => destruct p as [body e1] end.
  injection H as <- _. apply flush_headers_ms. unfold MS. cbn. discriminate.
Qed.

Lemma rw_close_np cx r r' res : RwNP cx r -> rw_close cx r = (r', res) -> res <> WPanic.
Proof.
  intros HN H. unfold rw_close in H.
  set (r0 := if r_headers_written r then r else rw_write_header cx 200 r) in *.
  assert (HN0 : RwNP cx r0) by (unfold r0; destruct (r_headers_written r); [exact HN|apply rw_write_header_np; exact HN]).
  assert (HW0 : r_headers_written r0 = true) by (unfold r0; destruct (r_headers_written r) eqn:E; [exact E|apply rw_write_header_written]).
  clearbody r0. destruct HN0 as (HR0 & Hc0 & HX0 & HB0).
  (* after the body writer: no panic, and respMeta is still there unless the end is written *)
  assert (P : forall r1 rs,
             match r_w r0 with
             | BNone => (r0, WOk)
             | BNoBody => (r0, WOk)
             | BErr w => let '(c1, w1, _) := if c_end_written (r_core r0) then (r_core r0, w, WOk) else xw_write cx [] (r_core r0) w in
                         let '(c2, w2) := xw_close cx c1 w1 in (mkRw c2 true (r_content_len r0) (BErr w2), WOk)
             | BEnv w => let '(c1, w1, res) := if c_end_written (r_core r0) then (r_core r0, w, WOk)
                                               else ew_write cx (r_content_len r0) [] (r_core r0) w in
                         match res with
                         | WPanic => (mkRw c1 true (r_content_len r0) (BEnv w1), WPanic)
                         | _ => let '(c2, w2) := ew_close cx c1 w1 in (mkRw c2 true (r_content_len r0) (BEnv w2), WOk)
                         end
             | BTrans w => let '(c1, w1, res) := if c_end_written (r_core r0) then (r_core r0, w, WOk)
                                                 else tw_write cx [] (r_core r0) w in
                           match res with
                           | WPanic => (mkRw c1 true (r_content_len r0) (BTrans w1), WPanic)
                           | _ => let '(c2, w2) := tw_close cx c1 w1 in (mkRw c2 true (r_content_len r0) (BTrans w2), WOk)
                           end
             end = (r1, rs) ->
             rs <> WPanic /\ (c_end_written (r_core r1) = false -> MS (r_core r1))).
  { intros r1 rs E.
    assert (M0 : c_end_written (r_core r0) = false -> MS (r_core r0)) by (intros Ew; apply (HX0 HW0 Ew)).
    destruct (r_w r0) as [| |w|w|w] eqn:Ew0.
    - injection E as <- <-. split; [discriminate|exact M0].
    - injection E as <- <-. split; [discriminate|exact M0].
    - destruct (c_end_written (r_core r0)) eqn:Ew.
      + destruct (xw_close cx (r_core r0) w) as [c2 w2] eqn:XC. injection E as <- <-. split; [discriminate|]. cbn. intros E2.
        (* the end stays written *)
        exfalso. pose proof (xw_close_inv cx _ _ _ _ (proj1 HR0) XC) as HI2.
        unfold xw_close in XC. destruct (xw_buf w); [|injection XC as <- _; congruence].
        destruct (c_meta (r_core r0)); [|injection XC as <- _; congruence]. cbv zeta in XC.
        match type of XC with (let '(_, _) := ?p in _) = _ => destruct p as [body e1] end.
        injection XC as <- _. rewrite flush_headers_noop in E2 by (cbn; destruct HR0 as ((_ & Hf & _) & _); apply Hf; exact Ew). cbn in E2. congruence.
      + destruct (xw_write cx [] (r_core r0) w) as [[c1 w1] x] eqn:X.
        assert (M1 : MS c1).
        { unfold xw_write in X. destruct (xw_buf w); [destruct (w_limit cx <? _)|]; injection X as <- _ _; first [apply report_error_ms; apply M0; reflexivity|apply M0; reflexivity]. }
        destruct (xw_close cx c1 w1) as [c2 w2] eqn:XC. injection E as <- <-. split; [discriminate|]. cbn. intros _. eapply xw_close_ms; eauto.
    - destruct (c_end_written (r_core r0)) eqn:Ew.
      + destruct (ew_close cx (r_core r0) w) as [c2 w2] eqn:XC. injection E as <- <-. split; [discriminate|]. cbn. intros E2. exfalso.
        unfold ew_close in XC. rewrite Ew in XC. cbn [ew_set_err ew_cur ew_remaining ew_err ew_wenv] in XC.
        assert (c2 = r_core r0 \/ c_end_written c2 = true).
        { destruct (ew_cur w); cbn [negb andb] in XC; try rewrite Bool.andb_false_r in XC;
            injection XC as <- _; match goal with |- context [if ?b then _ else _] => destruct b end; auto; right; apply report_error_ended. }
        destruct H0 as [->|E3]; congruence.
      + destruct (ew_write cx (r_content_len r0) [] (r_core r0) w) as [[c1 w1] x] eqn:X.
        destruct (ew_write_np _ _ _ _ _ _ _ _ Hc0 HB0 X) as (Np & _).
        pose proof (ew_write_ms _ _ _ _ _ _ _ _ (M0 eq_refl) X) as M1.
        destruct x; [| |congruence]; destruct (ew_close cx c1 w1) as [c2 w2] eqn:XC; injection E as <- <-; (split; [discriminate|]); cbn; intros _; eapply ew_close_ms; eauto.
    - destruct (c_end_written (r_core r0)) eqn:Ew.
      + destruct (tw_close cx (r_core r0) w) as [c2 w2] eqn:XC. injection E as <- <-. split; [discriminate|]. cbn. intros E2. exfalso.
        unfold tw_close in XC. rewrite Ew, Bool.orb_true_r in XC. injection XC as <- _. congruence.
      + destruct (tw_write cx [] (r_core r0) w) as [[c1 w1] x] eqn:X.
        destruct (tw_write_np _ _ _ _ _ _ _ HB0 X) as (Np & _).
        pose proof (tw_write_ms _ _ _ _ _ _ _ (M0 eq_refl) X) as M1.
        destruct x; [| |congruence]; destruct (tw_close cx c1 w1) as [c2 w2] eqn:XC; injection E as <- <-; (split; [discriminate|]); cbn; intros _; eapply tw_close_ms; eauto. }
  match type of H with (let '(r1, res) := ?p in _) = _ => destruct p as [r1 rs] eqn:EP end.
  destruct (P r1 rs eq_refl) as (Np & M1).
  destruct rs; [| |congruence];
    (destruct (c_end_written (r_core r1)) eqn:Ew1; [injection H as _ <-; discriminate|];
     specialize (M1 eq_refl); unfold MS in M1; destruct (c_meta (r_core r1)) as [m|]; [|congruence];
     destruct (rm_end m); [injection H as _ <-; discriminate|];
     destruct (http_extract_trailers _ _) as [tr h'];
     match type of H with context [extract_end_from_trailers ?a ?b ?c] => destruct (extract_end_from_trailers a b c) end;
     injection H as _ <-; discriminate).
Qed.

From VG Require Import Model.Request Model.Serve.

Lemma RwNP_init cx h : RwNP cx (rw_init h).
Proof.
  split; [apply RwInv_init|]. split; [cbn; lia|]. split; [cbn; discriminate|exact I].
Qed.

Lemma run_script_np cx : forall s r wr r' wr',
  RwNP cx r -> Forall (fun x => x <> WPanic) wr -> run_script cx s r wr = (r', wr') ->
  (Forall (fun x => x <> WPanic) wr' /\ RwNP cx r').
Proof.
  induction s as [|a rest IH]; intros r wr r' wr' HN HW H; cbn [run_script] in H.
  { injection H as <- <-. auto. }
  destruct a as [k v|k v|code|d| |e].
  - destruct (c_end_written (r_core r)) eqn:Ew; [eapply IH; eauto|]. eapply IH; [|exact HW|exact H].
    destruct HN as (HR & Hc & HX & HB). split; [apply RwInv_same_flow; [exact HR|repeat split; cbn; congruence]|].
    split; [exact Hc|]. split; [|exact HB]. cbn. intros E1 _. destruct (HX E1 Ew). split; auto.
  - destruct (c_end_written (r_core r)) eqn:Ew; [eapply IH; eauto|]. eapply IH; [|exact HW|exact H].
    destruct HN as (HR & Hc & HX & HB). split; [apply RwInv_same_flow; [exact HR|repeat split; cbn; congruence]|].
    split; [exact Hc|]. split; [|exact HB]. cbn. intros E1 _. destruct (HX E1 Ew). split; auto.
  - eapply IH; [|exact HW|exact H]. apply rw_write_header_np. exact HN.
  - destruct (rw_write cx d r) as [r1 rs] eqn:W. destruct (rw_write_np _ _ _ _ _ HN W) as (Np & HN1).
    destruct rs; [| |congruence]; (eapply IH; [exact HN1| |exact H]; apply Forall_app; split; [exact HW|constructor; [discriminate|constructor]]).
  - eapply IH; eauto.
  - eapply IH; [|exact HW|exact H]. destruct HN as (HR & Hc & HX & HB).
    assert (HR1 : RwInv cx (set_core r (report_error cx e (r_core r)))).
    { destruct HR as (HI & HL & HWW). destruct (report_error_inv cx e _ HI) as (HI' & Ew').
      split; [exact HI'|]. unfold set_core. cbn [r_core r_w r_headers_written]. split; [intros _ E; congruence|].
      intros E. destruct (HWW E) as (W & B & F). split; [exact W|]. split; [apply report_error_buf; exact B|intros _; exact Ew']. }
    split; [exact HR1|]. split; [exact Hc|]. unfold set_core. cbn [r_core r_w r_headers_written]. split; [|exact HB].
    intros _ E. rewrite report_error_ended in E. discriminate.
Qed.

(** No handler behaviour and no request-side failure, in any order, makes the response side panic. *)
Theorem serve_response_never_panics cx h s r wr res : serve_response cx h s = (r, wr, res) -> res <> WPanic.
Proof.
  unfold serve_response. destruct (run_script cx s (rw_init h) []) as [r0 wr0] eqn:RS.
  destruct (run_script_np cx s _ _ _ _ (RwNP_init cx h) (Forall_nil _) RS) as (FW & HN).
  destruct (existsb _ wr0) eqn:Ex.
  { exfalso. apply existsb_exists in Ex as (x & Hin & Hx). rewrite Forall_forall in FW. specialize (FW x Hin). destruct x; try discriminate. congruence. }
  destruct (rw_close cx r0) as [r1 rs] eqn:CL. intros E. injection E as _ _ <-. eapply rw_close_np; eauto.
Qed.
