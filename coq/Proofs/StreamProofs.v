(** The stream primitives depend on the upstream body only through its bytes, not through the
    way they arrive in chunks (Model/Stream.v). *)
From VG Require Import Model.Bytes Model.Stream.
From Coq Require Import Lia.
Open Scope Z_scope.

Lemma zlen_app {A} (a b : list A) : zlen (a ++ b) = zlen a + zlen b.
Proof. unfold zlen. rewrite app_length. lia. Qed.
Lemma zlen_nonneg {A} (a : list A) : 0 <= zlen a.
Proof. unfold zlen. lia. Qed.
Lemma zlen_nil_iff {A} (a : list A) : zlen a = 0 <-> a = [].
Proof. unfold zlen. destruct a; cbn; split; intros; try reflexivity; try discriminate; lia. Qed.

Lemma ztake_all {A} k (l : list A) : zlen l <= k -> ztake k l = l.
Proof. unfold ztake, zlen. intros H. rewrite Z.max_l by lia. rewrite Z.min_r by lia. rewrite Nat2Z.id. apply firstn_all. Qed.
Lemma zdrop_all {A} k (l : list A) : zlen l <= k -> zdrop k l = [].
Proof. unfold zdrop, zlen. intros H. rewrite Z.max_l by lia. rewrite Z.min_r by lia. rewrite Nat2Z.id. apply skipn_all. Qed.
Lemma ztake_nonpos {A} k (l : list A) : k <= 0 -> ztake k l = [].
Proof. unfold ztake. intros H. rewrite Z.max_r by lia. rewrite Z.min_l by lia. reflexivity. Qed.
Lemma zdrop_nonpos {A} k (l : list A) : k <= 0 -> zdrop k l = l.
Proof. unfold zdrop. intros H. rewrite Z.max_r by lia. rewrite Z.min_l by lia. reflexivity. Qed.
Lemma ztake_zdrop {A} k (l : list A) : ztake k l ++ zdrop k l = l.
Proof. unfold ztake, zdrop. apply firstn_skipn. Qed.
Lemma zlen_ztake {A} k (l : list A) : zlen (ztake k l) = Z.min (Z.max k 0) (zlen l).
Proof. unfold ztake, zlen. rewrite firstn_length. lia. Qed.

Lemma ztake_app_le {A} k (a b : list A) : k <= zlen a -> ztake k (a ++ b) = ztake k a.
Proof.
  unfold ztake, zlen. intros H. rewrite app_length.
  replace (Z.to_nat (Z.min (Z.max k 0) (Z.of_nat (length a + length b)))) with (Z.to_nat (Z.min (Z.max k 0) (Z.of_nat (length a)))) by lia.
  rewrite firstn_app. replace (Z.to_nat (Z.min (Z.max k 0) (Z.of_nat (length a))) - length a)%nat with 0%nat by lia.
  cbn. apply app_nil_r.
Qed.
Lemma zdrop_app_le {A} k (a b : list A) : k <= zlen a -> zdrop k (a ++ b) = zdrop k a ++ b.
Proof.
  unfold zdrop, zlen. intros H. rewrite app_length.
  replace (Z.to_nat (Z.min (Z.max k 0) (Z.of_nat (length a + length b)))) with (Z.to_nat (Z.min (Z.max k 0) (Z.of_nat (length a)))) by lia.
  rewrite skipn_app. replace (Z.to_nat (Z.min (Z.max k 0) (Z.of_nat (length a))) - length a)%nat with 0%nat by lia.
  reflexivity.
Qed.
Lemma ztake_app_ge {A} k (a b : list A) : zlen a <= k -> ztake k (a ++ b) = a ++ ztake (k - zlen a) b.
Proof.
  unfold ztake, zlen. intros H. rewrite app_length, firstn_app.
  rewrite firstn_all2 by lia. f_equal. f_equal. lia.
Qed.
Lemma zdrop_app_ge {A} k (a b : list A) : zlen a <= k -> zdrop k (a ++ b) = zdrop (k - zlen a) b.
Proof.
  unfold zdrop, zlen. intros H. rewrite app_length, skipn_app.
  rewrite skipn_all2 by lia. cbn. f_equal. lia.
Qed.

Lemma flat_drop_empty l : concat (drop_empty l) = concat l.
Proof. induction l as [|c r IH]; [reflexivity|]. destruct c; cbn [drop_empty]; [exact IH|reflexivity]. Qed.

Lemma drop_empty_nil_flat l : drop_empty l = [] -> concat l = [].
Proof. intros H. rewrite <- flat_drop_empty, H. reflexivity. Qed.

Lemma drop_empty_head l c r : drop_empty l = c :: r -> c <> [].
Proof. induction l as [|x l IH]; cbn [drop_empty]; [discriminate|]. destruct x; [exact IH|]. intros [= <- <-]. discriminate. Qed.

Lemma drop_empty_length l : (length (drop_empty l) <= length l)%nat.
Proof. induction l as [|x l IH]; cbn [drop_empty length]; [lia|]. destruct x; cbn [length]; lia. Qed.

(** one Read (k >= 1): a non-empty prefix of what is left, or the terminal status *)
Lemma up_read_spec k u : 1 <= k ->
  let '((d, st), u') := up_read k u in
  u_term u' = u_term u /\ u_eof_last u' = u_eof_last u /\ flat u = d ++ flat u' /\
  (length (u_chunks u') <= length (u_chunks u))%nat /\
  (flat u = [] -> d = [] /\ st = SErr (u_term u) /\ u_chunks u' = []) /\
  (flat u <> [] -> d <> [] /\ zlen d <= k /\
     (st = SOk \/ (st = SErr EEOF /\ u_term u = EEOF /\ flat u' = [])) /\
     (zlen d < k -> (length (u_chunks u') < length (u_chunks u))%nat \/ u_chunks u' = [])).
Proof.
  intros Hk. unfold up_read, flat. destruct (drop_empty (u_chunks u)) as [|c rest] eqn:De.
  { pose proof (drop_empty_nil_flat _ De) as F. cbn. rewrite F. split; [reflexivity|]. split; [reflexivity|]. split; [reflexivity|]. split; [lia|]. split; [auto|]. intros N. exfalso. apply N. reflexivity. }
  pose proof (drop_empty_head _ _ _ De) as Cn. pose proof (flat_drop_empty (u_chunks u)) as F. rewrite De in F. cbn [concat] in F.
  pose proof (drop_empty_length (u_chunks u)) as L0. rewrite De in L0. cbn [length] in L0.
  assert (Dn : ztake k c <> []).
  { intros E. apply zlen_nil_iff in E. rewrite zlen_ztake in E. assert (0 < zlen c) by (destruct c; [congruence|unfold zlen; cbn; lia]). lia. }
  assert (Dk : zlen (ztake k c) <= k) by (rewrite zlen_ztake; lia).
  assert (Fne : concat (u_chunks u) <> []) by (rewrite <- F; destruct c; [congruence|discriminate]).
  destruct (zdrop k c) as [|x c'] eqn:Dr.
  - assert (Tc : ztake k c = c) by (rewrite <- (ztake_zdrop k c) at 2; rewrite Dr; symmetry; apply app_nil_r).
    destruct (drop_empty rest) as [|c2 rest'] eqn:De2.
    + pose proof (drop_empty_nil_flat _ De2) as F2.
      assert (Fl : concat (u_chunks u) = ztake k c ++ []) by (rewrite <- F, F2, Tc; rewrite !app_nil_r; reflexivity).
      destruct (u_eof_last u && ecls_eqb (u_term u) EEOF) eqn:El; cbn.
      * split; [reflexivity|]. split; [reflexivity|]. split; [exact Fl|]. split; [lia|]. split; [intros N; congruence|].
        intros _. split; [exact Dn|]. split; [exact Dk|]. split; [|intros _; right; reflexivity].
        right. apply Bool.andb_true_iff in El as (_ & Et). destruct (u_term u); try discriminate. auto.
      * split; [reflexivity|]. split; [reflexivity|]. split; [exact Fl|]. split; [lia|]. split; [intros N; congruence|].
        intros _. split; [exact Dn|]. split; [exact Dk|]. split; [left; reflexivity|intros _; right; reflexivity].
    + cbn. pose proof (flat_drop_empty rest) as F3. rewrite De2 in F3.
      pose proof (drop_empty_length rest) as L2. rewrite De2 in L2. cbn [length] in L2.
      split; [reflexivity|]. split; [reflexivity|]. split; [rewrite <- F, Tc; f_equal; exact (eq_sym F3)|]. split; [cbn [length]; lia|].
      split; [intros N; congruence|]. intros _. split; [exact Dn|]. split; [exact Dk|]. split; [left; reflexivity|].
      intros _. left. cbn [length]. lia.
  - cbn. split; [reflexivity|]. split; [reflexivity|].
    split; [rewrite <- F; change (x :: c' ++ concat rest) with ((x :: c') ++ concat rest); rewrite <- Dr, app_assoc, ztake_zdrop; reflexivity|]. split; [cbn [length]; lia|].
    split; [intros N; congruence|]. intros _. split; [exact Dn|]. split; [exact Dk|]. split; [left; reflexivity|].
    intros Hlt. exfalso. rewrite zlen_ztake in Hlt.
    assert (zlen c <= k) by lia. rewrite zdrop_all in Dr by assumption. discriminate.
Qed.

Definition short_status (term : ecls) (got : bytes) : rstat :=
  SErr (match term with EEOF => match got with [] => EEOF | _ => EUnexpectedEOF end | e => e end).

(** io.ReadFull returns the first n bytes of the body however it is chunked, or what there is
    together with an error when the body is shorter *)
Lemma read_full_spec : forall fuel n u acc, (length (u_chunks u) < fuel)%nat ->
  exists u', read_full fuel n u acc =
               ((acc ++ ztake n (flat u), if n <=? zlen (flat u) then SOk else short_status (u_term u) (acc ++ flat u)), u') /\
             flat u' = zdrop n (flat u) /\ u_term u' = u_term u /\ u_eof_last u' = u_eof_last u.
Proof.
  induction fuel as [|f IH]; intros n u acc Hf; [lia|].
  cbn [read_full]. destruct (Z.leb_spec n 0) as [Hn|Hn].
  { exists u. rewrite ztake_nonpos, zdrop_nonpos, app_nil_r by lia.
    destruct (Z.leb_spec n (zlen (flat u))); [auto|]. pose proof (zlen_nonneg (flat u)). lia. }
  pose proof (up_read_spec n u ltac:(lia)) as S. destruct (up_read n u) as [[d st] u1].
  destruct S as (Ht & He & Hfl & Hlen & Hempty & Hne).
  destruct (flat u) as [|x fl] eqn:Efl.
  - destruct (Hempty eq_refl) as (-> & -> & Hc). rewrite app_nil_r. cbn [zlen length Z.of_nat]. rewrite Z.sub_0_r.
    destruct (Z.leb_spec n 0); [lia|]. exists u1.
    assert (F1 : flat u1 = []) by (unfold flat; rewrite Hc; reflexivity).
    split; [|split; [rewrite F1; symmetry; apply zdrop_all; cbn; lia|auto]].
    rewrite (ztake_all n (@nil N)) by (cbn; lia). rewrite app_nil_r. unfold short_status.
    destruct (u_term u); reflexivity.
  - rewrite <- Efl in *. assert (Nf : flat u <> []) by (rewrite Efl; discriminate).
    destruct (Hne Nf) as (Dn & Dk & Hst & Hprog).
    destruct (Z.leb_spec (n - zlen d) 0) as [Hdone|Hmore].
    + assert (El : zlen d = n) by lia. exists u1. split; [|split; [|auto]].
      * rewrite Hfl, ztake_app_le by lia. rewrite ztake_all by lia.
        rewrite zlen_app. pose proof (zlen_nonneg (flat u1)). destruct (Z.leb_spec n (zlen d + zlen (flat u1))); [reflexivity|lia].
      * rewrite Hfl, zdrop_app_le by lia. rewrite zdrop_all by lia. reflexivity.
    + assert (Hlt : zlen d < n) by lia.
      destruct Hst as [->|(-> & Et & F1)].
      * assert (Hf1 : (length (u_chunks u1) < f)%nat).
        { destruct (Hprog Hlt) as [L|L]; [lia|]. rewrite L. cbn.
          assert (length (u_chunks u) <> 0)%nat by (intros Z0; apply Nf; unfold flat; destruct (u_chunks u); [reflexivity|discriminate]). lia. }
        destruct (IH (n - zlen d) u1 (acc ++ d) Hf1) as (u' & E & F' & T' & L'). exists u'. rewrite E.
        split; [|split; [|split; congruence]].
        -- rewrite Hfl. rewrite (ztake_app_ge n d) by lia. rewrite <- !app_assoc. rewrite zlen_app.
           replace (n - zlen d <=? zlen (flat u1)) with (n <=? zlen d + zlen (flat u1)) by (destruct (Z.leb_spec n (zlen d + zlen (flat u1))), (Z.leb_spec (n - zlen d) (zlen (flat u1))); try reflexivity; lia).
           rewrite Ht. reflexivity.
        -- rewrite F', Hfl. rewrite (zdrop_app_ge n d) by lia. reflexivity.
      * exists u1. rewrite Hfl, F1, app_nil_r in *. rewrite ztake_all, zdrop_all by lia.
        destruct (Z.leb_spec n (zlen d)); [lia|]. split; [|auto].
        unfold short_status. rewrite Et. destruct (acc ++ d) eqn:Ea; [|reflexivity].
        apply app_eq_nil in Ea as (_ & Ed). congruence.
Qed.

Lemma copy_n_spec n u :
  exists u', copy_n n u =
               ((ztake n (flat u), if n <=? zlen (flat u) then SOk
                                   else SErr (match u_term u with EEOF => EUnexpectedEOF | e => e end)), u') /\
             flat u' = zdrop n (flat u) /\ u_term u' = u_term u /\ u_eof_last u' = u_eof_last u.
Proof.
  unfold copy_n. destruct (read_full_spec (fuel_of u) n u [] ltac:(unfold fuel_of; lia)) as (u' & E & F & T & L).
  rewrite E. cbn [app]. exists u'. split; [|auto].
  destruct (n <=? zlen (flat u)); [reflexivity|]. unfold short_status. destruct (u_term u); try reflexivity.
  destruct (flat u); reflexivity.
Qed.

Definition end_status (term : ecls) : rstat := match term with EEOF => SOk | e => SErr e end.

(** io.Copy through hardLimitReader: everything up to the end of the body, or one byte more than
    the limit and the limit error - however the body is chunked *)
Lemma copy_limit_spec : forall fuel limit u acc, (length (u_chunks u) < fuel)%nat -> -1 <= limit -> zlen acc <= limit + 1 ->
  exists u', copy_limit fuel limit u acc =
               ((ztake (limit + 1) (acc ++ flat u),
                 if limit <? zlen (acc ++ flat u) then SErr EResourceExhausted else end_status (u_term u)), u') /\
             u_term u' = u_term u /\ u_eof_last u' = u_eof_last u /\
             flat u' = zdrop (limit + 1 - zlen acc) (flat u).
Proof.
  induction fuel as [|f IH]; intros limit u acc Hf Hl Ha; [lia|].
  cbn [copy_limit]. cbv zeta. destruct (Z.ltb_spec (limit - zlen acc) 0) as [Hneg|Hpos].
  { exists u. assert (E : zlen acc = limit + 1) by lia. rewrite ztake_app_le, ztake_all by lia.
    rewrite zlen_app. pose proof (zlen_nonneg (flat u)). destruct (Z.ltb_spec limit (zlen acc + zlen (flat u))); [|lia].
    split; [reflexivity|]. repeat split; auto. rewrite zdrop_nonpos by lia. reflexivity. }
  pose proof (up_read_spec (limit - zlen acc + 1) u ltac:(lia)) as S. destruct (up_read (limit - zlen acc + 1) u) as [[d st] u1].
  destruct S as (Ht & He & Hfl & Hlen & Hempty & Hne).
  destruct (flat u) as [|x fl] eqn:Efl.
  - destruct (Hempty eq_refl) as (-> & -> & Hc). rewrite !app_nil_r.
    assert (F1 : flat u1 = []) by (unfold flat; rewrite Hc; reflexivity).
    destruct (Z.ltb_spec limit (zlen acc)) as [Hx|Hx]; [lia|]. cbn [andb].
    exists u1. rewrite ztake_all by lia. split; [destruct (u_term u); reflexivity|].
    repeat split; auto. rewrite F1. symmetry. apply zdrop_all. cbn. lia.
  - rewrite <- Efl in *. assert (Nf : flat u <> []) by (rewrite Efl; discriminate).
    destruct (Hne Nf) as (Dn & Dk & Hst & Hprog).
    assert (Hst' : (match st with SOk | SErr EEOF => true | _ => false end) = true) by (destruct Hst as [->|(-> & _)]; reflexivity).
    rewrite Hst', Bool.andb_true_r. rewrite zlen_app.
    destruct (Z.ltb_spec limit (zlen acc + zlen d)) as [Hover|Hfit].
    + (* the limit is exceeded with this read *)
      assert (Ed : zlen d = limit - zlen acc + 1) by lia. exists u1.
      rewrite Hfl, app_assoc, ztake_app_le by (rewrite zlen_app; lia). rewrite ztake_all by (rewrite zlen_app; lia).
      rewrite !zlen_app. pose proof (zlen_nonneg (flat u1)).
      destruct (Z.ltb_spec limit (zlen acc + zlen d + zlen (flat u1))); [|lia].
      split; [reflexivity|]. repeat split; auto.
      rewrite zdrop_app_le by lia. rewrite zdrop_all by lia. reflexivity.
    + destruct Hst as [->|(-> & Et & F1)].
      * assert (Hlt : zlen d < limit - zlen acc + 1) by lia.
        assert (Hf1 : (length (u_chunks u1) < f)%nat).
        { destruct (Hprog Hlt) as [L|L]; [lia|]. rewrite L. cbn.
          assert (length (u_chunks u) <> 0)%nat by (intros Z0; apply Nf; unfold flat; destruct (u_chunks u); [reflexivity|discriminate]). lia. }
        destruct (IH limit u1 (acc ++ d) Hf1 Hl ltac:(rewrite zlen_app; lia)) as (u' & E & T' & L' & F').
        exists u'. rewrite E. rewrite Hfl, <- !app_assoc, Ht. split; [reflexivity|].
        split; [congruence|]. split; [congruence|]. rewrite F', zlen_app.
        rewrite (zdrop_app_ge (limit + 1 - zlen acc) d) by lia. f_equal. lia.
      * exists u1. rewrite Hfl, F1, !app_nil_r. rewrite zlen_app.
        destruct (Z.ltb_spec limit (zlen acc + zlen d)); [lia|]. rewrite ztake_all by (rewrite zlen_app; lia).
        rewrite Et. split; [reflexivity|]. split; [congruence|]. split; [exact He|]. symmetry. apply zdrop_all. lia.
Qed.

Lemma copy_hard_limit_spec limit u : -1 <= limit ->
  exists u', copy_hard_limit limit u =
               ((ztake (limit + 1) (flat u),
                 if limit <? zlen (flat u) then SErr EResourceExhausted else end_status (u_term u)), u') /\
             u_term u' = u_term u /\ u_eof_last u' = u_eof_last u /\ flat u' = zdrop (limit + 1) (flat u).
Proof.
  intros Hl. unfold copy_hard_limit.
  destruct (copy_limit_spec (fuel_of u) limit u [] ltac:(unfold fuel_of; lia) Hl ltac:(cbn; lia)) as (u' & E & T & L & F).
  exists u'. rewrite E. cbn [app] in *. split; [reflexivity|]. repeat split; auto. rewrite F. f_equal. cbn. lia.
Qed.
