(** The path-template parser only produces templates the router's theorems apply to:
    "**" occurs at most once, as the last segment, and literal segments are never wildcards. *)
From VG Require Import Model.Bytes Model.Percent Model.Router Model.PathTemplate Gen.Generated.
From VG Require Import Proofs.RouterProofs.
From Coq Require Import Lia.
Open Scope Z_scope.

Definition no_dstar (p : list seg) : Prop := forall s, In s p -> bytes_eqb s dstar = false.

Lemma wf_no_dstar p : no_dstar p -> wf_tmpl p = true.
Proof.
  induction p as [|x r IH]; intros H; cbn [wf_tmpl]; [reflexivity|].
  rewrite (H x (or_introl eq_refl)). cbn [andb]. apply IH. intros s Hs. apply H. right. exact Hs.
Qed.

Lemma wf_no_dstar_snoc p : no_dstar p -> wf_tmpl (p ++ [dstar]) = true.
Proof.
  induction p as [|x r IH]; intros H; cbn [wf_tmpl app].
  - reflexivity.
  - rewrite (H x (or_introl eq_refl)). cbn [andb]. apply IH. intros s Hs. apply H. right. exact Hs.
Qed.

Lemma no_dstar_snoc p s : no_dstar p -> bytes_eqb s dstar = false -> no_dstar (p ++ [s]).
Proof. intros H Hs x Hx. apply in_app_iff in Hx as [Hx|[<-|[]]]; auto. Qed.

(** escaped output never starts with '*' *)
Lemma path_escape_hd u : match path_escape false u with [] => True | c :: _ => c <> 42%N end.
Proof.
  destruct u as [|c r]; [exact I|].
  assert (E42 : path_should_escape (Z.of_N 42) = true) by (vm_compute; reflexivity).
  assert (H : forall tl, match (if path_should_escape (Z.of_N c) then esc_byte c else [c]) ++ tl with [] => True | x :: _ => x <> 42%N end).
  { intro tl. destruct (path_should_escape (Z.of_N c)) eqn:E; cbn; [discriminate|].
    intros ->. rewrite E42 in E. discriminate. }
  destruct r as [|a [|b r']]; cbn [path_escape andb]; apply H.
Qed.

Lemma star_dstar_hd s : is_wild s = true -> exists r, s = 42%N :: r.
Proof.
  unfold is_wild. intros H. apply Bool.orb_true_iff in H as [H|H]; apply bytes_eqb_eq in H; subst; eexists; reflexivity.
Qed.

Lemma parse_literal_not_wild inp lit rest : parse_literal inp = POk (lit, rest) -> is_wild lit = false.
Proof.
  unfold parse_literal. destruct (take_while (cls is_literal) inp []) as [l r].
  destruct l as [|c l']; [discriminate|].
  destruct (path_unescape false (c :: l')) as [u|]; [|discriminate].
  intros [= <- <-]. destruct (is_wild (path_escape false u)) eqn:W; [|reflexivity].
  apply star_dstar_hd in W as (r0 & E). pose proof (path_escape_hd u) as H. rewrite E in H. congruence.
Qed.

Lemma not_wild_not_dstar s : is_wild s = false -> bytes_eqb s dstar = false.
Proof. unfold is_wild. intros H. apply Bool.orb_false_iff in H. tauto. Qed.

Lemma star_not_dstar : bytes_eqb star dstar = false.
Proof. reflexivity. Qed.

Ltac split_lit :=
  repeat match goal with
         | |- context [match ?p with xI _ => _ | xO _ => _ | xH => _ end] => is_var p; destruct p
         end.

(** state invariant: "**" only as the last segment, and then the flag is set *)
Definition dbl_inv (st : pst) : Prop :=
  if ps_dbl st then exists p, ps_path st = p ++ [dstar] /\ no_dstar p else no_dstar (ps_path st).

Lemma parse_segments_inv fuel : forall st inp st' rest,
  parse_segments fuel st inp = POk (st', rest) -> ps_dbl st = false -> no_dstar (ps_path st) -> dbl_inv st'.
Proof.
  induction fuel as [|f IH]; intros st inp st' rest H Hd Hn; [discriminate|].
  cbn [parse_segments] in H.
  (* the segment step *)
  match type of H with
  | match ?seg with _ => _ end = _ => destruct seg as [[st1 r1]| |] eqn:Seg; try discriminate
  end.
  assert (I1 : dbl_inv st1).
  { clear H. destruct inp as [|c inp']; [discriminate|].
    destruct (N.eqb_spec c 42) as [->|N42].
    - destruct inp' as [|c2 r].
      + injection Seg as <- <-. unfold dbl_inv, push. cbn. rewrite Hd. apply no_dstar_snoc; [exact Hn|reflexivity].
      + destruct (N.eqb_spec c2 42) as [->|N2].
        * injection Seg as <- <-. unfold dbl_inv. cbn. exists (ps_path st). split; [reflexivity|exact Hn].
        * assert (Seg' : POk (push star st, c2 :: r) = POk (st1, r1)).
          { rewrite <- Seg. destruct c2 as [|p]; [reflexivity|].
            split_lit; try reflexivity; exfalso; apply N2; reflexivity. }
          injection Seg' as <- <-. unfold dbl_inv, push. cbn. rewrite Hd. apply no_dstar_snoc; [exact Hn|reflexivity].
    - destruct (N.eqb_spec c 123) as [->|N123].
      + destruct (parse_field_path (S (length inp')) inp' []) as [[fp q]| |]; try discriminate.
        destruct (existsb (bytes_eqb fp) (ps_seen st)); [discriminate|].
        destruct q as [|d q']; [discriminate|].
        destruct (N.eqb_spec d 125) as [->|N125].
        * injection Seg as <- <-. unfold dbl_inv, push. cbn. rewrite Hd. apply no_dstar_snoc; [exact Hn|reflexivity].
        * destruct (N.eqb_spec d 61) as [->|N61].
          -- destruct (parse_segments f _ q') as [[st2 r3]| |] eqn:Rec; try discriminate.
             destruct r3 as [|e r4]; [discriminate|].
             destruct (N.eqb_spec e 125) as [->|Ne]; [|exfalso].
             ++ injection Seg as <- <-. apply IH in Rec; [|exact Hd|exact Hn]. unfold dbl_inv in *. cbn. exact Rec.
             ++ revert Seg. clear - Ne. destruct e as [|p]; [discriminate|].
                split_lit; try discriminate. intros _. apply Ne. reflexivity.
          -- exfalso. revert Seg. clear - N125 N61. destruct d as [|p]; [discriminate|].
             split_lit; try discriminate; intros _; try (apply N125; reflexivity); try (apply N61; reflexivity).
      + (* literal *)
        assert (Seg' : (if cls is_literal c then
                          match parse_literal (c :: inp') with
                          | POk (lit, rest) => POk (push lit st, rest) | PErr => PErr | PFuel => PFuel end
                        else PErr) = POk (st1, r1)).
        { rewrite <- Seg. clear - N42 N123. destruct c as [|p]; [reflexivity|].
          split_lit; try reflexivity; exfalso; try (apply N42; reflexivity); try (apply N123; reflexivity). }
        destruct (cls is_literal c); [|discriminate].
        destruct (parse_literal (c :: inp')) as [[lit rest0]| |] eqn:PL; try discriminate.
        injection Seg' as <- <-. unfold dbl_inv, push. cbn. rewrite Hd.
        apply no_dstar_snoc; [exact Hn|]. apply not_wild_not_dstar. eapply parse_literal_not_wild. exact PL. }
  destruct r1 as [|c r1'].
  - injection H as <- <-. exact I1.
  - destruct (N.eqb_spec c 47) as [->|N47].
    + destruct (ps_dbl st1) eqn:D1; [discriminate|].
      unfold dbl_inv in I1. rewrite D1 in I1. eapply IH; eauto.
    + assert (H' : POk (st1, c :: r1') = POk (st', rest)).
      { rewrite <- H. clear - N47. destruct c as [|p]; [reflexivity|].
        split_lit; try reflexivity. exfalso. apply N47. reflexivity. }
      injection H' as <- <-. exact I1.
Qed.

Theorem parse_template_wf t path verb vars :
  parse_path_template t = POk (path, verb, vars) -> wf_tmpl path = true.
Proof.
  unfold parse_path_template. destruct t as [|c r]; [discriminate|].
  destruct (N.eqb_spec c 47) as [->|N47].
  - destruct (parse_segments (S (length r)) (mkPst [] [] [] false) r) as [[st rest]| |] eqn:P; try discriminate.
    intros H. assert (ps_path st = path) as <-.
    { destruct rest as [|d r2]; [injection H; auto|].
      destruct (N.eqb_spec d 58) as [->|Nd].
      - destruct (parse_literal r2) as [[v [|? ?]]| |]; try discriminate. injection H; auto.
      - exfalso. revert H. clear - Nd. destruct d as [|p]; [discriminate|].
        split_lit; try discriminate. intros _. apply Nd. reflexivity. }
    apply parse_segments_inv in P; [|reflexivity|intros s []].
    unfold dbl_inv in P. destruct (ps_dbl st).
    + destruct P as (p & -> & Hp). apply wf_no_dstar_snoc. exact Hp.
    + apply wf_no_dstar. exact P.
  - intros H. exfalso. revert H. clear - N47. destruct c as [|p]; [discriminate|].
    split_lit; try discriminate. intros _. apply N47. reflexivity.
Qed.
