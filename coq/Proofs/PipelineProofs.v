(** The per-message pipeline (message.advanceToStage): what reaches the other side is the message
    the sender encoded - under the laws the codec and compression libraries satisfy - or an error;
    and complete messages are flushed at once (Model/Reader.v advance_send, Model/Response.v). *)
From VG Require Import Model.Bytes Model.Stream Model.Envelope Model.Headers Model.RespMeta Model.Reader Model.Response.
From VG Require Import Proofs.StreamProofs Proofs.ResponseProofs.
From Coq Require Import Lia.
Open Scope Z_scope.

Section Request.
  (** the receiving side's libraries: its codec's decoder and its decompressor *)
  Variable msg_of_server : bytes -> option bytes.
  Variable gunzip_server : bytes -> option bytes.
  Variable cx : rctx.
  Variable o : oracles.
  (** library laws: what the server-side encoder / compressor produce, its decoder / decompressor read back *)
  Hypothesis codec_roundtrip : forall m e, o_encode o m = Some e -> msg_of_server e = Some m.
  Hypothesis compress_roundtrip : forall b, gunzip_server (o_compress o b) = Some b.

  (** how the backend reads a payload it is given: decompress when flagged / declared, then decode *)
  Definition server_reads (compressed : bool) (payload : bytes) : option bytes :=
    if compressed then match gunzip_server payload with Some p => msg_of_server p | None => None end
    else msg_of_server payload.

  (** how the client meant its payload *)
  Definition client_meant (was_compressed : bool) (payload : bytes) : option bytes :=
    if was_compressed && client_comp cx && negb (Nat.eqb (length payload) 0)
    then match o_decompress o payload with Some p => o_decode o p | None => None end
    else o_decode o payload.

  (** re-encoding path: the backend decodes exactly the message the client encoded *)
  Theorem reencoded_request_is_faithful was_compressed payload out :
    same_codec cx = false ->
    advance_send cx o was_compressed payload = inl out ->
    exists m, client_meant was_compressed payload = Some m /\
              server_reads ((was_compressed || must_compress cx) && server_comp cx) out = Some m.
  Proof.
    intros Sc H. unfold advance_send in H. rewrite Sc in H. cbn [andb negb] in H.
    unfold client_meant.
    destruct (was_compressed && client_comp cx && negb (Nat.eqb (length payload) 0)).
    - destruct (o_decompress o payload) as [p|]; [|discriminate].
      destruct (o_decode o p) as [m|]; [|discriminate]. destruct (o_encode o m) as [e|] eqn:En; [|discriminate].
      injection H as <-. exists m. split; [reflexivity|]. unfold server_reads.
      destruct ((was_compressed || must_compress cx) && server_comp cx); [rewrite compress_roundtrip|]; eauto.
    - destruct (o_decode o payload) as [m|]; [|discriminate]. destruct (o_encode o m) as [e|] eqn:En; [|discriminate].
      injection H as <-. exists m. split; [reflexivity|]. unfold server_reads.
      destruct ((was_compressed || must_compress cx) && server_comp cx); [rewrite compress_roundtrip|]; eauto.
  Qed.

  (** same codec: the payload is relayed byte for byte, or only its compression changes *)
  Theorem relayed_request_is_verbatim was_compressed payload out :
    same_codec cx = true -> advance_send cx o was_compressed payload = inl out ->
    out = payload \/
    exists plain, (plain = payload \/ o_decompress o payload = Some plain) /\
                  (out = plain \/ out = o_compress o plain).
  Proof.
    intros Sc H. unfold advance_send in H. rewrite Sc in H. cbn [andb negb] in H.
    destruct ((negb was_compressed || same_comp cx) && (was_compressed || negb (must_compress cx))); [injection H as <-; left; reflexivity|].
    right. destruct (was_compressed && client_comp cx && negb (Nat.eqb (length payload) 0)).
    - destruct (o_decompress o payload) as [p|] eqn:D; [|discriminate]. exists p. split; [right; reflexivity|].
      destruct (server_comp cx); injection H as <-; auto.
    - exists payload. split; [left; reflexivity|]. destruct (server_comp cx); injection H as <-; auto.
  Qed.

  (** anything that cannot be carried is an error, with its class: never a shorter or different message *)
  Theorem request_failure_is_an_error was_compressed payload e :
    advance_send cx o was_compressed payload = inr e ->
    (exists p, True /\ (o_decompress o payload = None \/ o_decode o p = None \/ (exists m, o_decode o p = Some m /\ o_encode o m = None))).
  Proof.
    intros H. unfold advance_send in H.
    destruct (same_codec cx && (negb was_compressed || same_comp cx) && (was_compressed || negb (must_compress cx))); [discriminate|].
    destruct (negb (same_codec cx)).
    - destruct (was_compressed && client_comp cx && negb (Nat.eqb (length payload) 0)).
      + destruct (o_decompress o payload) as [p|] eqn:D; [|exists []; auto].
        destruct (o_decode o p) as [m|] eqn:Dc; [|exists p; auto]. destruct (o_encode o m) eqn:En; [discriminate|].
        exists p. split; [exact I|]. right; right. eauto.
      + destruct (o_decode o payload) as [m|] eqn:Dc; [|exists payload; auto]. destruct (o_encode o m) eqn:En; [discriminate|].
        exists payload. split; [exact I|]. right; right. eauto.
    - destruct (was_compressed && client_comp cx && negb (Nat.eqb (length payload) 0)).
      + destruct (o_decompress o payload) as [p|] eqn:D; [destruct (server_comp cx); discriminate|exists []; auto].
      + destruct (server_comp cx); discriminate.
  Qed.
End Request.

(** * the response direction: advance_resp (sameCompression always holds there) *)
Section Response.
  (** the client's libraries: its codec's decoder and its decompressor *)
  Variable msg_of_client : bytes -> option bytes.
  Variable gunzip_client : bytes -> option bytes.
  Variable cx : wctx.
  Hypothesis codec_roundtrip : forall m e, o_encode (w_or cx) m = Some e -> msg_of_client e = Some m.
  Hypothesis compress_roundtrip : forall b, gunzip_client (o_compress (w_or cx) b) = Some b.

  Definition client_reads (compressed : bool) (payload : bytes) : option bytes :=
    if compressed then match gunzip_client payload with Some p => msg_of_client p | None => None end
    else msg_of_client payload.

  Definition backend_meant (has_comp was_comp : bool) (payload : bytes) : option bytes :=
    if was_comp && has_comp && negb (Nat.eqb (length payload) 0)
    then match o_decompress (w_or cx) payload with Some p => o_decode (w_or cx) p | None => None end
    else o_decode (w_or cx) payload.

  (** a client protocol without envelopes cannot flag single messages: with a response compression
      declared every message must then be compressed *)
  Definition resp_must (has_comp : bool) : bool := has_comp && match w_cenv cx with None => true | Some _ => false end.

  Theorem reencoded_response_is_faithful has_comp was_comp payload out :
    w_same_resp_codec cx = false ->
    advance_resp cx has_comp was_comp payload = inl out ->
    exists m, backend_meant has_comp was_comp payload = Some m /\
              client_reads ((was_comp || resp_must has_comp) && has_comp) out = Some m.
  Proof.
    intros Sc H. unfold advance_resp in H. rewrite Sc in H. unfold backend_meant, resp_must.
    destruct (was_comp && has_comp && negb (Nat.eqb (length payload) 0)).
    - destruct (o_decompress (w_or cx) payload) as [p|]; [|discriminate].
      destruct (o_decode (w_or cx) p) as [m|]; [|discriminate]. destruct (o_encode (w_or cx) m) as [e|] eqn:En; [|discriminate].
      injection H as <-. exists m. split; [reflexivity|]. unfold client_reads.
      match goal with |- context [if ?b then _ else _] => destruct b end; [rewrite compress_roundtrip|]; eauto.
    - destruct (o_decode (w_or cx) payload) as [m|]; [|discriminate]. destruct (o_encode (w_or cx) m) as [e|] eqn:En; [|discriminate].
      injection H as <-. exists m. split; [reflexivity|]. unfold client_reads.
      match goal with |- context [if ?b then _ else _] => destruct b end; [rewrite compress_roundtrip|]; eauto.
  Qed.

  Theorem relayed_response_is_verbatim has_comp was_comp payload out :
    w_same_resp_codec cx = true -> advance_resp cx has_comp was_comp payload = inl out ->
    out = payload \/ (was_comp = false /\ resp_must has_comp = true /\ out = o_compress (w_or cx) payload).
  Proof.
    intros Sc H. unfold advance_resp in H. rewrite Sc in H. fold (resp_must has_comp) in H.
    destruct was_comp; cbn [orb] in H; [injection H as <-; left; reflexivity|].
    destruct (resp_must has_comp); cbn [negb] in H; injection H as <-; auto.
  Qed.

  Theorem response_failure_is_an_error has_comp was_comp payload e :
    advance_resp cx has_comp was_comp payload = inr e ->
    w_same_resp_codec cx = false /\
    (o_decompress (w_or cx) payload = None \/
     exists p, (p = payload \/ o_decompress (w_or cx) payload = Some p) /\
               (o_decode (w_or cx) p = None \/ exists m, o_decode (w_or cx) p = Some m /\ o_encode (w_or cx) m = None)).
  Proof.
    intros H. unfold advance_resp in H. destruct (w_same_resp_codec cx).
    { destruct (was_comp || negb _); discriminate. }
    split; [reflexivity|].
    destruct (was_comp && has_comp && negb (Nat.eqb (length payload) 0)).
    - destruct (o_decompress (w_or cx) payload) as [p|] eqn:D; [|left; reflexivity]. right. exists p. split; [right; reflexivity|].
      destruct (o_decode (w_or cx) p) as [m|] eqn:Dc; [|left; reflexivity]. destruct (o_encode (w_or cx) m) eqn:En; [discriminate|]. right. eauto.
    - right. exists payload. split; [left; reflexivity|].
      destruct (o_decode (w_or cx) payload) as [m|] eqn:Dc; [|left; reflexivity]. destruct (o_encode (w_or cx) m) eqn:En; [discriminate|]. right. eauto.
  Qed.
End Response.

(** * progress: a complete response message is written and flushed before Write returns *)
Lemma tw_flush_message_progress cx c w c' w' :
  e_trailer (tw_latest w) = false -> emih cx = false -> c_buf c = None ->
  tw_flush_message cx c w = FOk c' w' ->
  exists writes, c_out c' = c_out c ++ writes ++ [DFlush] /\ Forall (fun e => match e with DWrite _ => True | _ => False end) writes.
Proof.
  intros Ht Em Eb H. unfold tw_flush_message in H. rewrite Ht in H.
  destruct (advance_resp cx _ _ _) as [out|e]; [|discriminate].
  match type of H with context [match ?p with Some _ => _ | None => _ end] => destruct p as [env|] end; [|discriminate].
  unfold emih in Em.
  assert (SW : forall d c0, c_buf c0 = None -> exists ws, sink_write cx d c0 = (mkRwc (c_hdr c0) (c_flushed c0) (c_end_written c0) (c_meta c0) (c_err c0) (c_buf c0) (c_resp_comp c0) (c_out c0 ++ ws), true)
                                                   /\ Forall (fun e => match e with DWrite _ => True | _ => False end) ws).
  { intros d c0 Hb. unfold sink_write. rewrite Em. destruct d as [|x d'].
    - exists []. rewrite app_nil_r. destruct c0; split; [reflexivity|constructor].
    - exists [DWrite (x :: d')]. split; [reflexivity|constructor; [exact I|constructor]]. }
  destruct env as [|x en].
  - destruct (SW out c Eb) as (ws2 & E2 & F2). rewrite E2 in H. cbn [negb] in H.
    unfold flush_message in H. cbn [c_buf] in H. rewrite Eb in H. injection H as <- _.
    exists ws2. cbn. rewrite <- app_assoc. split; [reflexivity|exact F2].
  - destruct (SW (x :: en) c Eb) as (ws1 & E1 & F1). rewrite E1 in H. cbn [negb] in H.
    match type of H with context [sink_write cx out ?c1] => destruct (SW out c1 Eb) as (ws2 & E2 & F2); rewrite E2 in H end.
    cbn [negb] in H. unfold flush_message in H. cbn [c_buf] in H. rewrite Eb in H. injection H as <- _.
    exists (ws1 ++ ws2). cbn. rewrite <- !app_assoc. split; [reflexivity|apply Forall_app; split; assumption].
Qed.

(** after a Write that succeeded, the re-encoding writer holds less than one complete unit *)
Lemma tw_loop_retains_less cx : forall f data c w c' w',
  tw_loop f cx data c w = (c', w', WOk) -> c_end_written c' = false ->
  match tw_buf w' with Some b => zlen b < tw_expect w' | None => True end.
Proof.
  induction f as [|f IH]; intros data c w c' w' H Ew; cbn [tw_loop] in H; [discriminate|].
  destruct (tw_err w); [discriminate|]. cbv zeta in H.
  match type of H with (if ?b then _ else _) = _ => destruct b eqn:Lt end.
  { injection H as <- <-. cbn. apply Z.ltb_lt in Lt. rewrite zlen_app. lia. }
  destruct (tw_wenv w).
  - destruct (w_senv cx) as [se|]; [|discriminate].
    match type of H with (match ?p with Some _ => _ | None => _ end) = _ => destruct p as [env|] end; [|discriminate].
    destruct (w_limit cx <? e_len env); [discriminate|]. eapply IH; eauto.
  - match type of H with context [tw_flush_message cx c ?w0] => destruct (tw_flush_message cx c w0) as [c1 w1|e c1 w1 rep] eqn:FM end; [|discriminate].
    match type of H with (if ?b then _ else _) = _ => destruct b eqn:Tr end; [|eapply IH; eauto].
    injection H as <- <-. (* the end of the stream has been processed *)
    apply Bool.andb_true_iff in Tr as (Tr & _). exfalso.
    unfold tw_flush_message in FM. cbn [tw_latest tw_buf tw_err tw_expect tw_wenv tw_wascomp] in FM. rewrite Tr in FM.
    match type of FM with (match ?p with Some _ => _ | None => _ end) = _ => destruct p as [pl|] end; [|discriminate].
    destruct (decode_end_from_message cx pl); [|discriminate]. injection FM as <- _.
    rewrite report_end_ended in Ew. discriminate.
Qed.
