(** Segmentation independence of the response side (C08, writer half): handing the same bytes
    to Write in one piece or in two drives the writers through states that differ at most in the
    cutting of adjacent body writes on the client's connection ([blocks], Proofs/LogProofs.v). *)
From VG Require Import Model.Bytes Model.Response Model.Serve.
From VG Require Import Proofs.ResponseProofs Proofs.BoundProofs Proofs.NoPanicProofs Proofs.LogProofs.
From Coq Require Import Lia.
Open Scope Z_scope.

(** * Fuel: more never changes a result that is not a panic *)
From VG Require Import Proofs.StreamProofs.

Lemma tw_loop_fuel_S cx : forall f d c w c' w' r,
  tw_loop f cx d c w = (c', w', r) -> r <> WPanic -> tw_loop (S f) cx d c w = (c', w', r).
Proof.
  induction f as [|f IH]; intros d c w c' w' r H Hr; [cbn in H; injection H as _ _ <-; congruence|].
  cbn [tw_loop] in H. set (f1 := S f). cbn [tw_loop].
  destruct (tw_err w); [exact H|]. cbv zeta in *.
  match goal with |- context [if ?b then _ else _] => destruct b end; [exact H|].
  destruct (tw_wenv w).
  - destruct (w_senv cx); [|exact H].
    destruct (decode_env _ _) as [env|]; [|exact H].
    destruct (w_limit cx <? e_len env); [exact H|]. apply IH; assumption.
  - match goal with |- context [tw_flush_message cx c ?w0] => destruct (tw_flush_message cx c w0) as [c1 w1|e c1 w1 rep] end; [|exact H].
    match goal with |- context [if ?b then _ else _] => destruct b end; [exact H|apply IH; assumption].
Qed.

Lemma tw_loop_fuel_le cx f f' d c w c' w' r :
  tw_loop f cx d c w = (c', w', r) -> r <> WPanic -> (f <= f')%nat -> tw_loop f' cx d c w = (c', w', r).
Proof. intros H Hr Hle. induction Hle; [exact H|]. apply tw_loop_fuel_S; assumption. Qed.

(** with enough fuel the result does not depend on the fuel *)
Lemma tw_loop_fuel cx f f' d c w : (tw_measure d w < f)%nat -> (tw_measure d w < f')%nat -> TwOK cx w ->
  tw_loop f cx d c w = tw_loop f' cx d c w.
Proof.
  intros Hf Hf' Hok.
  destruct (tw_loop f cx d c w) as [[c1 w1] r1] eqn:E1. destruct (tw_loop f' cx d c w) as [[c2 w2] r2] eqn:E2.
  destruct (tw_loop_np cx _ _ _ _ _ _ _ Hf Hok E1) as [N1 _]. destruct (tw_loop_np cx _ _ _ _ _ _ _ Hf' Hok E2) as [N2 _].
  destruct (Nat.le_ge_cases f f') as [L|L].
  - rewrite (tw_loop_fuel_le cx _ _ _ _ _ _ _ _ E1 N1 L) in E2. exact E2.
  - rewrite (tw_loop_fuel_le cx _ _ _ _ _ _ _ _ E2 N2 L) in E1. symmetry. exact E1.
Qed.

(** * transformingWriter: one iteration of the Write loop *)
Inductive tstep := TCont (rest : bytes) (c : rwc) (w : tw) | TDone (x : rwc * tw * wres).

Definition tw_setbuf (w : tw) (b : bytes) : tw := mkTw (tw_err w) (Some b) (tw_expect w) (tw_wenv w) (tw_latest w) (tw_wascomp w).

Definition tw_step (cx : wctx) (data : bytes) (c : rwc) (w : tw) : tstep :=
  if tw_err w then TDone (c, w, WFail) else
  let b := tw_b w in
  let remaining := tw_expect w - zlen b in
  if zlen data <? remaining then TDone (c, tw_setbuf w (b ++ data), WOk)
  else
    let now := ztake remaining data in
    let rest := zdrop remaining data in
    let full := b ++ now in
    if tw_wenv w then
      match w_senv cx with
      | None => TDone (c, w, WPanic)
      | Some se =>
          match decode_env se (firstn 5 full) with
          | None => TDone (report_error cx EInvalidArgument c, mkTw true (Some (skipn 5 full)) (tw_expect w) (tw_wenv w) (tw_latest w) (tw_wascomp w), WFail)
          | Some env =>
              if w_limit cx <? e_len env then
                TDone (report_error cx EResourceExhausted c, mkTw true (Some (skipn 5 full)) (tw_expect w) (tw_wenv w) env (tw_wascomp w), WFail)
              else TCont rest c (mkTw (tw_err w) (Some []) (e_len env) false env (e_compressed env))
          end
      end
    else
      match tw_flush_message cx c (tw_setbuf w full) with
      | FErr e c' w' reported => TDone ((if reported then c' else report_error cx e c'),
                                        mkTw true (tw_buf w') (tw_expect w') (tw_wenv w') (tw_latest w') (tw_wascomp w'), WFail)
      | FOk c' w' =>
          if e_trailer (tw_latest w) && (match rest with [] => true | _ => false end) then TDone (c', w', WOk)
          else TCont rest c' (mkTw (tw_err w') (tw_buf w') 5 true (tw_latest w') (tw_wascomp w'))
      end.

Lemma tw_loop_S cx f d c w :
  tw_loop (S f) cx d c w = match tw_step cx d c w with TCont rest c' w' => tw_loop f cx rest c' w' | TDone x => x end.
Proof.
  cbn [tw_loop]. unfold tw_step, tw_setbuf, tw_b. destruct (tw_err w); [reflexivity|]. cbv zeta.
  match goal with |- context [if ?b then _ else _] => destruct b end; [reflexivity|].
  destruct (tw_wenv w).
  - destruct (w_senv cx); [|reflexivity]. destruct (decode_env _ _) as [env|]; [|reflexivity].
    destruct (w_limit cx <? e_len env); reflexivity.
  - match goal with |- match tw_flush_message cx c ?w0 with _ => _ end = _ =>
      match goal with |- _ = match match tw_flush_message cx c ?w1 with _ => _ end with _ => _ end => change w1 with w0 end;
      destruct (tw_flush_message cx c w0) as [c1 w1|e c1 w1 rep] end; [|reflexivity].
    match goal with |- context [if ?b then _ else _] => destruct b end; reflexivity.
Qed.

Lemma tw_step_ok cx d c w rest c' w' : TwOK cx w -> tw_step cx d c w = TCont rest c' w' ->
  TwOK cx w' /\ (tw_measure rest w' < tw_measure d w)%nat.
Proof.
  intros HN H. unfold tw_step in H.
  destruct (tw_err w) eqn:Er; [discriminate|].
  destruct HN as [D|(Hs & Hb & He)]; [congruence|]. cbv zeta in H.
  pose proof (zlen_nonneg d) as Hd0.
  destruct (Z.ltb_spec (zlen d) (tw_expect w - zlen (tw_b w))) as [Hlt|Hge]; [discriminate|].
  destruct (tw_wenv w) eqn:Ew.
  - destruct (w_senv cx) as [se|] eqn:Es; [|congruence].
    specialize (Hb eq_refl).
    assert (Hnz : d <> []) by (intros ->; cbn in Hge; lia).
    assert (Hshort : (length (zdrop (tw_expect w - zlen (tw_b w)) d) < length d)%nat) by (apply zdrop_length_lt; [lia|exact Hnz]).
    destruct (decode_env _ _) as [env|] eqn:De; [|discriminate].
    destruct (w_limit cx <? e_len env); [discriminate|].
    pose proof (decode_env_len_nonneg _ _ _ De) as Hlen.
    injection H as <- <- <-. split.
    + right. unfold TwNP, tw_b. cbn. rewrite Es. split; [discriminate|]. split; [discriminate|lia].
    + unfold tw_measure. cbn. rewrite Ew. lia.
  - destruct (tw_flush_message cx c _) as [c1 w1|e c1 w1 rep] eqn:FM; [|discriminate].
    match type of H with (if ?b then _ else _) = _ => destruct b end; [discriminate|].
    injection H as <- <- <-. split.
    + destruct (tw_flush_message_w _ _ _ _ _ FM) as [E|E]; [left; cbn; exact E|]. rewrite E.
      right. unfold TwNP, tw_b, tw_reset, tw_setbuf. cbn. destruct (w_senv cx); [|congruence]. cbn.
      split; [discriminate|]. split; [intros _; unfold zlen; cbn; lia|lia].
    + pose proof (zdrop_length_le (tw_expect w - zlen (tw_b w)) d). unfold tw_measure. cbn. rewrite Ew. lia.
Qed.

(** the bytes of a Write that does not complete the current unit are only kept *)
Lemma tw_step_partial cx a b c w : TwOK cx w -> tw_err w = false -> zlen a < tw_expect w - zlen (tw_b w) ->
  tw_step cx (a ++ b) c w = tw_step cx b c (tw_setbuf w (tw_b w ++ a)).
Proof.
  intros [D|(Hs & _)] Er Hlt; [congruence|]. unfold tw_step. cbn [tw_setbuf tw_err tw_expect tw_wenv tw_latest tw_wascomp]. rewrite Er.
  replace (tw_b (tw_setbuf w (tw_b w ++ a))) with (tw_b w ++ a) by reflexivity. cbv zeta.
  rewrite !zlen_app.
  replace (tw_expect w - (zlen (tw_b w) + zlen a)) with (tw_expect w - zlen (tw_b w) - zlen a) by lia.
  set (rem := tw_expect w - zlen (tw_b w)) in *.
  destruct (Z.ltb_spec (zlen a + zlen b) rem) as [L|G]; destruct (Z.ltb_spec (zlen b) (rem - zlen a)) as [L'|G']; try lia.
  - unfold tw_setbuf. cbn. rewrite app_assoc. reflexivity.
  - rewrite (ztake_app_ge rem a b) by lia. rewrite (zdrop_app_ge rem a b) by lia. rewrite app_assoc.
    unfold tw_setbuf. cbn [tw_err tw_expect tw_wenv tw_latest tw_wascomp tw_buf].
    destruct (w_senv cx); [reflexivity|congruence].
Qed.

Definition tweq (c : rwc) (w w' : tw) : Prop := w = w' \/ (tw_err w = true /\ tw_err w' = true /\ c_end_written c = true).
Definition t3eq (x y : rwc * tw * wres) : Prop := fst (fst x) = fst (fst y) /\ tweq (fst (fst x)) (snd (fst x)) (snd (fst y)) /\ snd x = snd y.
Lemma t3eq_refl x : t3eq x x. Proof. repeat split. left. reflexivity. Qed.

(** a Write that completes the unit does the same whatever follows it in the same Write *)
Lemma tw_step_full cx a b c w : TwOK cx w -> tw_expect w - zlen (tw_b w) <= zlen a ->
  match tw_step cx a c w with
  | TCont rest c' w' => tw_step cx (a ++ b) c w = TCont (rest ++ b) c' w'
  | TDone (c1, w1, WOk) =>
      tw_err w1 = true /\ c_end_written c1 = true /\
      match b with
      | [] => tw_step cx (a ++ b) c w = TDone (c1, w1, WOk)
      | _ => exists w2, tw_step cx (a ++ b) c w = TCont b c1 w2 /\ tw_err w2 = true
      end
  | TDone x => tw_step cx (a ++ b) c w = TDone x
  end.
Proof.
  intros HN Hge. unfold tw_step.
  destruct (tw_err w) eqn:Er; [reflexivity|]. cbv zeta.
  set (rem := tw_expect w - zlen (tw_b w)) in *.
  pose proof (zlen_nonneg b) as Hb0.
  destruct (Z.ltb_spec (zlen a) rem) as [L|_]; [lia|].
  rewrite zlen_app. destruct (Z.ltb_spec (zlen a + zlen b) rem) as [L|_]; [lia|].
  rewrite (ztake_app_le rem a b) by lia. rewrite (zdrop_app_le rem a b) by lia.
  destruct (tw_wenv w).
  - destruct (w_senv cx); [|reflexivity]. destruct (decode_env _ _) as [env|]; [|reflexivity].
    destruct (w_limit cx <? e_len env); reflexivity.
  - destruct (tw_flush_message cx c _) as [c1 w1|e c1 w1 rep] eqn:FM; [|reflexivity].
    destruct (e_trailer (tw_latest w)) eqn:Et; cbn [andb]; [|reflexivity].
    destruct (zdrop rem a) as [|x r] eqn:Ez; [|reflexivity].
    assert (E1 : tw_err w1 = true /\ c_end_written c1 = true).
    { unfold tw_flush_message in FM. cbn [tw_setbuf tw_latest] in FM. rewrite Et in FM.
      match type of FM with context [match ?p with Some _ => _ | None => _ end] => destruct p as [pl|] end; [|discriminate].
      destruct (decode_end_from_message cx pl); [|discriminate]. injection FM as <- <-. split; [reflexivity|apply report_end_ended]. }
    destruct E1 as [E1 E1']. split; [exact E1|]. split; [exact E1'|]. cbn [app]. destruct b as [|y b']; [reflexivity|].
    eexists. split; [reflexivity|]. exact E1.
Qed.

Lemma tw_loop_err cx f d c w : tw_err w = true -> tw_loop (S f) cx d c w = (c, w, WFail).
Proof. intros E. cbn [tw_loop]. rewrite E. reflexivity. Qed.

Lemma tw_measure_app a b w : tw_measure (a ++ b) w = (2 * length a + tw_measure b w)%nat.
Proof. unfold tw_measure. rewrite app_length. lia. Qed.

(** the Write loop over [a ++ b] is the loop over [a] followed by the loop over [b] *)
Lemma tw_loop_app cx b : b <> [] -> forall f a c w F,
  (tw_measure a w < f)%nat -> (tw_measure (a ++ b) w < F)%nat -> TwOK cx w ->
  t3eq (tw_loop F cx (a ++ b) c w)
       (let '(c1, w1, r1) := tw_loop f cx a c w in
        match r1 with WOk => tw_loop (2 * length b + 4) cx b c1 w1 | _ => (c1, w1, r1) end).
Proof.
  intros Hb. induction f as [|f IH]; intros a c w F Hf HF HN; [lia|].
  destruct F as [|F0]; [lia|]. rewrite !tw_loop_S.
  destruct (tw_err w) eqn:Er.
  { unfold tw_step. rewrite Er. apply t3eq_refl. }
  destruct (Z.ltb_spec (zlen a) (tw_expect w - zlen (tw_b w))) as [Hlt|Hge].
  - (* the bytes of [a] are only kept *)
    rewrite (tw_step_partial cx a b c w HN Er Hlt).
    assert (Ea : tw_step cx a c w = TDone (c, tw_setbuf w (tw_b w ++ a), WOk)).
    { unfold tw_step. rewrite Er. cbv zeta. destruct (Z.ltb_spec (zlen a) (tw_expect w - zlen (tw_b w))); [reflexivity|lia]. }
    rewrite Ea. set (w1 := tw_setbuf w (tw_b w ++ a)).
    assert (N1 : TwOK cx w1).
    { destruct HN as [D|(Hs & Hbb & He)]; [congruence|]. right. unfold TwNP, w1, tw_setbuf, tw_b. cbn.
      split; [exact Hs|]. split; [|exact He]. intros _. fold (tw_b w). rewrite zlen_app. lia. }
    assert (M1 : tw_measure b w1 = tw_measure b w) by reflexivity.
    rewrite tw_measure_app in HF.
    rewrite (tw_loop_fuel cx (2 * length b + 4) (S F0) b c w1); [| |lia|exact N1].
    + rewrite tw_loop_S. apply t3eq_refl.
    + rewrite M1. unfold tw_measure. destruct (tw_wenv w); lia.
  - pose proof (tw_step_full cx a b c w HN Hge) as SF.
    destruct (tw_step cx a c w) as [rest c' w'|[[c1 w1] r1]] eqn:Sa.
    + rewrite SF. destruct (tw_step_ok cx _ _ _ _ _ _ HN Sa) as [N' M']. destruct (tw_step_ok cx _ _ _ _ _ _ HN SF) as [_ M''].
      apply IH; [lia|lia|exact N'].
    + destruct r1.
      * destruct SF as (E1 & E1' & SF). destruct b as [|y b']; [congruence|]. destruct SF as (w2 & SF & E2). rewrite SF.
        rewrite tw_measure_app in HF. assert (HF0 : (1 <= F0)%nat) by (unfold tw_measure in HF; cbn [length] in HF; destruct (tw_wenv w); lia).
        destruct F0 as [|F1]; [lia|]. rewrite (tw_loop_err cx F1 _ _ _ E2).
        replace (2 * length (y :: b') + 4)%nat with (S (2 * length (y :: b') + 3))%nat by lia.
        rewrite (tw_loop_err cx _ _ _ _ E1). repeat split. right. repeat split; assumption.
      * rewrite SF. apply t3eq_refl.
      * rewrite SF. apply t3eq_refl.
Qed.

Lemma tw_flush_message_buf cx c w c' w' : tw_flush_message cx c w = FOk c' w' -> tw_buf w <> None -> tw_buf w' <> None.
Proof.
  unfold tw_flush_message. destruct (e_trailer (tw_latest w)).
  - match goal with |- context [match ?p with Some _ => _ | None => _ end] => destruct p as [pl|] end; [|discriminate].
    destruct (decode_end_from_message cx pl); [|discriminate]. intros [= <- <-]. cbn. auto.
  - destruct (advance_resp cx _ _ _); [|discriminate].
    match goal with |- context [match ?p with Some _ => _ | None => _ end] => destruct p as [env|] end; [|discriminate].
    match goal with |- context [let '(c1, ok1) := ?p in _] => destruct p as [c1 ok1] end.
    destruct ok1; cbn [negb]; [|discriminate]. destruct (sink_write cx b c1) as [c2 ok2]. destruct ok2; cbn [negb]; [|discriminate].
    intros [= <- <-] _. unfold tw_reset. destruct (w_senv cx); cbn; discriminate.
Qed.

Lemma tw_loop_buf cx : forall f d c w c' w', tw_loop f cx d c w = (c', w', WOk) -> tw_buf w <> None -> tw_buf w' <> None.
Proof.
  induction f as [|f IH]; intros d c w c' w' H Hb; [discriminate|]. rewrite tw_loop_S in H.
  unfold tw_step in H. destruct (tw_err w); [discriminate|]. cbv zeta in H.
  match type of H with context [if ?b then _ else _] => destruct b end; [injection H as _ <-; cbn; discriminate|].
  destruct (tw_wenv w).
  - destruct (w_senv cx); [|discriminate]. destruct (decode_env _ _) as [env|]; [|discriminate].
    destruct (w_limit cx <? e_len env); [discriminate|]. eapply IH; [exact H|cbn; discriminate].
  - destruct (tw_flush_message cx c _) as [c1 w1|e c1 w1 rep] eqn:FM; [|discriminate].
    pose proof (tw_flush_message_buf _ _ _ _ _ FM ltac:(cbn; discriminate)) as B1.
    match type of H with context [if ?b then _ else _] => destruct b end; [injection H as _ <-; exact B1|].
    eapply IH; [exact H|exact B1].
Qed.

(** transformingWriter.Write: handing over [a ++ b] at once or as [a] then [b] *)
Theorem tw_write_app cx a b c w : b <> [] -> TwReady cx w ->
  t3eq (tw_write cx (a ++ b) c w)
       (let '(c1, w1, r1) := tw_write cx a c w in
        match r1 with WOk => tw_write cx b c1 w1 | _ => (c1, w1, r1) end).
Proof.
  intros Hb HR. unfold tw_write at 1 2.
  destruct (tw_err w) eqn:Er; [apply t3eq_refl|].
  set (w0 := match tw_buf w with None => tw_reset cx c w | Some _ => w end).
  assert (H0 : tw_err w0 = false /\ tw_buf w0 <> None /\ (tw_expect w0 = -1 \/ TwNP cx w0)).
  { unfold w0. destruct (tw_buf w) eqn:Eb.
    - split; [exact Er|]. split; [congruence|]. destruct HR as [D|[D|[E|N]]]; [congruence|congruence|left; exact E|right; exact N].
    - unfold tw_reset. destruct (w_senv cx) eqn:Es; cbn; (split; [exact Er|]); (split; [discriminate|]); [right|left; reflexivity].
      unfold TwNP, tw_b. cbn. rewrite Es. split; [discriminate|]. split; [intros _; unfold zlen; cbn; lia|lia]. }
  clearbody w0. destruct H0 as (Er0 & Hb0 & H0).
  destruct (Z.eqb_spec (tw_expect w0) (-1)) as [E1|N1].
  - (* no envelopes on the server side: the body is collected *)
    destruct (tw_buf w0) as [b0|] eqn:Eb0; [|congruence]. rewrite zlen_app.
    pose proof (zlen_nonneg a). pose proof (zlen_nonneg b).
    destruct (Z.ltb_spec (w_limit cx) (zlen a + zlen b0)) as [La|La].
    + destruct (Z.ltb_spec (w_limit cx) (zlen a + zlen b + zlen b0)) as [_|L]; [|lia]. apply t3eq_refl.
    + unfold tw_write. cbn [tw_err tw_buf tw_expect]. rewrite Er0. rewrite E1. cbn [Z.eqb]. rewrite zlen_app.
      replace (zlen b + (zlen b0 + zlen a)) with (zlen a + zlen b + zlen b0) by lia.
      destruct (Z.ltb_spec (w_limit cx) (zlen a + zlen b + zlen b0)) as [L|L].
      * repeat split. right. repeat split. apply report_error_ended.
      * rewrite app_assoc. apply t3eq_refl.
  - destruct H0 as [D|NP]; [congruence|].
    assert (Hfa : (tw_measure a w0 < 2 * length a + 4)%nat) by (unfold tw_measure; destruct (tw_wenv w0); lia).
    assert (Hfab : (tw_measure (a ++ b) w0 < 2 * length (a ++ b) + 4)%nat) by (unfold tw_measure; destruct (tw_wenv w0); lia).
    pose proof (tw_loop_app cx b Hb _ a c w0 _ Hfa Hfab (or_intror NP)) as T.
    destruct (tw_loop (2 * length a + 4) cx a c w0) as [[c1 w1] r1] eqn:La.
    destruct r1; try exact T.
    destruct (tw_loop_np cx _ _ _ _ _ _ _ Hfa (or_intror NP) La) as [_ N1'].
    pose proof (tw_loop_buf cx _ _ _ _ _ _ La Hb0) as B1.
    unfold tw_write. destruct (tw_err w1) eqn:Er1.
    + replace (2 * length b + 4)%nat with (S (2 * length b + 3)) in T by lia. rewrite (tw_loop_err cx _ _ _ _ Er1) in T. exact T.
    + destruct N1' as [D|N1']; [congruence|]. destruct (tw_buf w1); [|congruence].
      destruct N1' as (_ & _ & Ne). destruct (Z.eqb_spec (tw_expect w1) (-1)); [congruence|]. exact T.
Qed.

(** * envelopingWriter: one iteration of the Write loop *)
Inductive estep := ECont (rest : bytes) (c : rwc) (w : ew) | EDone (x : rwc * ew * wres).

(** what follows the write of the last bytes of a message or trailer *)
Definition ew_unit_done (cx : wctx) (rest : bytes) (c1 : rwc) (w1 : ew) : estep :=
  let w2 := ew_upd w1 (ew_wenv w1) (ew_envacc w1) 0 (ew_cur w1) (ew_is_trailer w1) (ew_trailer_comp w1) in
  if ew_is_trailer w2 then
    let tb := match ew_cur w2 with ECTrailer b => b | _ => [] end in
    let w3 := ew_upd w2 (ew_wenv w2) (ew_envacc w2) 0 (ew_cur w2) true (ew_trailer_comp w2) in
    let plain := if ew_trailer_comp w2 && negb (Nat.eqb (length tb) 0) && negb (Nat.eqb (length (c_resp_comp c1)) 0)
                 then o_decompress (w_or cx) tb else Some tb in
    match plain with
    | None => EDone (c1, ew_set_err w3, WFail)
    | Some p =>
        match decode_end_from_message cx p with
        | None => EDone (report_error cx EOther c1, ew_set_err w3, WFail)
        | Some e =>
            let c2 := report_end cx (with_wascomp e (ew_trailer_comp w2)) c1 in
            EDone (c2, ew_set_err w3, match rest with [] => WOk | _ => WFail end)
        end
    end
  else
    let c2 := flush_message c1 in
    if ew_fixed w2 then
      let w3 := mkEw (ew_init w2) (ew_err w2) (ew_wenv w2) (ew_envacc w2) 0 (ew_cur w2) (ew_is_trailer w2) (ew_trailer_comp w2) true true in
      match rest with
      | [] => EDone (c2, w3, WOk)
      | _ => EDone (report_error cx EOther c2, ew_set_err w3, WFail)
      end
    else ECont rest c2 (ew_upd w2 true [] 5 (ew_cur w2) (ew_is_trailer w2) (ew_trailer_comp w2)).

Definition ew_step (cx : wctx) (data : bytes) (c : rwc) (w : ew) : estep :=
  if ew_err w then EDone (c, w, WFail) else
  if zlen data <? ew_remaining w then
    if ew_wenv w then
      EDone (c, ew_upd w true (ew_envacc w ++ data) (ew_remaining w - zlen data) (ew_cur w) (ew_is_trailer w) (ew_trailer_comp w), WOk)
    else
      let '(c', w', r) := ew_cur_write cx data c w in
      match r with
      | WOk => EDone (c', ew_upd w' (ew_wenv w') (ew_envacc w') (ew_remaining w' - zlen data) (ew_cur w') (ew_is_trailer w') (ew_trailer_comp w'), WOk)
      | WFail => EDone (c', ew_set_err w', WFail)
      | WPanic => EDone (c', w', WPanic)
      end
  else
    let now := ztake (ew_remaining w) data in
    let rest := zdrop (ew_remaining w) data in
    if ew_wenv w then
      let envb := ew_envacc w ++ now in
      match w_senv cx with
      | None => EDone (c, w, WPanic)
      | Some se =>
          match decode_env se envb with
          | None => EDone (report_error cx EInvalidArgument c, ew_set_err (ew_upd w false [] 0 (ew_cur w) (ew_is_trailer w) (ew_trailer_comp w)), WFail)
          | Some env =>
              if e_trailer env then
                if w_limit cx <? e_len env then
                  EDone (report_error cx EResourceExhausted c, ew_set_err (ew_upd w false [] 0 (ew_cur w) (ew_is_trailer w) (ew_trailer_comp w)), WFail)
                else ECont rest c (ew_upd w false [] (e_len env) (ECTrailer []) true (e_compressed env))
              else
                match w_cenv cx with
                | Some ce =>
                    let '(c', ok) := sink_write cx (encode_env ce env) c in
                    if ok then ECont rest c' (ew_upd w false [] (e_len env) ECSink (ew_is_trailer w) (ew_trailer_comp w))
                    else EDone (c', ew_set_err (ew_upd w false [] 0 (ew_cur w) (ew_is_trailer w) (ew_trailer_comp w)), WFail)
                | None => ECont rest c (ew_upd w false [] (e_len env) ECSink (ew_is_trailer w) (ew_trailer_comp w))
                end
          end
      end
    else
      let '(c1, w1, r) := ew_cur_write cx now c w in
      match r with
      | WPanic => EDone (c1, w1, WPanic)
      | WFail => EDone (c1, ew_set_err w1, WFail)
      | WOk => ew_unit_done cx rest c1 w1
      end.

Definition erun (cx : wctx) (f : nat) (s : estep) : rwc * ew * wres :=
  match s with ECont rest c w => ew_loop f cx rest c w | EDone x => x end.

Lemma ew_loop_S cx f d c w : ew_loop (S f) cx d c w = erun cx f (ew_step cx d c w).
Proof.
  cbn [ew_loop]. unfold ew_step, erun. destruct (ew_err w); [reflexivity|].
  destruct (zlen d <? ew_remaining w).
  { destruct (ew_wenv w); [reflexivity|]. destruct (ew_cur_write cx d c w) as [[c1 w1] []]; reflexivity. }
  cbv zeta. destruct (ew_wenv w).
  - destruct (w_senv cx); [|reflexivity]. destruct (decode_env _ _) as [env|]; [|reflexivity].
    destruct (e_trailer env); [destruct (w_limit cx <? e_len env); reflexivity|].
    destruct (w_cenv cx); [|reflexivity]. destruct (sink_write cx _ c) as [c1 []]; reflexivity.
  - destruct (ew_cur_write cx _ c w) as [[c1 w1] []]; try reflexivity.
    unfold ew_unit_done. cbv zeta.
    match goal with |- context [if ?b then _ else _] => destruct b end.
    + match goal with |- context [match ?p with Some _ => _ | None => _ end] => destruct p as [pl|] end; [|reflexivity].
      destruct (decode_end_from_message cx pl); reflexivity.
    + match goal with |- context [if ?b then _ else _] => destruct b end; [|reflexivity].
      destruct (zdrop _ _); reflexivity.
Qed.

Lemma ew_loop_fuel_S cx : forall f d c w c' w' r,
  ew_loop f cx d c w = (c', w', r) -> r <> WPanic -> ew_loop (S f) cx d c w = (c', w', r).
Proof.
  induction f as [|f IH]; intros d c w c' w' r H Hr; [cbn in H; injection H as _ _ <-; congruence|].
  rewrite ew_loop_S in *. destruct (ew_step cx d c w) as [rest c1 w1|x]; [|exact H]. cbn [erun] in *. apply IH; assumption.
Qed.

Lemma ew_loop_fuel_le cx f f' d c w c' w' r :
  ew_loop f cx d c w = (c', w', r) -> r <> WPanic -> (f <= f')%nat -> ew_loop f' cx d c w = (c', w', r).
Proof. intros H Hr Hle. induction Hle; [exact H|]. apply ew_loop_fuel_S; assumption. Qed.

Lemma ew_loop_fuel cx f f' d c w : (ew_measure d w < f)%nat -> (ew_measure d w < f')%nat -> EwOK cx w -> 0 <= ew_remaining w ->
  ew_loop f cx d c w = ew_loop f' cx d c w.
Proof.
  intros Hf Hf' Hok Hr.
  destruct (ew_loop f cx d c w) as [[c1 w1] r1] eqn:E1. destruct (ew_loop f' cx d c w) as [[c2 w2] r2] eqn:E2.
  destruct (ew_loop_np cx _ _ _ _ _ _ _ Hf Hok Hr E1) as [N1 _]. destruct (ew_loop_np cx _ _ _ _ _ _ _ Hf' Hok Hr E2) as [N2 _].
  destruct (Nat.le_ge_cases f f') as [L|L].
  - rewrite (ew_loop_fuel_le cx _ _ _ _ _ _ _ _ E1 N1 L) in E2. exact E2.
  - rewrite (ew_loop_fuel_le cx _ _ _ _ _ _ _ _ E2 N2 L) in E1. symmetry. exact E1.
Qed.

(** no measuring sink inside the loop (it belongs to the unframed mode) *)
Definition no_measure (w : ew) : Prop := match ew_cur w with ECMeasure _ => False | _ => True end.

Lemma ew_cur_write_nm cx d c w c' w' r : no_measure w -> ew_cur_write cx d c w = (c', w', r) -> no_measure w'.
Proof.
  unfold no_measure, ew_cur_write. destruct (ew_cur w) eqn:Ec; intros Hn H; try contradiction.
  - injection H as _ <- _. rewrite Ec. exact I.
  - destruct (sink_write cx d c). injection H as _ <- _. rewrite Ec. exact I.
  - injection H as _ <- _. exact I.
Qed.

(** what a continuing iteration preserves *)
Lemma ew_step_ok cx d c w rest c' w' :
  EwOK cx w -> 0 <= ew_remaining w -> no_measure w -> Good cx c -> c_end_written c = false ->
  ew_step cx d c w = ECont rest c' w' ->
  EwOK cx w' /\ 0 <= ew_remaining w' /\ no_measure w' /\ Good cx c' /\ c_end_written c' = false /\ (ew_measure rest w' < ew_measure d w)%nat.
Proof.
  intros HN Hr0 Hnm HG Ee H. unfold ew_step in H.
  destruct (ew_err w) eqn:Er; [discriminate|].
  destruct HN as [HN|(Hfx & Ha & Hb)]; [congruence|].
  pose proof (zlen_nonneg d) as Hd0.
  destruct (Z.ltb_spec (zlen d) (ew_remaining w)) as [Hlt|Hge].
  { destruct (ew_wenv w); [discriminate|]. destruct (ew_cur_write cx d c w) as [[c1 w1] []]; discriminate. }
  cbv zeta in H.
  destruct (ew_wenv w) eqn:Ew.
  { destruct (Ha eq_refl) as (Hfix & Hr). pose proof (Hfx Hfix Hr0) as Hs.
    destruct (w_senv cx) as [se|] eqn:Es; [|congruence].
    assert (Hnz : d <> []) by (intros ->; cbn in Hge; lia).
    assert (Hshort : (length (zdrop (ew_remaining w) d) < length d)%nat) by (apply zdrop_length_lt; [lia|exact Hnz]).
    destruct (decode_env se _) as [env|] eqn:De; [|discriminate].
    pose proof (decode_env_len_nonneg _ _ _ De) as Hlen.
    assert (NP : forall cur it tc, cur <> ECNone -> EwNP cx (ew_upd w false [] (e_len env) cur it tc)).
    { intros cur it tc Hc. unfold EwNP, ew_upd. cbn. rewrite Es. split; [intros _ _; discriminate|]. split; [discriminate|intros _; exact Hc]. }
    assert (M : forall cur it tc, (ew_measure (zdrop (ew_remaining w) d) (ew_upd w false [] (e_len env) cur it tc) < ew_measure d w)%nat).
    { intros. unfold ew_measure, ew_upd. cbn. rewrite Ew. lia. }
    destruct (e_trailer env).
    - destruct (w_limit cx <? e_len env); [discriminate|]. injection H as <- <- <-.
      split; [right; apply NP; discriminate|]. split; [exact Hlen|]. split; [exact I|]. split; [exact HG|]. split; [exact Ee|apply M].
    - destruct (w_cenv cx) as [ce|].
      + destruct (sink_write cx _ c) as [c1 ok] eqn:S. destruct (sink_write_good _ _ _ _ _ HG Ee S) as (G1 & E1).
        destruct ok; [|discriminate]. injection H as <- <- <-.
        split; [right; apply NP; discriminate|]. split; [exact Hlen|]. split; [exact I|]. split; [exact G1|]. split; [apply E1; reflexivity|apply M].
      + injection H as <- <- <-.
        split; [right; apply NP; discriminate|]. split; [exact Hlen|]. split; [exact I|]. split; [exact HG|]. split; [exact Ee|apply M]. }
  destruct (ew_cur_write cx _ c w) as [[c1 w1] r1] eqn:CW.
  destruct (ew_cur_write_np _ _ _ _ _ _ _ (Hb eq_refl) CW) as (Np & Hc1 & Hw1 & Hf1).
  destruct (ew_cur_write_good _ _ _ _ _ _ _ HG Ee CW) as (G1 & E1).
  pose proof (ew_cur_write_nm _ _ _ _ _ _ _ Hnm CW) as Nm1.
  destruct r1; try discriminate. specialize (E1 eq_refl).
  unfold ew_unit_done in H. cbv zeta in H.
  match type of H with (if ?b then _ else _) = _ => destruct b end.
  - match type of H with (match ?p with _ => _ end) = _ => destruct p as [pl|] end; [|discriminate].
    destruct (decode_end_from_message cx pl); discriminate.
  - destruct (flush_message_good cx c1 G1 E1) as (G2 & E2).
    match type of H with (if ?b then _ else _) = _ => destruct b eqn:Fx end.
    + destruct (zdrop (ew_remaining w) d); discriminate.
    + injection H as <- <- <-. cbn in Fx.
      split; [right; unfold EwNP, ew_upd; cbn; split; [intros _ _; apply Hfx; [congruence|exact Hr0]|]; split; [intros _; split; [exact Fx|lia]|discriminate]|].
      split; [cbn; lia|]. split; [unfold no_measure in *; cbn; exact Nm1|]. split; [exact G2|]. split; [exact E2|].
      pose proof (zdrop_length_le (ew_remaining w) d). unfold ew_measure, ew_upd. cbn. rewrite Ew. lia.
Qed.

(** * Two writes to the sink or one *)
Definition set_buf (c : rwc) (b : option bytes) : rwc :=
  mkRwc (c_hdr c) (c_flushed c) (c_end_written c) (c_meta c) (c_err c) b (c_resp_comp c) (c_out c).

Lemma flush_headers_buf_irrel cx h en m er rc l x y : has_err m = true ->
  flush_headers cx (mkRwc h false en (Some m) er (Some x) rc l) = flush_headers cx (mkRwc h false en (Some m) er (Some y) rc l).
Proof.
  intros He. unfold flush_headers. cbn [c_flushed c_meta c_buf c_hdr c_resp_comp c_end_written c_err c_out].
  rewrite He. unfold emit. cbn [c_flushed c_meta c_buf c_hdr c_resp_comp c_end_written c_err c_out]. reflexivity.
Qed.

Transparent report_end report_error.
(** an error reported before the head is out discards whatever was collected for the body *)
Lemma report_error_buf_irrel cx e c x y : c_flushed c = false -> c_end_written c = false ->
  report_error cx e (set_buf c (Some x)) = report_error cx e (set_buf c (Some y)).
Proof.
  destruct c as [h f en m er b rc l]. cbn [c_flushed c_end_written]. intros -> ->. unfold report_error, report_end, set_buf.
  cbn [c_flushed c_meta c_buf c_hdr c_resp_comp c_end_written c_err c_out].
  match goal with |- context [flush_headers cx (mkRwc h false false (Some ?mm) er (Some x) rc l)] =>
    rewrite (flush_headers_buf_irrel cx h false mm er rc l x y); [reflexivity|] end.
  destruct m as [m|]; destruct e; try reflexivity; destruct (rm_pending_trailers m); reflexivity.
Qed.
Opaque report_end report_error.

Lemma sink_write_app cx a b c : CoreInv c ->
  match sink_write cx a c with
  | (c1, true) => ceq (fst (sink_write cx b c1)) (fst (sink_write cx (a ++ b) c)) /\ snd (sink_write cx b c1) = snd (sink_write cx (a ++ b) c)
  | (c1, false) => sink_write cx (a ++ b) c = (c1, false)
  end.
Proof.
  intros (_ & Hf & Hb & _). unfold sink_write. pose proof (zlen_nonneg a). pose proof (zlen_nonneg b).
  destruct (end_must_be_in_headers (w_client cx)).
  - destruct (c_buf c) as [b0|] eqn:Eb; [|rewrite Eb; split; apply ceq_refl || reflexivity].
    assert (Fl : c_flushed c = false) by (apply Hb; congruence).
    assert (En : c_end_written c = false) by (destruct (c_end_written c); [rewrite Hf in Fl by reflexivity; discriminate|reflexivity]).
    rewrite zlen_app.
    destruct (Z.ltb_spec (w_limit cx) (zlen b0 + zlen a)) as [La|La].
    + destruct (Z.ltb_spec (w_limit cx) (zlen b0 + (zlen a + zlen b))); [reflexivity|lia].
    + prj. rewrite zlen_app.
      destruct (Z.ltb_spec (w_limit cx) (zlen b0 + zlen a + zlen b)) as [L|L];
        destruct (Z.ltb_spec (w_limit cx) (zlen b0 + (zlen a + zlen b))) as [L'|L']; try lia; cbn [fst snd].
      * split; [|reflexivity].
        change (ceq (report_error cx EResourceExhausted (set_buf c (@Some bytes (b0 ++ a)))) (report_error cx EResourceExhausted c)).
        rewrite (report_error_buf_irrel cx EResourceExhausted c (b0 ++ a) b0 Fl En).
        replace (set_buf c (Some b0)) with c by (destruct c; cbn in Eb; subst; reflexivity). apply ceq_refl.
      * rewrite app_assoc. split; [apply ceq_refl|reflexivity].
  - destruct a as [|x a']; [split; [apply ceq_refl|reflexivity]|].
    destruct b as [|y b']; cbn [app fst snd].
    + rewrite app_nil_r. split; [apply ceq_refl|reflexivity].
    + split; [|reflexivity]. split; [reflexivity|]. unfold emit. prj. rewrite <- app_assoc. cbn [app].
      apply (blocks_two_writes (c_out c) (x :: a') (y :: b')). discriminate.
Qed.

(** * Relations between outcomes that differ only in the cutting of writes *)
Definition eweq (c : rwc) (w w' : ew) : Prop := w = w' \/ (ew_err w = true /\ ew_err w' = true /\ c_end_written c = true).
Definition e3eq (x y : rwc * ew * wres) : Prop :=
  ceq (fst (fst x)) (fst (fst y)) /\ eweq (fst (fst x)) (snd (fst x)) (snd (fst y)) /\ snd x = snd y.
Lemma e3eq_refl x : e3eq x x. Proof. split; [apply ceq_refl|]. split; [left|]; reflexivity. Qed.

Definition s3eq (s s' : estep) : Prop :=
  match s, s' with
  | ECont r c w, ECont r' c' w' => r = r' /\ ceq c c' /\ w = w'
  | EDone x, EDone y => e3eq x y
  | _, _ => False
  end.
Lemma s3eq_refl s : s3eq s s.
Proof. destruct s; cbn; [split; [reflexivity|]; split; [apply ceq_refl|reflexivity]|apply e3eq_refl]. Qed.

Lemma ceq_ended c c' : ceq c c' -> c_end_written c = c_end_written c'.
Proof. intros [A _]. apply (f_equal c_end_written) in A. exact A. Qed.

(** functions that commute with [pre] respect [ceq] *)
Lemma ceq_map3 {B C} (f : rwc -> rwc * B * C) : (forall o c, f (pre o c) = pre3 o (f c)) ->
  forall c c', ceq c c' -> ceq (fst (fst (f c))) (fst (fst (f c'))) /\ snd (fst (f c)) = snd (fst (f c')) /\ snd (f c) = snd (f c').
Proof.
  intros Hf c c' [A Bk]. rewrite (as_pre c), (as_pre c'), !Hf, A. unfold pre3. cbn [fst snd].
  split; [apply ceq_pre; exact Bk|]. split; reflexivity.
Qed.

Lemma ew_loop_ceq cx f d c c' w : ceq c c' -> e3eq (ew_loop f cx d c w) (ew_loop f cx d c' w).
Proof.
  intros H. destruct (ceq_map3 (fun c => ew_loop f cx d c w) (fun o c => ew_loop_pre cx o f d c w) c c' H) as (A & B & C).
  split; [exact A|]. split; [left; exact B|exact C].
Qed.

Definition pres (o : list devent) (s : estep) : estep :=
  match s with ECont r c w => ECont r (pre o c) w | EDone x => EDone (pre3 o x) end.

Lemma ew_unit_done_pre cx rest o c w : ew_unit_done cx rest (pre o c) w = pres o (ew_unit_done cx rest c w).
Proof.
  unfold ew_unit_done. cbv zeta. change (c_resp_comp (pre o c)) with (c_resp_comp c).
  match goal with |- context [if ?b then _ else _] => destruct b end.
  - match goal with |- context [match ?p with Some _ => _ | None => _ end] => destruct p as [pl|] end; [|reflexivity].
    destruct (decode_end_from_message cx pl); [|rewrite report_error_pre; reflexivity].
    Transparent report_end. rewrite report_end_pre. Opaque report_end. reflexivity.
  - rewrite flush_message_pre.
    match goal with |- context [if ?b then _ else _] => destruct b end; [|reflexivity].
    destruct rest; [reflexivity|]. rewrite report_error_pre. reflexivity.
Qed.

Lemma ew_unit_done_ceq cx rest c c' w : ceq c c' -> s3eq (ew_unit_done cx rest c w) (ew_unit_done cx rest c' w).
Proof.
  intros [A Bk]. rewrite (as_pre c), (as_pre c'), !ew_unit_done_pre, A.
  destruct (ew_unit_done cx rest (set_out c' []) w) as [r c1 w1|[[c1 w1] r1]]; cbn [pres s3eq].
  - split; [reflexivity|]. split; [apply ceq_pre; exact Bk|reflexivity].
  - unfold pre3. cbn [fst snd]. split; [apply ceq_pre; exact Bk|]. split; [left|]; reflexivity.
Qed.

Lemma erun_s3eq cx f s s' : s3eq s s' -> e3eq (erun cx f s) (erun cx f s').
Proof.
  destruct s as [r c w|x], s' as [r' c' w'|y]; cbn [s3eq erun]; try contradiction; [|auto].
  intros (-> & H & ->). apply ew_loop_ceq. exact H.
Qed.

Lemma sink_write_false_ended cx d c c' : sink_write cx d c = (c', false) -> c_end_written c' = true.
Proof.
  unfold sink_write. destruct (end_must_be_in_headers (w_client cx)).
  - destruct (c_buf c) as [b|]; [|discriminate]. destruct (w_limit cx <? zlen b + zlen d); [|discriminate].
    intros [= <-]. apply report_error_ended.
  - destruct d; discriminate.
Qed.

Ltac ewp := cbn [ew_init ew_err ew_wenv ew_envacc ew_remaining ew_cur ew_is_trailer ew_trailer_comp ew_fixed ew_complete].

(** the last bytes of a unit: what follows does not depend on how many bytes were still missing *)
Lemma ew_unit_done_rem cx rest c i e we acc r r' cur it tc fx cp :
  ew_unit_done cx rest c (mkEw i e we acc r cur it tc fx cp) = ew_unit_done cx rest c (mkEw i e we acc r' cur it tc fx cp).
Proof. reflexivity. Qed.

(** a Write that does not complete the current unit, followed by the rest of the bytes *)
Lemma ew_step_partial cx a b c w :
  ew_err w = false -> zlen a < ew_remaining w -> no_measure w -> (ew_wenv w = false -> ew_cur w <> ECNone) ->
  (ew_wenv w = true -> w_senv cx <> None) -> CoreInv c ->
  match ew_step cx a c w with
  | EDone (c1, w1, WOk) => s3eq (ew_step cx (a ++ b) c w) (ew_step cx b c1 w1)
  | EDone x => ew_step cx (a ++ b) c w = EDone x
  | ECont _ _ _ => False
  end.
Proof.
  destruct w as [i e we acc r cur it tc fx cp]. unfold no_measure. ewp. intros -> Hlt Hnm Hc Hs HI.
  pose proof (zlen_nonneg a) as Ha0. pose proof (zlen_nonneg b) as Hb0.
  unfold ew_step at 1. ewp. destruct (Z.ltb_spec (zlen a) r) as [_|]; [|lia].
  destruct we.
  - (* inside an envelope prefix *)
    unfold ew_step, ew_upd. ewp. rewrite zlen_app.
    destruct (Z.ltb_spec (zlen a + zlen b) r) as [L|L]; destruct (Z.ltb_spec (zlen b) (r - zlen a)) as [L'|L']; try lia.
    + rewrite app_assoc. replace (r - zlen a - zlen b) with (r - (zlen a + zlen b)) by lia. apply s3eq_refl.
    + rewrite (ztake_app_ge r a b) by lia. rewrite (zdrop_app_ge r a b) by lia. rewrite app_assoc.
      destruct (w_senv cx); [apply s3eq_refl|]. exfalso. apply Hs; reflexivity.
  - specialize (Hc eq_refl). destruct cur as [| |t|t]; [congruence| | |contradiction].
    + (* message bytes go straight to the sink *)
      unfold ew_cur_write. ewp. destruct (sink_write cx a c) as [c1 ok1] eqn:Sa. destruct ok1.
      * unfold ew_upd. ewp. unfold ew_step, ew_cur_write. ewp. rewrite zlen_app.
        destruct (Z.ltb_spec (zlen a + zlen b) r) as [L|L]; destruct (Z.ltb_spec (zlen b) (r - zlen a)) as [L'|L']; try lia.
        -- pose proof (sink_write_app cx a b c HI) as SA. rewrite Sa in SA.
           destruct (sink_write cx (a ++ b) c) as [c3 ok3] eqn:S3. destruct (sink_write cx b c1) as [c2 ok2]. cbn [fst snd] in SA. destruct SA as [Hq ->].
           destruct ok3; cbn [s3eq]; (split; [apply ceq_sym; exact Hq|]); cbn [fst snd]; (split; [|reflexivity]).
           ++ left. unfold ew_upd. ewp. replace (r - zlen a - zlen b) with (r - (zlen a + zlen b)) by lia. reflexivity.
           ++ right. repeat split. eapply sink_write_false_ended. exact S3.
        -- rewrite (ztake_app_ge r a b) by lia. rewrite (zdrop_app_ge r a b) by lia.
           pose proof (sink_write_app cx a (ztake (r - zlen a) b) c HI) as SA. rewrite Sa in SA.
           destruct (sink_write cx (a ++ ztake (r - zlen a) b) c) as [c3 ok3] eqn:S3. destruct (sink_write cx (ztake (r - zlen a) b) c1) as [c2 ok2].
           cbn [fst snd] in SA. destruct SA as [Hq ->].
           destruct ok3.
           ++ rewrite (ew_unit_done_rem cx _ c2 i false false acc (r - zlen a) r). apply ew_unit_done_ceq. apply ceq_sym. exact Hq.
           ++ cbn [s3eq]. split; [apply ceq_sym; exact Hq|]. cbn [fst snd]. split; [|reflexivity].
              right. repeat split. eapply sink_write_false_ended. exact S3.
      * unfold ew_step, ew_cur_write. ewp. rewrite zlen_app.
        destruct (Z.ltb_spec (zlen a + zlen b) r) as [L|L].
        -- pose proof (sink_write_app cx a b c HI) as SA. rewrite Sa in SA. rewrite SA. reflexivity.
        -- rewrite (ztake_app_ge r a b) by lia.
           pose proof (sink_write_app cx a (ztake (r - zlen a) b) c HI) as SA. rewrite Sa in SA. rewrite SA. reflexivity.
    + (* trailer bytes are collected *)
      unfold ew_cur_write. ewp. unfold ew_upd. ewp. unfold ew_step, ew_cur_write, ew_upd. ewp. rewrite zlen_app.
      destruct (Z.ltb_spec (zlen a + zlen b) r) as [L|L]; destruct (Z.ltb_spec (zlen b) (r - zlen a)) as [L'|L']; try lia.
      * rewrite app_assoc. replace (r - zlen a - zlen b) with (r - (zlen a + zlen b)) by lia. apply s3eq_refl.
      * rewrite (ztake_app_ge r a b) by lia. rewrite (zdrop_app_ge r a b) by lia. rewrite app_assoc.
        rewrite (ew_unit_done_rem cx _ c i false false acc (r - zlen a) r). apply s3eq_refl.
Qed.

(** a Write that completes the current unit does the same whatever follows it in the same Write *)
Lemma ew_unit_done_app cx rest b c w : b <> [] -> ew_err w = false ->
  match ew_unit_done cx rest c w with
  | ECont r c' w' => ew_unit_done cx (rest ++ b) c w = ECont (r ++ b) c' w'
  | EDone (c1, w1, WOk) =>
      (ew_err w1 = true /\ ew_unit_done cx (rest ++ b) c w = EDone (c1, w1, WFail)) \/
      (ew_err w1 = false /\ ew_complete w1 = true /\ ew_unit_done cx (rest ++ b) c w = EDone (report_error cx EOther c1, ew_set_err w1, WFail))
  | EDone x => ew_unit_done cx (rest ++ b) c w = EDone x
  end.
Proof.
  intros Hb Er. unfold ew_unit_done. cbv zeta.
  match goal with |- context [if ?x then _ else _] => destruct x end.
  - match goal with |- context [match ?p with Some _ => _ | None => _ end] => destruct p as [pl|] end; [|reflexivity].
    destruct (decode_end_from_message cx pl); [|reflexivity].
    destruct rest as [|x rest']; cbn [app].
    + left. split; [reflexivity|]. destruct b; [congruence|reflexivity].
    + reflexivity.
  - match goal with |- context [if ?x then _ else _] => destruct x eqn:Fx end; [|reflexivity].
    destruct rest as [|x rest']; cbn [app]; [|reflexivity].
    right. unfold ew_upd. ewp. split; [exact Er|]. split; [reflexivity|]. destruct b; [congruence|reflexivity].
Qed.

Lemma ew_cur_write_err cx d c w c' w' r : ew_cur_write cx d c w = (c', w', r) -> ew_err w' = ew_err w.
Proof.
  unfold ew_cur_write. destruct (ew_cur w).
  - intros [= _ <- _]. reflexivity.
  - destruct (sink_write cx d c). intros [= _ <- _]. reflexivity.
  - intros [= _ <- _]. reflexivity.
  - destruct (w_limit cx <? zlen b + zlen d); intros [= _ <- _]; reflexivity.
Qed.

Lemma ew_step_full cx a b c w : b <> [] -> ew_remaining w <= zlen a ->
  match ew_step cx a c w with
  | ECont rest c' w' => ew_step cx (a ++ b) c w = ECont (rest ++ b) c' w'
  | EDone (c1, w1, WOk) =>
      (ew_err w1 = true /\ ew_step cx (a ++ b) c w = EDone (c1, w1, WFail)) \/
      (ew_err w1 = false /\ ew_complete w1 = true /\ ew_step cx (a ++ b) c w = EDone (report_error cx EOther c1, ew_set_err w1, WFail))
  | EDone x => ew_step cx (a ++ b) c w = EDone x
  end.
Proof.
  intros Hb Hge. unfold ew_step.
  destruct (ew_err w) eqn:Er; [reflexivity|].
  pose proof (zlen_nonneg b) as Hb0.
  destruct (Z.ltb_spec (zlen a) (ew_remaining w)) as [L|_]; [lia|].
  rewrite zlen_app. destruct (Z.ltb_spec (zlen a + zlen b) (ew_remaining w)) as [L|_]; [lia|]. cbv zeta.
  rewrite (ztake_app_le (ew_remaining w) a b) by lia. rewrite (zdrop_app_le (ew_remaining w) a b) by lia.
  destruct (ew_wenv w).
  - destruct (w_senv cx); [|reflexivity]. destruct (decode_env _ _) as [env|]; [|reflexivity].
    destruct (e_trailer env); [destruct (w_limit cx <? e_len env); reflexivity|].
    destruct (w_cenv cx); [|reflexivity]. destruct (sink_write cx _ c) as [c1 []]; reflexivity.
  - destruct (ew_cur_write cx _ c w) as [[c1 w1] r1] eqn:CW. pose proof (ew_cur_write_err _ _ _ _ _ _ _ CW) as E1. rewrite Er in E1.
    destruct r1; try reflexivity. apply ew_unit_done_app; assumption.
Qed.

Lemma ew_cur_write_complete cx d c w c' w' r : ew_cur_write cx d c w = (c', w', r) -> ew_complete w' = ew_complete w.
Proof.
  unfold ew_cur_write. destruct (ew_cur w).
  - intros [= _ <- _]. reflexivity.
  - destruct (sink_write cx d c). intros [= _ <- _]. reflexivity.
  - intros [= _ <- _]. reflexivity.
  - destruct (w_limit cx <? zlen b + zlen d); intros [= _ <- _]; reflexivity.
Qed.

Lemma ew_step_complete cx d c w rest c' w' : ew_step cx d c w = ECont rest c' w' -> ew_complete w' = ew_complete w.
Proof.
  unfold ew_step. destruct (ew_err w); [discriminate|].
  destruct (zlen d <? ew_remaining w).
  { destruct (ew_wenv w); [discriminate|]. destruct (ew_cur_write cx d c w) as [[c1 w1] []]; discriminate. }
  cbv zeta. destruct (ew_wenv w).
  - destruct (w_senv cx); [|discriminate]. destruct (decode_env _ _) as [env|]; [|discriminate].
    destruct (e_trailer env).
    + destruct (w_limit cx <? e_len env); [discriminate|]. intros [= _ _ <-]. reflexivity.
    + destruct (w_cenv cx); [|intros [= _ _ <-]; reflexivity]. destruct (sink_write cx _ c) as [c1 []]; [|discriminate]. intros [= _ _ <-]. reflexivity.
  - destruct (ew_cur_write cx _ c w) as [[c1 w1] r1] eqn:CW. pose proof (ew_cur_write_complete _ _ _ _ _ _ _ CW) as E1.
    destruct r1; try discriminate. unfold ew_unit_done. cbv zeta.
    match goal with |- context [if ?x then _ else _] => destruct x end.
    + match goal with |- context [match ?p with Some _ => _ | None => _ end] => destruct p as [pl|] end; [|discriminate].
      destruct (decode_end_from_message cx pl); discriminate.
    + match goal with |- context [if ?x then _ else _] => destruct x end; [destruct (zdrop _ _); discriminate|].
      intros [= _ _ <-]. exact E1.
Qed.

Lemma ew_step_partial_props cx a c w c1 w1 : ew_err w = false -> zlen a < ew_remaining w ->
  ew_step cx a c w = EDone (c1, w1, WOk) ->
  ew_err w1 = false /\ ew_complete w1 = ew_complete w /\ ew_wenv w1 = ew_wenv w.
Proof.
  intros Er Hlt. unfold ew_step. rewrite Er. destruct (Z.ltb_spec (zlen a) (ew_remaining w)); [|lia].
  destruct (ew_wenv w) eqn:Ew.
  - intros [= _ <-]. unfold ew_upd. ewp. auto.
  - destruct (ew_cur_write cx a c w) as [[c' w'] r] eqn:CW.
    pose proof (ew_cur_write_err _ _ _ _ _ _ _ CW) as E1. pose proof (ew_cur_write_complete _ _ _ _ _ _ _ CW) as E2.
    assert (E3 : ew_wenv w' = ew_wenv w).
    { revert CW. unfold ew_cur_write. destruct (ew_cur w); [intros [= _ <- _]; reflexivity| |intros [= _ <- _]; reflexivity|].
      - destruct (sink_write cx a c). intros [= _ <- _]. reflexivity.
      - destruct (w_limit cx <? zlen b + zlen a); intros [= _ <- _]; reflexivity. }
    destruct r; try discriminate. intros [= _ <-]. unfold ew_upd. ewp. rewrite E1, E2, E3, Er, Ew. auto.
Qed.

(** what a second Write does with the state the first one left *)
Definition ew_cont (cx : wctx) (b : bytes) (c1 : rwc) (w1 : ew) : rwc * ew * wres :=
  if ew_err w1 then (c1, w1, WFail)
  else if ew_complete w1 then (report_error cx EOther c1, ew_set_err w1, WFail)
  else ew_loop (ew_fuel b) cx b c1 w1.

Lemma ew_measure_app a b w : ew_measure (a ++ b) w = (2 * length a + ew_measure b w)%nat.
Proof. unfold ew_measure. rewrite app_length. lia. Qed.

Lemma ew_loop_app cx b : b <> [] -> forall f a c w F,
  (ew_measure a w < f)%nat -> (ew_measure (a ++ b) w < F)%nat ->
  EwOK cx w -> 0 <= ew_remaining w -> no_measure w -> ew_complete w = false -> Good cx c -> c_end_written c = false ->
  e3eq (ew_loop F cx (a ++ b) c w)
       (let '(c1, w1, r1) := ew_loop f cx a c w in
        match r1 with WOk => ew_cont cx b c1 w1 | _ => (c1, w1, r1) end).
Proof.
  intros Hb. induction f as [|f IH]; intros a c w F Hf HF HN Hr0 Hnm Hcp HG Ee; [lia|].
  destruct F as [|F0]; [lia|]. rewrite !ew_loop_S.
  destruct (ew_err w) eqn:Er.
  { unfold ew_step. rewrite Er. apply e3eq_refl. }
  destruct (Z.ltb_spec (zlen a) (ew_remaining w)) as [Hlt|Hge].
  - (* [a] does not complete the unit *)
    destruct HN as [D|NP]; [congruence|]. pose proof NP as (Hfx & Ha & Hcn).
    assert (Hs : ew_wenv w = true -> w_senv cx <> None).
    { intros Ew. destruct (Ha Ew) as (Fx & _). apply Hfx; assumption. }
    pose proof (ew_step_partial cx a b c w Er Hlt Hnm Hcn Hs (proj1 HG)) as SP.
    destruct (ew_step cx a c w) as [?|[[c1 w1] r1]] eqn:Sa; [contradiction|].
    destruct r1; try (rewrite SP; apply e3eq_refl).
    destruct (ew_step_partial_props cx a c w c1 w1 Er Hlt Sa) as (E1 & E2 & E3).
    cbn [erun]. unfold ew_cont. rewrite E1, E2, Hcp.
    assert (La : ew_loop (S f) cx a c w = (c1, w1, WOk)) by (rewrite ew_loop_S, Sa; reflexivity).
    destruct (ew_loop_np cx _ _ _ _ _ _ _ Hf (or_intror NP) Hr0 La) as [_ N1].
    pose proof (ew_loop_rem cx _ _ _ _ _ _ _ Hr0 La) as R1.
    rewrite ew_measure_app in HF.
    assert (M1 : ew_measure b w1 = ew_measure b w) by (unfold ew_measure; rewrite E3; reflexivity).
    rewrite (ew_loop_fuel cx (ew_fuel b) (S F0) b c1 w1); [| |lia|exact N1|exact R1].
    + rewrite ew_loop_S. apply erun_s3eq. exact SP.
    + rewrite M1. unfold ew_measure, ew_fuel. destruct (ew_wenv w); lia.
  - pose proof (ew_step_full cx a b c w Hb Hge) as SF.
    destruct (ew_step cx a c w) as [rest c' w'|[[c1 w1] r1]] eqn:Sa.
    + rewrite SF. cbn [erun].
      destruct (ew_step_ok cx _ _ _ _ _ _ HN Hr0 Hnm HG Ee Sa) as (N' & R' & Nm' & G' & E' & M').
      destruct (ew_step_ok cx _ _ _ _ _ _ HN Hr0 Hnm HG Ee SF) as (_ & _ & _ & _ & _ & M'').
      apply IH; try assumption; try lia. rewrite (ew_step_complete _ _ _ _ _ _ _ Sa). exact Hcp.
    + destruct r1.
      * cbn [erun]. unfold ew_cont. destruct SF as [(E1 & SF)|(E1 & E2 & SF)]; rewrite SF; cbn [erun]; rewrite E1; [|rewrite E2]; apply e3eq_refl.
      * rewrite SF. apply e3eq_refl.
      * rewrite SF. apply e3eq_refl.
Qed.

(** * The unframed mode: everything goes to the current sink *)
Lemma ew_cur_write_app cx a b c w : CoreInv c -> ew_cur w <> ECNone ->
  match ew_cur_write cx a c w with
  | (c1, w1, WOk) =>
      ceq (fst (fst (ew_cur_write cx (a ++ b) c w))) (fst (fst (ew_cur_write cx b c1 w1))) /\
      snd (ew_cur_write cx (a ++ b) c w) = snd (ew_cur_write cx b c1 w1) /\
      (snd (ew_cur_write cx (a ++ b) c w) = WOk -> snd (fst (ew_cur_write cx (a ++ b) c w)) = snd (fst (ew_cur_write cx b c1 w1))) /\
      (snd (ew_cur_write cx (a ++ b) c w) = WFail -> c_end_written (fst (fst (ew_cur_write cx (a ++ b) c w))) = true)
  | x => ew_cur_write cx (a ++ b) c w = x
  end.
Proof.
  intros HI Hc. unfold ew_cur_write. pose proof (zlen_nonneg a). pose proof (zlen_nonneg b).
  destruct (ew_cur w) as [| |t|t] eqn:Ec; [congruence| | |].
  - pose proof (sink_write_app cx a b c HI) as SA. destruct (sink_write cx a c) as [c1 ok1]. destruct ok1.
    + rewrite Ec. destruct (sink_write cx (a ++ b) c) as [c3 ok3] eqn:S3. destruct (sink_write cx b c1) as [c2 ok2]. cbn [fst snd] in *.
      destruct SA as [Hq ->]. split; [apply ceq_sym; exact Hq|]. split; [reflexivity|]. split; [reflexivity|].
      destruct ok3; [discriminate|]. intros _. eapply sink_write_false_ended. exact S3.
    + rewrite SA. reflexivity.
  - ewp. cbn [fst snd]. rewrite app_assoc. split; [apply ceq_refl|]. repeat split; discriminate.
  - rewrite zlen_app. destruct (Z.ltb_spec (w_limit cx) (zlen t + zlen a)) as [La|La].
    + destruct (Z.ltb_spec (w_limit cx) (zlen t + (zlen a + zlen b))); [reflexivity|lia].
    + ewp. rewrite zlen_app.
      destruct (Z.ltb_spec (w_limit cx) (zlen t + (zlen a + zlen b))) as [L|L];
        destruct (Z.ltb_spec (w_limit cx) (zlen t + zlen a + zlen b)) as [L'|L']; try lia; cbn [fst snd].
      * split; [apply ceq_refl|]. split; [reflexivity|]. split; [discriminate|]. intros _. apply report_error_ended.
      * rewrite app_assoc. split; [apply ceq_refl|]. repeat split; discriminate.
Qed.

Lemma ew_cur_write_init cx d c w c' w' r : ew_cur_write cx d c w = (c', w', r) -> ew_init w' = ew_init w.
Proof.
  unfold ew_cur_write. destruct (ew_cur w).
  - intros [= _ <- _]. reflexivity.
  - destruct (sink_write cx d c). intros [= _ <- _]. reflexivity.
  - intros [= _ <- _]. reflexivity.
  - destruct (w_limit cx <? zlen b + zlen d); intros [= _ <- _]; reflexivity.
Qed.

(** every iteration keeps [ew_init] and never installs the measuring sink *)
Lemma ew_step_keeps cx d c w : no_measure w ->
  match ew_step cx d c w with
  | ECont _ _ w' => ew_init w' = ew_init w
  | EDone (_, w', _) => ew_init w' = ew_init w /\ no_measure w'
  end.
Proof.
  intros Hnm. unfold ew_step. destruct (ew_err w); [auto|].
  destruct (zlen d <? ew_remaining w).
  { destruct (ew_wenv w); [split; [reflexivity|exact Hnm]|].
    destruct (ew_cur_write cx d c w) as [[c1 w1] r1] eqn:CW.
    pose proof (ew_cur_write_init _ _ _ _ _ _ _ CW) as E1. pose proof (ew_cur_write_nm _ _ _ _ _ _ _ Hnm CW) as N1.
    destruct r1; (split; [exact E1|exact N1]). }
  cbv zeta. destruct (ew_wenv w).
  - destruct (w_senv cx); [|auto]. destruct (decode_env _ _) as [env|]; [|split; [reflexivity|exact Hnm]].
    destruct (e_trailer env).
    + destruct (w_limit cx <? e_len env); [split; [reflexivity|exact Hnm]|reflexivity].
    + destruct (w_cenv cx); [|reflexivity]. destruct (sink_write cx _ c) as [c1 []]; [reflexivity|split; [reflexivity|exact Hnm]].
  - destruct (ew_cur_write cx _ c w) as [[c1 w1] r1] eqn:CW.
    pose proof (ew_cur_write_init _ _ _ _ _ _ _ CW) as E1. pose proof (ew_cur_write_nm _ _ _ _ _ _ _ Hnm CW) as N1.
    destruct r1; try (split; [exact E1|exact N1]).
    unfold ew_unit_done. cbv zeta.
    match goal with |- context [if ?x then _ else _] => destruct x end.
    + match goal with |- context [match ?p with Some _ => _ | None => _ end] => destruct p as [pl|] end; [|split; [exact E1|exact N1]].
      destruct (decode_end_from_message cx pl); (split; [exact E1|exact N1]).
    + match goal with |- context [if ?x then _ else _] => destruct x end; [|exact E1].
      destruct (zdrop _ _); (split; [exact E1|exact N1]).
Qed.

Lemma ew_loop_keeps cx : forall f d c w c' w' r, no_measure w -> ew_loop f cx d c w = (c', w', r) ->
  ew_init w' = ew_init w /\ no_measure w'.
Proof.
  induction f as [|f IH]; intros d c w c' w' r Hnm H; [cbn in H; injection H as _ <- _; auto|].
  rewrite ew_loop_S in H. pose proof (ew_step_keeps cx d c w Hnm) as K.
  destruct (ew_step cx d c w) as [rest c1 w1|[[c1 w1] r1]] eqn:St; cbn [erun] in H.
  - assert (Nm1 : no_measure w1).
    { (* a continuing iteration installs ECSink or ECTrailer, or keeps the sink *)
      revert St. unfold ew_step. destruct (ew_err w); [discriminate|].
      destruct (zlen d <? ew_remaining w).
      { destruct (ew_wenv w); [discriminate|]. destruct (ew_cur_write cx d c w) as [[? ?] []]; discriminate. }
      cbv zeta. destruct (ew_wenv w).
      - destruct (w_senv cx); [|discriminate]. destruct (decode_env _ _) as [env|]; [|discriminate].
        destruct (e_trailer env).
        + destruct (w_limit cx <? e_len env); [discriminate|]. intros [= _ _ <-]. exact I.
        + destruct (w_cenv cx); [|intros [= _ _ <-]; exact I]. destruct (sink_write cx _ c) as [? []]; [|discriminate]. intros [= _ _ <-]. exact I.
      - destruct (ew_cur_write cx _ c w) as [[c2 w2] r2] eqn:CW. pose proof (ew_cur_write_nm _ _ _ _ _ _ _ Hnm CW) as N2.
        destruct r2; try discriminate. unfold ew_unit_done. cbv zeta.
        match goal with |- context [if ?x then _ else _] => destruct x end.
        + match goal with |- context [match ?p with Some _ => _ | None => _ end] => destruct p as [pl|] end; [|discriminate].
          destruct (decode_end_from_message cx pl); discriminate.
        + match goal with |- context [if ?x then _ else _] => destruct x end; [destruct (zdrop _ _); discriminate|].
          intros [= _ _ <-]. exact N2. }
    destruct (IH _ _ _ _ _ _ Nm1 H) as [A B]. split; [rewrite A; exact K|exact B].
  - injection H as <- <- <-. exact K.
Qed.

(** * envelopingWriter.Write: handing over [a ++ b] at once or as [a] then [b] *)
Definition EwReady2 (cx : wctx) (w : ew) : Prop :=
  ew_init w = false \/ (EwOK cx w /\ -1 <= ew_remaining w /\ (ew_remaining w = -1 \/ no_measure w)).

Lemma EwReady2_ready cx w : EwReady2 cx w -> EwReady cx w.
Proof. intros [H|(A & B & _)]; [left; exact H|right; split; assumption]. Qed.

Lemma ew_maybe_init_ready2 cx cl c w c0 w0 : -1 <= cl -> EwReady2 cx w -> ew_maybe_init cx cl c w = (c0, w0) ->
  ew_init w0 = true /\ EwOK cx w0 /\ -1 <= ew_remaining w0 /\ (ew_remaining w0 = -1 \/ no_measure w0).
Proof.
  intros Hcl HR H. destruct (ew_maybe_init_np cx cl c w c0 w0 Hcl (EwReady2_ready _ _ HR) H) as (OK0 & R0).
  unfold ew_maybe_init in H. destruct (ew_init w) eqn:Ei.
  { injection H as <- <-. destruct HR as [D|(_ & _ & M)]; [congruence|]. auto. }
  split; [|split; [exact OK0|split; [exact R0|]]].
  - destruct (w_senv cx); [injection H as _ <-; reflexivity|]. destruct (w_cenv cx); [|injection H as _ <-; reflexivity].
    destruct (cl =? -1); [injection H as _ <-; reflexivity|]. destruct (w_limit cx <? cl); [injection H as _ <-; reflexivity|].
    destruct (sink_write cx _ c). injection H as _ <-. reflexivity.
  - destruct (w_senv cx); [injection H as _ <-; right; exact I|]. destruct (w_cenv cx); [|injection H as _ <-; right; exact I].
    destruct (cl =? -1); [injection H as _ <-; left; reflexivity|]. destruct (w_limit cx <? cl); [injection H as _ <-; right; exact I|].
    destruct (sink_write cx _ c). injection H as _ <-. right. exact I.
Qed.

Lemma ew_write_ready2 cx cl d c w c' w' r : -1 <= cl -> EwReady2 cx w -> ew_write cx cl d c w = (c', w', r) ->
  ew_init w' = true /\ EwReady2 cx w'.
Proof.
  intros Hcl HR H. destruct (ew_write_np cx cl d c w c' w' r Hcl (EwReady2_ready _ _ HR) H) as (_ & OK' & R').
  unfold ew_write in H. destruct (ew_maybe_init cx cl c w) as [c0 w0] eqn:MI.
  destruct (ew_maybe_init_ready2 cx cl c w c0 w0 Hcl HR MI) as (I0 & OK0 & R0 & M0).
  assert (G : ew_init w' = true /\ (ew_remaining w' = -1 \/ no_measure w')).
  { destruct (ew_err w0); [injection H as _ <- _; auto|].
    destruct (ew_complete w0).
    - destruct d; injection H as _ <- _; auto.
    - destruct (Z.eqb_spec (ew_remaining w0) (-1)) as [E1|N1].
      + destruct (ew_cur_write cx d c0 w0) as [[c1 w1] r1] eqn:CW.
        pose proof (ew_cur_write_init _ _ _ _ _ _ _ CW) as Ei. pose proof (ew_cur_write_rem _ _ _ _ _ _ _ CW) as Er.
        destruct r1; injection H as _ <- _; unfold ew_set_err; ewp; (split; [congruence|left; congruence]).
      + destruct M0 as [D|M0]; [congruence|]. destruct (ew_loop_keeps cx _ _ _ _ _ _ _ M0 H) as [A B]. split; [congruence|right; exact B]. }
  destruct G as [A B]. split; [exact A|]. right. split; [exact OK'|]. split; [exact R'|exact B].
Qed.

Theorem ew_write_app cx cl a b c w : b <> [] -> -1 <= cl -> EwReady2 cx w -> Good cx c -> c_end_written c = false ->
  e3eq (ew_write cx cl (a ++ b) c w)
       (let '(c1, w1, r1) := ew_write cx cl a c w in
        match r1 with WOk => ew_write cx cl b c1 w1 | _ => (c1, w1, r1) end).
Proof.
  intros Hb Hcl HR HG Ee.
  destruct (ew_write cx cl a c w) as [[c1 w1] r1] eqn:Wa.
  destruct (ew_write_ready2 cx cl a c w c1 w1 r1 Hcl HR Wa) as (I1 & _).
  (* the second Write finds the writer initialised *)
  assert (W2 : ew_write cx cl b c1 w1 =
               if ew_err w1 then (c1, w1, WFail) else
               if ew_complete w1 then (report_error cx EOther c1, ew_set_err w1, WFail) else
               if ew_remaining w1 =? -1 then
                 let '(c', w', r) := ew_cur_write cx b c1 w1 in
                 match r with WFail => (c', ew_set_err w', WFail) | _ => (c', w', r) end
               else ew_loop (ew_fuel b) cx b c1 w1).
  { unfold ew_write, ew_maybe_init. rewrite I1. destruct (ew_err w1); [reflexivity|]. destruct (ew_complete w1); [|reflexivity].
    destruct b; [congruence|reflexivity]. }
  rewrite W2. clear W2. revert Wa. unfold ew_write.
  destruct (ew_maybe_init cx cl c w) as [c0 w0] eqn:MI.
  destruct (ew_maybe_init_ready2 cx cl c w c0 w0 Hcl HR MI) as (I0 & OK0 & R0 & M0).
  destruct (ew_maybe_init_good _ _ _ _ _ _ HG Ee MI) as (G0 & E0).
  destruct (ew_err w0) eqn:Er0; [intros [= <- <- <-]; apply e3eq_refl|]. specialize (E0 eq_refl).
  destruct OK0 as [D|NP]; [congruence|].
  destruct (ew_complete w0) eqn:Cp0.
  { destruct a as [|x a']; cbn [app].
    - intros [= <- <- <-]. rewrite Er0, Cp0. destruct b; [congruence|apply e3eq_refl].
    - intros [= <- <- <-]. apply e3eq_refl. }
  destruct (Z.eqb_spec (ew_remaining w0) (-1)) as [E1|N1].
  - (* unframed *)
    destruct NP as (Hfx & Ha & Hcn).
    assert (Wn : ew_wenv w0 = false) by (destruct (ew_wenv w0) eqn:E; [destruct (Ha eq_refl); lia|reflexivity]).
    pose proof (ew_cur_write_app cx a b c0 w0 (proj1 G0) (Hcn Wn)) as CA.
    destruct (ew_cur_write cx a c0 w0) as [[c1' w1'] r1'] eqn:CW.
    pose proof (ew_cur_write_err _ _ _ _ _ _ _ CW) as Ee1. pose proof (ew_cur_write_complete _ _ _ _ _ _ _ CW) as Ec1.
    pose proof (ew_cur_write_rem _ _ _ _ _ _ _ CW) as Er1.
    destruct r1'.
    + intros [= <- <- <-]. rewrite Ee1, Er0, Ec1, Cp0, Er1, E1. cbn [Z.eqb].
      destruct CA as (Hq & Hr & Hw & He).
      destruct (ew_cur_write cx (a ++ b) c0 w0) as [[c3 w3] r3] eqn:CW3.
      destruct (ew_cur_write_np _ _ _ _ _ _ _ (Hcn Wn) CW3) as (Np3 & _).
      destruct (ew_cur_write cx b c1' w1') as [[c2 w2] r2]. cbn [fst snd] in *. subst r2.
      destruct r3; [| |congruence].
      * rewrite (Hw eq_refl). split; [exact Hq|]. split; [left|]; reflexivity.
      * split; [exact Hq|]. cbn [fst snd]. split; [|reflexivity]. right. repeat split. apply He. reflexivity.
    + intros [= <- <- <-]. rewrite CA. apply e3eq_refl.
    + intros [= <- <- <-]. rewrite CA. apply e3eq_refl.
  - (* enveloped on the server side, or a declared Content-Length *)
    assert (Hr0 : 0 <= ew_remaining w0) by lia.
    assert (Nm0 : no_measure w0) by (destruct M0 as [D|M0]; [congruence|exact M0]).
    assert (Hfa : (ew_measure a w0 < ew_fuel a)%nat) by (unfold ew_fuel, ew_measure; destruct (ew_wenv w0); lia).
    assert (Hfab : (ew_measure (a ++ b) w0 < ew_fuel (a ++ b))%nat) by (unfold ew_fuel, ew_measure; destruct (ew_wenv w0); lia).
    intros La.
    pose proof (ew_loop_app cx b Hb _ a c0 w0 _ Hfa Hfab (or_intror NP) Hr0 Nm0 Cp0 G0 E0) as T. rewrite La in T.
    destruct r1; try exact T.
    unfold ew_cont in T. destruct (ew_err w1); [exact T|]. destruct (ew_complete w1); [exact T|].
    pose proof (ew_loop_rem cx _ _ _ _ _ _ _ Hr0 La) as R1.
    destruct (Z.eqb_spec (ew_remaining w1) (-1)); [lia|exact T].
Qed.

(** * A Write that failed leaves a writer that refuses everything *)
Lemma tw_loop_fail cx : forall f d c w c' w', tw_loop f cx d c w = (c', w', WFail) -> tw_err w' = true.
Proof.
  induction f as [|f IH]; intros d c w c' w' H; [discriminate|]. rewrite tw_loop_S in H. unfold tw_step in H.
  destruct (tw_err w) eqn:Er; [injection H as _ <-; exact Er|]. cbv zeta in H.
  match type of H with context [if ?b then _ else _] => destruct b end; [discriminate|].
  destruct (tw_wenv w).
  - destruct (w_senv cx); [|discriminate]. destruct (decode_env _ _) as [env|]; [|injection H as _ <-; reflexivity].
    destruct (w_limit cx <? e_len env); [injection H as _ <-; reflexivity|]. eapply IH; exact H.
  - destruct (tw_flush_message cx c _) as [c1 w1|e c1 w1 rep]; [|injection H as _ <-; reflexivity].
    match type of H with context [if ?b then _ else _] => destruct b end; [discriminate|]. eapply IH; exact H.
Qed.

Lemma tw_write_fail cx d c w c' w' : tw_write cx d c w = (c', w', WFail) -> tw_err w' = true.
Proof.
  unfold tw_write. destruct (tw_err w) eqn:Er; [intros [= _ <-]; exact Er|].
  match goal with |- context [if ?b then _ else _] => destruct b end; [|apply tw_loop_fail].
  match goal with |- context [if ?b then _ else _] => destruct b end; [intros [= _ <-]; reflexivity|discriminate].
Qed.

Lemma ew_loop_fail cx : forall f d c w c' w', ew_loop f cx d c w = (c', w', WFail) -> ew_err w' = true.
Proof.
  induction f as [|f IH]; intros d c w c' w' H; [discriminate|]. rewrite ew_loop_S in H. unfold ew_step in H.
  destruct (ew_err w) eqn:Er; [injection H as _ <-; exact Er|].
  destruct (zlen d <? ew_remaining w).
  { destruct (ew_wenv w); [discriminate|]. destruct (ew_cur_write cx d c w) as [[c1 w1] []]; cbn [erun] in H; try discriminate.
    injection H as _ <-. reflexivity. }
  cbv zeta in H. destruct (ew_wenv w).
  - destruct (w_senv cx); [|discriminate]. destruct (decode_env _ _) as [env|]; [|injection H as _ <-; reflexivity].
    destruct (e_trailer env).
    + destruct (w_limit cx <? e_len env); [injection H as _ <-; reflexivity|]. eapply IH; exact H.
    + destruct (w_cenv cx); [|eapply IH; exact H]. destruct (sink_write cx _ c) as [c1 []]; [eapply IH; exact H|injection H as _ <-; reflexivity].
  - destruct (ew_cur_write cx _ c w) as [[c1 w1] []]; cbn [erun] in H; try discriminate; [|injection H as _ <-; reflexivity].
    unfold ew_unit_done in H. cbv zeta in H.
    match type of H with context [if ?b then _ else _] => destruct b end.
    + match type of H with context [match ?p with Some _ => _ | None => _ end] => destruct p as [pl|] end; [|injection H as _ <-; reflexivity].
      destruct (decode_end_from_message cx pl); injection H as _ <-; reflexivity.
    + match type of H with context [if ?b then _ else _] => destruct b end; [|eapply IH; exact H].
      destruct (zdrop _ _); [discriminate|]. injection H as _ <-. reflexivity.
Qed.

Lemma ew_write_fail cx cl d c w c' w' : ew_write cx cl d c w = (c', w', WFail) -> ew_err w' = true.
Proof.
  unfold ew_write. destruct (ew_maybe_init cx cl c w) as [c0 w0].
  destruct (ew_err w0) eqn:Er; [intros [= _ <-]; exact Er|].
  destruct (ew_complete w0); [destruct d; [discriminate|intros [= _ <-]; reflexivity]|].
  destruct (ew_remaining w0 =? -1); [|apply ew_loop_fail].
  destruct (ew_cur_write cx d c0 w0) as [[c1 w1] []]; try discriminate. intros [= _ <-]. reflexivity.
Qed.

(** * Once the end is written nothing reaches the client any more *)
Definition Frozen (c : rwc) : Prop := c_end_written c = true /\ c_flushed c = true /\ c_err c = true.

Transparent report_end report_error.
Lemma report_end_noop cx e c : c_end_written c = true -> report_end cx e c = c.
Proof. intros E. unfold report_end. rewrite E. reflexivity. Qed.
Lemma report_error_noop cx e c : c_end_written c = true -> report_error cx e c = c.
Proof. apply report_end_noop. Qed.
Opaque report_end report_error.

Lemma frozen_write_header cx st r : Frozen (r_core r) ->
  rw_write_header cx st r = mkRw (r_core r) true (r_content_len r) (r_w r).
Proof.
  intros (E & _). destruct r as [c hw cl w]. unfold rw_write_header. cbn [r_headers_written r_core r_content_len r_w] in *.
  destruct hw; [reflexivity|]. rewrite E. reflexivity.
Qed.

Lemma frozen_write cx d r : Frozen (r_core r) ->
  rw_write cx d r = (mkRw (r_core r) true (r_content_len r) (r_w r), WFail).
Proof.
  intros F. unfold rw_write.
  assert (E : (if r_headers_written r then r else rw_write_header cx 200 r) = mkRw (r_core r) true (r_content_len r) (r_w r)).
  { destruct (r_headers_written r) eqn:Hw; [destruct r; cbn in *; subst; reflexivity|apply frozen_write_header; exact F]. }
  rewrite E. cbn [r_core]. destruct F as (_ & _ & Er). rewrite Er. reflexivity.
Qed.

Definition fails (s : list baction) : list wres := flat_map (fun a => match a with BWrite _ => [WFail] | _ => [] end) s.

Lemma frozen_script cx : forall s r wr, Frozen (r_core r) ->
  r_core (fst (run_script cx s r wr)) = r_core r /\ snd (run_script cx s r wr) = wr ++ fails s.
Proof.
  induction s as [|a rest IH]; intros r wr F; [cbn; rewrite app_nil_r; auto|]. cbn [run_script fails flat_map].
  destruct a as [k v|k v|code|d| |e].
  - destruct F as (E & F). rewrite E. apply IH. split; assumption.
  - destruct F as (E & F). rewrite E. apply IH. split; assumption.
  - rewrite (frozen_write_header cx code r F). destruct (IH (mkRw (r_core r) true (r_content_len r) (r_w r)) wr F) as [A B]. split; assumption.
  - rewrite (frozen_write cx d r F). destruct (IH (mkRw (r_core r) true (r_content_len r) (r_w r)) (wr ++ [WFail]) F) as [A B].
    split; [exact A|]. rewrite B. rewrite <- app_assoc. reflexivity.
  - apply IH. exact F.
  - rewrite (report_error_noop cx e _ (proj1 F)). destruct r as [c hw cl w]. unfold set_core. cbn [r_core r_headers_written r_content_len r_w] in *.
    apply (IH (mkRw c hw cl w) wr F).
Qed.

Lemma xw_close_frozen cx c w : Frozen c -> c_out (fst (xw_close cx c w)) = c_out c /\ c_end_written (fst (xw_close cx c w)) = true.
Proof.
  intros (Ee & Fl & Er). unfold xw_close. destruct (xw_buf w) as [b|]; [destruct (c_meta c) as [m|]|]; try (cbn [fst]; auto).
  destruct (if _ && _ then _ else _) as [body e1]. rewrite flush_headers_noop by exact Fl. cbn [fst c_out c_end_written]. auto.
Qed.

Lemma ew_close_frozen cx c w : Frozen c -> fst (ew_close cx c w) = c.
Proof.
  intros (Ee & Fl & Er). unfold ew_close. rewrite Ee.
  assert (T : forall w1 : ew, fst (let normal_eof := ew_wenv w1 && (ew_remaining w1 =? 5) in
          let c2 := if (0 <? ew_remaining w1) && negb normal_eof then report_error cx EOther c else c in
          (c2, mkEw (ew_init w1) true (ew_wenv w1) (ew_envacc w1) 0 ECNone (ew_is_trailer w1) (ew_trailer_comp w1) (ew_fixed w1) (ew_complete w1))) = c).
  { intros w1. cbv zeta. rewrite (report_error_noop cx EOther c Ee). destruct (_ && _); reflexivity. }
  destruct (ew_cur (ew_set_err w)) as [| |b|b]; try apply T.
  cbn [ew_set_err ew_err negb]. rewrite Bool.andb_false_r. apply T.
Qed.

Lemma tw_close_frozen cx c w : Frozen c -> fst (tw_close cx c w) = c.
Proof. intros (Ee & _). unfold tw_close. rewrite Ee, Bool.orb_true_r. reflexivity. Qed.

Lemma frozen_close cx r : Frozen (r_core r) ->
  c_out (r_core (fst (rw_close cx r))) = c_out (r_core r) /\ snd (rw_close cx r) = WOk.
Proof.
  intros F. unfold rw_close.
  assert (E : (if r_headers_written r then r else rw_write_header cx 200 r) = mkRw (r_core r) true (r_content_len r) (r_w r)).
  { destruct (r_headers_written r) eqn:Hw; [destruct r; cbn in *; subst; reflexivity|apply frozen_write_header; exact F]. }
  rewrite E. cbn [r_core r_w r_content_len]. pose proof F as (Ee & Fl & Er). rewrite Ee.
  destruct (r_w r) as [| |w|w|w].
  - cbn [r_core]. rewrite Ee. auto.
  - cbn [r_core]. rewrite Ee. auto.
  - destruct (xw_close_frozen cx (r_core r) w F) as [A B]. destruct (xw_close cx (r_core r) w) as [c2 w2]. cbn [fst] in A, B.
    cbn [r_core]. rewrite B. auto.
  - pose proof (ew_close_frozen cx (r_core r) w F) as A. destruct (ew_close cx (r_core r) w) as [c2 w2]. cbn [fst] in A. subst c2.
    cbn [r_core]. rewrite Ee. auto.
  - pose proof (tw_close_frozen cx (r_core r) w F) as A. destruct (tw_close cx (r_core r) w) as [c2 w2]. cbn [fst] in A. subst c2.
    cbn [r_core]. rewrite Ee. auto.
Qed.

(** * responseWriter.Write *)
Definition RwSeg (cx : wctx) (r : rw) : Prop := RwNP cx r /\ match r_w r with BEnv w => EwReady2 cx w | _ => True end.

Lemma rw_write_header_w cx st r :
  match r_w (rw_write_header cx st r) with BEnv w => w = ew0 \/ r_w r = BEnv w | _ => True end.
Proof.
  unfold rw_write_header. destruct (r_headers_written r); [destruct (r_w r); auto|].
  cbn [r_core r_w]. destruct (c_end_written (r_core r)); [cbn [r_w]; destruct (r_w r); auto|].
  destruct (extract_content_length _) as [[clen h1]|]; [|unfold set_core; cbn [r_w]; destruct (r_w r); auto].
  destruct (extract_response _ _ _ _) as [[m0 proc] h2].
  match goal with |- context [let '(m1, h3) := ?p in _] => destruct p as [m1 h3] end. cbv zeta.
  match goal with |- context [if ?b then set_core _ _ else _] => destruct b end; [unfold set_core; cbn [r_w]; destruct (r_w r); auto|].
  match goal with |- context [match rm_end ?m with Some _ => _ | None => _ end] => destruct (rm_end m) end.
  - destruct proc; exact I.
  - match goal with |- context [if ?b then mkRw (report_error _ _ _) _ _ _ else _] => destruct b end; [cbn [r_w]; destruct (r_w r); auto|].
    cbn [r_w]. destruct (_ && _); [left; reflexivity|exact I].
Qed.

Lemma EwReady2_ew0 cx : EwReady2 cx ew0. Proof. left. reflexivity. Qed.

Lemma RwSeg_write_header cx st r : RwSeg cx r -> RwSeg cx (rw_write_header cx st r).
Proof.
  intros [HN HE]. split; [apply rw_write_header_np; exact HN|].
  pose proof (rw_write_header_w cx st r) as W. destruct (r_w (rw_write_header cx st r)); try exact I.
  destruct W as [->|E]; [apply EwReady2_ew0|]. rewrite E in HE. exact HE.
Qed.

Lemma rw_write_r0 cx d r : rw_write cx d r = rw_write cx d (if r_headers_written r then r else rw_write_header cx 200 r).
Proof.
  unfold rw_write. destruct (r_headers_written r) eqn:E; [rewrite E; reflexivity|rewrite rw_write_header_written; reflexivity].
Qed.

Lemma r0_facts cx r : RwSeg cx r ->
  RwSeg cx (if r_headers_written r then r else rw_write_header cx 200 r) /\
  r_headers_written (if r_headers_written r then r else rw_write_header cx 200 r) = true.
Proof.
  intros HS. destruct (r_headers_written r) eqn:E; [split; assumption|]. split; [apply RwSeg_write_header; exact HS|apply rw_write_header_written].
Qed.

Lemma RwSeg_write cx d r r' res : RwSeg cx r -> rw_write cx d r = (r', res) -> RwSeg cx r'.
Proof.
  intros HS H. rewrite rw_write_r0 in H. destruct (r0_facts cx r HS) as [HS0 HW0].
  set (r0 := if r_headers_written r then r else rw_write_header cx 200 r) in *. clearbody r0.
  destruct HS0 as [HN0 HE0]. destruct (rw_write_np cx d r0 r' res HN0 H) as [_ HN'].
  split; [exact HN'|]. destruct HN0 as (_ & Hc0 & _).
  revert H. unfold rw_write. rewrite HW0.
  destruct (c_err (r_core r0)); [intros [= <- _]; exact HE0|].
  destruct (r_w r0) as [| |w|w|w] eqn:Ew; try (intros [= <- _]; rewrite Ew; exact I).
  - destruct (xw_write cx d (r_core r0) w) as [[c1 w1] rs]. intros [= <- _]. exact I.
  - destruct (ew_write cx _ d (r_core r0) w) as [[c1 w1] rs] eqn:X. intros [= <- _]. cbn [r_w].
    apply (ew_write_ready2 cx _ d _ w c1 w1 rs Hc0 HE0 X).
  - destruct (tw_write cx d (r_core r0) w) as [[c1 w1] rs]. intros [= <- _]. exact I.
Qed.

(** * A writer whose core has written the end refuses further bytes *)
Lemma sink_write_ok_ended cx d c c' : sink_write cx d c = (c', true) -> c_end_written c' = c_end_written c.
Proof.
  unfold sink_write. destruct (end_must_be_in_headers (w_client cx)).
  - destruct (c_buf c) as [b|]; [|intros [= <-]; reflexivity]. destruct (w_limit cx <? zlen b + zlen d); [discriminate|intros [= <-]; reflexivity].
  - destruct d; intros [= <-]; reflexivity.
Qed.

Lemma flush_message_ended c : c_end_written (flush_message c) = c_end_written c.
Proof. unfold flush_message. destruct (c_buf c); reflexivity. Qed.

Lemma tw_flush_message_ended cx c w c' w' : tw_flush_message cx c w = FOk c' w' ->
  (c_end_written c' = c_end_written c) \/ tw_err w' = true.
Proof.
  unfold tw_flush_message. destruct (e_trailer (tw_latest w)).
  - match goal with |- context [match ?p with Some _ => _ | None => _ end] => destruct p as [pl|] end; [|discriminate].
    destruct (decode_end_from_message cx pl); [|discriminate]. intros [= <- <-]. right. reflexivity.
  - destruct (advance_resp cx _ _ _) as [out|]; [|discriminate].
    match goal with |- context [match ?p with Some _ => _ | None => _ end] => destruct p as [env|] end; [|discriminate].
    destruct env as [|x env'].
    + destruct (sink_write cx out c) as [c2 []] eqn:S2; cbn [negb]; [|discriminate]. intros [= <- <-]. left.
      rewrite flush_message_ended. eapply sink_write_ok_ended; exact S2.
    + destruct (sink_write cx (x :: env') c) as [c1 []] eqn:S1; cbn [negb]; [|discriminate].
      destruct (sink_write cx out c1) as [c2 []] eqn:S2; cbn [negb]; [|discriminate]. intros [= <- <-]. left.
      rewrite flush_message_ended, (sink_write_ok_ended _ _ _ _ S2). eapply sink_write_ok_ended; exact S1.
Qed.

Lemma tw_loop_ended cx : forall f d c w c' w' r,
  (c_end_written c = true -> tw_err w = true) -> tw_loop f cx d c w = (c', w', r) -> c_end_written c' = true -> tw_err w' = true.
Proof.
  induction f as [|f IH]; intros d c w c' w' r HP H; [cbn in H; injection H as <- <- _; exact HP|].
  rewrite tw_loop_S in H. unfold tw_step in H.
  destruct (tw_err w) eqn:Er; [injection H as _ <- _; intros _; exact Er|]. cbv zeta in H.
  match type of H with context [if ?b then _ else _] => destruct b end.
  { injection H as <- <- _. intros E. specialize (HP E). discriminate. }
  destruct (tw_wenv w).
  - destruct (w_senv cx); [|injection H as <- <- _; intros E; specialize (HP E); discriminate].
    destruct (decode_env _ _) as [env|]; [|injection H as _ <- _; reflexivity].
    destruct (w_limit cx <? e_len env); [injection H as _ <- _; reflexivity|].
    eapply IH; [|exact H]. cbn [tw_err]. intros E. specialize (HP E). discriminate.
  - destruct (tw_flush_message cx c _) as [c1 w1|e c1 w1 rep] eqn:FM; [|injection H as _ <- _; reflexivity].
    destruct (tw_flush_message_ended _ _ _ _ _ FM) as [Q|Q].
    + match type of H with context [if ?b then _ else _] => destruct b end.
      * injection H as <- <- _. rewrite Q. intros E. specialize (HP E). discriminate.
      * eapply IH; [|exact H]. cbn [tw_err]. rewrite Q. intros E. specialize (HP E). discriminate.
    + match type of H with context [if ?b then _ else _] => destruct b end.
      * injection H as <- <- _. intros _. exact Q.
      * eapply IH; [|exact H]. cbn [tw_err]. intros _. exact Q.
Qed.

Lemma tw_write_ended cx d c w c' w' r : c_end_written c = false ->
  tw_write cx d c w = (c', w', r) -> c_end_written c' = true -> tw_err w' = true.
Proof.
  intros Ee. unfold tw_write. destruct (tw_err w) eqn:Er; [intros [= <- <- _]; congruence|].
  match goal with |- context [if ?b then _ else _] => destruct b end.
  - match goal with |- context [if ?b then _ else _] => destruct b end; [intros [= _ <- _]; reflexivity|intros [= <- _ _]; congruence].
  - apply tw_loop_ended. congruence.
Qed.

Lemma ew_cur_write_ok_ended cx d c w c' w' : ew_cur_write cx d c w = (c', w', WOk) -> c_end_written c' = c_end_written c.
Proof.
  unfold ew_cur_write. destruct (ew_cur w); try discriminate.
  - destruct (sink_write cx d c) as [c1 []] eqn:S; [|discriminate]. intros [= <- _]. eapply sink_write_ok_ended; exact S.
  - intros [= <- _]. reflexivity.
  - destruct (w_limit cx <? zlen b + zlen d); [discriminate|intros [= <- _]; reflexivity].
Qed.

Lemma ew_loop_ended cx : forall f d c w c' w' r,
  (c_end_written c = true -> ew_err w = true) -> ew_loop f cx d c w = (c', w', r) -> c_end_written c' = true -> ew_err w' = true.
Proof.
  induction f as [|f IH]; intros d c w c' w' r HP H; [cbn in H; injection H as <- <- _; exact HP|].
  rewrite ew_loop_S in H. unfold ew_step in H.
  destruct (ew_err w) eqn:Er; [injection H as _ <- _; intros _; exact Er|].
  assert (NE : c_end_written c = false) by (destruct (c_end_written c); [specialize (HP eq_refl); discriminate|reflexivity]).
  destruct (zlen d <? ew_remaining w).
  { destruct (ew_wenv w); [injection H as <- <- _; congruence|].
    destruct (ew_cur_write cx d c w) as [[c1 w1] r1] eqn:CW. destruct r1; cbn [erun] in H.
    - injection H as <- <- _. rewrite (ew_cur_write_ok_ended _ _ _ _ _ _ CW). congruence.
    - injection H as _ <- _. reflexivity.
    - injection H as <- <- _. intros E. exfalso. revert CW E. unfold ew_cur_write.
      destruct (ew_cur w); try (destruct (sink_write cx d c) as [? []]); try (destruct (w_limit cx <? _)); intros CWe E; try discriminate CWe;
        injection CWe as <- _; congruence. }
  cbv zeta in H. destruct (ew_wenv w).
  - destruct (w_senv cx); [|injection H as <- <- _; congruence]. destruct (decode_env _ _) as [env|]; [|injection H as _ <- _; reflexivity].
    destruct (e_trailer env).
    + destruct (w_limit cx <? e_len env); [injection H as _ <- _; reflexivity|]. eapply IH; [|exact H]. congruence.
    + destruct (w_cenv cx); [|eapply IH; [|exact H]; congruence].
      destruct (sink_write cx _ c) as [c1 []] eqn:S; [|injection H as _ <- _; reflexivity].
      eapply IH; [|exact H]. rewrite (sink_write_ok_ended _ _ _ _ S). congruence.
  - destruct (ew_cur_write cx _ c w) as [[c1 w1] r1] eqn:CW. destruct r1; cbn [erun] in H.
    + pose proof (ew_cur_write_ok_ended _ _ _ _ _ _ CW) as Q.
      unfold ew_unit_done in H. cbv zeta in H.
      match type of H with context [if ?b then _ else _] => destruct b end.
      * match type of H with context [match ?p with Some _ => _ | None => _ end] => destruct p as [pl|] end; [|injection H as _ <- _; reflexivity].
        destruct (decode_end_from_message cx pl); injection H as _ <- _; reflexivity.
      * match type of H with context [if ?b then _ else _] => destruct b end.
        -- destruct (zdrop _ _); [|injection H as _ <- _; reflexivity].
           injection H as <- <- _. rewrite flush_message_ended, Q. congruence.
        -- eapply IH; [|exact H]. rewrite flush_message_ended, Q. congruence.
    + injection H as _ <- _. reflexivity.
    + injection H as <- <- _. intros E. exfalso. revert CW E. unfold ew_cur_write.
      destruct (ew_cur w); try (destruct (sink_write cx _ c) as [? []]); try (destruct (w_limit cx <? _)); intros CWe E; try discriminate CWe;
        injection CWe as <- _; congruence.
Qed.

Lemma ew_write_ended cx cl d c w c' w' r : c_end_written c = false ->
  ew_write cx cl d c w = (c', w', r) -> c_end_written c' = true -> ew_err w' = true.
Proof.
  intros Ee. unfold ew_write. destruct (ew_maybe_init cx cl c w) as [c0 w0] eqn:MI.
  assert (P0 : c_end_written c0 = true -> ew_err w0 = true).
  { revert MI. unfold ew_maybe_init. destruct (ew_init w); [intros [= <- <-]; congruence|].
    destruct (w_senv cx); [intros [= <- <-]; congruence|]. destruct (w_cenv cx); [|intros [= <- <-]; congruence].
    destruct (cl =? -1); [intros [= <- <-]; congruence|]. destruct (w_limit cx <? cl); [intros [= <- <-]; reflexivity|].
    destruct (sink_write cx _ c) as [c1 []] eqn:S; intros [= <- <-]; [|reflexivity]. rewrite (sink_write_ok_ended _ _ _ _ S). congruence. }
  destruct (ew_err w0) eqn:Er0; [intros [= <- <- _] _; exact Er0|].
  assert (NE : c_end_written c0 = false) by (destruct (c_end_written c0); [specialize (P0 eq_refl); discriminate|reflexivity]).
  destruct (ew_complete w0); [destruct d; [intros [= <- <- _]; congruence|intros [= _ <- _]; reflexivity]|].
  destruct (ew_remaining w0 =? -1); [|apply ew_loop_ended; congruence].
  destruct (ew_cur_write cx d c0 w0) as [[c1 w1] r1] eqn:CW. destruct r1.
  - intros [= <- <- _]. rewrite (ew_cur_write_ok_ended _ _ _ _ _ _ CW). congruence.
  - intros [= _ <- _]. reflexivity.
  - intros [= <- <- _] E. exfalso. revert CW E. unfold ew_cur_write.
    destruct (ew_cur w0); try (destruct (sink_write cx _ c0) as [? []]); try (destruct (w_limit cx <? _)); intros CWe E; try discriminate CWe;
      injection CWe as <- _; congruence.
Qed.

(** * Two Writes or one, seen from the responseWriter *)
Definition rweq (r r' : rw) : Prop :=
  req r r' \/ (Frozen (r_core r) /\ Frozen (r_core r') /\ blocks (c_out (r_core r)) = blocks (c_out (r_core r'))).

Lemma req_refl r : req r r. Proof. split; [apply ceq_refl|auto]. Qed.

Lemma CoreInv_frozen c : CoreInv c -> c_end_written c = true -> Frozen c.
Proof. intros (_ & Hf & _ & He) E. split; [exact E|]. split; [apply Hf; exact E|congruence]. Qed.

Lemma ceq_frozen c c' : ceq c c' -> Frozen c -> Frozen c'.
Proof.
  intros [A _] (E & F & R). apply (f_equal (fun x => (c_end_written x, c_flushed x, c_err x))) in A. cbn in A.
  injection A as A1 A2 A3. split; [congruence|]. split; congruence.
Qed.

Lemma e3eq_rweq c3 w3 rs3 c2 w2 rs2 cl : e3eq (c3, w3, rs3) (c2, w2, rs2) -> CoreInv c3 ->
  rweq (mkRw c3 true cl (BEnv w3)) (mkRw c2 true cl (BEnv w2)) /\ rs3 = rs2.
Proof.
  intros (Hq & Hw & Hr) HI. cbn [fst snd] in *. split; [|exact Hr]. destruct Hw as [->|(_ & _ & E)].
  - left. split; [exact Hq|]. repeat split.
  - right. pose proof (CoreInv_frozen _ HI E) as F. split; [exact F|]. split; [eapply ceq_frozen; eauto|]. apply Hq.
Qed.

Lemma t3eq_rweq c3 w3 rs3 c2 w2 rs2 cl : t3eq (c3, w3, rs3) (c2, w2, rs2) -> CoreInv c3 ->
  rweq (mkRw c3 true cl (BTrans w3)) (mkRw c2 true cl (BTrans w2)) /\ rs3 = rs2.
Proof.
  intros (Hq & Hw & Hr) HI. cbn [fst snd] in *. subst c2. split; [|exact Hr]. destruct Hw as [->|(_ & _ & E)].
  - left. apply req_refl.
  - right. pose proof (CoreInv_frozen _ HI E) as F. split; [exact F|]. split; [exact F|reflexivity].
Qed.

Lemma rw_write_err cx d r : r_headers_written r = true -> c_err (r_core r) = true -> rw_write cx d r = (r, WFail).
Proof. intros Hw Er. unfold rw_write. rewrite Hw, Er. reflexivity. Qed.

Theorem rw_write_app cx a b r : b <> [] -> RwSeg cx r ->
  rweq (fst (rw_write cx (a ++ b) r)) (fst (rw_write cx b (fst (rw_write cx a r)))) /\
  (snd (rw_write cx (a ++ b) r) = WOk <-> snd (rw_write cx a r) = WOk /\ snd (rw_write cx b (fst (rw_write cx a r))) = WOk).
Proof.
  intros Hb HS. rewrite (rw_write_r0 cx (a ++ b) r), (rw_write_r0 cx a r). destruct (r0_facts cx r HS) as [HS0 HW0].
  set (r0 := if r_headers_written r then r else rw_write_header cx 200 r) in *. clearbody r0. clear HS r.
  destruct HS0 as [HN0 HE0]. pose proof HN0 as (HR0 & Hc0 & HX0 & HB0).
  destruct (rw_write cx (a ++ b) r0) as [r3 rs3] eqn:W3. destruct (rw_write cx a r0) as [r1 rs1] eqn:W1. cbn [fst snd].
  destruct (rw_write_inv cx _ _ _ _ HR0 W3) as ((HI3 & _) & _). destruct (rw_write_inv cx _ _ _ _ HR0 W1) as (HR1 & HW1). pose proof HR1 as (HI1 & _).
  destruct (rw_write_np cx _ _ _ _ HN0 W1) as [Np1 HN1].
  destruct r0 as [c0 hw0 cl0 W0]. cbn [r_headers_written r_core r_content_len r_w] in *. subst hw0.
  unfold rw_write in W3, W1. cbn [r_headers_written r_core r_content_len r_w] in W3, W1.
  destruct (c_err c0) eqn:Er0.
  { injection W3 as <- <-. injection W1 as <- <-. rewrite rw_write_err by (cbn; auto). cbn [fst snd].
    split; [left; apply req_refl|]. split; [discriminate|intros [D _]; discriminate]. }
  assert (Ee0 : c_end_written c0 = false) by (destruct HR0 as ((_ & _ & _ & He) & _); cbn in He; congruence).
  destruct (HX0 eq_refl Ee0) as (Wnn & HM0).
  destruct W0 as [| |w|w|w]; [congruence| | | |].
  - (* no body expected *)
    injection W3 as <- <-. injection W1 as <- <-. unfold rw_write. cbn [r_headers_written r_core r_content_len r_w]. rewrite Er0. cbn [fst snd].
    split; [left; apply req_refl|]. split; [discriminate|intros [D _]; discriminate].
  - (* the error body is collected *)
    unfold xw_write in W3, W1. destruct (xw_buf w) as [b0|] eqn:Eb.
    2:{ injection W3 as <- <-. injection W1 as <- <-. unfold rw_write. cbn [r_headers_written r_core r_content_len r_w]. rewrite Er0. unfold xw_write. rewrite Eb. cbn [fst snd].
        split; [left; apply req_refl|]. split; [discriminate|intros [D _]; discriminate]. }
    pose proof (zlen_nonneg a). pose proof (zlen_nonneg b). rewrite zlen_app in W3.
    destruct (Z.ltb_spec (w_limit cx) (zlen a + zlen b0)) as [La|La].
    + destruct (Z.ltb_spec (w_limit cx) (zlen a + zlen b + zlen b0)) as [_|L]; [|lia].
      injection W3 as <- <-. injection W1 as <- <-.
      destruct (report_error_inv cx EResourceExhausted c0 (proj1 HR0)) as ((_ & _ & _ & He) & En).
      rewrite rw_write_err by (cbn; congruence). cbn [fst snd].
      split; [left; apply req_refl|]. split; [discriminate|intros [D _]; discriminate].
    + injection W1 as <- <-. unfold rw_write. cbn [r_headers_written r_core r_content_len r_w]. rewrite Er0. unfold xw_write. cbn [xw_buf xw_proc]. rewrite zlen_app.
      replace (zlen b + (zlen b0 + zlen a)) with (zlen a + zlen b + zlen b0) by lia.
      destruct (Z.ltb_spec (w_limit cx) (zlen a + zlen b + zlen b0)) as [L|L]; injection W3 as <- <-; cbn [fst snd].
      * split; [|split; [discriminate|intros [_ D]; discriminate]]. right.
        destruct (report_error_inv cx EResourceExhausted c0 (proj1 HR0)) as (HI' & En). cbn [r_core].
        pose proof (CoreInv_frozen _ HI' En) as F. split; [exact F|]. split; [exact F|reflexivity].
      * rewrite app_assoc. split; [left; apply req_refl|]. split; [auto|reflexivity].
  - (* envelopingWriter *)
    assert (G0 : Good cx c0) by (apply (RwInv_good cx (mkRw c0 true cl0 (BEnv w)) HR0); reflexivity).
    pose proof (ew_write_app cx cl0 a b c0 w Hb Hc0 HE0 G0 Ee0) as T.
    destruct (ew_write cx cl0 (a ++ b) c0 w) as [[c3 w3] rs3'] eqn:X3. destruct (ew_write cx cl0 a c0 w) as [[c1 w1] rs1'] eqn:X1.
    injection W3 as <- <-. injection W1 as <- <-. cbn [r_core] in HI3, HI1.
    destruct (ew_write_ready2 cx cl0 a c0 w c1 w1 rs1' Hc0 HE0 X1) as (I1 & _).
    assert (Dead : ew_err w1 = true -> ew_write cx cl0 b c1 w1 = (c1, w1, WFail)).
    { intros E. unfold ew_write, ew_maybe_init. rewrite I1, E. reflexivity. }
    unfold rw_write. cbn [r_headers_written r_core r_content_len r_w].
    destruct rs1'; [| |congruence].
    + destruct (c_err c1) eqn:Er1.
      * assert (En1 : c_end_written c1 = true) by (destruct HI1 as (_ & _ & _ & He); congruence).
        rewrite (Dead (ew_write_ended cx cl0 a c0 w c1 w1 WOk Ee0 X1 En1)) in T.
        destruct (e3eq_rweq _ _ _ _ _ _ cl0 T HI3) as [Q ->]. cbn [fst snd]. split; [exact Q|]. split; [discriminate|intros [_ D]; discriminate].
      * destruct (ew_write cx cl0 b c1 w1) as [[c2 w2] rs2]. destruct (e3eq_rweq _ _ _ _ _ _ cl0 T HI3) as [Q ->]. cbn [fst snd].
        split; [exact Q|]. split; [auto|intros [_ D]; exact D].
    + destruct (e3eq_rweq _ _ _ _ _ _ cl0 T HI3) as [Q ->].
      assert (R2 : (if c_err c1 then (mkRw c1 true cl0 (BEnv w1), WFail)
                    else let '(c, w', res) := ew_write cx cl0 b c1 w1 in (mkRw c true cl0 (BEnv w'), res)) = (mkRw c1 true cl0 (BEnv w1), WFail)).
      { destruct (c_err c1); [reflexivity|]. rewrite (Dead (ew_write_fail _ _ _ _ _ _ _ X1)). reflexivity. }
      rewrite R2. cbn [fst snd]. split; [exact Q|]. split; [discriminate|intros [D _]; discriminate].
  - (* transformingWriter *)
    pose proof (tw_write_app cx a b c0 w Hb HB0) as T.
    destruct (tw_write cx (a ++ b) c0 w) as [[c3 w3] rs3'] eqn:X3. destruct (tw_write cx a c0 w) as [[c1 w1] rs1'] eqn:X1.
    injection W3 as <- <-. injection W1 as <- <-. cbn [r_core] in HI3, HI1.
    assert (Dead : tw_err w1 = true -> tw_write cx b c1 w1 = (c1, w1, WFail)).
    { intros E. unfold tw_write. rewrite E. reflexivity. }
    unfold rw_write. cbn [r_headers_written r_core r_content_len r_w].
    destruct rs1'; [| |congruence].
    + destruct (c_err c1) eqn:Er1.
      * assert (En1 : c_end_written c1 = true) by (destruct HI1 as (_ & _ & _ & He); congruence).
        rewrite (Dead (tw_write_ended cx a c0 w c1 w1 WOk Ee0 X1 En1)) in T.
        destruct (t3eq_rweq _ _ _ _ _ _ cl0 T HI3) as [Q ->]. cbn [fst snd]. split; [exact Q|]. split; [discriminate|intros [_ D]; discriminate].
      * destruct (tw_write cx b c1 w1) as [[c2 w2] rs2]. destruct (t3eq_rweq _ _ _ _ _ _ cl0 T HI3) as [Q ->]. cbn [fst snd].
        split; [exact Q|]. split; [auto|intros [_ D]; exact D].
    + destruct (t3eq_rweq _ _ _ _ _ _ cl0 T HI3) as [Q ->].
      assert (R2 : (if c_err c1 then (mkRw c1 true cl0 (BTrans w1), WFail)
                    else let '(c, w', res) := tw_write cx b c1 w1 in (mkRw c true cl0 (BTrans w'), res)) = (mkRw c1 true cl0 (BTrans w1), WFail)).
      { destruct (c_err c1); [reflexivity|]. rewrite (Dead (tw_write_fail _ _ _ _ _ _ X1)). reflexivity. }
      rewrite R2. cbn [fst snd]. split; [exact Q|]. split; [discriminate|intros [D _]; discriminate].
Qed.

(** * Scripts *)
Lemma run_script_wr cx : forall s r wr, run_script cx s r wr = (fst (run_script cx s r []), wr ++ snd (run_script cx s r [])).
Proof.
  induction s as [|a rest IH]; intros r wr; [cbn; rewrite app_nil_r; reflexivity|]. cbn [run_script].
  destruct a as [k v|k v|code|d| |e]; try apply IH.
  - destruct (c_end_written (r_core r)); apply IH.
  - destruct (c_end_written (r_core r)); apply IH.
  - destruct (rw_write cx d r) as [r1 res]. destruct res; try (cbn [fst snd app]; reflexivity);
      rewrite (IH r1 (wr ++ [_])), (IH r1 ([] ++ [_])); cbn [fst snd app]; rewrite <- app_assoc; reflexivity.
Qed.

Lemma run_script_rweq cx s r r' : rweq r r' ->
  rweq (fst (run_script cx s r [])) (fst (run_script cx s r' [])) /\ snd (run_script cx s r []) = snd (run_script cx s r' []).
Proof.
  intros [H|(F & F' & B)].
  - destruct (req_map2 (fun r => run_script cx s r []) (fun o r => run_script_pre cx o s r []) r r' H) as [A C]. split; [left; exact A|exact C].
  - destruct (frozen_script cx s r [] F) as [A1 A2]. destruct (frozen_script cx s r' [] F') as [B1 B2].
    split; [|congruence]. right. rewrite A1, B1. auto.
Qed.

Lemma rw_close_rweq cx r r' : rweq r r' ->
  blocks (c_out (r_core (fst (rw_close cx r)))) = blocks (c_out (r_core (fst (rw_close cx r')))) /\ snd (rw_close cx r) = snd (rw_close cx r').
Proof.
  intros [H|(F & F' & B)].
  - destruct (req_map2 (rw_close cx) (fun o r => rw_close_pre cx o r) r r' H) as [A C]. split; [apply A|exact C].
  - destruct (frozen_close cx r F) as [A1 A2]. destruct (frozen_close cx r' F') as [B1 B2]. split; congruence.
Qed.

Definition np (x : wres) : Prop := x <> WPanic.

Lemma run_script_cons cx a rest r wr : RwNP cx r ->
  run_script cx (a :: rest) r wr = (let '(r1, wr1) := run_script cx [a] r wr in run_script cx rest r1 wr1).
Proof.
  intros HN. cbn [run_script]. destruct a as [k v|k v|code|d| |e]; try reflexivity.
  - destruct (c_end_written (r_core r)); reflexivity.
  - destruct (c_end_written (r_core r)); reflexivity.
  - destruct (rw_write cx d r) as [r1 res] eqn:W. destruct (rw_write_np _ _ _ _ _ HN W) as [Np _]. destruct res; [reflexivity|reflexivity|congruence].
Qed.

Lemma run_script_one_seg cx a r wr r1 wr1 : RwSeg cx r -> Forall np wr -> run_script cx [a] r wr = (r1, wr1) -> RwSeg cx r1 /\ Forall np wr1.
Proof.
  intros [HN HE] HW H. destruct (run_script_np cx [a] r wr r1 wr1 HN HW H) as [W1 N1]. split; [|exact W1]. split; [exact N1|].
  revert H. cbn [run_script]. destruct a as [k v|k v|code|d| |e].
  - destruct (c_end_written (r_core r)); intros [= <- _]; exact HE.
  - destruct (c_end_written (r_core r)); intros [= <- _]; exact HE.
  - intros [= <- _]. apply (RwSeg_write_header cx code r (conj HN HE)).
  - destruct (rw_write cx d r) as [r' res] eqn:W. pose proof (RwSeg_write cx d r r' res (conj HN HE) W) as [_ S].
    destruct res; intros [= <- _]; exact S.
  - intros [= <- _]. exact HE.
  - intros [= <- _]. exact HE.
Qed.

(** The bytes [a ++ b] handed to Write at once, or as [a] and then [b], anywhere in a handler's script *)
Lemma script_split cx a b s2 : b <> [] -> forall s1 r wr, RwSeg cx r -> Forall np wr ->
  let x3 := run_script cx (s1 ++ BWrite (a ++ b) :: s2) r wr in
  let x2 := run_script cx (s1 ++ BWrite a :: BWrite b :: s2) r wr in
  rweq (fst x3) (fst x2) /\
  exists pre post x y z, snd x3 = pre ++ z :: post /\ snd x2 = pre ++ x :: y :: post /\ (z = WOk <-> x = WOk /\ y = WOk) /\ Forall np (snd x3) /\ Forall np (snd x2).
Proof.
  intros Hb. induction s1 as [|act s1 IH]; intros r wr HS HW; cbn [app].
  - destruct HS as [HN HE].
    cbn [run_script]. pose proof (rw_write_app cx a b r Hb (conj HN HE)) as [Q R].
    destruct (rw_write cx (a ++ b) r) as [r3 z] eqn:W3. destruct (rw_write cx a r) as [r1 x] eqn:W1. cbn [fst snd] in Q, R.
    destruct (rw_write_np _ _ _ _ _ HN W3) as [Np3 HN3]. destruct (rw_write_np _ _ _ _ _ HN W1) as [Np1 HN1].
    destruct (rw_write cx b r1) as [r2 y] eqn:W2. cbn [fst snd] in Q, R. destruct (rw_write_np _ _ _ _ _ HN1 W2) as [Np2 HN2].
    assert (E3 : (match z with WPanic => (r3, wr ++ [WPanic]) | _ => run_script cx s2 r3 (wr ++ [z]) end) = run_script cx s2 r3 (wr ++ [z])) by (destruct z; congruence || reflexivity).
    assert (E1 : forall K, (match x with WPanic => (r1, wr ++ [WPanic]) | _ => K end) = K) by (intros K; destruct x; congruence || reflexivity).
    assert (E2 : (match y with WPanic => (r2, (wr ++ [x]) ++ [WPanic]) | _ => run_script cx s2 r2 ((wr ++ [x]) ++ [y]) end) = run_script cx s2 r2 ((wr ++ [x]) ++ [y])) by (destruct y; congruence || reflexivity).
    cbv zeta. rewrite E3, E1, E2. rewrite (run_script_wr cx s2 r3), (run_script_wr cx s2 r2). cbn [fst snd].
    destruct (run_script_rweq cx s2 r3 r2 Q) as [Qf Pf]. split; [exact Qf|].
    exists wr, (snd (run_script cx s2 r2 [])), x, y, z. rewrite Pf, <- !app_assoc. cbn [app]. split; [reflexivity|]. split; [reflexivity|]. split; [exact R|].
    destruct (run_script cx s2 r2 []) as [rf2 post] eqn:RS2.
    destruct (run_script_np cx s2 r2 [] rf2 post HN2 (Forall_nil _) RS2) as [Wp _]. cbn [snd].
    split; (apply Forall_app; split; [exact HW|]); repeat constructor; assumption.
  - pose proof HS as [HN _]. rewrite (run_script_cons cx act (s1 ++ BWrite (a ++ b) :: s2) r wr HN), (run_script_cons cx act (s1 ++ BWrite a :: BWrite b :: s2) r wr HN).
    destruct (run_script cx [act] r wr) as [r1 wr1] eqn:One.
    destruct (run_script_one_seg cx act r wr r1 wr1 HS HW One) as [HS1 HW1]. apply IH; assumption.
Qed.

Lemma RwSeg_init cx h : RwSeg cx (rw_init h).
Proof. split; [apply RwNP_init|exact I]. Qed.

Definition is_ok (x : wres) : bool := match x with WOk => true | _ => false end.

(** what the client's connection has seen, up to the cutting of adjacent writes; the outcome of
    close; whether every Write succeeded *)
Definition observable (x : rw * list wres * wres) : list devent * wres * bool :=
  (blocks (c_out (r_core (fst (fst x)))), snd x, forallb is_ok (snd (fst x))).

Theorem write_split_invisible cx h s1 a b s2 : b <> [] ->
  observable (serve_response cx h (s1 ++ BWrite (a ++ b) :: s2)) = observable (serve_response cx h (s1 ++ BWrite a :: BWrite b :: s2)).
Proof.
  intros Hb. unfold serve_response.
  pose proof (script_split cx a b s2 Hb s1 (rw_init h) [] (RwSeg_init cx h) (Forall_nil _)) as [Q (pre & post & x & y & z & E3 & E2 & R & N3 & N2)].
  cbv zeta in Q, E3, E2, N3, N2.
  destruct (run_script cx (s1 ++ BWrite (a ++ b) :: s2) (rw_init h) []) as [r3 wr3]. destruct (run_script cx (s1 ++ BWrite a :: BWrite b :: s2) (rw_init h) []) as [r2 wr2].
  cbn [fst snd] in *.
  assert (P : forall wr, Forall np wr -> existsb (fun x => match x with WPanic => true | _ => false end) wr = false).
  { intros wr F. induction F as [|u l Hu _ IH]; [reflexivity|]. cbn. rewrite IH. destruct u; try reflexivity. exfalso. apply Hu. reflexivity. }
  rewrite (P _ N3), (P _ N2).
  destruct (rw_close_rweq cx r3 r2 Q) as [B C]. destruct (rw_close cx r3) as [r3' res3]. destruct (rw_close cx r2) as [r2' res2]. cbn [fst snd] in *.
  unfold observable. cbn [fst snd]. rewrite B, C. f_equal. subst wr3 wr2. rewrite !forallb_app. cbn [forallb]. f_equal.
  destruct z, x, y; cbn; try reflexivity; exfalso; destruct R as [R1 R2]; first [discriminate (R1 eq_refl) | (destruct (R1 eq_refl); discriminate) | discriminate (R2 (conj eq_refl eq_refl))].
Qed.

(** any way of cutting a non-empty run of bytes into non-empty Writes *)
Theorem write_chunking_invisible cx h s1 s2 : forall cs c0, Forall (fun c => c <> []) cs ->
  observable (serve_response cx h (s1 ++ map BWrite (c0 :: cs) ++ s2)) =
  observable (serve_response cx h (s1 ++ BWrite (c0 ++ concat cs) :: s2)).
Proof.
  induction cs as [|c1 cs IH]; intros c0 F.
  - cbn [map concat app]. rewrite app_nil_r. reflexivity.
  - inversion F as [|? ? Hc1 F']; subst. cbn [map concat app].
    rewrite <- (write_split_invisible cx h s1 c0 c1 (map BWrite cs ++ s2) Hc1).
    rewrite app_assoc. apply (IH (c0 ++ c1) F').
Qed.
