From VG Require Import Model.Bytes Model.Resolver.
From Coq Require Import Lia.
Open Scope Z_scope.

Lemma fallback_go_first : forall pre who last a post,
  Forall (fun x => x <> 0) pre -> a = 0 ->
  fallback_go (pre ++ a :: post) who last = RFound (who + Z.of_nat (length pre)).
Proof.
  induction pre as [|x r IH]; intros who last a post Hn ->; cbn [app fallback_go length].
  - unfold answer. cbn. f_equal. lia.
  - inversion Hn as [|? ? Hx Hr]; subst. unfold answer at 1. destruct (Z.eqb_spec x 0); [congruence|].
    destruct (x =? 1); rewrite IH by auto; f_equal; lia.
Qed.

Lemma fallback_go_none : forall answers who lst,
  Forall (fun x => x <> 0) answers ->
  fallback_go answers who lst =
  match answers with
  | [] => match lst with Some e => e | None => RNotFound end
  | _ => answer (List.last answers 1) (who + Z.of_nat (length answers) - 1)
  end.
Proof.
  induction answers as [|x r IH]; intros who lst Hn; [reflexivity|].
  inversion Hn as [|? ? Hx Hr]; subst. cbn [fallback_go].
  assert (Ex : exists e, answer x who = e /\ (forall w, e <> RFound w)).
  { unfold answer. destruct (Z.eqb_spec x 0); [congruence|]. destruct (x =? 1); eexists; split; try reflexivity; discriminate. }
  destruct Ex as (e & Ee & Ne). rewrite Ee.
  assert (G : fallback_go r (who + 1) (Some e) = answer (List.last (x :: r) 1) (who + Z.of_nat (length (x :: r)) - 1)).
  { rewrite IH by exact Hr. destruct r as [|y r'].
    - cbn. rewrite <- Ee. f_equal. lia.
    - cbn [List.last length]. f_equal. lia. }
  destruct e; [exfalso; eapply Ne; reflexivity|exact G|exact G].
Qed.

Theorem first_that_knows_wins pre a post :
  Forall (fun x => x <> 0) pre -> a = 0 -> fallback (pre ++ a :: post) = RFound (Z.of_nat (length pre)).
Proof. intros. unfold fallback. rewrite fallback_go_first by assumption. reflexivity. Qed.

Theorem nobody_knows answers :
  Forall (fun x => x <> 0) answers ->
  fallback answers = match answers with [] => RNotFound | _ => answer (List.last answers 1) (Z.of_nat (length answers) - 1) end.
Proof. intros H. unfold fallback. rewrite fallback_go_none by exact H. destruct answers; reflexivity. Qed.

Theorem unknown_type_becomes_dynamic answers :
  Forall (fun x => x = 1) answers -> resolve_for_method (fallback answers) = TDynamic.
Proof.
  intros H. assert (Hn : Forall (fun x => x <> 0) answers) by (eapply Forall_impl; [|exact H]; intros a ->; discriminate).
  rewrite nobody_knows by exact Hn. destruct answers as [|x r]; [reflexivity|].
  assert (L : List.last (x :: r) 1 = 1).
  { clear Hn. revert x H. induction r as [|y r IH]; intros x H; [inversion H; subst; reflexivity|].
    inversion H; subst. cbn [List.last]. apply IH. assumption. }
  rewrite L. reflexivity.
Qed.
