From VG Require Import Model.Bytes Model.Percent Model.Router.
From Coq Require Import Permutation.
Open Scope Z_scope.

(** * basic facts *)

Lemma segs_eqb_eq a b : segs_eqb a b = true <-> a = b.
Proof.
  revert b; induction a as [|x a IH]; intros [|y b]; simpl; split; try congruence; try discriminate; auto.
  - rewrite andb_true_iff, bytes_eqb_eq, IH. intros [-> ->]; reflexivity.
  - intros H; inversion H; subst. rewrite bytes_eqb_refl. apply IH. reflexivity.
Qed.

Definition same_entry (a b : item) : Prop :=
  it_idx a = it_idx b /\ it_tmpl a = it_tmpl b /\ it_verb a = it_verb b /\ it_meth a = it_meth b.

Lemma step_child_in s items it' :
  In it' (step_child s items) <->
  exists it, In it items /\ it_rem it = s :: it_rem it' /\ same_entry it' it.
Proof.
  induction items as [|it r IH]; simpl.
  - split; [tauto|intros (x & [] & _)].
  - destruct (it_rem it) as [|x rest] eqn:E.
    + rewrite IH. split; intros (y & Hy & Hr & Hs); exists y; [tauto|].
      destruct Hy as [<-|Hy]; [congruence|tauto].
    + destruct (bytes_eqb x s) eqn:B.
      * apply bytes_eqb_eq in B; subst x. simpl. rewrite IH. split.
        -- intros [<-|(y & Hy & Hr & Hs)].
           ++ exists it. simpl. unfold same_entry. simpl. tauto.
           ++ exists y; tauto.
        -- intros (y & [<-|Hy] & Hr & Hs).
           ++ left. destruct it' as [i t rm v m]. unfold same_entry in Hs. simpl in *.
              destruct Hs as (-> & -> & -> & ->). rewrite E in Hr. inversion Hr; subst. reflexivity.
           ++ right. exists y; tauto.
      * rewrite IH. split; intros (y & Hy & Hr & Hs); exists y; [tauto|].
        destruct Hy as [<-|Hy]; [|tauto]. rewrite E in Hr. inversion Hr; subst.
        rewrite bytes_eqb_refl in B. discriminate.
Qed.

Lemma ends_here_in verb items it :
  In it (ends_here verb items) <-> In it items /\ it_rem it = [] /\ it_verb it = verb.
Proof.
  induction items as [|x r IH]; simpl; [tauto|].
  destruct (it_rem x) eqn:E.
  - destruct (bytes_eqb (it_verb x) verb) eqn:B.
    + apply bytes_eqb_eq in B. simpl. rewrite IH. split.
      * intros [<-|H]; tauto.
      * intros ([<-|H] & H1 & H2); tauto.
    + rewrite IH. split; [tauto|]. intros ([<-|H] & H1 & H2); [|tauto].
      subst. rewrite bytes_eqb_refl in B. discriminate.
  - rewrite IH. split; [tauto|]. intros ([<-|H] & H1 & H2); [congruence|tauto].
Qed.

Lemma nonempty_in {A} (l : list A) : nonempty l = true <-> exists x, In x l.
Proof. destruct l; simpl; split; try discriminate; eauto. intros (x & []). Qed.

Lemma nonempty_false {A} (l : list A) : nonempty l = false <-> l = [].
Proof. destruct l; simpl; split; congruence. Qed.

Lemma star_neq_dstar : bytes_eqb star dstar = false.
Proof. reflexivity. Qed.

(** which branch of findTarget produced the result *)
Lemma find_cons items cur rest verb :
  let c1 := step_child cur items in
  let c2 := step_child star items in
  let c3 := step_child dstar items in
  (find items (cur :: rest) verb = find c1 rest verb /\ find c1 rest verb <> []) \/
  (find c1 rest verb = [] \/ c1 = []) /\
  ((find items (cur :: rest) verb = find c2 rest verb /\ find c2 rest verb <> []) \/
   (find c2 rest verb = [] \/ c2 = []) /\ find items (cur :: rest) verb = ends_here verb c3).
Proof.
  cbn [find]. cbv zeta.
  destruct (step_child cur items) as [|a c1] eqn:E1; cbn [nonempty].
  - right. split; [auto|].
    destruct (step_child star items) as [|b c2] eqn:E2; cbn [nonempty].
    + right. split; [auto|]. destruct (step_child dstar items); reflexivity.
    + destruct (find (b :: c2) rest verb) eqn:F2; cbn [nonempty].
      * right. split; [auto|]. destruct (step_child dstar items); reflexivity.
      * left. split; [reflexivity|discriminate].
  - destruct (find (a :: c1) rest verb) eqn:F1; cbn [nonempty].
    + right. split; [auto|].
      destruct (step_child star items) as [|b c2] eqn:E2; cbn [nonempty].
      * right. split; [auto|]. destruct (step_child dstar items); reflexivity.
      * destruct (find (b :: c2) rest verb) eqn:F2; cbn [nonempty].
        -- right. split; [auto|]. destruct (step_child dstar items); reflexivity.
        -- left. split; [reflexivity|discriminate].
    + left. split; [reflexivity|discriminate].
Qed.

Definition wf_items (items : list item) : Prop := forall it, In it items -> wf_tmpl (it_rem it) = true.

Lemma wf_step s items : wf_items items -> wf_items (step_child s items).
Proof.
  intros W it' H. apply step_child_in in H as (it & Hin & Hr & _).
  specialize (W it Hin). rewrite Hr in W. simpl in W. apply andb_true_iff in W. tauto.
Qed.

Lemma find_nil_items path verb : find [] path verb = [].
Proof. destruct path; reflexivity. Qed.

(** * Soundness: whatever is returned is an inserted entry whose template matches *)
Lemma find_sound path : forall items verb it',
  wf_items items -> In it' (find items path verb) ->
  exists it, In it items /\ same_entry it' it /\ tmatch (it_rem it) path = true /\
             it_verb it = verb /\ it_rem it' = [].
Proof.
  induction path as [|cur rest IH]; intros items verb it' W H.
  - cbn [find] in H. apply ends_here_in in H as (Hin & Hr & Hv).
    exists it'. unfold same_entry. rewrite Hr. simpl. tauto.
  - destruct (find_cons items cur rest verb) as [[E _]|[_ [[E _]|[_ E]]]]; rewrite E in H.
    + destruct (IH _ _ _ (wf_step _ _ W) H) as (itc & Hc & Se & Tm & Hv & Hr).
      apply step_child_in in Hc as (it & Hin & Hrem & Se2).
      exists it. split; [exact Hin|]. split; [unfold same_entry in *; intuition congruence|].
      split; [|unfold same_entry in *; intuition congruence].
      rewrite Hrem. cbn [tmatch]. specialize (W it Hin). rewrite Hrem in W. cbn [wf_tmpl] in W.
      destruct (bytes_eqb cur dstar) eqn:D.
      * apply andb_true_iff in W as [W _]. destruct (it_rem itc); [reflexivity|discriminate].
      * destruct (bytes_eqb cur star); [exact Tm|]. rewrite bytes_eqb_refl. exact Tm.
    + destruct (IH _ _ _ (wf_step _ _ W) H) as (itc & Hc & Se & Tm & Hv & Hr).
      apply step_child_in in Hc as (it & Hin & Hrem & Se2).
      exists it. split; [exact Hin|]. split; [unfold same_entry in *; intuition congruence|].
      split; [|unfold same_entry in *; intuition congruence].
      rewrite Hrem. cbn [tmatch]. rewrite star_neq_dstar, bytes_eqb_refl. exact Tm.
    + apply ends_here_in in H as (Hc & Hr & Hv).
      apply step_child_in in Hc as (it & Hin & Hrem & Se2).
      exists it. split; [exact Hin|]. split; [exact Se2|].
      split; [|unfold same_entry in *; intuition congruence].
      rewrite Hrem, Hr. cbn [tmatch]. rewrite bytes_eqb_refl. reflexivity.
Qed.

(** * Completeness: if some inserted template matches, the search does not answer 404 *)
Lemma find_complete path : forall items verb it,
  wf_items items -> In it items -> tmatch (it_rem it) path = true -> it_verb it = verb ->
  find items path verb <> [].
Proof.
  induction path as [|cur rest IH]; intros items verb it W Hin Tm Hv.
  - cbn [find]. destruct (it_rem it) eqn:E; [|simpl in Tm; discriminate].
    intros C. assert (In it (ends_here verb items)) by (apply ends_here_in; tauto).
    rewrite C in H. destruct H.
  - destruct (it_rem it) as [|x ts] eqn:E; [simpl in Tm; discriminate|].
    cbn [tmatch] in Tm.
    pose (it' := mkItem (it_idx it) (it_tmpl it) ts (it_verb it) (it_meth it)).
    assert (Hstep : In it' (step_child x items)).
    { apply step_child_in. exists it. unfold same_entry. simpl. tauto. }
    destruct (find_cons items cur rest verb) as [[E1 N1]|[Z1 [[E2 N2]|[Z2 E3]]]].
    + rewrite E1. exact N1.
    + rewrite E2. exact N2.
    + rewrite E3. destruct (bytes_eqb x dstar) eqn:D.
      * apply bytes_eqb_eq in D. subst x. destruct ts; [|discriminate].
        intros C. assert (In it' (ends_here verb (step_child dstar items))) by (apply ends_here_in; simpl; tauto).
        rewrite C in H. destruct H.
      * exfalso. destruct (bytes_eqb x star) eqn:S.
        -- apply bytes_eqb_eq in S. subst x.
           assert (F : find (step_child star items) rest verb <> []).
           { apply (IH _ _ it'); [apply wf_step; exact W|exact Hstep|exact Tm|exact Hv]. }
           destruct Z2 as [Z|Z]; [contradiction|]. rewrite Z in Hstep. destruct Hstep.
        -- apply andb_true_iff in Tm as [Eq Tm]. apply bytes_eqb_eq in Eq. subst x.
           assert (F : find (step_child cur items) rest verb <> []).
           { apply (IH _ _ it'); [apply wf_step; exact W|exact Hstep|exact Tm|exact Hv]. }
           destruct Z1 as [Z|Z]; [contradiction|]. rewrite Z in Hstep. destruct Hstep.
Qed.

(** * One template: everything returned belongs to a single template, and all of that
      template's entries (for the verb) are returned *)
Definition common_prefix (pre : list seg) (items : list item) : Prop :=
  forall it, In it items -> it_tmpl it = pre ++ it_rem it.

Lemma common_step pre s items : common_prefix pre items -> common_prefix (pre ++ [s]) (step_child s items).
Proof.
  intros C it' H. apply step_child_in in H as (it & Hin & Hr & Se).
  destruct Se as (_ & -> & _). rewrite (C it Hin), Hr, <- app_assoc. reflexivity.
Qed.

(** precise version: all results share one template *)
Lemma find_one_template path : forall pre items verb a b,
  common_prefix pre items -> In a (find items path verb) -> In b (find items path verb) ->
  it_tmpl a = it_tmpl b.
Proof.
  induction path as [|cur rest IH]; intros pre items verb a b C Ha Hb.
  - cbn [find] in *. apply ends_here_in in Ha as (Ia & Ra & _). apply ends_here_in in Hb as (Ib & Rb & _).
    rewrite (C a Ia), (C b Ib), Ra, Rb. reflexivity.
  - destruct (find_cons items cur rest verb) as [[E _]|[_ [[E _]|[_ E]]]]; rewrite E in *.
    + exact (IH _ _ _ _ _ (common_step pre cur items C) Ha Hb).
    + exact (IH _ _ _ _ _ (common_step pre star items C) Ha Hb).
    + pose proof (common_step pre dstar items C) as C3.
      apply ends_here_in in Ha as (Ia & Ra & _). apply ends_here_in in Hb as (Ib & Rb & _).
      rewrite (C3 a Ia), (C3 b Ib), Ra, Rb. reflexivity.
Qed.

Lemma find_prefix path : forall pre items verb a,
  common_prefix pre items -> In a (find items path verb) -> exists sfx, it_tmpl a = pre ++ sfx.
Proof.
  induction path as [|cur rest IH]; intros pre items verb a C Ha.
  - cbn [find] in *. apply ends_here_in in Ha as (Ia & Ra & _). exists []. rewrite (C a Ia), Ra. reflexivity.
  - destruct (find_cons items cur rest verb) as [[E _]|[_ [[E _]|[_ E]]]]; rewrite E in *.
    + destruct (IH _ _ _ _ (common_step pre cur items C) Ha) as (sfx & H). exists (cur :: sfx).
      rewrite H, <- app_assoc. reflexivity.
    + destruct (IH _ _ _ _ (common_step pre star items C) Ha) as (sfx & H). exists (star :: sfx).
      rewrite H, <- app_assoc. reflexivity.
    + apply ends_here_in in Ha as (Ia & Ra & _). exists [dstar].
      rewrite (common_step pre dstar items C a Ia), Ra, app_nil_r. reflexivity.
Qed.

Lemma same_entry_trans a b c : same_entry a b -> same_entry b c -> same_entry a c.
Proof. unfold same_entry. intuition congruence. Qed.

Lemma find_all_of_template path : forall pre items verb a it,
  common_prefix pre items -> In a (find items path verb) ->
  In it items -> it_tmpl it = it_tmpl a -> it_verb it = verb ->
  exists it', In it' (find items path verb) /\ same_entry it' it.
Proof.
  induction path as [|cur rest IH]; intros pre items verb a it C Ha Hin Ht Hv.
  - cbn [find] in *. apply ends_here_in in Ha as (Ia & Ra & _).
    exists it. split; [|unfold same_entry; tauto]. apply ends_here_in. split; [exact Hin|]. split; [|exact Hv].
    rewrite (C a Ia), (C it Hin), Ra in Ht. apply app_inv_head in Ht. exact Ht.
  - assert (Branch : forall s, In a (find (step_child s items) rest verb) ->
              exists it', In it' (find (step_child s items) rest verb) /\ same_entry it' it).
    { intros s Hs. pose proof (common_step pre s items C) as Cs.
      destruct (find_prefix rest _ _ _ _ Cs Hs) as (sfx & Hp).
      assert (Hr : it_rem it = s :: sfx).
      { rewrite <- Ht, (C it Hin), <- app_assoc in Hp. apply app_inv_head in Hp. exact Hp. }
      pose (it0 := mkItem (it_idx it) (it_tmpl it) sfx (it_verb it) (it_meth it)).
      assert (H0 : In it0 (step_child s items)).
      { apply step_child_in. exists it. unfold same_entry. simpl. tauto. }
      destruct (IH _ _ _ a it0 Cs Hs H0 Ht Hv) as (it' & Hi & Se).
      exists it'. split; [exact Hi|]. eapply same_entry_trans; [exact Se|]. unfold same_entry; simpl; tauto. }
    destruct (find_cons items cur rest verb) as [[E _]|[_ [[E _]|[_ E]]]]; rewrite E in *.
    + apply Branch; exact Ha.
    + apply Branch; exact Ha.
    + pose proof (common_step pre dstar items C) as C3.
      apply ends_here_in in Ha as (Ia & Ra & _).
      assert (Hr : it_rem it = [dstar]).
      { pose proof (C3 a Ia) as P. rewrite Ra, app_nil_r, <- Ht, (C it Hin) in P. apply app_inv_head in P. exact P. }
      pose (it0 := mkItem (it_idx it) (it_tmpl it) [] (it_verb it) (it_meth it)).
      exists it0. split; [|unfold same_entry; simpl; tauto].
      apply ends_here_in. simpl. split; [|tauto].
      apply step_child_in. exists it. unfold same_entry. simpl. tauto.
Qed.

(** * Precedence: an all-literal template equal to the path wins over wildcard templates *)
Lemma tmatch_literal_refl p : all_literal p = true -> tmatch p p = true.
Proof.
  induction p as [|x p IH]; intros H; [reflexivity|].
  cbn [all_literal forallb] in H. apply andb_true_iff in H as [Hx Hp]. unfold is_wild in Hx.
  apply negb_true_iff, orb_false_iff in Hx as [S D]. cbn [tmatch]. rewrite D, S, bytes_eqb_refl. exact (IH Hp).
Qed.

Lemma find_literal_first path : forall pre items verb lit a,
  wf_items items -> common_prefix pre items ->
  In lit items -> it_rem lit = path -> all_literal path = true -> it_verb lit = verb ->
  In a (find items path verb) -> it_tmpl a = pre ++ path.
Proof.
  induction path as [|cur rest IH]; intros pre items verb lit a W C Hl Hr Al Hv Ha.
  - cbn [find] in Ha. apply ends_here_in in Ha as (Ia & Ra & _). rewrite (C a Ia), Ra. reflexivity.
  - cbn [all_literal forallb] in Al. apply andb_true_iff in Al as [Hx Al].
    pose (lit' := mkItem (it_idx lit) (it_tmpl lit) rest (it_verb lit) (it_meth lit)).
    assert (H1 : In lit' (step_child cur items)).
    { apply step_child_in. exists lit. unfold same_entry. simpl. tauto. }
    assert (N1 : find (step_child cur items) rest verb <> []).
    { apply (find_complete rest _ _ lit'); [apply wf_step; exact W|exact H1| |exact Hv].
      simpl. apply tmatch_literal_refl. exact Al. }
    destruct (find_cons items cur rest verb) as [[E _]|[[Z|Z] _]].
    + rewrite E in Ha.
      rewrite (IH (pre ++ [cur]) _ _ lit' a (wf_step _ _ W) (common_step pre cur items C) H1 eq_refl Al Hv Ha).
      rewrite <- app_assoc. reflexivity.
    + contradiction.
    + rewrite Z in H1. destruct H1.
Qed.

(** * Order independence *)
Lemma step_child_perm s l l' : Permutation l l' -> Permutation (step_child s l) (step_child s l').
Proof.
  induction 1 as [|x l l' P IH|x y l|l l' l'' P1 IH1 P2 IH2]; simpl.
  - constructor.
  - destruct (it_rem x); [exact IH|]. destruct (bytes_eqb s0 s); [constructor|]; exact IH.
  - destruct (it_rem x) as [|a ra], (it_rem y) as [|b rb]; try reflexivity;
      repeat match goal with |- context [bytes_eqb ?u s] => destruct (bytes_eqb u s) end;
      try reflexivity; apply perm_swap.
  - eapply Permutation_trans; eassumption.
Qed.

Lemma ends_here_perm v l l' : Permutation l l' -> Permutation (ends_here v l) (ends_here v l').
Proof.
  induction 1 as [|x l l' P IH|x y l|l l' l'' P1 IH1 P2 IH2]; simpl.
  - constructor.
  - destruct (it_rem x); [|exact IH]. destruct (bytes_eqb (it_verb x) v); [constructor|]; exact IH.
  - destruct (it_rem x), (it_rem y); try reflexivity;
      repeat match goal with |- context [bytes_eqb ?u v] => destruct (bytes_eqb u v) end;
      try reflexivity; apply perm_swap.
  - eapply Permutation_trans; eassumption.
Qed.

Lemma nonempty_perm {A} (l l' : list A) : Permutation l l' -> nonempty l = nonempty l'.
Proof.
  intros P. destruct l, l'; try reflexivity.
  - apply Permutation_nil in P. discriminate.
  - apply Permutation_sym, Permutation_nil in P. discriminate.
Qed.

Lemma find_perm path : forall l l' verb, Permutation l l' -> Permutation (find l path verb) (find l' path verb).
Proof.
  induction path as [|cur rest IH]; intros l l' verb P.
  - cbn [find]. apply ends_here_perm. exact P.
  - cbn [find]. cbv zeta.
    pose proof (step_child_perm cur _ _ P) as P1. pose proof (step_child_perm star _ _ P) as P2.
    pose proof (step_child_perm dstar _ _ P) as P3.
    rewrite (nonempty_perm _ _ P1), (nonempty_perm _ _ P2), (nonempty_perm _ _ P3).
    assert (Q1 : Permutation (if nonempty (step_child cur l') then find (step_child cur l) rest verb else [])
                             (if nonempty (step_child cur l') then find (step_child cur l') rest verb else [])).
    { destruct (nonempty (step_child cur l')); [apply IH; exact P1|constructor]. }
    assert (Q2 : Permutation (if nonempty (step_child star l') then find (step_child star l) rest verb else [])
                             (if nonempty (step_child star l') then find (step_child star l') rest verb else [])).
    { destruct (nonempty (step_child star l')); [apply IH; exact P2|constructor]. }
    rewrite (nonempty_perm _ _ Q1).
    destruct (nonempty (if nonempty (step_child cur l') then find (step_child cur l') rest verb else [])); [exact Q1|].
    rewrite (nonempty_perm _ _ Q2).
    destruct (nonempty (if nonempty (step_child star l') then find (step_child star l') rest verb else [])); [exact Q2|].
    destruct (nonempty (step_child dstar l')); [apply ends_here_perm; exact P3|constructor].
Qed.

(** the method picked is independent of the order when methods are distinct among the candidates *)
Lemma pick_method_in m l it : pick_method m l = Some it -> In it l /\ it_meth it = m.
Proof.
  induction l as [|x r IH]; simpl; [discriminate|].
  destruct (bytes_eqb (it_meth x) m) eqn:B.
  - intros H; inversion H; subst. apply bytes_eqb_eq in B. tauto.
  - intros H. destruct (IH H). tauto.
Qed.

Lemma pick_method_none m l : pick_method m l = None <-> (forall it, In it l -> it_meth it <> m).
Proof.
  induction l as [|x r IH]; simpl; [split; [intros _ it []|reflexivity]|].
  destruct (bytes_eqb (it_meth x) m) eqn:B.
  - apply bytes_eqb_eq in B. split; [discriminate|]. intros H. exfalso. apply (H x); auto.
  - rewrite IH. split.
    + intros H it [<-|Hi]; [|auto]. intros E. rewrite E, bytes_eqb_refl in B. discriminate.
    + intros H it Hi. apply H. auto.
Qed.

Definition meth_unique (l : list item) : Prop :=
  forall a b, In a l -> In b l -> it_meth a = it_meth b -> a = b.

Lemma pick_method_perm m l l' : Permutation l l' -> meth_unique l -> pick_method m l = pick_method m l'.
Proof.
  intros P U. destruct (pick_method m l) as [a|] eqn:E1, (pick_method m l') as [b|] eqn:E2; try reflexivity.
  - apply pick_method_in in E1 as [Ia Ma]. apply pick_method_in in E2 as [Ib Mb].
    f_equal. apply U; [exact Ia|eapply Permutation_in; [apply Permutation_sym; exact P|exact Ib]|congruence].
  - apply pick_method_in in E1 as [Ia Ma]. exfalso.
    apply (proj1 (pick_method_none m l') E2 a); [eapply Permutation_in; eassumption|exact Ma].
  - apply pick_method_in in E2 as [Ib Mb]. exfalso.
    apply (proj1 (pick_method_none m l) E1 b); [eapply Permutation_in; [apply Permutation_sym; exact P|exact Ib]|exact Mb].
Qed.

Lemma get_target_perm m l l' : Permutation l l' -> meth_unique l -> get_target m l = get_target m l'.
Proof.
  intros P U. unfold get_target. rewrite (pick_method_perm m l l' P U), (pick_method_perm star l l' P U). reflexivity.
Qed.

(** * The entries produced by insertion *)
Definition key_unique (l : list item) : Prop :=
  forall a b, In a l -> In b l -> it_rem a = it_rem b -> it_verb a = it_verb b -> it_meth a = it_meth b -> a = b.

Lemma existsb_same_key_false p v m l :
  existsb (same_key p v m) l = false ->
  forall it, In it l -> ~ (it_rem it = p /\ it_verb it = v /\ it_meth it = m).
Proof.
  intros H it Hin (E1 & E2 & E3). assert (existsb (same_key p v m) l = true).
  { apply existsb_exists. exists it. split; [exact Hin|]. unfold same_key.
    rewrite E1, E2, E3, bytes_eqb_refl, bytes_eqb_refl. rewrite (proj2 (segs_eqb_eq p p) eq_refl). reflexivity. }
  congruence.
Qed.

Definition from_route (rs : list route) (base : nat) (it : item) : Prop :=
  exists k r, nth_error rs k = Some r /\ it_idx it = (base + k)%nat /\ it_tmpl it = r_path r /\
              it_rem it = r_path r /\ it_verb it = r_verb r /\ it_meth it = r_meth r.

Lemma build_from_spec rs : forall items idx,
  key_unique items ->
  let final := fst (build_from items idx rs) in
  key_unique final /\ (forall it, In it items -> In it final) /\
  (forall it, In it final -> In it items \/ from_route rs idx it).
Proof.
  induction rs as [|r rest IH]; intros items idx U; cbn [build_from].
  - simpl. repeat split; auto.
  - unfold insert. destruct (existsb (same_key (r_path r) (r_verb r) (r_meth r)) items) eqn:Ex.
    + specialize (IH items (S idx) U). destruct (build_from items (S idx) rest) as [final oks] eqn:B.
      cbn [fst] in *. destruct IH as (U' & Sub & Org). repeat split; auto.
      intros it Hin. destruct (Org it Hin) as [H|(k & r0 & Hn & Hi & Ht)]; [auto|right].
      exists (S k), r0. split; [exact Hn|]. split; [lia|exact Ht].
    + set (new := mkItem idx (r_path r) (r_path r) (r_verb r) (r_meth r)).
      assert (U2 : key_unique (items ++ [new])).
      { intros a b Ha Hb E1 E2 E3. apply in_app_iff in Ha, Hb.
        destruct Ha as [Ha|[<-|[]]], Hb as [Hb|[<-|[]]]; auto.
        - exfalso. apply (existsb_same_key_false _ _ _ _ Ex a Ha). simpl in *. tauto.
        - exfalso. apply (existsb_same_key_false _ _ _ _ Ex b Hb). simpl in *. intuition congruence. }
      specialize (IH (items ++ [new]) (S idx) U2).
      destruct (build_from (items ++ [new]) (S idx) rest) as [final oks] eqn:B.
      cbn [fst] in *. destruct IH as (U' & Sub & Org). repeat split; auto.
      * intros it Hin. apply Sub, in_app_iff. auto.
      * intros it Hin. destruct (Org it Hin) as [H|(k & r0 & Hn & Hi & Ht)].
        -- apply in_app_iff in H as [H|[<-|[]]]; [auto|right].
           exists 0%nat, r. subst new. simpl. rewrite Nat.add_0_r. repeat split; reflexivity.
        -- right. exists (S k), r0. split; [exact Hn|]. split; [lia|exact Ht].
Qed.

Definition items_of (rs : list route) : list item := fst (build rs).

Lemma items_of_spec rs :
  key_unique (items_of rs) /\
  forall it, In it (items_of rs) ->
    exists r, nth_error rs (it_idx it) = Some r /\ it_tmpl it = r_path r /\ it_rem it = r_path r /\
              it_verb it = r_verb r /\ it_meth it = r_meth r.
Proof.
  unfold items_of, build. destruct (build_from_spec rs [] 0) as (U & _ & Org).
  { intros a b []. }
  split; [exact U|]. intros it Hin. destruct (Org it Hin) as [[]|(k & r & Hn & Hi & Ht)].
  exists r. simpl in Hi. rewrite Hi. tauto.
Qed.

Definition routes_wf (rs : list route) : Prop := forall r, In r rs -> wf_tmpl (r_path r) = true.

Lemma items_of_wf rs : routes_wf rs -> wf_items (items_of rs).
Proof.
  intros W it Hin. destruct (items_of_spec rs) as (_ & S). destruct (S it Hin) as (r & Hn & _ & Hr & _).
  rewrite Hr. apply W. eapply nth_error_In; eassumption.
Qed.

Lemma items_of_prefix rs : common_prefix [] (items_of rs).
Proof.
  intros it Hin. destruct (items_of_spec rs) as (_ & S). destruct (S it Hin) as (r & _ & Ht & Hr & _).
  simpl. congruence.
Qed.

(** * Property-level statements (restated alone in Props/C06.v) *)

Lemma route_sound rs path verb it' :
  routes_wf rs -> In it' (find (items_of rs) path verb) ->
  exists r, nth_error rs (it_idx it') = Some r /\ tmatch (r_path r) path = true /\
            r_verb r = verb /\ r_meth r = it_meth it'.
Proof.
  intros W H. destruct (find_sound path _ _ _ (items_of_wf rs W) H) as (it & Hin & Se & Tm & Hv & _).
  destruct (items_of_spec rs) as (_ & S). destruct (S it Hin) as (r & Hn & Ht & Hr & Hvb & Hm).
  destruct Se as (Si & _ & Sv & Sm). exists r. rewrite Si. split; [exact Hn|].
  rewrite <- Hr. split; [exact Tm|]. split; congruence.
Qed.

Lemma route_404 rs path verb :
  routes_wf rs ->
  (find (items_of rs) path verb = [] <->
   forall it, In it (items_of rs) -> ~ (tmatch (it_rem it) path = true /\ it_verb it = verb)).
Proof.
  intros W. split.
  - intros E it Hin (Tm & Hv). exact (find_complete path _ _ it (items_of_wf rs W) Hin Tm Hv E).
  - intros N. destruct (find (items_of rs) path verb) as [|a l] eqn:E; [reflexivity|exfalso].
    assert (Ha : In a (find (items_of rs) path verb)) by (rewrite E; left; reflexivity).
    destruct (find_sound path _ _ _ (items_of_wf rs W) Ha) as (it & Hin & _ & Tm & Hv & _).
    exact (N it Hin (conj Tm Hv)).
Qed.

Lemma get_target_method meth ends it : get_target meth ends = Some it ->
  In it ends /\ (it_meth it = meth \/ it_meth it = star).
Proof.
  unfold get_target. destruct (pick_method meth ends) eqn:E.
  - intros H; inversion H; subst. apply pick_method_in in E. tauto.
  - intros H. apply pick_method_in in H. tauto.
Qed.

Lemma get_target_none meth ends : get_target meth ends = None ->
  forall it, In it ends -> it_meth it <> meth /\ it_meth it <> star.
Proof.
  unfold get_target. destruct (pick_method meth ends) eqn:E; [discriminate|].
  intros H it Hin. split; [apply (proj1 (pick_method_none meth ends) E it Hin)|apply (proj1 (pick_method_none star ends) H it Hin)].
Qed.

(** candidates reached for one request are the entries of exactly one template *)
Lemma route_one_template rs path verb a b :
  In a (find (items_of rs) path verb) -> In b (find (items_of rs) path verb) -> it_tmpl a = it_tmpl b.
Proof. apply (find_one_template path [] _ verb a b (items_of_prefix rs)). Qed.

Lemma route_whole_template rs path verb a it :
  In a (find (items_of rs) path verb) -> In it (items_of rs) -> it_tmpl it = it_tmpl a -> it_verb it = verb ->
  exists it', In it' (find (items_of rs) path verb) /\ same_entry it' it.
Proof. apply (find_all_of_template path [] _ verb a it (items_of_prefix rs)). Qed.

Lemma route_literal_precedence rs path verb lit a :
  routes_wf rs -> In lit (items_of rs) -> it_rem lit = path -> all_literal path = true -> it_verb lit = verb ->
  In a (find (items_of rs) path verb) -> it_tmpl a = path.
Proof.
  intros W Hl Hr Al Hv Ha.
  exact (find_literal_first path [] _ verb lit a (items_of_wf rs W) (items_of_prefix rs) Hl Hr Al Hv Ha).
Qed.

(** results of the search have distinct methods (they share template and verb, keys are unique) *)
Lemma find_meth_unique rs path verb : routes_wf rs -> meth_unique (find (items_of rs) path verb).
Proof.
  intros W a b Ha Hb Hm.
  pose proof (route_one_template rs path verb a b Ha Hb) as Tt.
  destruct (find_sound path _ _ _ (items_of_wf rs W) Ha) as (ia & Ia & Sa & _ & Va & Ra).
  destruct (find_sound path _ _ _ (items_of_wf rs W) Hb) as (ib & Ib & Sb & _ & Vb & Rb).
  destruct (items_of_spec rs) as (U & S).
  destruct (S ia Ia) as (ra & _ & Ta & Rma & _). destruct (S ib Ib) as (rb & _ & Tb & Rmb & _).
  assert (E : ia = ib).
  { apply U; auto; unfold same_entry in *; intuition congruence. }
  subst ib. destruct a, b. unfold same_entry in *. simpl in *. intuition congruence.
Qed.

(** order independence at the level of labelled entries: any permutation of the inserted
    entries yields the same candidates (as a multiset) and the same selected target *)
Lemma route_order_independent rs items' path verb meth :
  routes_wf rs -> Permutation (items_of rs) items' ->
  Permutation (find (items_of rs) path verb) (find items' path verb) /\
  get_target meth (find (items_of rs) path verb) = get_target meth (find items' path verb).
Proof.
  intros W P. pose proof (find_perm path _ _ verb P) as Q. split; [exact Q|].
  apply get_target_perm; [exact Q|apply find_meth_unique; exact W].
Qed.

(** insertion succeeds for every route iff no two routes share (template, verb, method) —
    a property of the multiset of routes, hence of no particular registration order *)
Definition route_key (r : route) := (r_path r, r_verb r, r_meth r).
