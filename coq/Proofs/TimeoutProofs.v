From VG Require Import Model.Bytes Gen.Generated Model.Timeout.
From Coq Require Import ZifyBool ZifyNat ZifyN.
Ltac Zify.zify_post_hook ::= Z.div_mod_to_equations.
Open Scope Z_scope.

(** * decimal digits *)

Lemma is_digit_range b : is_digit b = true -> (48 <= b <= 57)%N.
Proof. unfold is_digit. lia. Qed.

Lemma digits_val_all l : forall acc, all_digits l = true -> digits_val acc l = Some (dec_val acc l).
Proof.
  induction l as [|b t IH]; intros acc H; simpl in *; [reflexivity|].
  apply andb_true_iff in H as [Hb Ht]. rewrite Hb. apply IH; exact Ht.
Qed.

Lemma digits_val_none l : forall acc, all_digits l = false -> digits_val acc l = None.
Proof.
  induction l as [|b t IH]; intros acc H; simpl in *; [discriminate|].
  destruct (is_digit b); simpl in H; [apply IH; exact H|reflexivity].
Qed.

Lemma dec_val_bound l : forall acc, 0 <= acc -> all_digits l = true ->
  acc * 10 ^ Z.of_nat (length l) <= dec_val acc l < (acc + 1) * 10 ^ Z.of_nat (length l).
Proof.
  induction l as [|b t IH]; intros acc Ha H.
  - simpl. lia.
  - cbn [dec_val all_digits length] in *. apply andb_true_iff in H as [Hb Ht].
    apply is_digit_range in Hb.
    specialize (IH (acc * 10 + Z.of_N (b - 48)) ltac:(lia) Ht).
    rewrite Nat2Z.inj_succ, Z.pow_succ_r by lia.
    nia.
Qed.

Lemma dec_val_nonneg l : all_digits l = true -> 0 <= dec_val 0 l.
Proof. intros H. pose proof (dec_val_bound l 0 ltac:(lia) H). lia. Qed.

Lemma dec_val_lt_pow l : all_digits l = true -> dec_val 0 l < 10 ^ Z.of_nat (length l).
Proof. intros H. pose proof (dec_val_bound l 0 ltac:(lia) H). lia. Qed.

Lemma pow10_mono a b : (a <= b)%nat -> 10 ^ Z.of_nat a <= 10 ^ Z.of_nat b.
Proof. intros. apply Z.pow_le_mono_r; lia. Qed.

(** parse_uint64 accepts exactly the non-empty digit strings within range *)
Lemma parse_uint64_digits s :
  all_digits s = true -> (1 <= length s)%nat -> dec_val 0 s <= max_uint64 ->
  parse_uint64 s = Some (dec_val 0 s).
Proof.
  intros Hd Hl Hm. destruct s as [|b t]; [simpl in Hl; lia|].
  unfold parse_uint64. rewrite (digits_val_all _ 0 Hd).
  destruct (dec_val 0 (b :: t) <=? max_uint64) eqn:E; [reflexivity|lia].
Qed.

Lemma parse_uint64_nondigits s : all_digits s = false -> parse_uint64 s = None.
Proof.
  intros H. destruct s as [|b t]; [reflexivity|]. unfold parse_uint64.
  rewrite (digits_val_none _ 0 H). reflexivity.
Qed.

(** * FormatInt *)

Lemma fmt_pos_spec fuel : forall v acc, 0 <= v < 10 ^ Z.of_nat fuel -> (1 <= fuel)%nat ->
  exists ds, fmt_pos fuel v acc = ds ++ acc /\ all_digits ds = true /\ (1 <= length ds <= fuel)%nat /\
             dec_val 0 ds = v /\ (v < 10 ^ Z.of_nat (length ds)) /\ ((2 <= length ds)%nat -> 10 ^ Z.of_nat (length ds - 1) <= v).
Proof.
  induction fuel as [|f IH]; intros v acc Hv Hf; [lia|].
  cbn [fmt_pos]. destruct (v <? 10) eqn:E.
  - exists [Z.to_N (48 + v mod 10)].
    assert (Hm : v mod 10 = v) by (apply Z.mod_small; lia).
    split; [reflexivity|]. split; [cbn [all_digits]; unfold is_digit; rewrite Hm; lia|].
    split; [cbn [length]; lia|]. split; [cbn [dec_val]; rewrite Hm; lia|].
    split; [cbn [length]; change (10 ^ Z.of_nat 1) with 10; lia|cbn [length]; lia].
  - rewrite Nat2Z.inj_succ, Z.pow_succ_r in Hv by lia.
    destruct f as [|f']; [simpl in Hv; lia|].
    destruct (IH (v / 10) (Z.to_N (48 + v mod 10) :: acc) ltac:(lia) ltac:(lia))
      as (ds & E1 & D & L & Vv & Hub & Hlb).
    exists (ds ++ [Z.to_N (48 + v mod 10)]). rewrite E1, <- app_assoc. cbn [app].
    assert (Hd : is_digit (Z.to_N (48 + v mod 10)) = true) by (unfold is_digit; lia).
    assert (AD : all_digits (ds ++ [Z.to_N (48 + v mod 10)]) = true).
    { clear - D Hd. induction ds as [|x ds IHd]; cbn [app all_digits] in *; [rewrite Hd; reflexivity|].
      apply andb_true_iff in D as [-> D]. cbn [andb]. apply IHd; exact D. }
    assert (DV : forall a l x, dec_val a (l ++ [x]) = dec_val a l * 10 + Z.of_N (x - 48)).
    { clear. intros a l; revert a; induction l as [|y l IHl]; intros a x; cbn [app dec_val]; [reflexivity|apply IHl]. }
    rewrite app_length. cbn [length].
    repeat split; try lia; try exact AD.
    + rewrite DV, Vv. lia.
    + replace (Z.of_nat (length ds + 1)) with (Z.succ (Z.of_nat (length ds))) by lia.
      rewrite Z.pow_succ_r by lia. lia.
    + intros _. replace (length ds + 1 - 1)%nat with (length ds) by lia.
      destruct (Nat.le_gt_cases 2 (length ds)) as [G|G].
      * specialize (Hlb G). replace (Z.of_nat (length ds)) with (Z.succ (Z.of_nat (length ds - 1))) by lia.
        rewrite Z.pow_succ_r by lia. lia.
      * assert (length ds = 1)%nat as -> by lia. simpl. lia.
Qed.

Lemma format_int_nonneg v : 0 <= v <= max_int64 ->
  exists ds, format_int v = ds /\ all_digits ds = true /\ (1 <= length ds)%nat /\ dec_val 0 ds = v /\
             v < 10 ^ Z.of_nat (length ds) /\ ((2 <= length ds)%nat -> 10 ^ Z.of_nat (length ds - 1) <= v).
Proof.
  intros Hv. unfold format_int. destruct (v <? 0) eqn:E; [lia|].
  destruct (fmt_pos_spec 20 v [] ltac:(unfold max_int64 in Hv; simpl; lia) ltac:(lia)) as (ds & E1 & D & L & Vv & U & Lb).
  rewrite app_nil_r in E1. exists ds. repeat split; try tauto; try lia. 
Qed.

(** length bound: v < 10^k -> |format_int v| <= k *)
Lemma format_int_len v k : 0 <= v <= max_int64 -> (1 <= k)%nat -> v < 10 ^ Z.of_nat k ->
  (length (format_int v) <= k)%nat.
Proof.
  intros Hv Hk Hlt. destruct (format_int_nonneg v Hv) as (ds & E & D & L & Vv & U & Lb). rewrite E.
  destruct (Nat.le_gt_cases (length ds) k) as [|G]; [assumption|exfalso].
  assert (2 <= length ds)%nat by lia. specialize (Lb H).
  pose proof (pow10_mono k (length ds - 1) ltac:(lia)). lia.
Qed.

Lemma format_int_len_ge v k : 0 <= v <= max_int64 -> 10 ^ Z.of_nat k <= v -> (k < length (format_int v))%nat.
Proof.
  intros Hv Hge. destruct (format_int_nonneg v Hv) as (ds & E & D & L & Vv & U & Lb). rewrite E.
  destruct (Nat.le_gt_cases (length ds) k) as [G|]; [exfalso|assumption].
  pose proof (pow10_mono (length ds) k G). lia.
Qed.

(** * gRPC *)

Lemma spec_unit_grpc_unit u x : spec_unit u = Some x -> grpc_unit u = x /\ x > 0.
Proof.
  unfold spec_unit, grpc_unit, grpc_timeout_unit, ns_h, ns_min, ns_s, ns_ms, ns_us.
  repeat (match goal with |- context [(u =? ?c)%N] => destruct (N.eqb_spec u c) as [->|] end;
          [intros H; inversion H; subst; simpl; lia|]).
  discriminate.
Qed.

Lemma spec_unit_none u : spec_unit u = None -> grpc_unit u = 0.
Proof.
  unfold spec_unit, grpc_unit, grpc_timeout_unit.
  repeat (match goal with |- context [(u =? ?c)%N] => destruct (N.eqb_spec u c) as [->|] end; [discriminate|]).
  intros _.
  repeat (match goal with |- context [Z.of_N u =? ?c] => destruct (Z.eqb_spec (Z.of_N u) c); [lia|] end).
  reflexivity.
Qed.

Lemma grpc_unit_H u : spec_unit u <> None -> (grpc_unit u =? grpc_unit 72) = (u =? 72)%N.
Proof.
  intros H. destruct (spec_unit u) as [x|] eqn:E; [|congruence].
  unfold spec_unit in E.
  repeat (match type of E with context [(u =? ?c)%N] => destruct (N.eqb_spec u c) as [->|] end;
          [reflexivity|]).
  discriminate.
Qed.

(** A spec-valid gRPC header is decoded to its value unless it is more than 8 hours in 'H'. *)
Lemma grpc_decode_valid s d :
  sem_grpc s = Some d ->
  if grpc_beyond s then grpc_decode s = DNoTimeout else grpc_decode s = DOk d.
Proof.
  unfold sem_grpc, grpc_decode, grpc_beyond.
  destruct (last_split s) as [[ds u]|]; [|discriminate].
  destruct (spec_unit u) as [unit|] eqn:EU; [|discriminate].
  destruct (all_digits ds && (1 <=? length ds)%nat && (length ds <=? 8)%nat) eqn:EV; [|discriminate].
  intros H; inversion H; subst; clear H.
  apply andb_true_iff in EV as [EV L8]. apply andb_true_iff in EV as [AD L1].
  apply Nat.leb_le in L1, L8.
  destruct (spec_unit_grpc_unit _ _ EU) as [GU Upos].
  pose proof (dec_val_lt_pow ds AD) as Hlt. pose proof (dec_val_nonneg ds AD) as Hnn.
  pose proof (pow10_mono (length ds) 8 L8) as P8. change (10 ^ Z.of_nat 8) with 100000000 in P8.
  rewrite parse_uint64_digits by (auto; unfold max_uint64; lia).
  rewrite GU. destruct (unit =? 0) eqn:E0; [lia|].
  unfold grpc_max_digits. destruct (8 <? Z.of_nat (length ds)) eqn:E2; [lia|].
  rewrite <- GU, grpc_unit_H by congruence. unfold grpc_max_hours.
  destruct ((u =? 72)%N && (8 <? dec_val 0 ds)); reflexivity.
Qed.

(** Everything outside the grammar is an error (never a timeout, never "no timeout"). *)
Lemma grpc_decode_malformed s : s <> [] -> sem_grpc s = None -> grpc_decode s = DErr.
Proof.
  unfold sem_grpc, grpc_decode. intros NE.
  destruct (last_split s) as [[ds u]|] eqn:E.
  2:{ apply last_split_none in E. congruence. }
  destruct (spec_unit u) as [unit|] eqn:EU.
  - destruct (spec_unit_grpc_unit _ _ EU) as [GU Upos]. rewrite GU.
    destruct (unit =? 0) eqn:E0; [lia|].
    destruct (all_digits ds) eqn:AD; cbn [andb].
    + destruct ((1 <=? length ds)%nat) eqn:L1; cbn [andb].
      * destruct ((length ds <=? 8)%nat) eqn:L8; [discriminate|]. intros _.
        apply Nat.leb_gt in L8. unfold grpc_max_digits. destruct (8 <? Z.of_nat (length ds)) eqn:C; [reflexivity|lia].
      * intros _. apply Nat.leb_gt in L1. destruct ds; [|simpl in L1; lia].
        unfold grpc_max_digits. simpl. reflexivity.
    + intros _. rewrite parse_uint64_nondigits by assumption.
      destruct (grpc_max_digits <? _); reflexivity.
  - intros _. rewrite (spec_unit_none _ EU). reflexivity.
Qed.

(** grpcEncodeTimeout: the produced header is spec-valid, never larger than d, and short by
    less than its own unit. *)
Lemma grpc_encode_sound d : 0 <= d <= max_int64 ->
  exists d', sem_grpc (grpc_encode d) = Some d' /\ d' <= d /\ d - d' < unit_of_grpc (grpc_encode d).
Proof.
  intros Hd. unfold grpc_encode. destruct (d <=? 0) eqn:E0.
  - assert (d = 0) by lia. subst. exists 0. vm_compute. repeat split; congruence.
  - assert (Hgen : forall size unit, spec_unit unit = Some size -> 0 < size ->
                d / size < e8 ->
                exists d', sem_grpc (format_int (d / size) ++ [unit]) = Some d' /\ d' <= d /\
                           d - d' < unit_of_grpc (format_int (d / size) ++ [unit])).
    { intros size unit SU Sp Hq.
      assert (Hq0 : 0 <= d / size <= max_int64) by (split; [apply Z.div_pos; lia| unfold max_int64 in *; apply Z.div_le_upper_bound; nia]).
      destruct (format_int_nonneg (d / size) Hq0) as (ds & E & D & L & Vv & U & Lb).
      pose proof (format_int_len (d / size) 8 Hq0 ltac:(lia) ltac:(unfold e8 in Hq; simpl; lia)) as L8.
      rewrite E in *.
      exists (d / size * size). unfold sem_grpc, unit_of_grpc. rewrite last_split_app, SU, D.
      replace ((1 <=? length ds)%nat) with true by (symmetry; apply Nat.leb_le; lia).
      replace ((length ds <=? 8)%nat) with true by (symmetry; apply Nat.leb_le; lia).
      simpl. rewrite Vv. repeat split; [|].
      - pose proof (Z.mul_div_le d size Sp). lia.
      - pose proof (Z.mod_pos_bound d size Sp). pose proof (Z.div_mod d size ltac:(lia)). lia. }
    unfold e8 in *.
    destruct (d <? 1 * 100000000) eqn:C1.
    { apply (Hgen 1 110%N); [reflexivity|lia|rewrite Z.div_1_r; lia]. }
    destruct (d <? ns_us * 100000000) eqn:C2.
    { apply (Hgen ns_us 117%N); [reflexivity|unfold ns_us; lia|unfold ns_us in *; apply Z.div_lt_upper_bound; lia]. }
    destruct (d <? ns_ms * 100000000) eqn:C3.
    { apply (Hgen ns_ms 109%N); [reflexivity|unfold ns_ms; lia|unfold ns_ms in *; apply Z.div_lt_upper_bound; lia]. }
    destruct (d <? ns_s * 100000000) eqn:C4.
    { apply (Hgen ns_s 83%N); [reflexivity|unfold ns_s; lia|unfold ns_s in *; apply Z.div_lt_upper_bound; lia]. }
    destruct (d <? ns_min * 100000000) eqn:C5.
    { apply (Hgen ns_min 77%N); [reflexivity|unfold ns_min; lia|unfold ns_min in *; apply Z.div_lt_upper_bound; lia]. }
    apply (Hgen ns_h 72%N); [reflexivity|unfold ns_h; lia|].
    unfold ns_h, max_int64 in *. apply Z.div_lt_upper_bound; lia.
Qed.

(** * Connect *)

Lemma wrap64_small z : 0 <= z <= max_int64 -> wrap64 z = z.
Proof. unfold wrap64, max_int64. intros H. rewrite Z.mod_small by lia. destruct (z <=? _) eqn:E; lia. Qed.

Lemma wrap64_range z : - max_int64 - 1 <= wrap64 z <= max_int64.
Proof.
  unfold wrap64, max_int64. pose proof (Z.mod_pos_bound z 18446744073709551616 ltac:(lia)).
  destruct (_ <=? _) eqn:E; lia.
Qed.

Lemma connect_extract_valid s d : sem_connect s = Some d -> connect_extract (Some s) = Ok (T d).
Proof.
  unfold sem_connect, connect_extract.
  destruct (all_digits s && (1 <=? length s)%nat && (length s <=? 10)%nat) eqn:EV; [|discriminate].
  intros H; inversion H; subst; clear H.
  apply andb_true_iff in EV as [EV L10]. apply andb_true_iff in EV as [AD L1].
  apply Nat.leb_le in L1, L10.
  pose proof (dec_val_lt_pow s AD) as Hlt. pose proof (dec_val_nonneg s AD) as Hnn.
  pose proof (pow10_mono (length s) 10 L10) as P. change (10 ^ Z.of_nat 10) with 10000000000 in P.
  destruct s as [|b t]; [simpl in L1; lia|].
  unfold connect_max_digits. destruct (10 <? Z.of_nat (length (b :: t))) eqn:C; [lia|].
  rewrite parse_uint64_digits by (auto; unfold max_uint64; lia).
  set (n := dec_val 0 (b :: t)) in *.
  rewrite (wrap64_small n) by (unfold max_int64; lia).
  rewrite wrap64_small by (unfold ns_ms, max_int64; lia).
  replace (ns_ms * n) with (n * ns_ms) by lia. rewrite Z.quot_mul by (unfold ns_ms; lia). rewrite Z.eqb_refl. reflexivity.
Qed.

Lemma connect_extract_malformed s : s <> [] -> sem_connect s = None -> connect_extract (Some s) = Reject.
Proof.
  unfold sem_connect, connect_extract. intros NE. destruct s as [|b t]; [congruence|].
  destruct (all_digits (b :: t)) eqn:AD; cbn [andb].
  - replace ((1 <=? length (b :: t))%nat) with true by (symmetry; apply Nat.leb_le; simpl; lia). cbn [andb].
    destruct ((length (b :: t) <=? 10)%nat) eqn:L; [discriminate|]. intros _.
    apply Nat.leb_gt in L. unfold connect_max_digits. destruct (10 <? Z.of_nat (length (b :: t))) eqn:C; [reflexivity|lia].
  - intros _. rewrite parse_uint64_nondigits by assumption. destruct (connect_max_digits <? _); reflexivity.
Qed.

(** connectEncodeTimeout: spec-valid, never larger, short by < 1ms unless clamped to the
    10-digit maximum (d beyond 9999999999 ms). *)
Lemma connect_encode_sound d : 0 <= d <= max_int64 ->
  exists d', sem_connect (connect_encode d) = Some d' /\ d' <= d /\
             (d - d' < ns_ms \/ (9999999999 * ns_ms < d /\ d' = 9999999999 * ns_ms)).
Proof.
  intros Hd. unfold connect_encode.
  rewrite Z.quot_div_nonneg by (unfold ns_ms; lia).
  assert (Hq0 : 0 <= d / ns_ms <= max_int64)
    by (unfold ns_ms, max_int64 in *; split; [apply Z.div_pos; lia|apply Z.div_le_upper_bound; lia]).
  destruct (format_int_nonneg (d / ns_ms) Hq0) as (ds & E & D & L & Vv & U & Lb). rewrite E.
  destruct (10 <? length ds)%nat eqn:C.
  - apply Nat.ltb_lt in C. exists (9999999999 * ns_ms). split; [vm_compute; reflexivity|].
    assert (2 <= length ds)%nat by lia. specialize (Lb H).
    pose proof (pow10_mono 10 (length ds - 1) ltac:(lia)) as P. change (10 ^ Z.of_nat 10) with 10000000000 in P.
    unfold ns_ms in *. split; [|right; split]; lia.
  - apply Nat.ltb_ge in C. exists (d / ns_ms * ns_ms). unfold sem_connect. rewrite D.
    replace ((1 <=? length ds)%nat) with true by (symmetry; apply Nat.leb_le; lia).
    replace ((length ds <=? 10)%nat) with true by (symmetry; apply Nat.leb_le; lia).
    simpl. rewrite Vv. unfold ns_ms in *. split; [reflexivity|]. split; [|left]; lia.
Qed.

(** * Conveyance theorems for the RPC encodings (gRPC and Connect; REST below). *)

Definition sem (e : enc) (s : bytes) : option Z :=
  match e with EGrpc => sem_grpc s | EConnect => sem_connect s | ERest => None end.

Definition is_rpc (e : enc) : bool := match e with ERest => false | _ => true end.

Definition unit_of (t : enc) (s : bytes) : Z :=
  match t with EGrpc => unit_of_grpc s | EConnect => ns_ms | ERest => 0 end.

Lemma sem_nonempty c s d : sem c s = Some d -> s <> [].
Proof. destruct c; simpl; intros H E; subst; vm_compute in H; discriminate. Qed.

Lemma sem_range c s d : sem c s = Some d -> 0 <= d.
Proof.
  destruct c; cbn [sem]; [| |discriminate].
  - unfold sem_grpc. destruct (last_split s) as [[ds u]|]; [|discriminate].
    destruct (spec_unit u) as [x|] eqn:EU; [|discriminate].
    destruct (all_digits ds && _ && _) eqn:EV; [|discriminate].
    apply andb_true_iff in EV as [EV _]. apply andb_true_iff in EV as [AD _].
    intros H; inversion H. pose proof (dec_val_nonneg ds AD). destruct (spec_unit_grpc_unit _ _ EU). nia.
  - unfold sem_connect. destruct (all_digits s && _ && _) eqn:EV; [|discriminate].
    apply andb_true_iff in EV as [EV _]. apply andb_true_iff in EV as [AD _].
    intros H; inversion H. pose proof (dec_val_nonneg s AD). unfold ns_ms. nia.
Qed.

Lemma convey_absent pf ff c t : convey pf ff c t None = Ok None.
Proof. destruct c; reflexivity. Qed.

(** The extracted duration of a spec-valid header: exactly its value. *)
Lemma extract_valid pf c s d : is_rpc c = true -> sem c s = Some d ->
  (c = EGrpc /\ grpc_beyond s = true /\ extract pf c (Some s) = Ok NoT) \/
  (extract pf c (Some s) = Ok (T d) /\ d <= max_int64).
Proof.
  intros R H. pose proof (sem_nonempty _ _ _ H) as NE. destruct c; cbn [sem is_rpc extract] in *; [| |discriminate].
  - pose proof (grpc_decode_valid s d H) as G. unfold grpc_extract.
    destruct s as [|b t]; [congruence|].
    destruct (grpc_beyond (b :: t)) eqn:B; rewrite G; [left; auto|right; split; [reflexivity|]].
    (* bound: 8 digits times unit, hours capped *)
    unfold sem_grpc, grpc_beyond in *.
    destruct (last_split (b :: t)) as [[ds u]|]; [|discriminate].
    destruct (spec_unit u) as [x|] eqn:EU; [|discriminate].
    destruct (all_digits ds && (1 <=? length ds)%nat && (length ds <=? 8)%nat) eqn:EV; [|discriminate].
    apply andb_true_iff in EV as [EV L8]. apply andb_true_iff in EV as [AD L1]. apply Nat.leb_le in L8.
    inversion H; subst. pose proof (dec_val_lt_pow ds AD). pose proof (dec_val_nonneg ds AD).
    pose proof (pow10_mono (length ds) 8 L8) as P8. change (10 ^ Z.of_nat 8) with 100000000 in P8.
    unfold spec_unit in EU. unfold max_int64.
    repeat (match type of EU with context [(u =? ?c)%N] => destruct (N.eqb_spec u c) as [->|] end;
            [inversion EU; subst; unfold ns_h, ns_min, ns_s, ns_ms, ns_us in *; simpl in B; try lia|]).
    discriminate.
  - right. rewrite (connect_extract_valid s d H). split; [reflexivity|].
    unfold sem_connect in H. destruct (all_digits s && (1 <=? length s)%nat && (length s <=? 10)%nat) eqn:EV; [|discriminate].
    apply andb_true_iff in EV as [EV L10]. apply andb_true_iff in EV as [AD L1]. apply Nat.leb_le in L10.
    inversion H; subst. pose proof (dec_val_lt_pow s AD).
    pose proof (pow10_mono (length s) 10 L10) as P. change (10 ^ Z.of_nat 10) with 10000000000 in P.
    unfold ns_ms, max_int64. lia.
Qed.

Lemma inject_sound ff t d : is_rpc t = true -> 0 <= d <= max_int64 ->
  exists h' d', inject ff t (T d) = Some h' /\ sem t h' = Some d' /\ d' <= d /\
     (d - d' < unit_of t h' \/ (t = EConnect /\ 9999999999 * ns_ms < d /\ d' = 9999999999 * ns_ms)).
Proof.
  intros R Hd. destruct t; cbn [sem is_rpc inject unit_of] in *; [| |discriminate].
  - destruct (grpc_encode_sound d Hd) as (d' & S & L & U). exists (grpc_encode d), d'. auto.
  - destruct (connect_encode_sound d Hd) as (d' & S & L & U). exists (connect_encode d), d'.
    repeat split; auto. destruct U as [U|[U1 U2]]; [left; exact U|right; auto].
Qed.

(** * Property-level lemmas (stated again, alone, in Props/C12.v) *)

Lemma never_extends pf ff c t h d h' :
  is_rpc c = true -> is_rpc t = true ->
  sem c h = Some d -> convey pf ff c t (Some h) = Ok (Some h') ->
  exists d', sem t h' = Some d' /\ d' <= d /\
    (d - d' < unit_of t h' \/ (t = EConnect /\ 9999999999 * ns_ms < d /\ d' = 9999999999 * ns_ms)).
Proof.
  intros Rc Rt S C. unfold convey in C.
  destruct (extract_valid pf c h d Rc S) as [(-> & B & E)|[E M]]; rewrite E in C.
  - cbn [inject] in C. inversion C.
  - pose proof (sem_range _ _ _ S) as R0.
    destruct (inject_sound ff t d Rt ltac:(lia)) as (h2 & d' & I & S2 & L & U).
    rewrite I in C. inversion C; subst. exists d'. auto.
Qed.

Lemma dropped_only_beyond pf ff c t h d :
  is_rpc c = true -> sem c h = Some d -> convey pf ff c t (Some h) = Ok None ->
  c = EGrpc /\ grpc_beyond h = true.
Proof.
  intros Rc S C. unfold convey in C.
  destruct (extract_valid pf c h d Rc S) as [(-> & B & E)|[E M]]; [auto|].
  rewrite E in C. destruct t; cbn [inject] in C; inversion C.
Qed.

Lemma valid_accepted pf ff c t h d :
  is_rpc c = true -> sem c h = Some d -> convey pf ff c t (Some h) <> Reject.
Proof.
  intros Rc S. unfold convey.
  destruct (extract_valid pf c h d Rc S) as [(-> & B & E)|[E M]]; rewrite E; discriminate.
Qed.

Lemma malformed_rejected pf ff c t h :
  is_rpc c = true -> h <> [] -> sem c h = None -> convey pf ff c t (Some h) = Reject.
Proof.
  intros Rc NE S. unfold convey. destruct c; cbn [sem extract is_rpc] in *; [| |discriminate].
  - unfold grpc_extract. destruct h as [|b r]; [congruence|].
    rewrite (grpc_decode_malformed (b :: r) NE S). reflexivity.
  - rewrite (connect_extract_malformed h NE S). reflexivity.
Qed.

(** REST legs: the float64 conversions are oracles [pf]/[ff]; what vanguard's own code adds
    is proved: a REST client's parsed duration is re-encoded soundly for RPC backends, and
    RPC client durations reach a REST backend as [ff d] of exactly the client's duration
    (in particular zero is conveyed as [ff 0], not as an empty header). *)
Lemma rest_client pf ff t h d :
  is_rpc t = true -> h <> [] -> pf h = Some d -> 0 <= d <= max_int64 ->
  exists h' d', convey pf ff ERest t (Some h) = Ok (Some h') /\ sem t h' = Some d' /\ d' <= d /\
    (d - d' < unit_of t h' \/ (t = EConnect /\ 9999999999 * ns_ms < d /\ d' = 9999999999 * ns_ms)).
Proof.
  intros Rt NE P R. unfold convey. cbn [extract]. unfold rest_extract. destruct h as [|b r]; [congruence|].
  rewrite P. destruct (inject_sound ff t d Rt R) as (h2 & d' & I & S2 & L & U).
  exists h2, d'. rewrite I. auto.
Qed.

Lemma rest_client_malformed pf ff t h : h <> [] -> pf h = None -> convey pf ff ERest t (Some h) = Reject.
Proof.
  intros NE P. unfold convey. cbn [extract]. unfold rest_extract. destruct h; [congruence|]. rewrite P. reflexivity.
Qed.

Lemma rest_target pf ff c h d :
  is_rpc c = true -> sem c h = Some d ->
  convey pf ff c ERest (Some h) = Ok (Some (ff d)) \/
  (c = EGrpc /\ grpc_beyond h = true /\ convey pf ff c ERest (Some h) = Ok None).
Proof.
  intros Rc S. unfold convey.
  destruct (extract_valid pf c h d Rc S) as [(-> & B & E)|[E M]]; rewrite E; [right; auto|left; reflexivity].
Qed.
