From VG Require Import Model.GetDecision.
Open Scope Z_scope.

(** C19: GET is issued towards a Connect backend only if the client's own request was a GET,
    the method is side-effect free, the codec has a stable encoding, and the URL fits *)
Lemma get_issued_only_if cm m stable binary codec comp data q :
  connect_request_line cm m stable binary codec comp data = RLGet q ->
  cm = m_get /\ stable = true /\ mc_no_side_effects m = true /\
  q = connect_get_query codec comp binary data /\
  zlen (mc_path m) + zlen q + 1 <= mc_max_get m.
Proof.
  unfold connect_request_line.
  destruct (bytes_eqb cm m_get) eqn:E1; [|discriminate]. apply bytes_eqb_eq in E1.
  destruct stable; [|discriminate]. cbn [andb].
  destruct (mc_no_side_effects m) eqn:E3; [|discriminate].
  destruct (mc_max_get m <? _) eqn:E4; [discriminate|]. intros H; inversion H; subst.
  apply Z.ltb_ge in E4. repeat split; auto.
Qed.

(** ... and conversely POST is used in every other case, in particular one byte over the limit *)
Lemma post_otherwise cm m stable binary codec comp data :
  (cm <> m_get \/ stable = false \/ mc_no_side_effects m = false \/
   mc_max_get m < zlen (mc_path m) + zlen (connect_get_query codec comp binary data) + 1) ->
  connect_request_line cm m stable binary codec comp data = RLPost.
Proof.
  unfold connect_request_line. intros [H|[H|[H|H]]].
  - destruct (bytes_eqb cm m_get) eqn:E; [apply bytes_eqb_eq in E; contradiction|reflexivity].
  - subst. rewrite andb_false_r. reflexivity.
  - rewrite H, andb_false_r. reflexivity.
  - destruct (bytes_eqb cm m_get && stable && mc_no_side_effects m); [|reflexivity].
    destruct (mc_max_get m <? _) eqn:E; [reflexivity|apply Z.ltb_ge in E; lia].
Qed.

Lemma get_when_fits m binary codec comp data :
  mc_no_side_effects m = true ->
  zlen (mc_path m) + zlen (connect_get_query codec comp binary data) + 1 <= mc_max_get m ->
  connect_request_line m_get m true binary codec comp data = RLGet (connect_get_query codec comp binary data).
Proof.
  intros H L. unfold connect_request_line. rewrite bytes_eqb_refl, H. cbn [andb].
  destruct (mc_max_get m <? _) eqn:E; [apply Z.ltb_lt in E; lia|reflexivity].
Qed.

(** C19, acceptance: a Connect GET is accepted only for side-effect-free methods, 405 + Allow otherwise *)
Lemma get_accepted_only_nse t r m rest :
  classify_request r = Some CConnectGet ->
  resolve_method t CConnectGet r = RMethod m rest -> mc_no_side_effects m = true.
Proof.
  intros C. unfold resolve_method.
  destruct (find_method (q_path r) (tc_methods t)) as [m'|]; [|discriminate].
  assert (G : bytes_eqb (q_method r) m_get = true).
  { unfold classify_request in C.
    destruct (hvalues k_content_type (q_hdr r)) as [|ct [|? ?]]; try discriminate;
      repeat match type of C with
             | context [if ?b then _ else _] => destruct b eqn:?
             end; try discriminate; auto. }
  assert (NP : bytes_eqb (q_method r) m_post = false).
  { apply bytes_eqb_eq in G. rewrite G. reflexivity. }
  rewrite NP. cbn [negb andb].
  destruct (mc_no_side_effects m') eqn:N; cbn [negb andb].
  - rewrite G. cbn. intros H; inversion H; subst. exact N.
  - discriminate.
Qed.

Lemma get_rejected_405 t r m :
  find_method (q_path r) (tc_methods t) = Some m -> mc_no_side_effects m = false ->
  bytes_eqb (q_method r) m_post = false ->
  resolve_method t CConnectGet r = RErrorRes 405 (Some (s2b "POST")).
Proof.
  intros F N P. unfold resolve_method. rewrite F, P, N. reflexivity.
Qed.
