(** The pool automaton (Model/Pool.v): exclusivity of buffers along every accepted trace. *)
From VG Require Import Model.Bytes Model.Pool.
From Coq Require Import Lia.
Open Scope Z_scope.

Definition disjoint (a b : list Z) : Prop := forall x, In x a -> In x b -> False.
Definition PInv (s : pstate) : Prop := NoDup (ps_out s) /\ NoDup (ps_idle s) /\ disjoint (ps_out s) (ps_idle s).

Lemma zmemb_in x l : zmemb x l = true <-> In x l.
Proof.
  induction l as [|y r IH]; cbn [zmemb]; [split; [discriminate|intros []]|].
  rewrite Bool.orb_true_iff, Z.eqb_eq, IH. cbn [In]. split; (intros [H|H]; [left; symmetry; exact H|right; exact H]).
Qed.

Lemma zremove_in x y l : In y (zremove x l) -> In y l.
Proof.
  induction l as [|z r IH]; cbn [zremove]; [auto|]. destruct (x =? z); [intros H; right; exact H|].
  intros [H|H]; [left; exact H|right; apply IH; exact H].
Qed.

Lemma zremove_nodup x l : NoDup l -> NoDup (zremove x l) /\ ~ In x (zremove x l).
Proof.
  induction 1 as [|z r Hz Hr IH]; cbn [zremove]; [split; [constructor|intros []]|].
  destruct (Z.eqb_spec x z) as [->|N]; [split; assumption|].
  destruct IH as (IH1 & IH2). split.
  - constructor; [intros H; apply Hz; eapply zremove_in; eauto|exact IH1].
  - intros [E|H]; [congruence|exact (IH2 H)].
Qed.

Lemma pstep_inv s e s' : PInv s -> pstep s e = Some s' -> PInv s'.
Proof.
  intros (No & Ni & D) H. destruct e as [id|id]; cbn [pstep] in H.
  - destruct (zmemb id (ps_out s)) eqn:M; [discriminate|]. injection H as <-.
    assert (Nin : ~ In id (ps_out s)) by (intros Hin; apply zmemb_in in Hin; congruence).
    destruct (zremove_nodup id (ps_idle s) Ni) as (Ni' & Nid).
    repeat split; cbn.
    + constructor; assumption.
    + exact Ni'.
    + intros x [<-|Hx] Hi; [exact (Nid Hi)|]. apply (D x Hx). eapply zremove_in; eauto.
  - destruct (zmemb id (ps_idle s)) eqn:M; [discriminate|]. injection H as <-.
    assert (Nin : ~ In id (ps_idle s)) by (intros Hin; apply zmemb_in in Hin; congruence).
    destruct (zremove_nodup id (ps_out s) No) as (No' & Nod).
    repeat split; cbn.
    + exact No'.
    + constructor; assumption.
    + intros x Hx [<-|Hi]; [exact (Nod Hx)|]. apply (D x); [eapply zremove_in; eauto|exact Hi].
Qed.

Lemma prun_inv tr : forall s s', PInv s -> prun s tr = Some s' -> PInv s'.
Proof.
  induction tr as [|e r IH]; intros s s' HI H; cbn [prun] in H; [injection H as <-; exact HI|].
  destruct (pstep s e) as [s1|] eqn:E; [|discriminate]. eapply IH; [eapply pstep_inv; eauto|exact H].
Qed.

Lemma prun_app tr1 : forall tr2 s, prun s (tr1 ++ tr2) = match prun s tr1 with Some s1 => prun s1 tr2 | None => None end.
Proof.
  induction tr1 as [|e r IH]; intros tr2 s; cbn [prun app]; [reflexivity|].
  destruct (pstep s e); [apply IH|reflexivity].
Qed.

(** along an accepted trace: a buffer is handed out only while nobody holds it, and released only
    while it is not already in the pool *)
Theorem accepted_trace_exclusive tr pre e post :
  pool_trace_ok tr = true -> tr = pre ++ e :: post ->
  exists s, prun (mkPs [] []) pre = Some s /\ PInv s /\
    match e with
    | PGet id => ~ In id (ps_out s)
    | PPut id => ~ In id (ps_idle s)
    end.
Proof.
  unfold pool_trace_ok. intros H ->. rewrite prun_app in H.
  destruct (prun (mkPs [] []) pre) as [s|] eqn:P; [|discriminate]. exists s. split; [reflexivity|].
  assert (HI : PInv s). { eapply prun_inv; [|exact P]. repeat split; cbn; try constructor. intros x []. }
  split; [exact HI|]. cbn [prun] in H. destruct e as [id|id]; cbn [pstep] in H.
  - destruct (zmemb id (ps_out s)) eqn:M; [discriminate|]. intros Hin. apply zmemb_in in Hin. congruence.
  - destruct (zmemb id (ps_idle s)) eqn:M; [discriminate|]. intros Hin. apply zmemb_in in Hin. congruence.
Qed.

(** the converse: a double release or a hand-out of a held buffer is refused *)
Theorem double_put_refused pre id s : prun (mkPs [] []) pre = Some s -> In id (ps_idle s) ->
  forall post, pool_trace_ok (pre ++ PPut id :: post) = false.
Proof.
  intros P Hin post. unfold pool_trace_ok. rewrite prun_app, P. cbn [prun pstep].
  apply zmemb_in in Hin. rewrite Hin. reflexivity.
Qed.

Theorem get_of_held_refused pre id s : prun (mkPs [] []) pre = Some s -> In id (ps_out s) ->
  forall post, pool_trace_ok (pre ++ PGet id :: post) = false.
Proof.
  intros P Hin post. unfold pool_trace_ok. rewrite prun_app, P. cbn [prun pstep].
  apply zmemb_in in Hin. rewrite Hin. reflexivity.
Qed.

(** * contents *)
From VG Require Import Gen.Generated.

Lemma pool_get_empty pick fresh idle : pb_data (fst (pool_get pick fresh idle)) = [].
Proof. unfold pool_get. destruct (pick idle) as [[b rest]|]; reflexivity. Qed.

(** whatever happened before - any buffers with any contents put back, in any order, and
    whichever buffer sync.Pool chooses - every buffer handed out is empty *)
Theorem history_gets_empty pick ops : forall idle got,
  Forall (fun b => pb_data b = []) got ->
  Forall (fun b => pb_data b = []) (snd (pool_history pick ops idle got)).
Proof.
  induction ops as [|o r IH]; intros idle got F; cbn [pool_history]; [exact F|].
  destruct o as [b|f]; [apply IH; exact F|].
  destruct (pool_get pick f idle) as [b idle'] eqn:G. apply IH. apply Forall_app. split; [exact F|].
  constructor; [|constructor]. pose proof (pool_get_empty pick f idle) as E. rewrite G in E. exact E.
Qed.

Theorem oversized_not_retained idle b : max_recycle_buffer_size < pb_cap b -> pool_put idle b = idle.
Proof. intros H. unfold pool_put. destruct (Z.ltb_spec max_recycle_buffer_size (pb_cap b)); [reflexivity|lia]. Qed.

Theorem retained_are_bounded ops pick : forall idle got,
  Forall (fun b => pb_cap b <= max_recycle_buffer_size) idle ->
  (forall l b rest, pick l = Some (b, rest) -> forall x, In x rest -> In x l) ->
  Forall (fun b => pb_cap b <= max_recycle_buffer_size) (fst (pool_history pick ops idle got)).
Proof.
  induction ops as [|o r IH]; intros idle got F Hp; cbn [pool_history]; [exact F|].
  destruct o as [b|f].
  - apply IH; [|exact Hp]. unfold pool_put. destruct (Z.ltb_spec max_recycle_buffer_size (pb_cap b)); [exact F|constructor; [lia|exact F]].
  - destruct (pool_get pick f idle) as [b idle'] eqn:G. apply IH; [|exact Hp].
    unfold pool_get in G. destruct (pick idle) as [[b0 rest]|] eqn:P; injection G as <- <-; [|exact F].
    rewrite Forall_forall in *. intros x Hx. apply F. eapply Hp; eauto.
Qed.
