(** Truncated responses never look like success (C09, response half).

    Part 1: any property of the core that survives reportEnd / reportError, a write to the sink and
    flushMessage survives every operation of the body writers (the proofs are those of
    "respMeta stays set" in Proofs/NoPanicProofs.v, with the property abstracted). *)
From VG Require Import Model.Bytes Model.Stream Model.Envelope Model.Headers Model.RespMeta Model.Reader Model.Response Model.Serve.
From VG Require Import Proofs.StreamProofs Proofs.ResponseProofs Proofs.BoundProofs Proofs.NoPanicProofs Proofs.LogProofs Proofs.SegmentProofs.
From Coq Require Import Lia.
Open Scope Z_scope.

Section Lift.
  Variable P : rwc -> Prop.
  Variable cx : wctx.
  Hypothesis HP_end : forall e c, P c -> P (report_end cx e c).
  Hypothesis HP_err : forall e c, P c -> P (report_error cx e c).
  Hypothesis HP_sink : forall d c c' ok, P c -> sink_write cx d c = (c', ok) -> P c'.
  Hypothesis HP_fm : forall c, P c -> P (flush_message c).

Lemma ew_cur_write_P d c w c' w' r : P c -> ew_cur_write cx d c w = (c', w', r) -> P c'.
Proof.
  intros H E. unfold ew_cur_write in E. destruct (ew_cur w) as [| |b|b]; try (injection E as <- _ _; exact H).
  - destruct (sink_write cx d c) as [c1 ok] eqn:S. injection E as <- _ _. eapply HP_sink; eauto.
  - destruct (w_limit cx <? zlen b + zlen d); injection E as <- _ _; [apply HP_err; exact H|exact H].
Qed.

Lemma ew_loop_P : forall f data c w c' w' r, P c -> ew_loop f cx data c w = (c', w', r) -> P c'.
Proof.
  induction f as [|f IH]; intros data c w c' w' r HM H; cbn [ew_loop] in H; [injection H as <- _ _; exact HM|].
  destruct (ew_err w); [injection H as <- _ _; exact HM|].
  destruct (zlen data <? ew_remaining w).
  { destruct (ew_wenv w); [injection H as <- _ _; exact HM|].
    destruct (ew_cur_write cx data c w) as [[c1 w1] r1] eqn:CW. pose proof (ew_cur_write_P _ _ _ _ _ _ HM CW).
    destruct r1; injection H as <- _ _; assumption. }
  destruct (ew_wenv w).
  { destruct (w_senv cx) as [se|]; [|injection H as <- _ _; exact HM].
    destruct (decode_env se _) as [env|]; [|injection H as <- _ _; apply HP_err; exact HM].
    destruct (e_trailer env).
    - destruct (w_limit cx <? e_len env); [injection H as <- _ _; apply HP_err; exact HM|eapply IH; eauto].
    - destruct (w_cenv cx); [|eapply IH; eauto].
      destruct (sink_write cx _ c) as [c1 ok] eqn:S. pose proof (HP_sink _ _ _ _ HM S).
      destruct ok; [eapply IH; eauto|injection H as <- _ _; assumption]. }
  destruct (ew_cur_write cx _ c w) as [[c1 w1] r1] eqn:CW. pose proof (ew_cur_write_P _ _ _ _ _ _ HM CW) as M1.
  destruct r1; try (injection H as <- _ _; exact M1).
  match type of H with (if ?b then _ else _) = _ => destruct b end.
  - match type of H with (match ?p with _ => _ end) = _ => destruct p as [pl|] end; [|injection H as <- _ _; exact M1].
    destruct (decode_end_from_message cx pl); injection H as <- _ _; [apply HP_end|apply HP_err]; exact M1.
  - match type of H with (if ?b then _ else _) = _ => destruct b end; [|eapply IH; [apply HP_fm; exact M1|exact H]].
    destruct (zdrop (ew_remaining w) data); injection H as <- _ _; [|apply HP_err]; apply HP_fm; exact M1.
Qed.

Lemma ew_write_P cl d c w c' w' r : P c -> ew_write cx cl d c w = (c', w', r) -> P c'.
Proof.
  intros HM H. unfold ew_write in H.
  assert (M0 : forall c0 w0, ew_maybe_init cx cl c w = (c0, w0) -> P c0).
  { intros c0 w0 E. unfold ew_maybe_init in E. destruct (ew_init w); [injection E as <- _; exact HM|].
    destruct (w_senv cx); [injection E as <- _; exact HM|]. destruct (w_cenv cx); [|injection E as <- _; exact HM].
    destruct (cl =? -1); [injection E as <- _; exact HM|]. destruct (w_limit cx <? cl); [injection E as <- _; apply HP_err; exact HM|].
    destruct (sink_write cx _ c) as [c1 ok] eqn:S. injection E as <- _. eapply HP_sink; eauto. }
  destruct (ew_maybe_init cx cl c w) as [c0 w0]. specialize (M0 _ _ eq_refl).
  destruct (ew_err w0); [injection H as <- _ _; exact M0|].
  destruct (ew_complete w0).
  - destruct d; injection H as <- _ _; [exact M0|apply HP_err; exact M0].
  - destruct (ew_remaining w0 =? -1).
    + destruct (ew_cur_write cx d c0 w0) as [[c1 w1] r1] eqn:CW. pose proof (ew_cur_write_P _ _ _ _ _ _ M0 CW).
      destruct r1; injection H as <- _ _; assumption.
    + eapply ew_loop_P; eauto.
Qed.

Lemma ew_close_P c w c' w' : P c -> ew_close cx c w = (c', w') -> P c'.
Proof.
  intros HM H. unfold ew_close in H.
  set (w0 := if c_end_written c then ew_set_err w else w) in *.
  assert (T : forall c1 w1 (cc : rwc) (ww : ew), P c1 ->
            (let normal_eof := ew_wenv w1 && (ew_remaining w1 =? 5) in
             let c2 := if (0 <? ew_remaining w1) && negb normal_eof then report_error cx EOther c1 else c1 in
             (c2, mkEw (ew_init w1) true (ew_wenv w1) (ew_envacc w1) 0 ECNone (ew_is_trailer w1) (ew_trailer_comp w1) (ew_fixed w1) (ew_complete w1))) = (cc, ww) ->
            P cc).
  { intros c1 w1 cc ww B1 E. cbv zeta in E. injection E as <- <-.
    destruct ((0 <? ew_remaining w1) && negb (ew_wenv w1 && (ew_remaining w1 =? 5))); [apply HP_err; exact B1|exact B1]. }
  destruct (ew_cur w0) as [| |b|b] eqn:Ec; try (eapply T; [exact HM|exact H]).
  destruct ((ew_remaining w0 =? -1) && negb (ew_err w0)); [|eapply T; [exact HM|exact H]].
  destruct (w_cenv cx) as [ce|]; [|eapply T; [exact HM|exact H]].
  cbv zeta in H.
  match type of H with context [sink_write cx ?e c] => destruct (sink_write cx e c) as [c1 ok] eqn:S1 end.
  pose proof (HP_sink _ _ _ _ HM S1) as B1.
  destruct ok; [|eapply T; [exact B1|exact H]].
  destruct (sink_write cx b c1) as [c2 ok2] eqn:S2. pose proof (HP_sink _ _ _ _ B1 S2) as B2.
  eapply T; [exact B2|exact H].
Qed.

Lemma tw_flush_message_P c w : P c ->
  match tw_flush_message cx c w with FOk c' _ => P c' | FErr _ c' _ _ => P c' end.
Proof.
  intros HM. unfold tw_flush_message. destruct (e_trailer (tw_latest w)).
  - match goal with |- context [match ?p with Some _ => _ | None => _ end] => destruct p as [pl|] end; [|exact HM].
    destruct (decode_end_from_message cx pl); [apply HP_end|apply HP_err]; exact HM.
  - destruct (advance_resp cx _ _ _); [|exact HM].
    match goal with |- context [match ?p with Some _ => _ | None => _ end] => destruct p as [env|] end; [|exact HM].
    assert (S1 : exists c1 ok1, (match env with [] => (c, true) | _ => sink_write cx env c end) = (c1, ok1) /\ P c1).
    { destruct env as [|x en]; [exists c, true; auto|]. destruct (sink_write cx (x :: en) c) as [c1 ok1] eqn:S. exists c1, ok1. split; [reflexivity|eapply HP_sink; eauto]. }
    destruct S1 as (c1 & ok1 & -> & M1). destruct ok1; cbn [negb]; [|exact M1].
    destruct (sink_write cx b c1) as [c2 ok2] eqn:S2. pose proof (HP_sink _ _ _ _ M1 S2) as M2.
    destruct ok2; cbn [negb]; [apply HP_fm; exact M2|exact M2].
Qed.

Lemma tw_loop_P : forall f data c w c' w' r, P c -> tw_loop f cx data c w = (c', w', r) -> P c'.
Proof.
  induction f as [|f IH]; intros data c w c' w' r HM H; cbn [tw_loop] in H; [injection H as <- _ _; exact HM|].
  destruct (tw_err w); [injection H as <- _ _; exact HM|]. cbv zeta in H.
  match type of H with (if ?b then _ else _) = _ => destruct b end; [injection H as <- _ _; exact HM|].
  destruct (tw_wenv w).
  - destruct (w_senv cx) as [se|]; [|injection H as <- _ _; exact HM].
    match type of H with (match ?p with Some _ => _ | None => _ end) = _ => destruct p as [env|] end; [|injection H as <- _ _; apply HP_err; exact HM].
    destruct (w_limit cx <? e_len env); [injection H as <- _ _; apply HP_err; exact HM|eapply IH; eauto].
  - match type of H with context [tw_flush_message cx c ?w0] => pose proof (tw_flush_message_P c w0 HM) as FM; destruct (tw_flush_message cx c w0) as [c1 w1|e c1 w1 rep] end.
    + match type of H with (if ?b then _ else _) = _ => destruct b end; [injection H as <- _ _; exact FM|eapply IH; eauto].
    + injection H as <- _ _. destruct rep; [exact FM|apply HP_err; exact FM].
Qed.

Lemma tw_write_P d c w c' w' r : P c -> tw_write cx d c w = (c', w', r) -> P c'.
Proof.
  intros HM H. unfold tw_write in H. destruct (tw_err w); [injection H as <- _ _; exact HM|].
  match type of H with (if ?b then _ else _) = _ => destruct b end; [|eapply tw_loop_P; eauto].
  match type of H with (if ?b then _ else _) = _ => destruct b end; injection H as <- _ _; [apply HP_err|]; exact HM.
Qed.

Lemma tw_close_P c w c' w' : P c -> tw_close cx c w = (c', w') -> P c'.
Proof.
  intros HM H. unfold tw_close in H. injection H as <- _.
  destruct (tw_err w || c_end_written c); [exact HM|].
  destruct (tw_expect w =? -1).
  - pose proof (tw_flush_message_P c w HM) as FM. destruct (tw_flush_message cx c w) as [c1 w1|e c1 w1 rep]; [exact FM|].
    destruct rep; [exact FM|apply HP_err; exact FM].
  - destruct (tw_buf w) as [[|x b]|]; try exact HM; try (apply HP_err; exact HM).
    destruct (tw_wenv w); [exact HM|apply HP_err; exact HM].
Qed.

End Lift.

(** * Part 2: a client whose outcome travels in the head never has the head out without the end *)
Definition UI (c : rwc) : Prop := c_flushed c = true -> c_end_written c = true.

Lemma UI_flags c c' : c_flushed c' = c_flushed c -> c_end_written c' = c_end_written c -> UI c -> UI c'.
Proof. unfold UI. intros -> ->. auto. Qed.

Lemma UI_ended c : c_end_written c = true -> UI c.
Proof. intros E _. exact E. Qed.

Lemma UI_end cx e c : UI c -> UI (report_end cx e c).
Proof. intros _. apply UI_ended. apply report_end_ended. Qed.
Lemma UI_err cx e c : UI c -> UI (report_error cx e c).
Proof. intros _. apply UI_ended. apply report_error_ended. Qed.

Lemma UI_sink cx d c c' ok : UI c -> sink_write cx d c = (c', ok) -> UI c'.
Proof.
  intros H E. unfold sink_write in E. destruct (end_must_be_in_headers (w_client cx)).
  - destruct (c_buf c) as [b|]; [|injection E as <- _; exact H].
    destruct (w_limit cx <? zlen b + zlen d); injection E as <- _; [apply UI_err; exact H|exact H].
  - destruct d; injection E as <- _; exact H.
Qed.

Lemma UI_fm c : UI c -> UI (flush_message c).
Proof. unfold flush_message. destruct (c_buf c); auto. Qed.

Lemma flush_headers_with_end cx c m e : c_meta c = Some m -> rm_end m = Some e -> UI c -> UI (flush_headers cx c).
Proof.
  intros Em Ee H. destruct (c_flushed c) eqn:Fl; [rewrite flush_headers_noop by exact Fl; exact H|].
  destruct (flush_headers_spec cx c m Fl Em) as (_ & _ & _ & _ & _ & _ & Hw & _). rewrite Ee in Hw. apply UI_ended. exact Hw.
Qed.

Lemma xw_write_UI cx d c w c' w' r : UI c -> xw_write cx d c w = (c', w', r) -> UI c'.
Proof.
  intros H E. unfold xw_write in E. destruct (xw_buf w); [|injection E as <- _ _; exact H].
  destruct (w_limit cx <? _); injection E as <- _ _; [apply UI_err; exact H|exact H].
Qed.

Lemma xw_close_UI cx c w c' w' : UI c -> xw_close cx c w = (c', w') -> UI c'.
Proof.
  intros H E. unfold xw_close in E. destruct (xw_buf w) as [b|]; [|injection E as <- _; exact H].
  destruct (c_meta c) as [m|]; [|injection E as <- _; exact H].
  destruct (if _ && _ then _ else _) as [body e1]. injection E as <- _.
  eapply flush_headers_with_end; [reflexivity|reflexivity|]. exact H.
Qed.

Section Unary.
  Variable cx : wctx.
  Hypothesis Em : end_must_be_in_headers (w_client cx) = true.

  Lemma rw_write_header_UI st r : UI (r_core r) -> UI (r_core (rw_write_header cx st r)).
  Proof.
    intros H. unfold rw_write_header. destruct (r_headers_written r); [exact H|]. cbn [r_core].
    destruct (c_end_written (r_core r)) eqn:Ew; [exact H|].
    assert (Nf : c_flushed (r_core r) = false) by (destruct (c_flushed (r_core r)) eqn:F; [specialize (H F); congruence|reflexivity]).
    assert (V : forall c, c_flushed c = c_flushed (r_core r) -> UI c) by (intros c F G; congruence).
    destruct (extract_content_length _) as [[clen h1]|]; [|unfold set_core; cbn [r_core]; apply UI_err; exact H].
    destruct (extract_response _ _ _ _) as [[m0 proc] h2].
    match goal with |- context [let '(m1, h3) := ?p in _] => destruct p as [m1 h3] end. cbv zeta.
    match goal with |- context [if ?b then set_core _ _ else _] => destruct b end; [unfold set_core; cbn [r_core]; apply UI_err; apply V; reflexivity|].
    match goal with |- context [match rm_end ?m with Some _ => _ | None => _ end] => destruct (rm_end m) as [en|] eqn:Ee end.
    - destruct proc; cbn [r_core]; try (apply V; reflexivity).
      eapply flush_headers_with_end; [reflexivity|exact Ee|apply V; reflexivity].
    - match goal with |- context [if ?b then mkRw (report_error _ _ _) _ _ _ else _] => destruct b end; [cbn [r_core]; apply UI_err; apply V; reflexivity|].
      rewrite Em. cbn [r_core]. apply V. reflexivity.
  Qed.

  Lemma rw_write_UI d r r' res : UI (r_core r) -> rw_write cx d r = (r', res) -> UI (r_core r').
  Proof.
    intros H E. unfold rw_write in E.
    set (r0 := if r_headers_written r then r else rw_write_header cx 200 r) in *.
    assert (H0 : UI (r_core r0)) by (unfold r0; destruct (r_headers_written r); [exact H|apply rw_write_header_UI; exact H]).
    clearbody r0. destruct (c_err (r_core r0)); [injection E as <- _; exact H0|].
    destruct (r_w r0) as [| |w|w|w]; try (injection E as <- _; exact H0).
    - destruct (xw_write cx d (r_core r0) w) as [[c1 w1] rs] eqn:X. injection E as <- _. eapply xw_write_UI; eauto.
    - destruct (ew_write cx _ d (r_core r0) w) as [[c1 w1] rs] eqn:X. injection E as <- _. cbn [r_core].
      eapply (ew_write_P UI cx (UI_end cx) (UI_err cx) (UI_sink cx) UI_fm); eauto.
    - destruct (tw_write cx d (r_core r0) w) as [[c1 w1] rs] eqn:X. injection E as <- _. cbn [r_core].
      eapply (tw_write_P UI cx (UI_end cx) (UI_err cx) (UI_sink cx) UI_fm); eauto.
  Qed.

  Lemma run_script_UI : forall s r wr, UI (r_core r) -> UI (r_core (fst (run_script cx s r wr))).
  Proof.
    induction s as [|a rest IH]; intros r wr H; [exact H|]. cbn [run_script].
    destruct a as [k v|k v|code|d| |e].
    - destruct (c_end_written (r_core r)) eqn:Ew; apply IH; [exact H|]. unfold set_core. cbn [r_core]. intros F. cbn in F. specialize (H F). congruence.
    - destruct (c_end_written (r_core r)) eqn:Ew; apply IH; [exact H|]. unfold set_core. cbn [r_core]. intros F. cbn in F. specialize (H F). congruence.
    - apply IH. apply rw_write_header_UI. exact H.
    - destruct (rw_write cx d r) as [r1 res] eqn:W. pose proof (rw_write_UI d r r1 res H W) as H1.
      destruct res; try (apply IH; exact H1). exact H1.
    - apply IH. exact H.
    - apply IH. unfold set_core. cbn [r_core]. apply UI_err. exact H.
  Qed.
End Unary.

(** * Part 3: an error reported while the end is still open reaches the client *)
Definition carries_error (ev : devent) : bool :=
  match ev with
  | DHead _ _ (Some e) | DEnd e | DTrailers e => match re_err e with Some _ => true | None => false end
  | _ => false
  end.
Definition carries_success (ev : devent) : bool :=
  match ev with
  | DHead _ _ (Some e) | DEnd e | DTrailers e => match re_err e with Some _ => false | None => true end
  | _ => false
  end.
Definition log_has_error (l : list devent) : bool := existsb carries_error l.

Lemma log_has_error_app l l' : log_has_error (l ++ l') = log_has_error l || log_has_error l'.
Proof. apply existsb_app. Qed.

Transparent report_end report_error write_end.

Lemma write_end_visible cx e wih c : re_err e <> None ->
  (end_must_be_in_headers (w_client cx) = true -> wih = true) -> (wih = true -> end_must_be_in_headers (w_client cx) = true \/ w_client cx = CConnectStream) ->
  log_has_error (c_out (write_end cx e wih c)) = true.
Proof.
  intros He Hu Hw. unfold write_end. destruct (re_err e) as [er|] eqn:Er; [|congruence].
  unfold encode_end. rewrite Er.
  destruct (w_client cx) eqn:Ec; cbn [end_must_be_in_headers] in *;
    try (destruct wih; [destruct (Hw eq_refl) as [D|D]; discriminate|]);
    try (rewrite (Hu eq_refl));
    try (destruct (w_limit cx <? w_end_len cx e));
    unfold emit; cbn [c_out]; rewrite !log_has_error_app; cbn [log_has_error existsb carries_error]; rewrite ?Er; rewrite ?Bool.orb_true_r; reflexivity.
Qed.

Lemma head_carries_end c m h : (c = CGrpc \/ c = CGrpcWeb) -> ho_end_in_headers (add_response_headers c m h) = rm_end m.
Proof. intros [->| ->]; unfold add_response_headers; destruct (rm_end m); reflexivity. Qed.

Lemma flush_headers_visible cx c m e : c_flushed c = false -> c_meta c = Some m -> rm_end m = Some e -> re_err e <> None ->
  log_has_error (c_out (flush_headers cx c)) = true.
Proof.
  intros Fl Em Ee He. unfold flush_headers. rewrite Fl, Em, Ee.
  set (cli := mkMeta _ _ _ _ _ _). set (ho := add_response_headers (w_client cx) cli (c_hdr c)).
  assert (Ecli : rm_end cli = Some e) by reflexivity.
  destruct (end_must_be_in_headers (w_client cx)) eqn:Emi; [|destruct (w_client cx) eqn:Ec; try discriminate].
  - (* the error body follows the head *)
    cbn [c_out]. apply write_end_visible; [exact He|auto|auto].
  - (* Connect streaming: the end-stream message follows the head *)
    cbn [c_out]. apply write_end_visible; [exact He|auto|intros _; right; exact Ec].
  - (* gRPC: the head carries the end *)
    cbn [c_out].
    match goal with |- context [write_end cx e true ?c2] => set (cc := c2); destruct (write_end_spec cx e true cc) as (evs & Ho & _) end.
    rewrite Ho, log_has_error_app. apply Bool.orb_true_iff. left.
    assert (Hh : ho_end_in_headers ho = Some e) by (unfold ho; rewrite head_carries_end by auto; exact Ecli).
    subst cc. unfold emit. destruct (c_buf c); destruct (has_err m); cbn [c_buf c_out];
      rewrite ?log_has_error_app; cbn [log_has_error existsb carries_error]; rewrite Hh;
      destruct (re_err e); try congruence; rewrite ?Bool.orb_true_r; reflexivity.
  - cbn [c_out].
    match goal with |- context [write_end cx e true ?c2] => set (cc := c2); destruct (write_end_spec cx e true cc) as (evs & Ho & _) end.
    rewrite Ho, log_has_error_app. apply Bool.orb_true_iff. left.
    assert (Hh : ho_end_in_headers ho = Some e) by (unfold ho; rewrite head_carries_end by auto; exact Ecli).
    subst cc. unfold emit. destruct (c_buf c); destruct (has_err m); cbn [c_buf c_out];
      rewrite ?log_has_error_app; cbn [log_has_error existsb carries_error]; rewrite Hh;
      destruct (re_err e); try congruence; rewrite ?Bool.orb_true_r; reflexivity.
Qed.

Lemma report_end_visible cx e c : re_err e <> None -> c_end_written c = false ->
  (end_must_be_in_headers (w_client cx) = true -> c_flushed c = false) ->
  log_has_error (c_out (report_end cx e c)) = true.
Proof.
  intros He Ew Hu. unfold report_end. rewrite Ew.
  set (e' := match c_meta c with Some m => _ | None => e end).
  assert (He' : re_err e' <> None).
  { unfold e'. destruct (c_meta c) as [m|]; [|exact He]. destruct (rm_pending_trailers m); [exact He|]. destruct (re_trailers e); exact He. }
  clearbody e'. cbn [c_out]. unfold emit. cbn [c_out]. rewrite log_has_error_app. apply Bool.orb_true_iff. left.
  destruct (c_flushed c) eqn:Fl.
  - apply write_end_visible; [exact He'| |discriminate]. intros Emi. specialize (Hu Emi). congruence.
  - eapply flush_headers_visible; [reflexivity|reflexivity| |exact He']. destruct (c_meta c); reflexivity.
Qed.

Lemma report_error_visible cx e c : c_end_written c = false ->
  (end_must_be_in_headers (w_client cx) = true -> c_flushed c = false) ->
  log_has_error (c_out (report_error cx e c)) = true.
Proof. intros. apply report_end_visible; [destruct e; discriminate|assumption|assumption]. Qed.

Opaque report_end report_error write_end.

(** * Part 4: a backend that stops in the middle of an envelope or a message *)
Definition ew_mid (w : ew) : Prop :=
  ew_init w = true /\ ew_err w = false /\ ew_complete w = false /\ 0 < ew_remaining w /\
  (ew_wenv w && (ew_remaining w =? 5)) = false.

Definition tw_mid (w : tw) : Prop :=
  tw_err w = false /\ tw_expect w <> -1 /\
  exists b, tw_buf w = Some b /\ zlen b < tw_expect w /\ (b <> [] \/ tw_wenv w = false).

Definition mid_unit (W : bodyw) : Prop := match W with BEnv w => ew_mid w | BTrans w => tw_mid w | _ => False end.

Transparent report_end report_error.
Lemma report_error_noop' cx e c : c_end_written c = true -> report_error cx e c = c.
Proof. intros E. unfold report_error, report_end. rewrite E. reflexivity. Qed.
Opaque report_end report_error.

Lemma ew_close_ended cx c w : c_end_written c = true -> fst (ew_close cx c w) = c.
Proof.
  intros Ee. unfold ew_close. rewrite Ee.
  assert (T : forall w1 : ew, fst (let normal_eof := ew_wenv w1 && (ew_remaining w1 =? 5) in
          let c2 := if (0 <? ew_remaining w1) && negb normal_eof then report_error cx EOther c else c in
          (c2, mkEw (ew_init w1) true (ew_wenv w1) (ew_envacc w1) 0 ECNone (ew_is_trailer w1) (ew_trailer_comp w1) (ew_fixed w1) (ew_complete w1))) = c).
  { intros w1. cbv zeta. rewrite (report_error_noop' cx EOther c Ee). destruct (_ && _); reflexivity. }
  destruct (ew_cur (ew_set_err w)) as [| |b|b]; try apply T.
  cbn [ew_set_err ew_err negb]. rewrite Bool.andb_false_r. apply T.
Qed.

(** the empty Write with which close() prods the body writer changes nothing in the middle of a unit,
    unless it already reports an error *)
Lemma ew_trigger cx cl c w c' w' r : ew_mid w -> (ew_wenv w = false -> ew_cur w <> ECNone) ->
  ew_write cx cl [] c w = (c', w', r) ->
  (c' = c /\ ew_mid w' /\ r = WOk) \/ (exists e, c' = report_error cx e c).
Proof.
  intros (Hi & He & Hc & Hr & Hn) Hcur. unfold ew_write, ew_maybe_init. rewrite Hi, He, Hc.
  destruct (Z.eqb_spec (ew_remaining w) (-1)) as [D|_]; [lia|].
  unfold ew_fuel. cbn [length Nat.mul Nat.add]. cbn [ew_loop]. rewrite He.
  change (zlen (@nil N)) with 0. destruct (Z.ltb_spec 0 (ew_remaining w)) as [_|]; [|lia].
  destruct (ew_wenv w) eqn:Ew.
  - intros [= <- <- <-]. left. split; [reflexivity|]. split; [|reflexivity].
    unfold ew_mid, ew_upd. ewp. rewrite Z.sub_0_r. auto.
  - specialize (Hcur eq_refl). unfold ew_cur_write. destruct (ew_cur w) as [| |t|t] eqn:Ec; [congruence| | |].
    + unfold sink_write. destruct (end_must_be_in_headers (w_client cx)).
      * destruct (c_buf c) as [b|] eqn:Eb.
        -- destruct (w_limit cx <? zlen b + zlen []).
           ++ intros [= <- _ _]. right. eexists. reflexivity.
           ++ intros [= <- <- <-]. left. rewrite app_nil_r. split; [destruct c; cbn in *; subst; reflexivity|]. split; [|reflexivity].
              unfold ew_mid, ew_upd. ewp. rewrite Z.sub_0_r, Ew. auto.
        -- intros [= <- <- <-]. left. split; [reflexivity|]. split; [|reflexivity]. unfold ew_mid, ew_upd. ewp. rewrite Z.sub_0_r, Ew. auto.
      * intros [= <- <- <-]. left. split; [reflexivity|]. split; [|reflexivity]. unfold ew_mid, ew_upd. ewp. rewrite Z.sub_0_r, Ew. auto.
    + intros [= <- <- <-]. left. split; [reflexivity|]. split; [|reflexivity]. unfold ew_mid, ew_upd. ewp. rewrite Z.sub_0_r, Ew. auto.
    + destruct (w_limit cx <? zlen t + zlen []).
      * intros [= <- _ _]. right. eexists. reflexivity.
      * intros [= <- <- <-]. left. split; [reflexivity|]. split; [|reflexivity]. unfold ew_mid, ew_upd. ewp. rewrite Z.sub_0_r, Ew. auto.
Qed.

Lemma ew_close_mid cx c w : ew_mid w -> c_end_written c = false -> fst (ew_close cx c w) = report_error cx EOther c.
Proof.
  intros (Hi & He & Hc & Hr & Hn) Ee. unfold ew_close. rewrite Ee.
  assert (T : fst (let normal_eof := ew_wenv w && (ew_remaining w =? 5) in
          let c2 := if (0 <? ew_remaining w) && negb normal_eof then report_error cx EOther c else c in
          (c2, mkEw (ew_init w) true (ew_wenv w) (ew_envacc w) 0 ECNone (ew_is_trailer w) (ew_trailer_comp w) (ew_fixed w) (ew_complete w))) = report_error cx EOther c).
  { cbv zeta. rewrite Hn. destruct (Z.ltb_spec 0 (ew_remaining w)); [reflexivity|lia]. }
  destruct (ew_cur w) as [| |b|b]; try exact T.
  destruct (Z.eqb_spec (ew_remaining w) (-1)); [lia|]. exact T.
Qed.

Lemma tw_trigger cx c w : tw_mid w -> exists w', tw_write cx [] c w = (c, w', WOk) /\ tw_mid w'.
Proof.
  intros (He & Hx & b & Hb & Hl & Hn). unfold tw_write. rewrite He, Hb.
  destruct (Z.eqb_spec (tw_expect w) (-1)); [congruence|]. cbn [length Nat.mul Nat.add]. cbn [tw_loop]. rewrite He, Hb.
  change (zlen (@nil N)) with 0. destruct (Z.ltb_spec 0 (tw_expect w - zlen b)); [|lia].
  eexists. split; [reflexivity|]. split; [reflexivity|]. split; [exact Hx|]. exists (b ++ []). cbn [tw_buf tw_expect tw_wenv].
  rewrite app_nil_r. auto.
Qed.

Lemma tw_close_mid cx c w : tw_mid w -> c_end_written c = false -> fst (tw_close cx c w) = report_error cx EOther c.
Proof.
  intros (He & Hx & b & Hb & Hl & Hn) Ee. unfold tw_close. rewrite He, Ee, Hb. cbn [orb fst].
  destruct (Z.eqb_spec (tw_expect w) (-1)); [congruence|].
  destruct b as [|x b']; [|reflexivity]. destruct Hn as [D|D]; [congruence|]. rewrite D. reflexivity.
Qed.

Lemma no_panic_in wr : Forall (fun x => x <> WPanic) wr -> existsb (fun x => match x with WPanic => true | _ => false end) wr = false.
Proof. intros F. induction F as [|u l Hu _ IH]; [reflexivity|]. cbn. rewrite IH. destruct u; try reflexivity. exfalso. apply Hu. reflexivity. Qed.

(** A handler that returns while the backend's response stops inside an envelope prefix, a
    message, a trailer frame or short of its declared Content-Length: the client is told an error. *)
Theorem truncated_response_is_an_error cx h s :
  let r0 := fst (run_script cx s (rw_init h) []) in
  c_end_written (r_core r0) = false -> mid_unit (r_w r0) ->
  log_has_error (c_out (r_core (fst (fst (serve_response cx h s))))) = true.
Proof.
  intros r0 Ee Hm. unfold serve_response.
  destruct (run_script cx s (rw_init h) []) as [r0' wr0] eqn:RS. subst r0. cbn [fst] in *.
  destruct (run_script_np cx s _ _ _ _ (RwNP_init cx h) (Forall_nil _) RS) as (FW & HN).
  rewrite (no_panic_in _ FW).
  (* the head cannot be out for a client whose outcome travels in it *)
  assert (Hu : end_must_be_in_headers (w_client cx) = true -> c_flushed (r_core r0') = false).
  { intros Em. pose proof (run_script_UI cx Em s (rw_init h) []) as U. rewrite RS in U. cbn [fst] in U.
    destruct (c_flushed (r_core r0')) eqn:F; [|reflexivity]. rewrite (U ltac:(intros D; discriminate D) F) in Ee. discriminate. }
  destruct HN as (HR & Hc & HX & HB). destruct HR as (HI & HL & HW).
  assert (Hw : r_headers_written r0' = true).
  { destruct (r_headers_written r0') eqn:E; [reflexivity|]. destruct (HW eq_refl) as (D & _). rewrite D in Hm. contradiction. }
  unfold rw_close. rewrite Hw.
  destruct (r_w r0') as [| |w|w|w] eqn:Ew; cbn [mid_unit] in Hm; try contradiction.
  - (* envelopingWriter *)
    rewrite Ee.
    destruct (ew_write cx (r_content_len r0') [] (r_core r0') w) as [[c1 w1] rs] eqn:X.
    destruct (ew_write_np _ _ _ _ _ _ _ _ Hc HB X) as (Np & _).
    assert (Hcur : ew_wenv w = false -> ew_cur w <> ECNone).
    { destruct Hm as (Hi & He & _). destruct HB as [D|([D|(_ & _ & Hcn)] & _)]; [congruence|congruence|exact Hcn]. }
    destruct (ew_trigger cx _ _ _ _ _ _ Hm Hcur X) as [(-> & M1 & ->)|(e & ->)].
    + pose proof (ew_close_mid cx (r_core r0') w1 M1 Ee) as CL. destruct (ew_close cx (r_core r0') w1) as [c2 w2]. cbn [fst] in CL. subst c2.
      cbn [r_core]. rewrite report_error_ended. cbn [fst r_core]. apply report_error_visible; assumption.
    + assert (En : c_end_written (report_error cx e (r_core r0')) = true) by apply report_error_ended.
      pose proof (ew_close_ended cx _ w1 En) as CL. destruct (ew_close cx (report_error cx e (r_core r0')) w1) as [c2 w2]. cbn [fst] in CL. subst c2.
      destruct rs; [| |congruence]; cbn [r_core]; rewrite En; cbn [fst r_core]; apply report_error_visible; assumption.
  - (* transformingWriter *)
    rewrite Ee. destruct (tw_trigger cx (r_core r0') w Hm) as (w1 & X & M1). rewrite X.
    pose proof (tw_close_mid cx (r_core r0') w1 M1 Ee) as CL. destruct (tw_close cx (r_core r0') w1) as [c2 w2]. cbn [fst] in CL. subst c2.
    cbn [r_core]. rewrite report_error_ended. cbn [fst r_core]. apply report_error_visible; assumption.
Qed.
