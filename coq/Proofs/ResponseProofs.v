(** Output discipline of the response side (Model/Response.v): whatever the handler and the
    request side do, in whatever order, the underlying ResponseWriter sees one head first, then
    body writes and flushes, then at most one end, and after the end nothing but flushes. *)
From VG Require Import Model.Bytes Model.Stream Model.Envelope Model.Headers Model.RespMeta Model.Reader Model.Response.
From Coq Require Import Lia.
Open Scope Z_scope.

(** * the automaton over delegate events *)
Inductive ost := S0 | S1 | S1e | S2.

Definition ostep (s : ost) (e : devent) : option ost :=
  match s, e with
  | S0, DHead _ _ _ => Some S1
  | S1, DWrite _ => Some S1
  | S1, DFlush => Some S1
  | S1, DEnd _ => Some S1e
  | S1, DTrailers _ => Some S1e
  | S1, DDone => Some S2
  | S1e, DDone => Some S2
  | S2, DFlush => Some S2
  | _, _ => None
  end.

Fixpoint orun (s : ost) (l : list devent) : option ost :=
  match l with
  | [] => Some s
  | e :: r => match ostep s e with Some s' => orun s' r | None => None end
  end.

Lemma orun_app s l l' : orun s (l ++ l') = match orun s l with Some s' => orun s' l' | None => None end.
Proof.
  revert s. induction l as [|e r IH]; intros s; cbn [orun app]; [reflexivity|].
  destruct (ostep s e); [apply IH|reflexivity].
Qed.

Definition st_of (c : rwc) : ost := if c_end_written c then S2 else if c_flushed c then S1 else S0.

Definition CoreInv (c : rwc) : Prop :=
  orun S0 (c_out c) = Some (st_of c) /\
  (c_end_written c = true -> c_flushed c = true) /\
  (c_buf c <> None -> c_flushed c = false) /\
  c_err c = c_end_written c.

Definition emih (cx : wctx) : bool := end_must_be_in_headers (w_client cx).

(** the state in which body bytes may be handed to the sink *)
Definition Live (cx : wctx) (c : rwc) : Prop :=
  c_end_written c = false /\
  (if emih cx then (c_buf c <> None \/ c_flushed c = true) else c_flushed c = true).

Definition Good (cx : wctx) (c : rwc) : Prop := CoreInv c /\ (c_end_written c = false -> Live cx c).

Lemma emit_out e c : c_out (emit e c) = c_out c ++ [e].
Proof. reflexivity. Qed.

Lemma emit_inv e c : CoreInv c -> ostep (st_of c) e = Some (st_of c) -> CoreInv (emit e c).
Proof.
  intros (Hr & Hf & Hb & He) Hs. unfold CoreInv. rewrite emit_out, orun_app, Hr. cbn [orun].
  unfold st_of, emit in *. cbn [c_end_written c_flushed c_buf c_err] in *. rewrite Hs. auto.
Qed.

(** * writeEnd, flushHeaders, reportEnd *)
Lemma write_end_spec cx e wih c :
  exists evs, c_out (write_end cx e wih c) = c_out c ++ evs /\ orun S1 evs = Some S2 /\
  c_end_written (write_end cx e wih c) = true /\
  c_flushed (write_end cx e wih c) = c_flushed c /\
  c_buf (write_end cx e wih c) = c_buf c /\ c_err (write_end cx e wih c) = c_err c /\ c_meta (write_end cx e wih c) = c_meta c.
Proof.
  unfold write_end. destruct (encode_end (w_client cx) (w_limit cx) (w_end_len cx) e wih); cbn.
  - exists [DDone]. repeat split; reflexivity.
  - exists [DEnd e0; DDone]. rewrite <- app_assoc. repeat split; reflexivity.
  - exists [DTrailers e0; DDone]. rewrite <- app_assoc. repeat split; reflexivity.
Qed.

Local Opaque write_end.

(** flushHeaders when it has something to do *)
Lemma flush_headers_spec cx c m :
  c_flushed c = false -> c_meta c = Some m ->
  let c' := flush_headers cx c in
  exists evs, c_out c' = c_out c ++ evs /\
    orun S0 evs = Some (match rm_end m with Some _ => S2 | None => S1 end) /\
    c_flushed c' = true /\ c_buf c' = None /\ c_meta c' = Some m /\
    c_end_written c' = (match rm_end m with Some _ => true | None => c_end_written c end) /\
    c_err c' = (match rm_end m with Some _ => true | None => c_err c end).
Proof.
  intros Fl Em. unfold flush_headers. rewrite Fl, Em.
  destruct (c_buf c) as [b|]; destruct (rm_end m) as [e|]; destruct (has_err m); cbn;
    try (match goal with |- context [write_end ?cx ?e ?w ?c0] =>
           destruct (write_end_spec cx e w c0) as (evs & Ho & Hr & Hw & Hf & Hb & He & Hm); cbn in Ho, Hf, Hb, He, Hm;
           rewrite Ho, Hw, ?Hm
         end);
    eexists; (split; [rewrite <- ?app_assoc; cbn [app]; reflexivity|]);
    cbn [orun ostep]; rewrite ?orun_app; cbn [orun ostep]; repeat split; auto.
Qed.

Lemma flush_headers_noop cx c : c_flushed c = true -> flush_headers cx c = c.
Proof. intros Fl. unfold flush_headers. rewrite Fl. reflexivity. Qed.

Lemma st_of_S0 c : CoreInv c -> c_flushed c = false -> orun S0 (c_out c) = Some S0 /\ c_end_written c = false.
Proof.
  intros (Hr & Hf & _) Fl. assert (Ew : c_end_written c = false) by (destruct (c_end_written c); [specialize (Hf eq_refl); congruence|reflexivity]).
  split; [|exact Ew]. rewrite Hr. unfold st_of. rewrite Ew, Fl. reflexivity.
Qed.

Lemma flush_headers_inv cx c :
  CoreInv c -> c_meta c <> None -> CoreInv (flush_headers cx c) /\ c_flushed (flush_headers cx c) = true.
Proof.
  intros HI Hm. destruct (c_flushed c) eqn:Fl.
  { rewrite flush_headers_noop by exact Fl. auto. }
  destruct (c_meta c) as [m|] eqn:Em; [|congruence].
  destruct (st_of_S0 c HI Fl) as (R0 & Ew). destruct HI as (_ & _ & _ & He).
  destruct (flush_headers_spec cx c m Fl Em) as (evs & Ho & Hr & Hf & Hb & _ & Hw & Herr).
  split; [|exact Hf]. unfold CoreInv, st_of. rewrite Ho, orun_app, R0, Hr, Hf, Hb, Hw, Herr.
  destruct (rm_end m); rewrite ?Ew; repeat split; auto; congruence.
Qed.

Lemma report_end_inv cx e c :
  CoreInv c -> CoreInv (report_end cx e c) /\ c_end_written (report_end cx e c) = true.
Proof.
  intros HI. unfold report_end. destruct (c_end_written c) eqn:Ew; [auto|].
  set (e' := match c_meta c with Some m => _ | None => e end). clearbody e'.
  destruct (c_flushed c) eqn:Fl.
  - destruct HI as (Hr & Hf & Hb & He).
    destruct (write_end_spec cx e' false c) as (evs & Ho & Hrun & Hw & Hfl & Hbuf & Herr & _).
    assert (R1 : orun S0 (c_out c) = Some S1) by (rewrite Hr; unfold st_of; rewrite Ew, Fl; reflexivity).
    set (c1 := write_end cx e' false c) in *.
    split; [|cbn [c_end_written emit]; exact Hw]. unfold CoreInv, st_of.
    cbn [c_out c_flushed c_end_written c_buf c_err emit]. rewrite Hw, Hfl, Hbuf, Ho, !orun_app, R1, Hrun. cbn [orun ostep].
    repeat split; auto.
  - set (c0 := mkRwc _ _ _ (Some _) _ _ _ _).
    assert (HI0 : CoreInv c0).
    { destruct HI as (Hr & Hf & Hb & He). unfold CoreInv, st_of, c0 in *. cbn. rewrite Ew, Fl in *. repeat split; auto. }
    destruct (st_of_S0 c0 HI0 eq_refl) as (R0 & _).
    match goal with c0 := mkRwc _ _ _ (Some ?m) _ _ _ _ |- _ => set (m0 := m) in * end.
    assert (Ee : exists e0, rm_end m0 = Some e0) by (unfold m0; destruct (c_meta c); cbn; eauto).
    destruct Ee as (e0 & Ee).
    destruct (flush_headers_spec cx c0 m0 eq_refl eq_refl) as (evs & Ho & Hrun & Hf & Hbuf & _ & Hw & Herr).
    rewrite Ee in Hrun, Hw, Herr. set (c1 := flush_headers cx c0) in *.
    split; [|cbn [c_end_written emit]; exact Hw]. unfold CoreInv, st_of.
    cbn [c_out c_flushed c_end_written c_buf c_err emit]. rewrite Hw, Hf, Hbuf, Ho, !orun_app, R0, Hrun. cbn [orun ostep].
    repeat split; auto. congruence.
Qed.

Lemma report_end_buf cx e c : c_buf c = None -> c_buf (report_end cx e c) = None.
Proof.
  intros Hb. unfold report_end. destruct (c_end_written c); [exact Hb|].
  set (e' := match c_meta c with Some m => _ | None => e end). clearbody e'.
  destruct (c_flushed c) eqn:Fl.
  - destruct (write_end_spec cx e' false c) as (evs & _ & _ & _ & _ & Hbuf & _). cbn [c_buf emit]. congruence.
  - set (c0 := mkRwc _ _ _ (Some _) _ _ _ _).
    match goal with c0 := mkRwc _ _ _ (Some ?m) _ _ _ _ |- _ => set (m0 := m) in * end.
    destruct (flush_headers_spec cx c0 m0 eq_refl eq_refl) as (evs & _ & _ & _ & Hbuf & _). cbn [c_buf emit]. exact Hbuf.
Qed.

Lemma report_error_buf cx e c : c_buf c = None -> c_buf (report_error cx e c) = None.
Proof. apply report_end_buf. Qed.

Lemma report_error_inv cx e c : CoreInv c -> CoreInv (report_error cx e c) /\ c_end_written (report_error cx e c) = true.
Proof. apply report_end_inv. Qed.

Lemma Good_of_ended cx c : CoreInv c -> c_end_written c = true -> Good cx c.
Proof. intros HI Ew. split; [exact HI|]. intros E. congruence. Qed.

Lemma report_error_good cx e c : CoreInv c -> Good cx (report_error cx e c).
Proof. intros HI. destruct (report_error_inv cx e c HI). apply Good_of_ended; assumption. Qed.

Lemma report_end_good cx e c : CoreInv c -> Good cx (report_end cx e c).
Proof. intros HI. destruct (report_end_inv cx e c HI). apply Good_of_ended; assumption. Qed.

(** * the sink *)
Lemma sink_write_good cx d c c' ok :
  Good cx c -> c_end_written c = false -> sink_write cx d c = (c', ok) ->
  Good cx c' /\ (ok = true -> c_end_written c' = false).
Proof.
  intros (HI & HL) Ew H. specialize (HL Ew). destruct HL as (_ & HL). unfold sink_write in H. fold (emih cx) in H.
  destruct (emih cx) eqn:Em.
  - destruct (c_buf c) as [b|] eqn:Eb.
    + destruct (w_limit cx <? zlen b + zlen d).
      * injection H as <- <-. split; [apply report_error_good; exact HI|discriminate].
      * injection H as <- <-. split; [|intros _; exact Ew]. destruct HI as (Hr & Hf & Hb & He).
        split; [unfold CoreInv, st_of in *; cbn; repeat split; auto; intros _; apply Hb; congruence|].
        intros _. split; [exact Ew|]. unfold emih in *. cbn. rewrite Em. left. discriminate.
    + injection H as <- <-. split; [|intros _; exact Ew]. split; [exact HI|]. intros _. split; [exact Ew|]. rewrite Em, Eb. exact HL.
  - destruct d as [|x d'].
    + injection H as <- <-. split; [|intros _; exact Ew]. split; [exact HI|]. intros _. split; [exact Ew|]. rewrite Em. exact HL.
    + injection H as <- <-. split; [|intros _; exact Ew].
      assert (HI' : CoreInv (emit (DWrite (x :: d')) c)).
      { apply emit_inv; [exact HI|]. unfold st_of. rewrite Ew, HL. reflexivity. }
      split; [exact HI'|]. intros _. split; [exact Ew|]. rewrite Em. exact HL.
Qed.

Lemma flush_message_good cx c : Good cx c -> c_end_written c = false ->
  Good cx (flush_message c) /\ c_end_written (flush_message c) = false.
Proof.
  intros (HI & HL) Ew. specialize (HL Ew). destruct HL as (_ & HL). unfold flush_message.
  destruct (c_buf c) eqn:Eb; [split; [split; [exact HI|intros _; split; [exact Ew|rewrite Eb; exact HL]]|exact Ew]|].
  assert (Fl : c_flushed c = true).
  { destruct (emih cx); [destruct HL as [N|F]; [congruence|exact F]|exact HL]. }
  assert (HI' : CoreInv (emit DFlush c)).
  { apply emit_inv; [exact HI|]. unfold st_of. rewrite Ew, Fl. reflexivity. }
  split; [|exact Ew]. split; [exact HI'|]. intros _. split; [exact Ew|]. cbn. rewrite Eb.
  destruct (emih cx); [right; exact Fl|exact Fl].
Qed.

(** * envelopingWriter *)
Lemma ew_cur_write_good cx d c w c' w' r :
  Good cx c -> c_end_written c = false -> ew_cur_write cx d c w = (c', w', r) ->
  Good cx c' /\ (r = WOk -> c_end_written c' = false).
Proof.
  intros HG Ew H. unfold ew_cur_write in H. destruct (ew_cur w) as [| |b|b].
  - injection H as <- <- <-. split; [exact HG|discriminate].
  - destruct (sink_write cx d c) as [c1 ok] eqn:S. injection H as <- <- <-.
    destruct (sink_write_good _ _ _ _ _ HG Ew S) as (G1 & E1). split; [exact G1|]. destruct ok; [auto|discriminate].
  - injection H as <- <- <-. split; [exact HG|intros _; exact Ew].
  - destruct (w_limit cx <? zlen b + zlen d).
    + injection H as <- <- <-. split; [apply report_error_good; apply HG|discriminate].
    + injection H as <- <- <-. split; [exact HG|intros _; exact Ew].
Qed.

Ltac brk H :=
  repeat match type of H with
         | (if ?b then _ else _) = _ => destruct b eqn:?
         | (match ?x with _ => _ end) = _ => destruct x eqn:?
         end.

Lemma ew_loop_good cx : forall f data c w c' w' r,
  Good cx c -> c_end_written c = false -> ew_loop f cx data c w = (c', w', r) -> Good cx c'.
Proof.
  induction f as [|f IH]; intros data c w c' w' r HG Ew H; cbn [ew_loop] in H.
  { injection H as <- <- <-. exact HG. }
  destruct (ew_err w); [injection H as <- <- <-; exact HG|].
  destruct (zlen data <? ew_remaining w).
  { destruct (ew_wenv w); [injection H as <- <- <-; exact HG|].
    destruct (ew_cur_write cx data c w) as [[c1 w1] r1] eqn:CW.
    destruct (ew_cur_write_good _ _ _ _ _ _ _ HG Ew CW) as (G1 & _).
    destruct r1; injection H as <- <- <-; exact G1. }
  destruct (ew_wenv w).
  { (* an envelope is complete *)
    destruct (w_senv cx) as [se|]; [|injection H as <- <- <-; exact HG].
    destruct (decode_env se _) as [env|]; [|injection H as <- <- <-; apply report_error_good; apply HG].
    destruct (e_trailer env).
    - destruct (w_limit cx <? e_len env); [injection H as <- <- <-; apply report_error_good; apply HG|].
      eapply IH; eauto.
    - destruct (w_cenv cx) as [ce|]; [|eapply IH; eauto].
      destruct (sink_write cx _ c) as [c1 ok] eqn:S.
      destruct (sink_write_good _ _ _ _ _ HG Ew S) as (G1 & E1).
      destruct ok; [eapply IH; eauto|injection H as <- <- <-; exact G1]. }
  (* the rest of a message or trailer *)
  destruct (ew_cur_write cx _ c w) as [[c1 w1] r1] eqn:CW.
  destruct (ew_cur_write_good _ _ _ _ _ _ _ HG Ew CW) as (G1 & E1).
  destruct r1; try (injection H as <- <- <-; exact G1).
  specialize (E1 eq_refl).
  match type of H with (if ?b then _ else _) = _ => destruct b end.
  - (* handleTrailer *)
    match type of H with (match ?p with _ => _ end) = _ => destruct p as [pl|] end;
      [|injection H as <- <- <-; exact G1].
    destruct (decode_end_from_message cx pl) as [e|]; injection H as <- <- <-;
      [apply report_end_good|apply report_error_good]; apply G1.
  - destruct (flush_message_good cx c1 G1 E1) as (G2 & E2).
    match type of H with (if ?b then _ else _) = _ => destruct b end; [|eapply IH; eauto].
    destruct (zdrop (ew_remaining w) data); injection H as <- <- <-; [exact G2|apply report_error_good; apply G2].
Qed.

Lemma ew_maybe_init_good cx cl c w c' w' :
  Good cx c -> c_end_written c = false -> ew_maybe_init cx cl c w = (c', w') ->
  Good cx c' /\ (ew_err w' = false -> c_end_written c' = false).
Proof.
  intros HG Ew H. unfold ew_maybe_init in H.
  destruct (ew_init w); [injection H as <- <-; auto|].
  destruct (w_senv cx); [injection H as <- <-; auto|].
  destruct (w_cenv cx) as [ce|]; [|injection H as <- <-; auto].
  destruct (cl =? -1); [injection H as <- <-; auto|].
  destruct (w_limit cx <? cl).
  - injection H as <- <-. split; [apply report_error_good; apply HG|discriminate].
  - destruct (sink_write cx _ c) as [c1 ok] eqn:S. injection H as <- <-.
    destruct (sink_write_good _ _ _ _ _ HG Ew S) as (G1 & E1). split; [exact G1|]. cbn. destruct ok; [auto|discriminate].
Qed.

Lemma ew_write_good cx cl d c w c' w' r :
  Good cx c -> c_end_written c = false -> ew_write cx cl d c w = (c', w', r) -> Good cx c'.
Proof.
  intros HG Ew H. unfold ew_write in H.
  destruct (ew_maybe_init cx cl c w) as [c0 w0] eqn:MI.
  destruct (ew_maybe_init_good _ _ _ _ _ _ HG Ew MI) as (G0 & E0).
  destruct (ew_err w0) eqn:Er; [injection H as <- <- <-; exact G0|]. specialize (E0 eq_refl).
  destruct (ew_complete w0).
  - destruct d; injection H as <- <- <-; [exact G0|apply report_error_good; apply G0].
  - destruct (ew_remaining w0 =? -1).
    + destruct (ew_cur_write cx d c0 w0) as [[c1 w1] r1] eqn:CW.
      destruct (ew_cur_write_good _ _ _ _ _ _ _ G0 E0 CW) as (G1 & _).
      destruct r1; injection H as <- <- <-; exact G1.
    + eapply ew_loop_good; eauto.
Qed.

Lemma ew_close_good cx c w c' w' : Good cx c -> ew_close cx c w = (c', w') -> Good cx c'.
Proof.
  intros HG H. unfold ew_close in H.
  set (w0 := if c_end_written c then ew_set_err w else w) in *.
  assert (T : forall c1 w1 (cc : rwc) (ww : ew), Good cx c1 ->
            (let normal_eof := ew_wenv w1 && (ew_remaining w1 =? 5) in
             let c2 := if (0 <? ew_remaining w1) && negb normal_eof then report_error cx EOther c1 else c1 in
             (c2, mkEw (ew_init w1) true (ew_wenv w1) (ew_envacc w1) 0 ECNone (ew_is_trailer w1) (ew_trailer_comp w1) (ew_fixed w1) (ew_complete w1))) = (cc, ww) ->
            Good cx cc).
  { intros c1 w1 cc ww G1 E. cbv zeta in E. injection E as <- <-.
    destruct ((0 <? ew_remaining w1) && negb (ew_wenv w1 && (ew_remaining w1 =? 5))); [apply report_error_good; apply G1|exact G1]. }
  destruct (ew_cur w0) as [| |b|b] eqn:Ec; try (eapply T; [exact HG|exact H]).
  destruct ((ew_remaining w0 =? -1) && negb (ew_err w0)) eqn:Cnd; [|eapply T; [exact HG|exact H]].
  destruct (w_cenv cx) as [ce|]; [|eapply T; [exact HG|exact H]].
  assert (Ew : c_end_written c = false).
  { destruct (c_end_written c) eqn:E; [|reflexivity]. unfold w0 in Cnd. cbn in Cnd. rewrite Bool.andb_false_r in Cnd. discriminate. }
  cbv zeta in H.
  match type of H with context [sink_write cx ?e c] => destruct (sink_write cx e c) as [c1 ok] eqn:S1 end.
  destruct (sink_write_good _ _ _ _ _ HG Ew S1) as (G1 & E1).
  destruct ok; [|eapply T; [exact G1|exact H]].
  destruct (sink_write cx b c1) as [c2 ok2] eqn:S2.
  destruct (sink_write_good _ _ _ _ _ G1 (E1 eq_refl) S2) as (G2 & _).
  eapply T; [exact G2|exact H].
Qed.

(** * transformingWriter *)
Lemma tw_flush_message_good cx c w :
  Good cx c -> c_end_written c = false ->
  match tw_flush_message cx c w with
  | FOk c' w' => Good cx c' /\ (c_end_written c' = true -> tw_err w' = true)
  | FErr _ c' _ _ => Good cx c'
  end.
Proof.
  intros HG Ew. unfold tw_flush_message.
  destruct (e_trailer (tw_latest w)).
  - match goal with |- context [match ?p with Some _ => _ | None => _ end] => destruct p as [pl|] end; [|exact HG].
    destruct (decode_end_from_message cx pl) as [e|].
    + split; [apply report_end_good; apply HG|reflexivity].
    + apply report_error_good; apply HG.
  - destruct (advance_resp cx _ _ _) as [out|e]; [|exact HG].
    match goal with |- context [match ?p with Some _ => _ | None => _ end] => destruct p as [env|] end; [|exact HG].
    assert (S1 : exists c1 ok1, (match env with [] => (c, true) | _ => sink_write cx env c end) = (c1, ok1) /\
                                Good cx c1 /\ (ok1 = true -> c_end_written c1 = false)).
    { destruct env as [|x en]; [exists c, true; auto|].
      destruct (sink_write cx (x :: en) c) as [c1 ok1] eqn:S. exists c1, ok1. split; [reflexivity|].
      apply (sink_write_good _ _ _ _ _ HG Ew S). }
    destruct S1 as (c1 & ok1 & -> & G1 & E1).
    destruct ok1; cbn [negb]; [|exact G1].
    destruct (sink_write cx out c1) as [c2 ok2] eqn:S2.
    destruct (sink_write_good _ _ _ _ _ G1 (E1 eq_refl) S2) as (G2 & E2).
    destruct ok2; cbn [negb]; [|exact G2].
    destruct (flush_message_good cx c2 G2 (E2 eq_refl)) as (G3 & E3).
    split; [exact G3|]. intros E. congruence.
Qed.

Lemma tw_loop_good cx : forall f data c w c' w' r,
  Good cx c -> (c_end_written c = true -> tw_err w = true) -> tw_loop f cx data c w = (c', w', r) -> Good cx c'.
Proof.
  induction f as [|f IH]; intros data c w c' w' r HG Hw H; cbn [tw_loop] in H.
  { injection H as <- <- <-. exact HG. }
  destruct (tw_err w) eqn:Er; [injection H as <- <- <-; exact HG|].
  assert (Ew : c_end_written c = false) by (destruct (c_end_written c); [specialize (Hw eq_refl); discriminate|reflexivity]).
  cbv zeta in H.
  match type of H with (if ?b then _ else _) = _ => destruct b end; [injection H as <- <- <-; exact HG|].
  destruct (tw_wenv w).
  - destruct (w_senv cx) as [se|]; [|injection H as <- <- <-; exact HG].
    match type of H with (match ?p with Some _ => _ | None => _ end) = _ => destruct p as [env|] end;
      [|injection H as <- <- <-; apply report_error_good; apply HG].
    destruct (w_limit cx <? e_len env); [injection H as <- <- <-; apply report_error_good; apply HG|].
    eapply IH; [exact HG| |exact H]. intros E. congruence.
  - match type of H with context [tw_flush_message cx c ?w0] =>
      pose proof (tw_flush_message_good cx c w0 HG Ew) as FM; destruct (tw_flush_message cx c w0) as [c1 w1|e c1 w1 rep] end.
    + destruct FM as (G1 & E1).
      match type of H with (if ?b then _ else _) = _ => destruct b end; [injection H as <- <- <-; exact G1|].
      eapply IH; [exact G1| |exact H]. cbn. exact E1.
    + injection H as <- <- <-. destruct rep; [exact FM|apply report_error_good; apply FM].
Qed.

Lemma tw_write_good cx d c w c' w' r :
  Good cx c -> c_end_written c = false -> tw_write cx d c w = (c', w', r) -> Good cx c'.
Proof.
  intros HG Ew H. unfold tw_write in H.
  destruct (tw_err w); [injection H as <- <- <-; exact HG|].
  set (w0 := match tw_buf w with None => tw_reset cx c w | Some _ => w end) in *.
  destruct (tw_expect w0 =? -1).
  - match type of H with (if ?b then _ else _) = _ => destruct b end; injection H as <- <- <-;
      [apply report_error_good; apply HG|exact HG].
  - eapply tw_loop_good; [exact HG| |exact H]. intros E. congruence.
Qed.

Lemma tw_close_good cx c w c' w' : Good cx c -> tw_close cx c w = (c', w') -> Good cx c'.
Proof.
  intros HG H. unfold tw_close in H. injection H as <- _.
  destruct (tw_err w || c_end_written c) eqn:B; [exact HG|].
  apply Bool.orb_false_iff in B as (_ & Ew).
  destruct (tw_expect w =? -1).
  - pose proof (tw_flush_message_good cx c w HG Ew) as FM. destruct (tw_flush_message cx c w) as [c1 w1|e c1 w1 rep].
    + apply FM.
    + destruct rep; [exact FM|apply report_error_good; apply FM].
  - destruct (tw_buf w) as [[|x b]|]; try exact HG; try (apply report_error_good; apply HG).
    destruct (tw_wenv w); [exact HG|apply report_error_good; apply HG].
Qed.

(** * errorWriter *)
Lemma xw_write_inv cx d c w c' w' r : CoreInv c -> xw_write cx d c w = (c', w', r) -> CoreInv c'.
Proof.
  intros HI H. unfold xw_write in H. destruct (xw_buf w) as [b|]; [|injection H as <- <- <-; exact HI].
  destruct (w_limit cx <? zlen d + zlen b); injection H as <- <- <-; [apply report_error_inv; exact HI|exact HI].
Qed.

(** states that differ only in headers, response metadata or the compression name *)
Definition same_flow (c c' : rwc) : Prop :=
  c_out c' = c_out c /\ c_flushed c' = c_flushed c /\ c_end_written c' = c_end_written c /\
  c_buf c' = c_buf c /\ c_err c' = c_err c.

Lemma same_flow_inv c c' : same_flow c c' -> CoreInv c -> CoreInv c'.
Proof. intros (Ho & Hf & Hw & Hb & He) (Hr & H1 & H2 & H3). unfold CoreInv, st_of. rewrite Ho, Hf, Hw, Hb, He. auto. Qed.

Lemma same_flow_live cx c c' : same_flow c c' -> Live cx c -> Live cx c'.
Proof. intros (Ho & Hf & Hw & Hb & He) (L1 & L2). unfold Live. rewrite Hf, Hw, Hb. auto. Qed.

Lemma xw_close_inv cx c w c' w' : CoreInv c -> xw_close cx c w = (c', w') -> CoreInv c'.
Proof.
  intros HI H. unfold xw_close in H.
  destruct (xw_buf w) as [b|]; [|injection H as <- <-; exact HI].
  destruct (c_meta c) as [m|]; [|injection H as <- <-; exact HI].
  cbv zeta in H.
  match type of H with (let '(_, _) := ?p in _) = _ => destruct p as [body e1] end.
  injection H as <- _.
  apply flush_headers_inv; [|cbn; discriminate].
  eapply same_flow_inv; [|exact HI]. repeat split; reflexivity.
Qed.

(** * responseWriter *)
Definition active (r : rw) : bool := match r_w r with BEnv _ | BTrans _ => true | _ => false end.

Definition RwInv (cx : wctx) (r : rw) : Prop :=
  CoreInv (r_core r) /\
  (active r = true -> c_end_written (r_core r) = false -> Live cx (r_core r)) /\
  (r_headers_written r = false ->
     r_w r = BNone /\ c_buf (r_core r) = None /\ (c_flushed (r_core r) = true -> c_end_written (r_core r) = true)).

Lemma RwInv_good cx r : RwInv cx r -> active r = true -> Good cx (r_core r).
Proof. intros (HI & HL & _) A. split; [exact HI|]. intros Ew. apply HL; assumption. Qed.

Lemma RwInv_init cx h : RwInv cx (rw_init h).
Proof.
  split; [unfold CoreInv, st_of; cbn; repeat split; auto; discriminate|].
  split; [discriminate|]. intros _. cbn. split; [reflexivity|]. split; [reflexivity|discriminate].
Qed.

Lemma RwInv_ended cx c cl w : CoreInv c -> c_end_written c = true -> RwInv cx (mkRw c true cl w).
Proof. intros HI Ew. split; [exact HI|]. split; [cbn; intros _ E; congruence|discriminate]. Qed.

Lemma RwInv_inactive cx c cl w :
  CoreInv c -> match w with BEnv _ | BTrans _ => false | _ => true end = true -> RwInv cx (mkRw c true cl w).
Proof.
  intros HI A. split; [exact HI|]. split; [|discriminate]. unfold active. cbn.
  destruct w; try discriminate; intros E; discriminate.
Qed.

Lemma rw_write_header_inv cx st r : RwInv cx r -> RwInv cx (rw_write_header cx st r).
Proof.
  intros (HI & HL & HW). unfold rw_write_header.
  destruct (r_headers_written r) eqn:Hw; [split; [exact HI|split; [exact HL|rewrite Hw; discriminate]]|].
  destruct (HW eq_refl) as (Wn & Bn & Fe).
  cbn [r_core r_w r_content_len].
  destruct (c_end_written (r_core r)) eqn:Ew; [apply RwInv_ended; assumption|].
  assert (Fl : c_flushed (r_core r) = false) by (destruct (c_flushed (r_core r)); [specialize (Fe eq_refl); discriminate|reflexivity]).
  destruct (extract_content_length (c_hdr (r_core r))) as [[clen h1]|].
  2:{ unfold set_core. cbn. destruct (report_error_inv cx EOther _ HI). apply RwInv_ended; assumption. }
  destruct (extract_response (w_eor cx) (w_server cx) st h1) as [[m0 proc] h2].
  match goal with |- context [let '(m1, h3) := ?p in _] => destruct p as [m1 h3] end.
  cbv zeta.
  set (c1 := mkRwc _ _ _ (Some _) _ _ _ _).
  assert (HI1 : CoreInv c1) by (eapply same_flow_inv; [|exact HI]; repeat split; cbn; congruence).
  match goal with |- context [if ?b then set_core _ _ else _] => destruct b end.
  { unfold set_core. cbn. destruct (report_error_inv cx EOther _ HI1). apply RwInv_ended; assumption. }
  set (c2 := mkRwc (c_hdr c1) _ _ _ _ _ _ _).
  assert (HI2 : CoreInv c2) by (eapply same_flow_inv; [|exact HI1]; repeat split; reflexivity).
  assert (M2 : c_meta c2 <> None) by (unfold c2, c1; cbn; discriminate).
  match goal with |- context [match rm_end ?m with Some _ => _ | None => _ end] => destruct (rm_end m) eqn:Ee end.
  - destruct proc; try (apply RwInv_inactive; [exact HI2|reflexivity]).
    apply RwInv_inactive; [apply flush_headers_inv; assumption|reflexivity].
  - match goal with |- context [if ?b then mkRw (report_error _ _ _) _ _ _ else _] => destruct b end.
    { destruct (report_error_inv cx EOther _ HI2). apply RwInv_ended; assumption. }
    fold (emih cx). destruct (emih cx) eqn:Em.
    + set (c3 := mkRwc _ _ _ _ _ (Some []) _ _).
      assert (HI3 : CoreInv c3).
      { destruct HI2 as (Hr & H1 & H2 & H3). unfold CoreInv, st_of, c3, c2, c1 in *. cbn in *.
        rewrite Fl in *. repeat split; auto. }
      split; [exact HI3|]. split; [|discriminate]. intros _ _. split; [reflexivity|].
      rewrite Em. left. discriminate.
    + destruct (flush_headers_spec cx c2 _ Fl eq_refl) as (evs & Ho & Hrun & Hf & Hb & _ & Hwr & _).
      cbn [rm_end] in Hwr, Ee. rewrite Ee in Hwr.
      split; [apply flush_headers_inv; assumption|]. split; [|discriminate]. cbn [r_core]. intros _ _.
      split; [rewrite Hwr; reflexivity|]. rewrite Em. exact Hf.
Qed.

Lemma rw_write_header_written cx st r : r_headers_written (rw_write_header cx st r) = true.
Proof.
  unfold rw_write_header. destruct (r_headers_written r) eqn:E; [exact E|].
  cbn [r_core]. destruct (c_end_written (r_core r)); [reflexivity|].
  destruct (extract_content_length _) as [[clen h1]|]; [|reflexivity].
  destruct (extract_response _ _ _ _) as [[m0 proc] h2].
  match goal with |- context [let '(m1, h3) := ?p in _] => destruct p as [m1 h3] end. cbv zeta.
  match goal with |- context [if ?b then set_core _ _ else _] => destruct b end; [reflexivity|].
  match goal with |- context [match rm_end ?m with Some _ => _ | None => _ end] => destruct (rm_end m) end.
  - destruct proc; reflexivity.
  - match goal with |- context [if ?b then mkRw (report_error _ _ _) _ _ _ else _] => destruct b end; reflexivity.
Qed.

Lemma rw_write_inv cx d r r' res : RwInv cx r -> rw_write cx d r = (r', res) -> RwInv cx r' /\ r_headers_written r' = true.
Proof.
  intros HR H. unfold rw_write in H.
  set (r0 := if r_headers_written r then r else rw_write_header cx 200 r) in *.
  assert (HR0 : RwInv cx r0) by (unfold r0; destruct (r_headers_written r); [exact HR|apply rw_write_header_inv; exact HR]).
  assert (HW0 : r_headers_written r0 = true) by (unfold r0; destruct (r_headers_written r) eqn:E; [exact E|apply rw_write_header_written]).
  clearbody r0. destruct HR0 as (HI & HL & _).
  assert (Same : RwInv cx r0 /\ r_headers_written r0 = true).
  { split; [|exact HW0]. split; [exact HI|]. split; [exact HL|]. rewrite HW0. discriminate. }
  destruct (c_err (r_core r0)) eqn:Er; [injection H as <- <-; exact Same|].
  assert (Ew : c_end_written (r_core r0) = false) by (destruct HI as (_ & _ & _ & He); congruence).
  destruct (r_w r0) as [| |w|w|w] eqn:Ew0; try (injection H as <- <-; exact Same).
  - destruct (xw_write cx d (r_core r0) w) as [[c w'] rs] eqn:X. injection H as <- <-.
    split; [|reflexivity]. apply RwInv_inactive; [eapply xw_write_inv; eauto|reflexivity].
  - assert (G : Good cx (r_core r0)) by (split; [exact HI|]; intros _; apply HL; [unfold active; rewrite Ew0; reflexivity|exact Ew]).
    destruct (ew_write cx _ d (r_core r0) w) as [[c w'] rs] eqn:X. injection H as <- <-.
    destruct (ew_write_good _ _ _ _ _ _ _ _ G Ew X) as (HI' & HL').
    split; [|reflexivity]. split; [exact HI'|]. split; [intros _; exact HL'|discriminate].
  - assert (G : Good cx (r_core r0)) by (split; [exact HI|]; intros _; apply HL; [unfold active; rewrite Ew0; reflexivity|exact Ew]).
    destruct (tw_write cx d (r_core r0) w) as [[c w'] rs] eqn:X. injection H as <- <-.
    destruct (tw_write_good _ _ _ _ _ _ _ G Ew X) as (HI' & HL').
    split; [|reflexivity]. split; [exact HI'|]. split; [intros _; exact HL'|discriminate].
Qed.

Local Opaque report_end report_error.

Lemma rw_close_inv cx r r' res : RwInv cx r -> rw_close cx r = (r', res) -> CoreInv (r_core r').
Proof.
  intros HR H. unfold rw_close in H.
  set (r0 := if r_headers_written r then r else rw_write_header cx 200 r) in *.
  assert (HR0 : RwInv cx r0) by (unfold r0; destruct (r_headers_written r); [exact HR|apply rw_write_header_inv; exact HR]).
  clearbody r0. destruct HR0 as (HI & HL & _).
  (* the body writer's part *)
  assert (P : forall r1 rs,
             match r_w r0 with
             | BNone => (r0, WOk)
             | BNoBody => (r0, WOk)
             | BErr w => let '(c1, w1, _) := if c_end_written (r_core r0) then (r_core r0, w, WOk) else xw_write cx [] (r_core r0) w in
                         let '(c2, w2) := xw_close cx c1 w1 in (mkRw c2 true (r_content_len r0) (BErr w2), WOk)
             | BEnv w => let '(c1, w1, res) := if c_end_written (r_core r0) then (r_core r0, w, WOk)
                                               else ew_write cx (r_content_len r0) [] (r_core r0) w in
                         match res with
                         | WPanic => (mkRw c1 true (r_content_len r0) (BEnv w1), WPanic)
                         | _ => let '(c2, w2) := ew_close cx c1 w1 in (mkRw c2 true (r_content_len r0) (BEnv w2), WOk)
                         end
             | BTrans w => let '(c1, w1, res) := if c_end_written (r_core r0) then (r_core r0, w, WOk)
                                                 else tw_write cx [] (r_core r0) w in
                           match res with
                           | WPanic => (mkRw c1 true (r_content_len r0) (BTrans w1), WPanic)
                           | _ => let '(c2, w2) := tw_close cx c1 w1 in (mkRw c2 true (r_content_len r0) (BTrans w2), WOk)
                           end
             end = (r1, rs) -> CoreInv (r_core r1)).
  { intros r1 rs E. destruct (r_w r0) as [| |w|w|w] eqn:Ew0.
    - injection E as <- <-. exact HI.
    - injection E as <- <-. exact HI.
    - assert (X : exists c1 w1 x, (if c_end_written (r_core r0) then (r_core r0, w, WOk) else xw_write cx [] (r_core r0) w) = (c1, w1, x) /\ CoreInv c1).
      { destruct (c_end_written (r_core r0)); [eexists _, _, _; split; [reflexivity|exact HI]|].
        destruct (xw_write cx [] (r_core r0) w) as [[c1 w1] x] eqn:X. eexists _, _, _; split; [reflexivity|]. eapply xw_write_inv; eauto. }
      destruct X as (c1 & w1 & x & EX & HI1). rewrite EX in E.
      destruct (xw_close cx c1 w1) as [c2 w2] eqn:XC. injection E as <- <-. cbn. eapply xw_close_inv; eauto.
    - assert (X : exists c1 w1 x, (if c_end_written (r_core r0) then (r_core r0, w, WOk) else ew_write cx (r_content_len r0) [] (r_core r0) w) = (c1, w1, x) /\ Good cx c1).
      { destruct (c_end_written (r_core r0)) eqn:Ew; [eexists _, _, _; split; [reflexivity|apply Good_of_ended; assumption]|].
        assert (G : Good cx (r_core r0)) by (split; [exact HI|]; intros _; apply HL; [unfold active; rewrite Ew0; reflexivity|first [exact Ew|reflexivity]]).
        destruct (ew_write cx (r_content_len r0) [] (r_core r0) w) as [[c1 w1] x] eqn:X. eexists _, _, _; split; [reflexivity|].
        eapply ew_write_good; eauto. }
      destruct X as (c1 & w1 & x & EX & G1). rewrite EX in E.
      destruct x; try (injection E as <- <-; apply G1);
        destruct (ew_close cx c1 w1) as [c2 w2] eqn:XC; injection E as <- <-; cbn; eapply ew_close_good; eauto.
    - assert (X : exists c1 w1 x, (if c_end_written (r_core r0) then (r_core r0, w, WOk) else tw_write cx [] (r_core r0) w) = (c1, w1, x) /\ Good cx c1).
      { destruct (c_end_written (r_core r0)) eqn:Ew; [eexists _, _, _; split; [reflexivity|apply Good_of_ended; assumption]|].
        assert (G : Good cx (r_core r0)) by (split; [exact HI|]; intros _; apply HL; [unfold active; rewrite Ew0; reflexivity|first [exact Ew|reflexivity]]).
        destruct (tw_write cx [] (r_core r0) w) as [[c1 w1] x] eqn:X. eexists _, _, _; split; [reflexivity|].
        eapply tw_write_good; eauto. }
      destruct X as (c1 & w1 & x & EX & G1). rewrite EX in E.
      destruct x; try (injection E as <- <-; apply G1);
        destruct (tw_close cx c1 w1) as [c2 w2] eqn:XC; injection E as <- <-; cbn; eapply tw_close_good; eauto. }
  match type of H with (let '(r1, res) := ?p in _) = _ => destruct p as [r1 rs] eqn:EP end.
  specialize (P r1 rs eq_refl).
  destruct rs; try (injection H as <- <-; exact P);
    (destruct (c_end_written (r_core r1)) eqn:Ew1; [injection H as <- <-; exact P|];
     destruct (c_meta (r_core r1)) as [m|]; [|injection H as <- <-; exact P];
     destruct (rm_end m) as [e|];
     [injection H as <- <-; unfold set_core; cbn [r_core]; apply report_end_inv; exact P|];
     destruct (http_extract_trailers _ _) as [tr h'];
     match type of H with context [extract_end_from_trailers ?a ?b ?c] => destruct (extract_end_from_trailers a b c) end;
     injection H as <- <-; unfold set_core; cbn [r_core]; [apply report_end_inv|apply report_error_inv];
     (eapply same_flow_inv; [|exact P]; repeat split; cbn; congruence)).
Qed.

(** * the handler's script, with request-side failures anywhere in it *)
From VG Require Import Model.Request Model.Serve.

Lemma RwInv_same_flow cx r c' :
  RwInv cx r -> same_flow (r_core r) c' -> RwInv cx (set_core r c').
Proof.
  intros (HI & HL & HW) SF. split; [eapply same_flow_inv; eauto|]. unfold set_core, active in *. cbn [r_core r_w r_headers_written].
  destruct SF as (Ho & Hf & Hw & Hb & He).
  split.
  - intros A E. apply (same_flow_live cx (r_core r) c'); [repeat split; assumption|]. apply HL; [exact A|congruence].
  - intros E. destruct (HW E) as (W & B & F). rewrite Hb, Hf, Hw. auto.
Qed.

Lemma run_script_inv cx : forall s r wr r' wr', RwInv cx r -> run_script cx s r wr = (r', wr') -> RwInv cx r'.
Proof.
  induction s as [|a rest IH]; intros r wr r' wr' HR H; cbn [run_script] in H.
  { injection H as <- <-. exact HR. }
  destruct a as [k v|k v|code|d| |e].
  - destruct (c_end_written (r_core r)) eqn:Ew; [eapply IH; eauto|].
    eapply IH; [|exact H]. apply RwInv_same_flow; [exact HR|repeat split; cbn; congruence].
  - destruct (c_end_written (r_core r)) eqn:Ew; [eapply IH; eauto|].
    eapply IH; [|exact H]. apply RwInv_same_flow; [exact HR|repeat split; cbn; congruence].
  - eapply IH; [|exact H]. apply rw_write_header_inv. exact HR.
  - destruct (rw_write cx d r) as [r1 rs] eqn:W. destruct (rw_write_inv _ _ _ _ _ HR W) as (HR1 & _).
    destruct rs; [eapply IH; eauto|eapply IH; eauto|injection H as <- <-; exact HR1].
  - eapply IH; eauto.
  - eapply IH; [|exact H]. destruct HR as (HI & HL & HW).
    destruct (report_error_inv cx e _ HI) as (HI' & Ew').
    split; [exact HI'|]. unfold set_core. cbn [r_core r_w r_headers_written]. split; [intros _ E; congruence|].
    intros E. destruct (HW E) as (W & B & F). split; [exact W|]. split; [apply report_error_buf; exact B|intros _; exact Ew'].
Qed.

Theorem serve_response_inv cx h s r wr res : serve_response cx h s = (r, wr, res) -> CoreInv (r_core r).
Proof.
  unfold serve_response. destruct (run_script cx s (rw_init h) []) as [r0 wr0] eqn:RS.
  pose proof (run_script_inv cx s _ _ _ _ (RwInv_init cx h) RS) as HR.
  destruct (existsb _ wr0); [intros E; injection E as <- <- <-; apply HR|].
  destruct (rw_close cx r0) as [r1 rs] eqn:CL. intros E. injection E as <- <- <-.
  eapply rw_close_inv; eauto.
Qed.

(** * what the automaton's acceptance means, in plain terms *)
Definition is_head (e : devent) : bool := match e with DHead _ _ _ => true | _ => false end.
Definition is_term (e : devent) : bool := match e with DEnd _ | DTrailers _ => true | _ => false end.
Definition is_done (e : devent) : bool := match e with DDone => true | _ => false end.
Definition is_flush (e : devent) : bool := match e with DFlush => true | _ => false end.

Lemma orun_S2_flushes l s : orun S2 l = Some s -> s = S2 /\ forallb is_flush l = true.
Proof.
  revert s. induction l as [|e r IH]; intros s H; cbn in *; [injection H as <-; auto|].
  destruct e; try discriminate. cbn. apply IH. exact H.
Qed.

Lemma orun_S1e l s : orun S1e l = Some s ->
  l = [] /\ s = S1e \/ exists r, l = DDone :: r /\ forallb is_flush r = true /\ s = S2.
Proof.
  destruct l as [|e r]; cbn; [intros [= <-]; left; auto|]. destruct e; try discriminate.
  intros H. right. destruct (orun_S2_flushes r s H) as (-> & F). eauto.
Qed.

(** from the state after the head: body writes and flushes, then possibly one end (one terminal
    event at most, then the completion mark), then flushes only *)
Lemma orun_S1 l : forall s, orun S1 l = Some s ->
  exists body tail, l = body ++ tail /\ forallb (fun e => negb (is_head e) && negb (is_term e) && negb (is_done e)) body = true /\
    (tail = [] \/
     (exists t, is_term t = true /\ tail = [t]) \/
     (exists fl, tail = DDone :: fl /\ forallb is_flush fl = true) \/
     (exists t fl, is_term t = true /\ tail = t :: DDone :: fl /\ forallb is_flush fl = true)).
Proof.
  induction l as [|e r IH]; intros s H.
  { exists [], []. auto. }
  cbn in H. destruct e; try discriminate.
  - destruct (IH s H) as (body & tail & -> & Fb & T). exists (DWrite b :: body), tail. repeat split; auto.
  - destruct (IH s H) as (body & tail & -> & Fb & T). exists (DFlush :: body), tail. repeat split; auto.
  - exists [], (DEnd e :: r). split; [reflexivity|]. split; [reflexivity|].
    destruct (orun_S1e r s H) as [(-> & _)|(fl & -> & F & _)]; [right; left; exists (DEnd e); auto|].
    right; right; right. exists (DEnd e), fl. auto.
  - exists [], (DTrailers e :: r). split; [reflexivity|]. split; [reflexivity|].
    destruct (orun_S1e r s H) as [(-> & _)|(fl & -> & F & _)]; [right; left; exists (DTrailers e); auto|].
    right; right; right. exists (DTrailers e), fl. auto.
  - exists [], (DDone :: r). split; [reflexivity|]. split; [reflexivity|].
    destruct (orun_S2_flushes r s H) as (_ & F). right; right; left. exists r. auto.
Qed.

Theorem orun_shape l s : orun S0 l = Some s ->
  l = [] \/
  exists code h eh body tail, l = DHead code h eh :: body ++ tail /\
    forallb (fun e => negb (is_head e) && negb (is_term e) && negb (is_done e)) body = true /\
    (tail = [] \/
     (exists t, is_term t = true /\ tail = [t]) \/
     (exists fl, tail = DDone :: fl /\ forallb is_flush fl = true) \/
     (exists t fl, is_term t = true /\ tail = t :: DDone :: fl /\ forallb is_flush fl = true)).
Proof.
  destruct l as [|e r]; [left; reflexivity|]. cbn. destruct e; try discriminate. intros H. right.
  destruct (orun_S1 r s H) as (body & tail & -> & Fb & T). exists code, h, end_in_headers, body, tail. auto.
Qed.

(** * a response that was closed without a panic has its end written *)
Transparent report_end report_error.
Lemma report_end_ended cx e c : c_end_written (report_end cx e c) = true.
Proof.
  unfold report_end. destruct (c_end_written c) eqn:Ew; [exact Ew|].
  set (e' := match c_meta c with Some m => _ | None => e end). clearbody e'.
  destruct (c_flushed c) eqn:Fl.
  - destruct (write_end_spec cx e' false c) as (evs & _ & _ & Hw & _). cbn [c_end_written emit]. exact Hw.
  - set (c0 := mkRwc _ _ _ (Some _) _ _ _ _).
    match goal with c0 := mkRwc _ _ _ (Some ?m) _ _ _ _ |- _ => set (m0 := m) in * end.
    assert (Ee : exists e0, rm_end m0 = Some e0) by (unfold m0; destruct (c_meta c); cbn; eauto).
    destruct Ee as (e0 & Ee).
    destruct (flush_headers_spec cx c0 m0 eq_refl eq_refl) as (evs & _ & _ & _ & _ & _ & Hw & _). rewrite Ee in Hw.
    cbn [c_end_written emit]. exact Hw.
Qed.
Lemma report_error_ended cx e c : c_end_written (report_error cx e c) = true.
Proof. apply report_end_ended. Qed.
Opaque report_end report_error.

Lemma rw_close_ended cx r r' res : rw_close cx r = (r', res) -> res <> WPanic -> c_end_written (r_core r') = true.
Proof.
  unfold rw_close. intros H NP.
  match type of H with (let '(r1, res) := ?p in _) = _ => destruct p as [r1 rs] end.
  destruct rs; try (injection H as <- <-; congruence);
    (destruct (c_end_written (r_core r1)) eqn:Ew1; [injection H as <- <-; exact Ew1|];
     destruct (c_meta (r_core r1)) as [m|]; [|injection H as <- <-; congruence];
     destruct (rm_end m) as [e|];
     [injection H as <- <-; unfold set_core; cbn [r_core]; apply report_end_ended|];
     destruct (http_extract_trailers _ _) as [tr h'];
     match type of H with context [extract_end_from_trailers ?a ?b ?c] => destruct (extract_end_from_trailers a b c) end;
     injection H as <- <-; unfold set_core; cbn [r_core]; first [apply report_end_ended|apply report_error_ended]).
Qed.

Theorem serve_response_ended cx h s r wr res :
  serve_response cx h s = (r, wr, res) -> res <> WPanic -> c_end_written (r_core r) = true.
Proof.
  unfold serve_response. destruct (run_script cx s (rw_init h) []) as [r0 wr0].
  destruct (existsb _ wr0); [intros E NP; injection E as <- <- <-; congruence|].
  destruct (rw_close cx r0) as [r1 rs] eqn:CL. intros E NP. injection E as <- <- <-.
  eapply rw_close_ended; eauto.
Qed.

(** the full shape of a finished response *)
Lemma orun_S1_to_S2 l : orun S1 l = Some S2 ->
  exists body tail fl, l = body ++ tail ++ DDone :: fl /\
    forallb (fun e => negb (is_head e) && negb (is_term e) && negb (is_done e)) body = true /\
    (tail = [] \/ exists t, is_term t = true /\ tail = [t]) /\ forallb is_flush fl = true.
Proof.
  induction l as [|e r IH]; intros H; [discriminate|]. cbn in H. destruct e; try discriminate.
  - destruct (IH H) as (body & tail & fl & -> & Fb & T & Ff). exists (DWrite b :: body), tail, fl. repeat split; auto.
  - destruct (IH H) as (body & tail & fl & -> & Fb & T & Ff). exists (DFlush :: body), tail, fl. repeat split; auto.
  - destruct (orun_S1e r S2 H) as [(_ & D)|(fl & -> & F & _)]; [discriminate|].
    exists [], [DEnd e], fl. repeat split; auto. right. exists (DEnd e). auto.
  - destruct (orun_S1e r S2 H) as [(_ & D)|(fl & -> & F & _)]; [discriminate|].
    exists [], [DTrailers e], fl. repeat split; auto. right. exists (DTrailers e). auto.
  - destruct (orun_S2_flushes r S2 H) as (_ & F). exists [], [], r. repeat split; auto.
Qed.

Theorem finished_response_shape cx h s r wr res :
  serve_response cx h s = (r, wr, res) -> res <> WPanic ->
  exists code hd eh body tail fl,
    c_out (r_core r) = DHead code hd eh :: body ++ tail ++ DDone :: fl /\
    forallb (fun e => negb (is_head e) && negb (is_term e) && negb (is_done e)) body = true /\
    (tail = [] \/ exists t, is_term t = true /\ tail = [t]) /\ forallb is_flush fl = true.
Proof.
  intros H NP. pose proof (serve_response_inv _ _ _ _ _ _ H) as (Hr & _).
  pose proof (serve_response_ended _ _ _ _ _ _ H NP) as Ew. unfold st_of in Hr. rewrite Ew in Hr.
  destruct (c_out (r_core r)) as [|e l]; [discriminate|]. cbn in Hr. destruct e; try discriminate.
  destruct (orun_S1_to_S2 l Hr) as (body & tail & fl & -> & ?). exists code, h0, end_in_headers, body, tail, fl. auto.
Qed.

(** * heads *)
Lemma hvalues_hput_same k vs h : hvalues k (hput k vs h) = vs.
Proof.
  induction h as [|[k' vs'] r IH]; cbn [hput hvalues]; [rewrite bytes_eqb_refl; reflexivity|].
  destruct (bytes_eqb k' k) eqn:E; cbn [hvalues]; [rewrite bytes_eqb_refl; reflexivity|rewrite E; exact IH].
Qed.

Lemma hget_hset_same k v h : hget k (hset k v h) = v.
Proof. unfold hget, hset. rewrite hvalues_hput_same. reflexivity. Qed.

Lemma hvalues_hput_other k k' vs h : bytes_eqb k' k = false -> hvalues k (hput k' vs h) = hvalues k h.
Proof.
  intros N. induction h as [|[k2 vs2] r IH]; cbn [hput hvalues]; [rewrite N; reflexivity|].
  destruct (bytes_eqb k2 k') eqn:E; cbn [hvalues].
  - apply bytes_eqb_eq in E. subst k2. rewrite N. reflexivity.
  - destruct (bytes_eqb k2 k); [reflexivity|exact IH].
Qed.

Lemma hget_hset_other k k' v h : bytes_eqb k' k = false -> hget k (hset k' v h) = hget k h.
Proof. intros N. unfold hget, hset. rewrite hvalues_hput_other by exact N. reflexivity. Qed.

Lemma hvalues_hdel_other k k' h : bytes_eqb k' k = false -> hvalues k (hdel k' h) = hvalues k h.
Proof.
  intros N. induction h as [|[k2 vs2] r IH]; cbn [hdel hvalues]; [reflexivity|].
  destruct (bytes_eqb k2 k') eqn:E.
  - apply bytes_eqb_eq in E. subst k2. rewrite N. exact IH.
  - cbn [hvalues]. destruct (bytes_eqb k2 k); [reflexivity|exact IH].
Qed.

Lemma hvalues_hadd_other k k' v h : bytes_eqb k' k = false -> hvalues k (hadd k' v h) = hvalues k h.
Proof.
  intros N. induction h as [|[k2 vs2] r IH]; cbn [hadd hvalues]; [rewrite N; reflexivity|].
  destruct (bytes_eqb k2 k') eqn:E; cbn [hvalues].
  - apply bytes_eqb_eq in E. subst k2. rewrite N. reflexivity.
  - destruct (bytes_eqb k2 k); [reflexivity|exact IH].
Qed.

Lemma hvalues_fold_hadd_other k k' l h :
  bytes_eqb k' k = false -> hvalues k (fold_left (fun acc x => hadd k' x acc) l h) = hvalues k h.
Proof.
  intros N. revert h. induction l as [|x r IH]; intros h; cbn [fold_left]; [reflexivity|].
  rewrite IH. apply hvalues_hadd_other. exact N.
Qed.

Lemma ct_declare_trailers m h : hget k_content_type (grpc_declare_trailers m h) = hget k_content_type h.
Proof.
  unfold grpc_declare_trailers, hget.
  repeat match goal with |- context [if ?b then _ else _] => destruct b end;
    rewrite ?hvalues_hadd_other, ?hvalues_fold_hadd_other by reflexivity; reflexivity.
Qed.

Lemma ct_hset_opt k (v : bytes) h : bytes_eqb k k_content_type = false ->
  hget k_content_type (match v with [] => h | _ :: _ => hset k v h end) = hget k_content_type h.
Proof. intros N. destruct v; [reflexivity|]. apply hget_hset_other. exact N. Qed.

(** the head of a response that does not carry its end *)
Lemma head_streaming c m h :
  match c with CGrpc | CGrpcWeb | CConnectStream => True | _ => False end -> rm_end m = None ->
  ho_status (add_response_headers c m h) = 200 /\
  hget k_content_type (ho_hdrs (add_response_headers c m h)) =
    (match c with CGrpc => s2b "application/grpc+" | CGrpcWeb => s2b "application/grpc-web+" | _ => s2b "application/connect+" end) ++ rm_codec m.
Proof.
  intros Hc He. destruct c; try contradiction; unfold add_response_headers; rewrite ?He; cbn [ho_status ho_hdrs]; (split; [reflexivity|]).
  - (* connect stream *)
    destruct (rm_comp m) as [|c0 cs], (rm_accept m) as [|a0 as_];
      rewrite ?hget_hset_other by reflexivity; apply hget_hset_same.
  - rewrite ct_declare_trailers.
    destruct (rm_comp m) as [|c0 cs], (rm_accept m) as [|a0 as_];
      rewrite ?hget_hset_other by reflexivity; apply hget_hset_same.
  - destruct (rm_comp m) as [|c0 cs], (rm_accept m) as [|a0 as_];
      rewrite ?hget_hset_other by reflexivity; apply hget_hset_same.
Qed.

Lemma bytes_eqb_trailer_ct k : bytes_eqb (s2b "Trailer-" ++ k) k_content_type = false.
Proof. reflexivity. Qed.

Lemma ct_fold_trailers (l : hdrs) h :
  hget k_content_type (fold_left (fun acc kv => hput (s2b "Trailer-" ++ fst kv) (snd kv) acc) l h) = hget k_content_type h.
Proof.
  revert h. induction l as [|kv r IH]; intros h; cbn [fold_left]; [reflexivity|].
  rewrite IH. unfold hget. rewrite hvalues_hput_other by apply bytes_eqb_trailer_ct. reflexivity.
Qed.

Lemma head_connect_unary c m h :
  match c with CConnectPost | CConnectGet => True | _ => False end ->
  let ho := add_response_headers c m h in
  match rm_end m with
  | Some e => match re_err e with
              | Some err => ho_status ho = rpc_http_status (Some err) /\ hget k_content_type (ho_hdrs ho) = s2b "application/json"
              | None => ho_status ho = 200 /\ hget k_content_type (ho_hdrs ho) = s2b "application/" ++ rm_codec m
              end
  | None => ho_status ho = 200 /\ hget k_content_type (ho_hdrs ho) = s2b "application/" ++ rm_codec m
  end.
Proof.
  intros Hc. assert (E : forall a : list bytes, hget k_content_type (match a with [] => h | _ :: _ => h end) = hget k_content_type h) by (intros []; reflexivity).
  destruct c; try contradiction; cbv zeta; unfold add_response_headers;
    (destruct (rm_end m) as [e|]; [destruct (re_err e) as [err|] eqn:Er|]; cbn [ho_status ho_hdrs];
     (split; [try reflexivity; try (rewrite Er; reflexivity)|]);
     destruct (rm_accept m) as [|a0 as_]; rewrite ?hget_hset_other by reflexivity; rewrite ?ct_fold_trailers;
     try (destruct (rm_comp m) as [|c0 cs]; rewrite ?hget_hset_other by reflexivity); apply hget_hset_same).
Qed.

Lemma buffered_content_length cx c m b :
  c_flushed c = false -> c_meta c = Some m -> c_buf c = Some b -> has_err m = false ->
  exists st hd eh rest,
    c_out (flush_headers cx c) = c_out c ++ DHead st hd eh :: DWrite b :: rest /\
    hget (s2b "Content-Length") hd = format_nat (length b).
Proof.
  intros Fl Em Eb Herr. unfold flush_headers. rewrite Fl, Em, Eb, Herr.
  destruct (rm_end m) as [e|]; cbn [emit c_buf c_out c_hdr c_flushed c_end_written c_meta c_err c_resp_comp].
  - match goal with |- context [write_end ?cx0 ?e0 ?w0 ?c0] =>
      destruct (write_end_spec cx0 e0 w0 c0) as (evs & Ho & _); cbn [c_out] in Ho; rewrite Ho end.
    eexists _, _, _, evs. split; [rewrite <- !app_assoc; cbn [app]; reflexivity|apply hget_hset_same].
  - eexists _, _, _, []. split; [rewrite <- !app_assoc; cbn [app]; reflexivity|apply hget_hset_same].
Qed.
