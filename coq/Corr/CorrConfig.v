(** Correspondence wrapper and monitors for configurations (C17): suite "config.new". *)
From VG Require Import Corr.Base Corr.CorrRouter Model.Config.
From VG Require Import Gen.Generated.
Open Scope Z_scope.

Definition field_of (v : V) : field := mkField (vs (vnth 0 v)) (vz (vnth 1 v)) (vz (vnth 2 v)) (vs (vnth 3 v)).
Definition msg_of (v : V) : msgdesc := mkMsg (vs (vnth 0 v)) (map field_of (vl (vnth 1 v))).
Definition binding_of (v : V) : binding :=
  mkB (vz (vnth 0 v)) (vs (vnth 1 v)) (vs (vnth 2 v)) (vs (vnth 3 v)) (vs (vnth 4 v)) (vb (vnth 5 v)).
Definition rule_of (v : V) : rule := mkRule (vs (vnth 0 v)) (binding_of (vnth 1 v)) (map binding_of (vl (vnth 2 v))).
Definition meth_of (v : V) : methdesc :=
  mkMeth (vs (vnth 0 v)) (vs (vnth 1 v)) (vs (vnth 2 v)) (vz (vnth 3 v)) (vb (vnth 4 v))
         (match vl (vnth 5 v) with r :: _ => Some (rule_of r) | [] => None end).
Definition svc_of (v : V) : svcdesc := mkSvc (vs (vnth 0 v)) (map meth_of (vl (vnth 1 v))).
Definition sopt_of (v : V) : sopt :=
  let c := vz (vnth 0 v) in
  if c =? 0 then OProtocols (map vz (vl (vnth 1 v)))
  else if c =? 1 then OCodecs (vsl (vnth 2 v))
  else if c =? 2 then OCompression (vsl (vnth 2 v))
  else if c =? 3 then OMaxBuf (vz (vnth 3 v))
  else OMaxGet (vz (vnth 3 v)).
Definition svcreg_of (v : V) : svcreg := mkSvcReg (svc_of (vnth 0 v)) (map sopt_of (vl (vnth 1 v))).
Definition tcfg_of (v : V) : tcfg :=
  mkTcfg (vsl (vnth 0 v)) (vsl (vnth 1 v)) (map sopt_of (vl (vnth 2 v))) (map svcreg_of (vl (vnth 3 v))) (map rule_of (vl (vnth 4 v))).

(** sets are reported sorted and without repetitions *)
Fixpoint zinsert (x : Z) (l : list Z) : list Z :=
  match l with [] => [x] | y :: r => if x <? y then x :: l else if x =? y then l else y :: zinsert x r end.
Definition zset (l : list Z) : list Z := fold_right zinsert [] l.
Fixpoint binsert (x : bytes) (l : list bytes) : list bytes :=
  match l with
  | [] => [x]
  | y :: r => if bytes_eqb x y then l else if bytes_leb x y then x :: l else y :: binsert x r
  end.
Definition bset (l : list bytes) : list bytes := fold_right binsert [] l.

Fixpoint minsert (x : mfinal) (l : list mfinal) : list mfinal :=
  match l with [] => [x] | y :: r => if bytes_leb (mf_path x) (mf_path y) then x :: l else y :: minsert x r end.

Definition V_mfinal (m : mfinal) : V :=
  let o := mf_opts m in
  VL [VS (mf_path m); VBool true; VZl (zset (so_protocols o)); VSl (bset (so_codecs o)); VS (so_preferred o);
      VSl (bset (so_comps o)); VZ (so_maxbuf o); VZ (so_maxget o);
      VBool (match mf_rule m with Some _ => true | None => false end);
      VS (match mf_rule m with Some r => r_meth r | None => [] end);
      VSl (match mf_rule m with Some r => r_path r | None => [] end);
      VS (match mf_rule m with Some r => r_verb r | None => [] end)].

Definition V_probe (s : cst) (p : V) : V :=
  match route_request s (vs (vnth 0 p)) (vs (vnth 1 p)) with
  | NotFound => VL [VS []; VS []; VS []; VL []; VL []; VL []]
  | NotAllowed ms => VL [VS []; VS []; VS []; VL []; VL []; VSl (sort_bytes ms)]
  | Found idx vars =>
      match nth_error (cs_bindings s) idx with
      | Some b => VL [VS (cb_method_path b); VS (cb_body b); VS (cb_resp b); VSl (cb_vars b); VSl vars; VL []]
      | None => VErr "binding index"
      end
  end.

Definition run_config : runner := fun suite i =>
  if name_is suite "config.new" then
    match new_transcoder (map msg_of (vl (vnth 0 i))) (tcfg_of (vnth 1 i)) with
    | None => Some (VL [VBool false; VL []; VL []])
    | Some s => Some (VL [VBool true; VL (map V_mfinal (fold_right minsert [] (cs_methods s))); VL (map (V_probe s) (vl (vnth 2 i)))])
    end
  else None.

(** * monitors: the property as stated, evaluated on what the implementation did, against the
    generator's record of what it planted (defects) and which method each probe was built for. *)
Fixpoint last_code (c : Z) (opts : list V) (acc : option V) : option V :=
  match opts with [] => acc | o :: r => last_code c r (if vz (vnth 0 o) =? c then Some o else acc) end.

(** the option of kind [c] in force for a service: its own last one, else the last default, else none *)
Definition in_force (c : Z) (svc_opts defaults : list V) : option V :=
  match last_code c svc_opts None with Some o => Some o | None => last_code c defaults None end.

Definition method_options_ok (cfg : V) (m : V) : bool :=
  let path := vs (vnth 0 m) in
  let owner := List.find (fun sv => is_prefix ([47%N] ++ vs (vnth 0 (vnth 0 sv)) ++ [47%N]) path) (vl (vnth 3 cfg)) in
  match owner with
  | None => false
  | Some sv =>
      let so := vl (vnth 1 sv) in
      let df := vl (vnth 2 cfg) in
      let protocols := match in_force 0 so df with Some o => map vz (vl (vnth 1 o)) | None => default_protocols end in
      let codecs := match in_force 1 so df with Some o => vsl (vnth 2 o) | None => default_codec_names end in
      let preferred := match in_force 1 so df with Some o => hd [] (vsl (vnth 2 o)) | None => default_preferred_codec end in
      let comps := match in_force 2 so df with Some o => vsl (vnth 2 o) | None => default_compressor_names end in
      let maxbuf := match in_force 3 so df with Some o => vz (vnth 3 o) | None => default_maxMsgBufferBytes end in
      let maxget := match in_force 4 so df with Some o => vz (vnth 3 o) | None => default_maxGetURLBytes end in
      vb (vnth 1 m)
      && V_eqb (vnth 2 m) (VZl (zset protocols)) && V_eqb (vnth 3 m) (VSl (bset codecs)) && bytes_eqb (vs (vnth 4 m)) preferred
      && V_eqb (vnth 5 m) (VSl (bset comps)) && (vz (vnth 6 m) =? maxbuf) && (vz (vnth 7 m) =? maxget)
  end.

Fixpoint owners_ok (owners : list bytes) (probes : list V) : bool :=
  match owners, probes with
  | [], [] => true
  | w :: ow, p :: ps => (match w with [] => true | _ => bytes_eqb (vs (vnth 0 p)) w end) && owners_ok ow ps
  | _, _ => false
  end.

Definition is_neutral (d : bytes) : bool := match d with 63%N :: _ => true | _ => false end.   (* "?..." *)

Definition mon_config : monitor_t := fun suite i o =>
  if name_is suite "config.new" then
    let accepted := vb (vnth 0 o) in
    let defects := vsl (vnth 0 (vnth 3 i)) in
    let hard := filter (fun d => negb (is_neutral d)) defects in
    let acceptance :=
      match hard, defects with
      | _ :: _, _ => negb accepted            (* a configuration that cannot be served must be refused *)
      | [], _ :: _ => true                    (* refusing is the code's choice; the property does not say *)
      | [], [] => accepted                    (* a servable configuration must be accepted *)
      end in
    Some (acceptance
          && (negb accepted
              || (forallb (method_options_ok (vnth 1 i)) (vl (vnth 1 o))
                  && owners_ok (vsl (vnth 1 (vnth 3 i))) (vl (vnth 2 o)))))
  else None.
