(** Correspondence wrappers for the request-body adapters (C08, C09, C10, C01). *)
From VG Require Import Corr.Base Model.Stream Model.Envelope Model.Reader Corr.CorrLeaf.
Open Scope Z_scope.

Definition V_ecls (e : ecls) : V :=
  VS (s2b match e with
          | EEOF => "EOF" | EUnexpectedEOF => "UnexpectedEOF" | EResourceExhausted => "ResourceExhausted"
          | EInvalidArgument => "InvalidArgument" | EUpstream => "ClientAbort" | EClosed => "Closed" | EOther => "Other"
          end).
Definition V_rstat (s : rstat) : V := match s with SOk => VS [] | SErr e => V_ecls e end.

Definition ecls_of (b : bytes) : ecls :=
  if name_is b "EOF" then EEOF else if name_is b "UnexpectedEOF" then EUnexpectedEOF
  else if name_is b "ResourceExhausted" then EResourceExhausted else if name_is b "InvalidArgument" then EInvalidArgument
  else if name_is b "ClientAbort" then EUpstream else if name_is b "Closed" then EClosed else EOther.

Definition okind (v : V) : option envk := match v with VL [VZ z] => Some (kind_of z) | _ => None end.

(** cx: [cenv; senv; limit; content_len; client_comp; server_comp; single_only; same_codec; same_comp; first_may_be_empty] *)
Definition rctx_of (v : V) : rctx :=
  mkRctx (okind (vnth 0 v)) (okind (vnth 1 v)) (vz (vnth 2 v)) (vz (vnth 3 v)) (vb (vnth 4 v)) (vb (vnth 5 v))
         (vb (vnth 6 v)) (vb (vnth 7 v)) (vb (vnth 8 v)) (vb (vnth 9 v)).

(** oracle tables: list of [key; [] | [value]] *)
Fixpoint tbl_lookup (k : bytes) (l : list V) : option (option bytes) :=
  match l with
  | [] => None
  | e :: r => if bytes_eqb (vs (vnth 0 e)) k then Some (vopt_s (vnth 1 e)) else tbl_lookup k r
  end.
Definition tbl_fn (l : list V) (k : bytes) : option bytes := match tbl_lookup k l with Some r => r | None => None end.
Definition tbl_fn_total (l : list V) (k : bytes) : bytes := match tbl_fn l k with Some r => r | None => s2b "<missing>" end.

(** oracles: [decompress; decode; encode; compress; too-big keys] *)
Definition oracles_of (v : V) : oracles :=
  mkOr (tbl_fn (vl (vnth 0 v))) (tbl_fn (vl (vnth 1 v))) (tbl_fn (vl (vnth 2 v))) (tbl_fn_total (vl (vnth 3 v)))
       (fun k => existsb (bytes_eqb k) (vsl (vnth 4 v))).

Definition up_of (v : V) : up := mkUp (vsl (vnth 0 v)) (ecls_of (vs (vnth 1 v))) (vb (vnth 2 v)).

Definition next_size (ks : list Z) : Z * list Z :=
  match ks with [] => (1, []) | [k] => (k, [k]) | k :: r => (k, r) end.

(** drain: read until the first non-OK status (inclusive); bounded by fuel *)
(** every entry: the bytes and status of one Read, and how much of the client's body had been
    consumed when it returned ([total] bytes at the start, [upof] what is left) *)
Fixpoint drain {R} (rd : R -> Z -> (bytes * rstat) * R) (upof : R -> up) (total : Z) (fuel : nat) (r : R) (ks : list Z) : list V :=
  match fuel with
  | O => [VErr "fuel"]
  | S f =>
      let '(k, ks') := next_size ks in
      let '((d, st), r') := rd r k in
      let entry := VL [VS d; V_rstat st; VZ (total - zlen (flat (upof r')))] in
      match st with
      | SOk => entry :: drain rd upof total f r' ks'
      | _ => [entry]
      end
  end.

Definition sizes_of (v : V) : list Z := map vz (vl v).

Definition run_reader : runner := fun suite i =>
  if name_is suite "reader.drain" then
    (* in: [cx; oracles; upstream; sizes; kind] *)
    let cx := rctx_of (vnth 0 i) in
    let o := oracles_of (vnth 1 i) in
    let u := up_of (vnth 2 i) in
    let ks := sizes_of (vnth 3 i) in
    let fuel := (4 * (length (flat u) + 8))%nat in
    let total := zlen (flat u) in
    if vz (vnth 4 i) =? 2
    then Some (VL (drain (fun u0 k => up_read k u0) (fun u0 => u0) total fuel u ks))
    else if vz (vnth 4 i) =? 0
    then Some (VL (drain (er_read cx) er_up total fuel (er_init u) ks))
    else Some (VL (drain (tr_read (length (flat u) + 4) cx o) tr_up total fuel (tr_init u) ks))
  else None.
