(** Monitor for the message-size limit (C10) on end-to-end observations. *)
From VG Require Import Corr.Base.
Open Scope Z_scope.

(** in: [L; request direction; every representation fits; wire; plain; re-encoded; which]
    out: [client outcome code; message delivered intact; largest pooled buffer capacity; panic; backend calls] *)
Definition limits_ok (i o : V) : bool :=
  let L := vz (vnth 0 i) in
  let fits := vb (vnth 2 i) in
  let w := vz (vnth 3 i) in let p := vz (vnth 4 i) in
  let code := vz (vnth 0 o) in let delivered := vb (vnth 1 o) in
  let must_fail := (L <? w) || (L <? p) in       (* a form that has to be buffered exceeds the limit *)
  negb (vb (vnth 3 o)) &&
  (vz (vnth 2 o) <=? 4 * L + 2048) &&             (* buffers stay within a small multiple of L (plus the initial 512-byte buffers) *)
  (if fits then (code =? 0) && delivered
   else if must_fail then (code =? 8) && negb delivered
   else ((code =? 0) && delivered) || ((code =? 8) && negb delivered)).

Definition mon_limits : monitor_t := fun suite i o =>
  if name_is suite "limits.e2e" then Some (limits_ok i o) else None.
