(** Monitor for REST binding (C07) on end-to-end observations. *)
From VG Require Import Corr.Base.
Open Scope Z_scope.

(** in: [kind (0 REST client, 1 RPC -> REST -> RPC chain, 2 ill-typed parameter, 3 backend error, 4 message that does not fit the route); call; target]
    out: [backend received exactly the intended request message; client received the response message;
          client outcome code; HTTP status; backend calls; panic] *)
Definition rest_ok (i o : V) : bool :=
  let kind := vz (vnth 0 i) in
  negb (vb (vnth 5 o)) && (vz (vnth 8 o) =? 1) &&     (* no panic, one response head *)
  (if kind =? 4 then
     (* a message that cannot be put on the route of the REST hop: refused, nothing dispatched *)
     negb (vz (vnth 2 o) =? 0) && (vz (vnth 4 o) =? 0)
   else if kind =? 3 then
     (* the backend ended the RPC with an error: same code, message and number of details at the client *)
     (vz (vnth 2 o) =? vz (vnth 3 i)) && (vz (vnth 6 o) =? vz (vnth 4 i)) && vb (vnth 7 o)
   else if kind =? 2 then (vz (vnth 2 o) =? 3) && (vz (vnth 3 o) =? 400)
   else vb (vnth 0 o) && vb (vnth 1 o) && (vz (vnth 2 o) =? 0) && (vz (vnth 4 o) =? 1)).

Definition mon_rest : monitor_t := fun suite i o =>
  if name_is suite "rest.bind" then Some (rest_ok i o) else None.
