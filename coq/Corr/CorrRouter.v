(** Correspondence wrappers for the path-template parser and the route trie (C06, C07, C17). *)
From VG Require Import Corr.Base Model.Percent Model.Router Model.PathTemplate.
Open Scope Z_scope.

Definition V_onat (o : option nat) : V := match o with None => VZ (-1) | Some n => Vnat n end.

Definition V_parse (r : pres (list seg * bytes * list tvar)) : V :=
  match r with
  | POk (path, verb, vars) =>
      VL [VSl path; VS verb; VL (map (fun v => VL [VS (tv_field v); Vnat (tv_start v); V_onat (tv_end v)]) vars)]
  | PErr => VL []
  | PFuel => VErr "fuel"
  end.

Definition route_of (v : V) : route :=
  (* [method; path segs; verb; vars [[start; end]]] *)
  mkRoute (vs (vnth 0 v)) (vsl (vnth 1 v)) (vs (vnth 2 v))
          (map (fun x => mkVar (Z.to_nat (vz (vnth 0 x)))
                               (if vz (vnth 1 x) <? 0 then None else Some (Z.to_nat (vz (vnth 1 x)))))
               (vl (vnth 3 v))).

Fixpoint bytes_leb (a b : bytes) : bool :=
  match a, b with
  | [], _ => true
  | _ :: _, [] => false
  | x :: a', y :: b' => if (x <? y)%N then true else if (y <? x)%N then false else bytes_leb a' b'
  end.
Fixpoint insert_sorted (x : bytes) (l : list bytes) : list bytes :=
  match l with
  | [] => [x]
  | y :: r => if bytes_leb x y then x :: l else y :: insert_sorted x r
  end.
Definition sort_bytes (l : list bytes) : list bytes := fold_right insert_sorted [] l.

Definition V_mres (r : mres) : V :=
  match r with
  | NotFound => VL [VZ 0]
  | NotAllowed ms => VL [VZ 1; VSl (sort_bytes ms)]
  | Found i vars => VL [VZ 2; Vnat i; VSl vars]
  end.

Definition run_router : runner := fun suite i =>
  if name_is suite "template.parse" then Some (V_parse (parse_path_template (vs i)))
  else if name_is suite "router.build" then
    let rs := map route_of (vl i) in Some (VL (map VBool (snd (build rs))))
  else if name_is suite "router.match" then
    let rs := map route_of (vl (vnth 0 i)) in
    Some (V_mres (trie_match rs (fst (build rs)) (vs (vnth 1 i)) (vs (vnth 2 i))))
  else None.

(** monitor for router.match: the C06 predicate evaluated on what the implementation
    answered, by the independent matcher [tmatch] over the routes that were accepted. *)
Definition accepted (rs : list route) : list (nat * route) :=
  map (fun it => (it_idx it, nth (it_idx it) rs (mkRoute [] [] [] []))) (fst (build rs)).

Definition route_ok (rs : list route) (uri meth : bytes) (o : V) : bool :=
  match split_path uri with
  | None => V_eqb o (VL [VZ 0])
  | Some (path, verb) =>
      let acc := accepted rs in
      let matching := filter (fun ir => tmatch (r_path (snd ir)) path && bytes_eqb (r_verb (snd ir)) verb) acc in
      match vz (vnth 0 o) with
      | 0 => (* 404: no template matches, or captures of the selected one are undecodable *)
          negb (nonempty matching) ||
          existsb (fun ir => match capture_all (r_vars (snd ir)) path with None => true | Some _ => false end) matching
      | 1 => (* 405: something matches, Allow non-empty and drawn from one matching template, none for this method *)
          let allow := vsl (vnth 1 o) in
          nonempty allow &&
          existsb (fun ir =>
            forallb (fun m => existsb (fun jr => segs_eqb (r_path (snd jr)) (r_path (snd ir)) && bytes_eqb (r_meth (snd jr)) m) matching) allow &&
            negb (existsb (fun jr => segs_eqb (r_path (snd jr)) (r_path (snd ir)) &&
                                    (bytes_eqb (r_meth (snd jr)) meth || bytes_eqb (r_meth (snd jr)) star)) matching)) matching
      | _ => (* dispatched: to a matching binding with this method (or "*"), exact captures,
                and an all-literal template wins over wildcard ones *)
          let idx := Z.to_nat (vz (vnth 1 o)) in
          existsb (fun ir => Nat.eqb (fst ir) idx &&
                    (bytes_eqb (r_meth (snd ir)) meth || bytes_eqb (r_meth (snd ir)) star) &&
                    V_eqb (Vopt VSl (capture_all (r_vars (snd ir)) path)) (VSome (vnth 2 o)) &&
                    (negb (existsb (fun jr => all_literal (r_path (snd jr))) matching) || all_literal (r_path (snd ir))))
                  matching
      end
  end.

Definition mon_router : monitor_t := fun suite i o =>
  if name_is suite "router.match" then
    Some (route_ok (map route_of (vl (vnth 0 i))) (vs (vnth 1 i)) (vs (vnth 2 i)) o)
  else None.
