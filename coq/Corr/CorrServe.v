(** Correspondence wrappers for the request side of ServeHTTP (C02, C13, C18, C19). *)
From VG Require Import Corr.Base Corr.CorrRouter Model.Headers Model.RespMeta Model.Request Model.Serve.
Open Scope Z_scope.

Definition hdrs_of (v : V) : hdrs := map (fun e => (vs (vnth 0 e), vsl (vnth 1 e))) (vl v).

Fixpoint insert_hdr (x : bytes * list bytes) (l : hdrs) : hdrs :=
  match l with
  | [] => [x]
  | y :: r => if bytes_leb (fst x) (fst y) then x :: l else y :: insert_hdr x r
  end.
Definition sort_hdrs (h : hdrs) : hdrs := fold_right insert_hdr [] h.
Definition V_hdrs (h : hdrs) : V :=
  VL (map (fun kv => VL [VS (fst kv); VSl (if name_is (fst kv) "Trailer" then sort_bytes (snd kv) else snd kv)]) (sort_hdrs h)).

Definition mconf_of (v : V) : mconf :=
  mkMconf (vs (vnth 0 v)) (vz (vnth 1 v)) (vb (vnth 2 v)) (vb (vnth 3 v)) (map vz (vl (vnth 4 v)))
          (vsl (vnth 5 v)) (vs (vnth 6 v)) (vsl (vnth 7 v)) (vz (vnth 8 v)) (vz (vnth 9 v)).
(** binding: [route (as in router suites); method path; httpbody req; httpbody resp] *)
Definition rbinding_of (v : V) : rbinding :=
  mkRb (route_of (vnth 0 v)) (vs (vnth 1 v)) (vb (vnth 2 v)) (vb (vnth 3 v)).
Definition tconf_of (v : V) : tconf :=
  mkTconf (map mconf_of (vl (vnth 0 v))) (map rbinding_of (vl (vnth 4 v))) (vsl (vnth 1 v)) (vsl (vnth 2 v)) (vb (vnth 3 v)).
Definition creq_of (v : V) : creq :=
  mkReq (vs (vnth 0 v)) (vs (vnth 1 v)) (vs (vnth 7 v)) (map (fun e => (vs (vnth 0 e), vs (vnth 1 e))) (vl (vnth 2 v)))
        (vb (vnth 3 v)) (vz (vnth 4 v)) (hdrs_of (vnth 5 v)) (vz (vnth 6 v)).

Definition V_bhead (h : bhead) : V :=
  VL [VS (bh_method h); VS (bh_path h); VBool (bh_has_query h); VZ (bh_proto_major h); V_hdrs (bh_hdr h); VZ (bh_content_len h)].

Definition V_dispatch (d : dispatch) : V :=
  match d with
  | DReject st allow => VL [VZ 0; VZ st; Vopt (fun a => VSl (sort_bytes (split_comma a []))) allow]
  | DNotFound => VL [VZ 0; VZ 404; VL []]
  | DUnknown h => VL [VZ 2; V_bhead h]
  | DPass h => VL [VZ 3; V_bhead h]
  | DHandle h _ _ _ => VL [VZ 3; V_bhead h]
  | DNeedsMessage _ => VWild   (* dispatch or rejection depends on the first message: see the body suites *)
  end.

Definition run_serve : runner := fun suite i =>
  if name_is suite "serve.head" then
    Some (V_dispatch (serve_head (fun _ => None) (fun _ => []) (tconf_of (vnth 0 i)) (creq_of (vnth 1 i))))
  else None.
