(** Dispatcher used by generated case files. *)
From VG Require Export Corr.Base.
From VG Require Import Corr.CorrTimeout Corr.CorrLeaf Corr.CorrRouter Corr.CorrReader Corr.CorrServe Corr.CorrGet Corr.CorrResponse Corr.MonResponse Corr.MonDispatch Corr.MonReader Corr.MonLimits Corr.MonRest Corr.MonPool Corr.CorrConfig Corr.CorrResolver.
Open Scope Z_scope.

Definition runners : list runner := [run_timeout; run_leaf; run_router; run_reader; run_serve; run_response; run_get; run_config; run_resolver].
Definition monitors : list monitor_t := [mon_timeout; mon_leaf; mon_router; mon_response_data; mon_dispatch; mon_reader; mon_limits; mon_segments; mon_reader_meta; mon_get; mon_dual; mon_hang; mon_rest; mon_pool; mon_config].

Definition run (suite : bytes) (i : V) : option V := first_some (map (fun r => r suite i) runners).
Definition monitor (suite : bytes) (i o : V) : option bool := first_some (map (fun m => m suite i o) monitors).

(** result code per case: bit0 = model disagrees with implementation, bit1 = a property
    monitor fails on the implementation's observation, 4 = neither model nor monitor known. *)
Definition check1 (c : bytes * V * V) : Z :=
  let '(suite, i, o) := c in
  let m := match run suite i with Some v => if V_match v o then 0 else 1 | None => 0 end in
  let p := match monitor suite i o with Some true => 0 | Some false => 2 | None => 0 end in
  match run suite i, monitor suite i o with
  | None, None => 4
  | _, _ => m + p
  end.

Definition diag (suite : bytes) (i o : V) : option V := first_some [diag_response suite i o; diag_dispatch suite i o; diag_reader suite i o].
