(** Monitors for pool discipline (C14) and history independence (C15). *)
From VG Require Import Corr.Base Model.Pool.
Open Scope Z_scope.

Definition pev_of (v : V) : pev := if vz (vnth 0 v) =? 71 then PGet (vz (vnth 1 v)) else PPut (vz (vnth 1 v)).

Definition mon_pool : monitor_t := fun suite i o =>
  if name_is suite "pool.trace" then Some (pool_trace_ok (map pev_of (vl o)))
  else if name_is suite "history.probe" then
    match vl o with [a; b] => Some (V_eqb a b) | _ => Some false end
  else if name_is suite "concurrent.solo" then
    match vl o with
    | [a; b] =>
        if vz (vnth 0 i) <? 0 then
          (* full-duplex stream with a request-side fault: one head, no panic, well-formed framing,
             and a non-OK outcome exactly when there was a fault; the same both times *)
          let faulty := negb (bytes_eqb (vs (vnth 2 i)) (s2b "none")) in
          let ok1 (x : V) := (vz (vnth 0 x) =? 1) && Bool.eqb (vb (vnth 1 x)) faulty && negb (vb (vnth 2 x)) && vb (vnth 3 x) in
          Some (V_eqb a b && ok1 a)
        else Some (V_eqb a b)
    | _ => Some false
    end
  else if name_is suite "pool.ops" then
    (* every buffer handed out is empty; one that came from a Put had a capacity within the
       recycling bound (the model's [pool_put] does not keep larger ones) *)
    Some (forallb (fun g =>
            (vz (vnth 0 g) =? 0) &&
            ((vz (vnth 2 g) <? 0) ||
             match nth_error (vl i) (Z.to_nat (vz (vnth 2 g))) with
             | Some op => Nat.eqb (length (pool_put [] (mkPbuf 0 (vz (vnth 0 op)) []))) 1
             | None => false
             end)) (vl o))
  else None.
