(** Monitors for pool discipline (C14) and history independence (C15). *)
From VG Require Import Corr.Base Model.Pool.
Open Scope Z_scope.

Definition pev_of (v : V) : pev := if vz (vnth 0 v) =? 71 then PGet (vz (vnth 1 v)) else PPut (vz (vnth 1 v)).

Definition mon_pool : monitor_t := fun suite i o =>
  if name_is suite "pool.trace" then Some (pool_trace_ok (map pev_of (vl o)))
  else if name_is suite "history.probe" then
    match vl o with [a; b] => Some (V_eqb a b) | _ => Some false end
  else if name_is suite "concurrent.solo" then
    match vl o with [a; b] => Some (V_eqb a b) | _ => Some false end
  else None.
