(** Correspondence wrapper for the Connect GET request line (C19). *)
From VG Require Import Corr.Base Corr.CorrServe Model.Request Model.GetDecision.
Open Scope Z_scope.

(** in: [client method; mconf; stable; binary; codec; comp; data]; out: [is GET; raw query] *)
Definition run_get : runner := fun suite i =>
  if name_is suite "serve.getline" then
    match connect_request_line (vs (vnth 0 i)) (mconf_of (vnth 1 i)) (vb (vnth 2 i)) (vb (vnth 3 i))
                               (vs (vnth 4 i)) (vs (vnth 5 i)) (vs (vnth 6 i)) with
    | RLGet q => Some (VL [VZ 1; VS q])
    | RLPost => Some (VL [VZ 0; VS []])
    end
  else None.

(** Monitors (C19) on the implementation's observations. *)
Definition mon_get : monitor_t := fun suite i o =>
  if name_is suite "getpost.issue" then
    (* in: [client was GET; no side effects; stable codec; URL length of the GET form; limit (0 = default)]
       out: [GET issued; backend decodes the client's message; URL length issued] *)
    let limit := if vz (vnth 4 i) =? 0 then 8192 else vz (vnth 4 i) in
    let expect_get := vb (vnth 0 i) && vb (vnth 1 i) && vb (vnth 2 i) && (vz (vnth 3 i) <=? limit) in
    Some (Bool.eqb (vb (vnth 0 o)) expect_get && vb (vnth 1 o) && (negb (vb (vnth 0 o)) || (vz (vnth 2 o) <=? limit)))
  else if name_is suite "getpost.reject" then
    (* in: [form; no side effects; method]; out: [status; Allow] *)
    if (vz (vnth 0 i) =? 1) && negb (vb (vnth 1 i))
    then Some ((vz (vnth 0 o) =? 405) && name_is (vs (vnth 1 o)) "POST")
    else Some (negb (vz (vnth 0 o) =? 405) || negb (Nat.eqb (length (vs (vnth 1 o))) 0))
  else None.
