(** Correspondence wrappers and implementation monitors for the timeout suites (C12). *)
From VG Require Import Corr.Base Model.Timeout.
Open Scope Z_scope.

Definition V_res_tmo (r : res tmo) : V :=
  match r with
  | Ok NoT => VL [VZ 0]
  | Ok (T d) => VL [VZ 1; VZ d]
  | Reject => VL [VZ 2]
  end.

Definition hdr_of (i : V) : option bytes :=
  if vb (vnth 0 i) then Some (vs (vnth 1 i)) else None.

Definition enc_of (z : Z) : enc := if z =? 0 then EGrpc else if z =? 1 then EConnect else ERest.

Definition run_timeout : runner := fun suite i =>
  if name_is suite "timeout.grpc_extract" then Some (V_res_tmo (grpc_extract (hdr_of i)))
  else if name_is suite "timeout.connect_extract" then Some (V_res_tmo (connect_extract (hdr_of i)))
  else if name_is suite "timeout.grpc_encode" then Some (VS (grpc_encode (vz i)))
  else if name_is suite "timeout.connect_encode" then Some (VS (connect_encode (vz i)))
  else None.

(** * Monitors: the theorem-level predicates evaluated on what the implementation did. *)

(** exact decimal-seconds grammar for X-Server-Timeout: digits [ "." digits ], value in
    nanoseconds scaled by 10^k to stay in Z: returns (numerator, scale) meaning
    numerator / scale nanoseconds. *)
Fixpoint split_dot (l : bytes) (acc : bytes) : bytes * option bytes :=
  match l with
  | [] => (rev acc, None)
  | b :: t => if (b =? 46)%N then (rev acc, Some t) else split_dot t (b :: acc)
  end.

Definition sem_rest (s : bytes) : option (Z * Z) :=
  let '(ip, fp) := split_dot s [] in
  match fp with
  | None => if all_digits ip && (1 <=? length ip)%nat then Some (dec_val 0 ip * ns_s, 1) else None
  | Some f =>
      if all_digits ip && all_digits f && (1 <=? length ip + length f)%nat
      then let sc := 10 ^ Z.of_nat (length f) in Some ((dec_val 0 ip * sc + dec_val 0 f) * ns_s, sc)
      else None
  end.

(** client-side semantics per encoding, as (numerator, scale) *)
Definition sem_any (e : enc) (s : bytes) : option (Z * Z) :=
  match e with
  | EGrpc => match sem_grpc s with Some d => Some (d, 1) | None => None end
  | EConnect => match sem_connect s with Some d => Some (d, 1) | None => None end
  | ERest => sem_rest s
  end.

(** [deadline_ok c t hdr rejected called backend_hdr]: the C12 predicate on one observed
    exchange.  Durations are compared exactly as rationals. *)
(** REST has no formal grammar; the monitor only insists on what is unambiguous: a string with
    a character outside [0-9.eE+-], or starting with '-', must be rejected; plain decimals
    must be accepted; everything else (exponents, explicit '+') is left unspecified. *)
Definition rest_char_ok (c : N) : bool :=
  is_digit c || (c =? 46)%N || (c =? 101)%N || (c =? 69)%N || (c =? 43)%N || (c =? 45)%N.
Definition rest_definitely_malformed (s : bytes) : bool :=
  negb (forallb rest_char_ok s) || match s with 45%N :: _ => true | _ => false end.

Definition deadline_ok (c t : enc) (hdr : option bytes) (rejected called : bool) (bh : option bytes) : bool :=
  match hdr with
  | None | Some [] => negb rejected && called && match bh with None | Some [] => true | Some _ => false end
  | Some h =>
      match sem_any c h with
      | None =>
          match c with
          | ERest => if rest_definitely_malformed h then rejected && negb called else true
          | _ => rejected && negb called
          end
      | Some (dn, ds) =>
          negb rejected && called &&
          match bh with
          | None => match c with EGrpc => grpc_beyond h | _ => false end
          | Some h' =>
              match sem_any t h' with
              | None => false
              | Some (dn', ds') =>
                  (* d' <= d *)
                  let le := dn' * ds <=? dn * ds' in
                  (* relative float slack for REST legs beyond 10^15 ns: 1 part in 2^50 *)
                  let is_rest := match c, t with ERest, _ | _, ERest => true | _, _ => false end in
                  let le_slack := (dn' * ds) * 1125899906842624 <=? (dn * ds') * 1125899906842625 in
                  let unit := match t with
                              | EGrpc => unit_of_grpc h'
                              | EConnect => ns_ms
                              | ERest => 1
                              end in
                  (* d - d' < unit  (REST legs: float rounding may lose up to 1 ns + 2^-50 relative) *)
                  let short := dn * ds' - dn' * ds in
                  let within := short <? (unit + (if is_rest then 1 else 0)) * ds * ds' + (if is_rest then (dn * ds') / 1125899906842624 else 0) in
                  let clamp := match t with
                               | EConnect => (dn' =? 9999999999 * ns_ms) && (9999999999 * ns_ms * ds <? dn)
                               | _ => false
                               end in
                  (* a REST client value beyond time.Duration's range is clamped to the largest duration *)
                  let clamp_range := match c with
                                     | ERest => (max_int64 * ds <? dn) && (max_int64 * ds' - unit * ds' <? dn' )
                                     | _ => false
                                     end in
                  (if is_rest then le_slack else le) && (within || clamp || clamp_range)
              end
          end
      end
  end.

Definition mon_timeout : monitor_t := fun suite i o =>
  if name_is suite "deadline.e2e" then
    (* in: [client enc; target enc; present; header] ; out: [rejected; called; backend header present; backend header] *)
    let c := enc_of (vz (vnth 0 i)) in
    let t := enc_of (vz (vnth 1 i)) in
    let hdr := if vb (vnth 2 i) then Some (vs (vnth 3 i)) else None in
    let bh := if vb (vnth 2 o) then Some (vs (vnth 3 o)) else None in
    Some (deadline_ok c t hdr (vb (vnth 0 o)) (vb (vnth 1 o)) bh)
  else if name_is suite "timeout.grpc_extract" then
    (* leaf-level monitor: spec-valid accepted with exact value, malformed rejected *)
    match hdr_of i with
    | Some (b :: r) =>
        let h := b :: r in
        Some match sem_grpc h with
             | Some d => if grpc_beyond h then V_eqb o (VL [VZ 0]) else V_eqb o (VL [VZ 1; VZ d])
             | None => V_eqb o (VL [VZ 2])
             end
    | _ => Some (V_eqb o (VL [VZ 0]))
    end
  else if name_is suite "timeout.connect_extract" then
    match hdr_of i with
    | Some (b :: r) =>
        let h := b :: r in
        Some match sem_connect h with
             | Some d => V_eqb o (VL [VZ 1; VZ d])
             | None => V_eqb o (VL [VZ 2])
             end
    | _ => Some (V_eqb o (VL [VZ 0]))
    end
  else if name_is suite "timeout.grpc_encode" then
    let d := vz i in
    Some match sem_grpc (vs o) with
         | Some d' => if d <=? 0 then d' =? 0 else (d' <=? d) && (d - d' <? unit_of_grpc (vs o))
         | None => false
         end
  else if name_is suite "timeout.connect_encode" then
    let d := vz i in
    if d <? 0 then Some true (* outside the theorem's domain: durations extracted from clients are >= 0 *) else
    Some match sem_connect (vs o) with
         | Some d' => (d' <=? d) && ((d - d' <? ns_ms) || ((d' =? 9999999999 * ns_ms) && (9999999999 * ns_ms <? d)))
         | None => false
         end
  else None.
