(** Monitors on what the backend actually read (C01 request side, C02 envelopes, C08
    segmentation, C09 truncation).  Uses the client's intent recorded by the generator and the
    library oracles only. *)
From VG Require Import Corr.Base Corr.CorrLeaf Corr.CorrReader Model.Stream Model.Envelope Model.Reader.
Open Scope Z_scope.

(** in: [cx; oracles(+[5] = server-codec decode table); upstream; sizes; kind; intent]
    intent: [ids of the client's messages (canonical bytes; [] marker = undecodable) as list of [ok; id];
             hard fault (cut inside a frame, illegal flag byte); soft fault (garbage, corrupt, lying length)] *)

Fixpoint parse_frames (fuel : nat) (b : bytes) : list (N * bytes) * bytes :=
  match fuel with
  | O => ([], b)
  | S f =>
      match b with
      | fl :: b1 :: b2 :: b3 :: b4 :: rest =>
          let n := be32 b1 b2 b3 b4 in
          if zlen rest <? n then ([], b)
          else let '(fs, lft) := parse_frames f (zdrop n rest) in ((fl, ztake n rest) :: fs, lft)
      | _ => ([], b)
      end
  end.

Definition msg_id (cx : rctx) (ortab : V) (flag : N) (payload : bytes) : option bytes :=
  let sdecode := tbl_fn (vl (vnth 5 ortab)) in
  let decompress := tbl_fn (vl (vnth 6 ortab)) in   (* unbounded gunzip, independent of the limit *)
  let plain := if (flag =? 1)%N && negb (Nat.eqb (length payload) 0) then decompress payload else Some payload in
  match plain with Some p => sdecode p | None => None end.

Fixpoint is_prefix_ids (a b : list bytes) : bool :=
  match a, b with
  | [], _ => true
  | x :: a', y :: b' => bytes_eqb x y && is_prefix_ids a' b'
  | _, [] => false
  end.

(** C16, request side: a Read hands over bytes of one message only - it returns at the end of a
    message instead of going on to the next one (for which it might have to wait).
    [ends]: offsets in the delivered stream at which a frame ends. *)
Fixpoint frame_ends (pos : Z) (frames : list (N * bytes)) : list Z :=
  match frames with
  | [] => []
  | f :: r => let e := pos + 5 + zlen (snd f) in e :: frame_ends e r
  end.
Fixpoint reads_stay_in_frames (ends : list Z) (pos : Z) (reads : list V) : bool :=
  match reads with
  | [] => true
  | r :: rest =>
      let q := pos + zlen (vs (vnth 0 r)) in
      negb (existsb (fun e => (pos <? e) && (e <? q)) ends) && reads_stay_in_frames ends q rest
  end.

Definition reader_ok (i o : V) : bool :=
  let cx := rctx_of (vnth 0 i) in
  let ortab := vnth 1 i in
  let it := vnth 5 i in
  let want := map (fun m => vs (vnth 1 m)) (filter (fun m => vb (vnth 0 m)) (vl (vnth 0 it))) in
  let all_ok := forallb (fun m => vb (vnth 0 m)) (vl (vnth 0 it)) in
  let hard := vb (vnth 1 it) in
  let soft := vb (vnth 2 it) in
  let reads := vl o in
  let data := flat_map (fun r => vs (vnth 0 r)) reads in
  let final := match rev reads with r :: _ => vs (vnth 1 r) | [] => [] end in
  let clean := name_is final "EOF" in
  if vz (vnth 4 i) =? 2 then true (* pass-through is covered by the dispatch suite *) else
  (* C16, re-framing path: when a Read returns, what has been taken from the client's body beyond
     what was handed on is at most one envelope prefix - the reader never waits for the next message
     (a client without envelopes is different: its whole body is the message and may be measured first) *)
  (negb (vz (vnth 4 i) =? 0) || match cenv cx with None => true | Some _ => false end ||
   (fix go (rs : list V) (delivered : Z) : bool :=
      match rs with
      | [] => true
      | r :: rest =>
          let delivered' := delivered + zlen (vs (vnth 0 r)) in
          (vz (vnth 2 r) - delivered' <=? 5 + 5) && go rest delivered'
      end) reads 0) &&
  match senv cx with
  | Some _ =>
      let '(frames, lft) := parse_frames (S (length data)) data in
      (* C02: flag bits legal for a request, compressed bit only under a declared compression *)
      let flags_ok := forallb (fun f => ((fst f =? 0) || (fst f =? 1))%N && (negb (fst f =? 1)%N || server_comp cx)) frames in
      (* complete frames decode to the client's intact messages, in order *)
      let ids := map (fun f => msg_id cx ortab (fst f) (snd f)) frames in
      (* the decodable prefix of what the backend got is a prefix of what the client sent; on the
         re-framing path payloads are relayed verbatim, so an undecodable one (soft fault) may pass *)
      let decodable := (fix go (l : list (option bytes)) : list bytes :=
                          match l with Some b :: r => b :: go r | _ => [] end) ids in
      let ids_ok := is_prefix_ids decodable want &&
                    (soft || forallb (fun x => match x with Some _ => true | None => false end) ids) in
      let complete := Nat.eqb (length ids) (length want) in
      flags_ok && ids_ok && reads_stay_in_frames (frame_ends 0 frames) 0 reads &&
      (* C09: a stream cut inside a frame or carrying an illegal flag never ends cleanly *)
      (* (a soft fault or the size limit earlier in the stream may legitimately end it first) *)
      (negb hard || soft || negb clean) &&
      (* C01: an intact stream read to a clean end delivered every message, nothing left over *)
      (negb (clean && negb hard && negb soft && all_ok) || (complete && Nat.eqb (length lft) 0))
  | None =>
      (* un-enveloped backend: the body is one message (or nothing) *)
      if clean && negb hard && negb soft && all_ok then
        match want with
        | [w] => match msg_id cx ortab (if server_comp cx then 1%N else 0%N) data with
                 | Some id => bytes_eqb id w
                 | None => false
                 end
        | [] => true    (* no message from an enveloped client: an empty body *)
        | _ => false    (* several messages cannot end cleanly towards a backend without framing *)
        end
      else negb hard || soft || negb clean
  end.

Definition mon_reader : monitor_t := fun suite i o =>
  if name_is suite "reader.drain" then Some (reader_ok i o) else None.

Definition diag_reader (suite : bytes) (i o : V) : option V :=
  if name_is suite "reader.drain" then
    let cx := rctx_of (vnth 0 i) in
    let data := flat_map (fun r => vs (vnth 0 r)) (vl o) in
    let '(frames, lft) := parse_frames (S (length data)) data in
    Some (VL [VL (map (fun f => VL [VN (fst f); Vopt VS (msg_id cx (vnth 1 i) (fst f) (snd f))]) frames); VS lft; vnth 5 i])
  else None.

(** C08, request side: the same client byte stream under different upstream chunkings and
    handler buffer sizes hands the backend the same bytes and the same final status *)
Definition drained (o : V) : V :=
  let reads := vl o in
  VL [VS (flat_map (fun r => vs (vnth 0 r)) reads); match rev reads with r :: _ => vnth 1 r | [] => VS [] end].
Definition mon_reader_meta : monitor_t := fun suite i o =>
  if name_is suite "reader.meta" then
    match map drained (vl o) with
    | [] => Some true
    | x :: r => Some (forallb (V_eqb x) r)
    end
  else None.
