(** Correspondence for type resolution (C20): suites "resolver.fallback", "resolver.register". *)
From VG Require Import Corr.Base Model.Resolver.
Open Scope Z_scope.

Definition V_rres (r : rres) : V :=
  match r with
  | RFound w => VL [VZ w; VZ 0; VZ (-1)]
  | RNotFound => VL [VZ (-1); VZ 1; VZ (-1)]
  | RErr w => VL [VZ (-1); VZ 2; VZ w]
  end.

Definition run_resolver : runner := fun suite i =>
  if name_is suite "resolver.fallback" then
    let m := Z.to_nat (vz (vnth 1 i)) in
    Some (V_rres (fallback (map (fun row => vz (vnth m row)) (vl (vnth 0 i)))))
  else if name_is suite "resolver.register" then
    Some (VL [VBool (match resolve_for_method (answer (vz (vnth 0 i)) 0) with TFail => false | _ => true end)])
  else None.
