(** Monitors for dispatch and pass-through (C13, C18) on the implementation's observations. *)
From VG Require Import Corr.Base Corr.CorrRouter Corr.CorrServe Model.Headers Model.Request Model.Serve.
Open Scope Z_scope.

(** in:  [tconf; creq; body; response script summary [status; headers; body; trailers]]
    out: [backend calls; unknown calls; ctx done; late use; panic;
          [head; body; last read status] of whoever was called;
          [heads; status; head headers; body; trailers] seen by the client] *)

Definition dispatch_counts_ok (o : V) : bool :=
  let calls := vz (vnth 0 o) + vz (vnth 1 o) in
  (calls <=? 1) && negb (vb (vnth 4 o)) && (vz (vnth 3 o) =? 0) &&
  ((calls =? 0) || vb (vnth 2 o)).

(** the client's own request head, as the downstream handler must see it *)
Definition head_identity (r : creq) (seen : V) : bool :=
  V_eqb seen (V_bhead (original_head r)).

Definition passthrough_ok (i o : V) : bool :=
  let t := tconf_of (vnth 0 i) in
  let r := creq_of (vnth 1 i) in
  let body := vs (vnth 2 i) in
  let resp := vnth 3 i in
  let untouched :=
    let seen := vnth 5 o in
    let cli := vnth 6 o in
    head_identity r (vnth 0 seen) && bytes_eqb (vs (vnth 1 seen)) body &&
    (vz (vnth 0 cli) =? 1) && (vz (vnth 1 cli) =? vz (vnth 0 resp)) &&
    V_eqb (vnth 2 cli) (vnth 1 resp) && bytes_eqb (vs (vnth 3 cli)) (vs (vnth 2 resp)) &&
    V_eqb (vnth 4 cli) (vnth 3 resp) in
  match serve_head (fun _ => None) (fun _ => []) t r with
  | DPass _ => (vz (vnth 0 o) =? 1) && (vz (vnth 1 o) =? 0) && untouched
  | DUnknown _ => (vz (vnth 0 o) =? 0) && (vz (vnth 1 o) =? 1) && untouched
  | DReject _ _ | DNotFound => (vz (vnth 0 o) + vz (vnth 1 o) =? 0)   (* C18: rejected, no dispatch *)
  | _ => true
  end.

(** C18: a leading message that is needed to build the backend request but cannot be decoded
    (or was not finished) means no dispatch at all *)
Definition leading_reject_ok (i o : V) : bool :=
  negb (vb (vnth 4 i)) || (vz (vnth 0 o) + vz (vnth 1 o) =? 0).

Definition mon_dispatch : monitor_t := fun suite i o =>
  if name_is suite "serve.dispatch" then Some (dispatch_counts_ok o && passthrough_ok i o && leading_reject_ok i o) else None.

Definition diag_dispatch (suite : bytes) (i o : V) : option V :=
  if name_is suite "serve.dispatch" then Some (VL [VBool (dispatch_counts_ok o); VBool (passthrough_ok i o)]) else None.
