(** Helpers shared by the correspondence wrappers: decoding scenario inputs from the
    universal value type, building observations. *)
From VG Require Export Model.Bytes.
Open Scope Z_scope.

Definition name_is (a : bytes) (s : string) : bool := bytes_eqb a (s2b s).

Definition vz (v : V) : Z := match v with VZ z => z | _ => 0 end.
Definition vs (v : V) : bytes := match v with VS b => b | _ => [] end.
Definition vl (v : V) : list V := match v with VL l => l | _ => [] end.
Definition vb (v : V) : bool := negb (vz v =? 0).
Definition vnth (n : nat) (v : V) : V := nth n (vl v) (VL []).
Definition vopt_s (v : V) : option bytes := match v with VL [VS b] => Some b | _ => None end.
Definition vopt_z (v : V) : option Z := match v with VL [VZ z] => Some z | _ => None end.
Definition vsl (v : V) : list bytes := map vs (vl v).

Definition VSl (l : list bytes) : V := VL (map VS l).
Definition VZl (l : list Z) : V := VL (map VZ l).
Definition VN (n : N) : V := VZ (Z.of_N n).
Definition Vnat (n : nat) : V := VZ (Z.of_nat n).

(** A correspondence wrapper: suite name -> input -> model observation.  [None] = suite not
    handled by this wrapper. *)
Definition runner := bytes -> V -> option V.
Definition monitor_t := bytes -> V -> V -> option bool.

Fixpoint first_some {A} (l : list (option A)) : option A :=
  match l with [] => None | Some a :: _ => Some a | None :: r => first_some r end.

(** wildcard: a model observation may leave a component unspecified *)
Definition VWild : V := VS (s2b "<any>").
Fixpoint V_match (model impl : V) {struct model} : bool :=
  match model, impl with
  | VS m, _ => if bytes_eqb m (s2b "<any>") then true else match impl with VS x => bytes_eqb m x | _ => false end
  | VZ x, VZ y => x =? y
  | VL x, VL y =>
      (fix go (x y : list V) : bool :=
         match x, y with
         | [], [] => true
         | u :: x', v :: y' => V_match u v && go x' y'
         | _, _ => false
         end) x y
  | _, _ => false
  end.
