(** Correspondence wrappers for the leaf codecs: envelopes, status tables, percent encodings. *)
From VG Require Import Corr.Base Model.Envelope Model.Status Model.Percent.
Open Scope Z_scope.

Definition kind_of (z : Z) : envk :=
  if z =? 0 then GrpcC else if z =? 1 then GrpcS else if z =? 2 then WebC else if z =? 3 then WebS
  else if z =? 4 then ConnC else ConnS.

Definition V_env (o : option envelope) : V :=
  match o with
  | None => VL []
  | Some e => VL [VBool (e_trailer e); VBool (e_compressed e); VZ (e_len e)]
  end.

Definition run_leaf : runner := fun suite i =>
  if name_is suite "env.decode" then Some (V_env (decode_env (kind_of (vz (vnth 0 i))) (vs (vnth 1 i))))
  else if name_is suite "env.encode" then
    Some (VS (encode_env (kind_of (vz (vnth 0 i))) (mkEnv (vb (vnth 1 i)) (vb (vnth 2 i)) (vz (vnth 3 i)))))
  else if name_is suite "status.from_rpc" then Some (Vopt VZ (http_status_from_rpc (vz i)))
  else if name_is suite "status.to_rpc" then Some (VZ (http_status_to_rpc (vz i)))
  else if name_is suite "percent.grpc_encode" then Some (VS (grpc_percent_encode (vs i)))
  else if name_is suite "percent.grpc_decode" then Some (Vopt VS (grpc_percent_decode (vs i)))
  else if name_is suite "path.escape" then Some (VS (path_escape (vb (vnth 0 i)) (vs (vnth 1 i))))
  else if name_is suite "path.unescape" then Some (Vopt VS (path_unescape (vb (vnth 0 i)) (vs (vnth 1 i))))
  else None.

Definition mon_leaf : monitor_t := fun suite i o =>
  if name_is suite "env.decode" then
    let k := kind_of (vz (vnth 0 i)) in
    match vs (vnth 1 i) with
    | f :: _ => Some (Bool.eqb (match o with VL [] => true | _ => false end) (negb (spec_legal k (Z.of_N f))))
    | _ => None
    end
  else if name_is suite "status.from_rpc" then
    Some (V_eqb o (VL [VZ (spec_http_of_rpc (vz i))]))
  else if name_is suite "status.to_rpc" then Some (V_eqb o (VZ (spec_rpc_of_http (vz i))))
  else if name_is suite "percent.grpc_encode" then
    Some (forallb (fun c => (32 <=? c)%N && (c <=? 126)%N) (vs o))
  else None.
