(** Correspondence wrapper for the response side (C03, C04, C05, C09, C10, C11, C16). *)
From VG Require Import Corr.Base Corr.CorrRouter Corr.CorrReader Corr.CorrServe
     Model.Headers Model.RespMeta Model.Request Model.Serve Model.Response.
Open Scope Z_scope.

Definition V_emsg (m : emsg) : V := match m with MRelayed b => VS b | MGen => VS (s2b "<gen>") end.
Definition V_err (e : option rpcerr) : list V :=
  match e with
  | None => [VZ 0; VS []; VL []]
  | Some x => [VZ (e_code x); V_emsg (e_msg x); VL (map (fun d => VL [VS (fst d); VS (snd d)]) (e_details x))]
  end.
(** trailers are reported separately only where the client protocol keeps them apart from the
    headers (HTTP trailers, gRPC-Web trailer frame, Connect end-stream metadata) *)
Definition V_end (separable : bool) (place : Z) (e : rend) : V :=
  VL ([VZ place] ++ V_err (re_err e) ++ [if separable then V_hdrs (re_trailers e) else VWild]).

Definition err_of_V (v : V) : rpcerr :=
  mkErr (vz (vnth 0 v)) (MRelayed (vs (vnth 1 v))) (map (fun d => (vs (vnth 0 d), vs (vnth 1 d))) (vl (vnth 2 v))).

(** tables: list of [key; [] | [value]] with structured values *)
Fixpoint tbl_find (k : bytes) (l : list V) : option V :=
  match l with
  | [] => None
  | e :: r => if bytes_eqb (vs (vnth 0 e)) k then (match vnth 1 e with VL [x] => Some x | _ => None end) else tbl_find k r
  end.

Definition eoracles_of (v : V) : eoracles :=
  mkEor (fun k => match tbl_find k (vl (vnth 0 v)) with
                  | Some x => Some (vz (vnth 0 x), vs (vnth 1 x), map (fun d => (vs (vnth 0 d), vs (vnth 1 d))) (vl (vnth 2 x)))
                  | None => None end)
        (fun k => match tbl_find k (vl (vnth 1 v)) with Some x => Some (err_of_V x) | None => None end)
        (fun k => match tbl_find k (vl (vnth 2 v)) with
                  | Some x => Some ((match vnth 0 x with VL [e] => Some (err_of_V e) | _ => None end), hdrs_of (vnth 1 x))
                  | None => None end)
        (fun st ct body => match tbl_find body (vl (vnth 3 v)) with Some x => Some (err_of_V x) | None => None end).

Definition baction_of (v : V) : baction :=
  let op := vs (vnth 0 v) in
  if name_is op "hadd" then BHadd (vs (vnth 1 v)) (vs (vnth 2 v))
  else if name_is op "hset" then BHset (vs (vnth 1 v)) (vs (vnth 2 v))
  else if name_is op "status" then BStatus (vz (vnth 1 v))
  else if name_is op "write" then BWrite (vs (vnth 1 v))
  else if name_is op "readfault" then
    BReadFault (if vz (vnth 1 v) =? 3 then EInvalidArgument else if vz (vnth 1 v) =? 8 then EResourceExhausted else EOther)
  else BFlush.

Definition is_panic (w : wres) : bool := match w with WPanic => true | _ => false end.

(** projection of the delegate log *)
(** trailers as net/http sends them from the final header map: prefixed keys, plus plain keys
    declared in the head's Trailer header *)
Definition final_trailers (head final : hdrs) : hdrs :=
  let declared := map canon_key (parse_multi_header (hvalues (s2b "Trailer") head)) in
  let grpc_key k := name_is k "Grpc-Status" || name_is k "Grpc-Message" || name_is k "Grpc-Status-Details-Bin" in
  fold_left (fun acc kv =>
      let k := fst kv in
      if is_prefix trailer_prefix k then
        let k' := strip_prefix trailer_prefix k in
        if grpc_key k' then acc else hput k' (hvalues k' acc ++ snd kv) acc
      else if existsb (bytes_eqb k) declared && negb (grpc_key k) && negb (V_eqb (VSl (hvalues k head)) (VSl (snd kv))) then hput k (snd kv ++ hvalues k acc) acc
      else acc) final [].

Definition project (c : cproto) (final : hdrs) (out : list devent) (wr : list wres) (res : wres) : V :=
  let framed := match c with CGrpcWeb | CConnectStream => true | _ => false end in
  let head_h := match filter (fun e => match e with DHead _ _ _ => true | _ => false end) out with
                | DHead _ h _ :: _ => h | _ => [] end in
  let heads := filter (fun e => match e with DHead _ _ _ => true | _ => false end) out in
  let data := flat_map (fun e => match e with DWrite b => b | _ => [] end) out in
  let ends := flat_map (fun e => match e with
                                 | DEnd e' => [V_end framed 1 e']
                                 | DTrailers e' => [V_end true 2 (mkEnd (re_err e') (final_trailers head_h final) (re_http e') (re_wascomp e'))]
                                 | DHead _ _ (Some e') => [V_end false 3 e']
                                 | _ => [] end) out in
  let head := match heads with
              | DHead code h _ :: _ => [VZ code; V_hdrs h]
              | _ => [VZ 0; VL []]
              end in
  (* body offsets at which the underlying writer was flushed, up to the end of the data *)
  let flushes :=
    (fix go (l : list devent) (off : Z) (last : option Z) : list Z :=
       match l with
       | [] => []
       | DWrite b :: r => go r (off + Z.of_nat (length b)) last
       | DFlush :: r => if match last with Some x => x =? off | None => false end then go r off last else off :: go r off (Some off)
       | DEnd _ :: _ => []
       | _ :: r => go r off last
       end) out 0 None in
  (* bytes written after the end rendered into the body *)
  let after_end :=
    (fix go (l : list devent) (seen : bool) : Z :=
       match l with
       | [] => 0
       | DEnd _ :: r => go r true
       | DWrite b :: r => (if seen then Z.of_nat (length b) else 0) + go r seen
       | _ :: r => go r seen
       end) out false in
  VL ([VBool (is_panic res || existsb is_panic wr); Vnat (length heads)] ++ head ++ [VS data; VL ends;
      VL (map (fun w => VBool (match w with WOk => true | _ => false end)) wr); VZl flushes;
      VZ (if framed then after_end else 0)]).

Definition run_response : runner := fun suite i =>
  if name_is suite "serve.response" then
    let t := tconf_of (vnth 0 i) in
    let r := creq_of (vnth 1 i) in
    match validate (fun _ => None) t r with
    | VOk o =>
        if is_passthrough o then Some (VErr "passthrough") else
        let cx := response_ctx t o (oracles_of (vnth 3 i)) (eoracles_of (vnth 4 i)) (fun _ => vz (vnth 5 i)) in
        let '(rw', wr, res) := serve_response cx [] (map baction_of (vl (vnth 2 i))) in
        Some (project (op_client o) (c_hdr (r_core rw')) (c_out (r_core rw')) wr res)
    | _ => Some (VErr "not-valid")
    end
  else None.
