(** Property monitors evaluated on the implementation's observed client response
    (C03, C04, C05, C09 response side, C11).  They use only the protocol specifications and
    the backend's intent recorded by the scenario generator - never the model. *)
From VG Require Import Corr.Base Corr.CorrRouter Corr.CorrServe Model.Headers Model.Status.
Open Scope Z_scope.

(** intent: [form; wellformed; kind (0 ok, 1 rpc error, 2 bare http); code; msg; details; trailers; headers; connect-unary target; bare status] *)
Record intent := mkIntent { i_form : Z; i_wellformed : bool; i_kind : Z; i_code : Z; i_msg : bytes; i_details : V;
                            i_trailers : hdrs; i_headers : hdrs; i_unary_target : bool; i_bare : Z; i_trailers_only : bool; i_lenient : bool }.
Definition intent_of (v : V) : intent :=
  mkIntent (vz (vnth 0 v)) (vb (vnth 1 v)) (vz (vnth 2 v)) (vz (vnth 3 v)) (vs (vnth 4 v)) (vnth 5 v)
           (hdrs_of (vnth 6 v)) (hdrs_of (vnth 7 v)) (vb (vnth 8 v)) (vz (vnth 9 v)) (vb (vnth 10 v)) (vb (vnth 11 v)).

(** out: [panic; heads; status; head headers; data; ends; write results] *)
Definition o_panic (o : V) := vb (vnth 0 o).
Definition o_heads (o : V) := vz (vnth 1 o).
Definition o_status (o : V) := vz (vnth 2 o).
Definition o_head (o : V) := hdrs_of (vnth 3 o).
Definition o_data (o : V) := vs (vnth 4 o).
Definition o_ends (o : V) := vl (vnth 5 o).
Definition end_place (e : V) := vz (vnth 0 e).
Definition end_code (e : V) := vz (vnth 1 e).
Definition end_msg (e : V) := vs (vnth 2 e).
Definition end_details (e : V) := vnth 3 e.
Definition end_trailers (e : V) := vnth 4 e.

(* forms: 0 connect-post, 1 connect-get, 2 connect-stream, 3 grpc, 4 grpcweb, 5 rest *)
Definition unary_form (f : Z) : bool := (f =? 0) || (f =? 1) || (f =? 5).

(** C03: exactly one terminal disposition, in the place the client's protocol defines *)
Definition one_terminal (f : Z) (o : V) : bool :=
  let ends := o_ends o in
  let no_bad := forallb (fun e => negb (end_code e =? -1)) ends in
  no_bad &&
  match ends with
  | [e] =>
      if f =? 3 then ((end_place e =? 2) || ((end_place e =? 3) && Nat.eqb (length (o_data o)) 0))
      else if f =? 4 then ((end_place e =? 1) || ((end_place e =? 3) && Nat.eqb (length (o_data o)) 0))
      else if f =? 2 then (end_place e =? 1)
      else (end_place e =? 1) && negb (o_status o =? 200) && negb (end_code e =? 0)
  | [] => unary_form f && (o_status o =? 200)
  | _ => false
  end.

(** the outcome code the client observes (0 = success) *)
Definition outcome_code (o : V) : Z := match o_ends o with e :: _ => end_code e | [] => 0 end.

(** C03: status and content-type the client's protocol prescribes *)
Definition status_ct_ok (f : Z) (o : V) : bool :=
  let ct := hget (s2b "Content-Type") (o_head o) in
  let code := outcome_code o in
  if f =? 3 then (o_status o =? 200) && is_prefix (s2b "application/grpc+") ct && (17 <? Z.of_nat (length ct))
  else if f =? 4 then (o_status o =? 200) && is_prefix (s2b "application/grpc-web+") ct && (21 <? Z.of_nat (length ct))
  else if f =? 2 then (o_status o =? 200) && is_prefix (s2b "application/connect+") ct && (20 <? Z.of_nat (length ct))
  else if (f =? 0) || (f =? 1) then
    if code =? 0 then (o_status o =? 200) && is_prefix (s2b "application/") ct && (12 <? Z.of_nat (length ct))
    else (o_status o =? spec_http_of_rpc code) && bytes_eqb ct (s2b "application/json")
  else (* REST *)
    if code =? 0 then (o_status o / 100 =? 2) else (o_status o =? spec_http_of_rpc code).

(** C03: a Content-Length, when present, equals the body length (unary success bodies) *)
Definition content_length_ok (f : Z) (o : V) : bool :=
  match hvalues (s2b "Content-Length") (o_head o) with
  | [] => true
  | [v] => if unary_form f && (outcome_code o =? 0)
           then match Model.Timeout.parse_uint64 v with Some n => n =? Z.of_nat (length (o_data o)) | None => false end
           else true
  | _ => false
  end.

(** C04 / C09: the observed outcome against the backend's intent *)
Definition outcome_ok (it : intent) (o : V) : bool :=
  let code := outcome_code o in
  if i_lenient it then true else
  if negb (i_wellformed it) then
    (* malformed or unsupported backend responses, and codes outside 1..16, never surface as success *)
    negb (code =? 0)
  else if i_kind it =? 0 then code =? 0
  else if i_kind it =? 2 then code =? spec_rpc_of_http (i_bare it)
  else
    match o_ends o with
    | e :: _ => (end_code e =? i_code it) && bytes_eqb (end_msg e) (i_msg it) &&
                ((i_form it =? 5) || V_eqb (end_details e) (i_details it))
    | [] => false
    end.

(** [want]'s values appear, in order, among [have]'s values for the same key (a key used both
    as header and as declared trailer legitimately repeats values) *)
Fixpoint subseq (a b : list bytes) : bool :=
  match a, b with
  | [], _ => true
  | _, [] => false
  | x :: a', y :: b' => if bytes_eqb x y then subseq a' b' else subseq a b'
  end.
Definition hdr_subset (want have : hdrs) : bool :=
  forallb (fun kv => subseq (snd kv) (hvalues (fst kv) have)) want.

Definition is_status_key (k : bytes) : bool :=
  name_is k "Grpc-Status" || name_is k "Grpc-Message" || name_is k "Grpc-Status-Details-Bin".

(** C05: application headers and trailers survive, trailers in the client protocol's place,
    status keys never among application metadata *)
Definition metadata_ok (it : intent) (o : V) : bool :=
  let f := i_form it in
  if negb (i_wellformed it) || (i_kind it =? 2) || i_lenient it then true else
  let want_hdr := filter (fun kv => negb (i_unary_target it && is_prefix (s2b "Trailer-") (fst kv))) (i_headers it) in
  let head_ok := hdr_subset want_hdr (o_head o) in
  let tr := i_trailers it in
  let trailers_ok :=
    match o_ends o with
    | e :: _ =>
        if end_place e =? 3 then hdr_subset tr (o_head o)
        else if unary_form f then hdr_subset (map (fun kv => (s2b "Trailer-" ++ fst kv, snd kv)) tr) (o_head o)
        else hdr_subset tr (hdrs_of (end_trailers e)) &&
             negb (existsb (fun kv => is_status_key (fst kv)) (hdrs_of (end_trailers e)))
    | [] => hdr_subset (map (fun kv => (s2b "Trailer-" ++ fst kv, snd kv)) tr) (o_head o)
    end in
  (* a trailers-only gRPC response carries its trailers as headers: either place is faithful *)
  head_ok && (trailers_ok || (i_trailers_only it && hdr_subset tr (o_head o))).

(** C03: nothing follows the end of the stream *)
Definition nothing_after_end (o : V) : bool := vz (vnth 8 o) =? 0.

Definition response_ok (it : intent) (o : V) : bool :=
  negb (o_panic o) && (o_heads o =? 1) && one_terminal (i_form it) o && nothing_after_end o && status_ct_ok (i_form it) o &&
  content_length_ok (i_form it) o && outcome_ok it o && metadata_ok it o.

(** which conjunct failed, for replay files *)
Definition response_diag (it : intent) (o : V) : V :=
  VL [VBool (negb (o_panic o)); VBool (o_heads o =? 1); VBool (one_terminal (i_form it) o); VBool (status_ct_ok (i_form it) o);
      VBool (content_length_ok (i_form it) o); VBool (outcome_ok it o); VBool (metadata_ok it o)].

Definition mon_response : monitor_t := fun suite i o =>
  if name_is suite "serve.response" then Some (response_ok (intent_of (vnth 6 i)) o) else None.

Definition diag_response (suite : bytes) (i o : V) : option V :=
  if name_is suite "serve.response" then Some (response_diag (intent_of (vnth 6 i)) o) else None.

(** C08, response side: the same handler byte stream under different Write/Flush
    segmentations gives the client the same response *)
Definition all_equal (l : list V) : bool :=
  match l with [] => true | x :: r => forallb (V_eqb x) r end.
Definition mon_segments : monitor_t := fun suite i o =>
  if name_is suite "segments.meta" then Some (all_equal (vl o)) else None.

(** C20: the same scenario against differently loaded schemas gives identical observations *)
Definition mon_dual : monitor_t := fun suite i o =>
  if name_is suite "dual.meta" then Some (all_equal (vl o)) else None.

(** C11: ServeHTTP returned for every request (the harness abandons a call that does not and reports it) *)
Definition mon_hang : monitor_t := fun suite i o =>
  if name_is suite "hang.e2e" then Some false
  else if name_is suite "poolwrite.e2e" then Some false   (* C14/C15: a released buffer was written to *)
  else None.

(** * C01 / C03 on the response body: envelopes well-formed, compressed flag and declared
    compression agree with the bytes, messages are the backend's, in order. *)
From VG Require Import Corr.MonReader Corr.CorrReader Model.Envelope Model.Stream.

(** intent[12] = ids of the backend's messages as list of [ok; canonical id];
    in[3] = oracle tables (index 5: decode with the client's codec, 6: unbounded gunzip) *)
Definition resp_msg_id (ortab : V) (compressed : bool) (payload : bytes) : option bytes :=
  let cdecode := tbl_fn (vl (vnth 5 ortab)) in
  let gunzip := tbl_fn (vl (vnth 6 ortab)) in
  let plain := if compressed && negb (Nat.eqb (length payload) 0) then gunzip payload else Some payload in
  match plain with Some p => cdecode p | None => None end.

Definition response_data_ok (i o : V) : bool :=
  let it := intent_of (vnth 6 i) in
  let f := i_form it in
  let ortab := vnth 3 i in
  let want := map (fun m => vs (vnth 1 m)) (filter (fun m => vb (vnth 0 m)) (vl (vnth 12 (vnth 6 i)))) in
  let head := o_head o in
  let data := o_data o in
  let declared :=
    if (f =? 3) || (f =? 4) then hget (s2b "Grpc-Encoding") head
    else if f =? 2 then hget (s2b "Connect-Content-Encoding") head
    else hget (s2b "Content-Encoding") head in
  let has_comp := negb (Nat.eqb (length declared) 0) && negb (name_is declared "identity") in
  let success := (outcome_code o =? 0) && i_wellformed it && negb (i_lenient it) && (i_kind it =? 0) in
  if unary_form f then
    (* the body is the message; a declared encoding applies to all of it *)
    if outcome_code o =? 0 then
      match resp_msg_id ortab has_comp data with
      | Some id => negb success || match want with [w] => bytes_eqb id w | _ => false end
      | None => negb (i_wellformed it) || i_lenient it   (* undecodable bytes only if the backend's were *)
      end
    else true
  else
    let '(frames, lft) := parse_frames (S (length data)) data in
    let flags_ok := forallb (fun fr => ((fst fr =? 0) || (fst fr =? 1))%N && (negb (fst fr =? 1)%N || has_comp)) frames in
    let ids := map (fun fr => resp_msg_id ortab (fst fr =? 1)%N (snd fr)) frames in
    let decodable := (fix go (l : list (option bytes)) : list bytes := match l with Some b :: r => b :: go r | _ => [] end) ids in
    (Nat.eqb (length lft) 0 || negb (i_wellformed it) || i_lenient it) &&
    flags_ok &&
    (i_lenient it || negb (i_wellformed it) ||
     (forallb (fun x => match x with Some _ => true | None => false end) ids && is_prefix_ids decodable want)) &&
    (negb success || Nat.eqb (length decodable) (length want)).

(** C16: in streaming-to-streaming pairs every complete backend message is visible to the client
    (written and flushed) by the time the handler's Write returns.  intent[13] = list of
    [complete data frames written so far; complete frames flushed to the client]. *)
Definition progress_ok (i o : V) : bool :=
  let it := intent_of (vnth 6 i) in
  if negb (i_wellformed it) || i_lenient it then true else
  forallb (fun p => vz (vnth 0 p) <=? vz (vnth 1 p)) (vl (vnth 13 (vnth 6 i))).

Definition mon_response_data : monitor_t := fun suite i o =>
  if name_is suite "serve.response" then Some (response_ok (intent_of (vnth 6 i)) o && response_data_ok i o && progress_ok i o) else None.
