package main

import (
	"time"
	"bytes"
	"compress/gzip"
	"context"
	"encoding/binary"
	"errors"
	"fmt"
	"io"
	"net/http"
	"net/url"
	"runtime/debug"
	"sort"
	"strings"

	"connectrpc.com/vanguard"
	testv1 "connectrpc.com/vanguard/internal/gen/vanguard/test/v1"
	"google.golang.org/protobuf/encoding/protojson"
	"google.golang.org/protobuf/proto"
)

const (
	libraryService = "vanguard.test.v1.LibraryService"
	contentService = "vanguard.test.v1.ContentService"
)

// ---- configuration

type e2eConfig struct {
	Service      string // libraryService or contentService
	Idem         bool   // register the variant of the schema whose side-effect-free methods are declared IDEMPOTENT
	Protocols    []vanguard.Protocol
	Codecs       []string // nil = default
	Compressions []string // nil = default, empty non-nil = none
	NoCompress   bool
	MaxMsg       uint32
	MaxGet       uint32
	Unknown      bool
}

func protoName(p vanguard.Protocol) string { return p.String() }

func (c e2eConfig) build(backend http.Handler, unknown http.Handler) (*vanguard.Transcoder, error) {
	var opts []vanguard.ServiceOption
	if c.Protocols != nil {
		opts = append(opts, vanguard.WithTargetProtocols(c.Protocols...))
	}
	if c.Codecs != nil {
		opts = append(opts, vanguard.WithTargetCodecs(c.Codecs...))
	}
	if c.NoCompress {
		opts = append(opts, vanguard.WithNoTargetCompression())
	} else if c.Compressions != nil {
		opts = append(opts, vanguard.WithTargetCompression(c.Compressions...))
	}
	if c.MaxMsg != 0 {
		opts = append(opts, vanguard.WithMaxMessageBufferBytes(c.MaxMsg))
	}
	if c.MaxGet != 0 {
		opts = append(opts, vanguard.WithMaxGetURLBytes(c.MaxGet))
	}
	var svc *vanguard.Service
	switch {
	case c.Idem:
		svc = vanguard.NewServiceWithSchema(idemServiceDesc(c.Service), backend, opts...)
	case schemaMode == 1:
		svc = vanguard.NewServiceWithSchema(dynamicServiceDesc(c.Service, 1), backend, opts...)
	case schemaMode == 2:
		opts = append(opts, vanguard.WithTypeResolver(emptyResolver{}))
		svc = vanguard.NewServiceWithSchema(dynamicServiceDesc(c.Service, 2), backend, opts...)
	default:
		svc = vanguard.NewService(c.Service, backend, opts...)
	}
	var topts []vanguard.TranscoderOption
	if c.Unknown && unknown != nil {
		topts = append(topts, vanguard.WithUnknownHandler(unknown))
	}
	return vanguard.NewTranscoder([]*vanguard.Service{svc}, topts...)
}

// ---- client request

type clientReq struct {
	Method     string
	Target     string // raw request-target
	ProtoMajor int
	Headers    [][2]string
	ContentLen int64 // -2: len(body); -1 unknown
	Chunks     [][]byte
	EndErr     bool // body ends with an error instead of EOF
	EOFLast    bool // the last data is returned together with io.EOF
}

type chunkReader struct {
	chunks      [][]byte
	endErr      bool
	eofLast     bool
	closed      bool
	reads       int
	consumed    int // bytes handed out so far
	afterReturn *bool
	lateUse     *int
}

var errClientAbort = errors.New("client aborted")

func (c *chunkReader) Read(p []byte) (int, error) {
	if c.afterReturn != nil && *c.afterReturn {
		*c.lateUse++
	}
	c.reads++
	for len(c.chunks) > 0 && len(c.chunks[0]) == 0 {
		c.chunks = c.chunks[1:]
	}
	if len(c.chunks) == 0 {
		if c.endErr {
			return 0, errClientAbort
		}
		return 0, io.EOF
	}
	if len(p) == 0 {
		return 0, nil
	}
	n := copy(p, c.chunks[0])
	c.chunks[0] = c.chunks[0][n:]
	c.consumed += n
	if c.eofLast && !c.endErr {
		rest := 0
		for _, ch := range c.chunks {
			rest += len(ch)
		}
		if rest == 0 {
			return n, io.EOF
		}
	}
	return n, nil
}
func (c *chunkReader) Close() error { c.closed = true; return nil }

// ---- recorder (client side)

type event struct {
	Kind string // "H" header (code), "W" write, "F" flush
	Code int
	Data []byte
}

type recorder struct {
	hdr         http.Header
	events      []event
	headSnap    http.Header
	afterReturn bool
	lateUse     int
}

func (r *recorder) Header() http.Header { return r.hdr }
func (r *recorder) WriteHeader(code int) {
	if r.afterReturn {
		r.lateUse++
	}
	if r.headSnap == nil {
		r.headSnap = r.hdr.Clone()
	}
	r.events = append(r.events, event{Kind: "H", Code: code})
}
func (r *recorder) Write(p []byte) (int, error) {
	if r.afterReturn {
		r.lateUse++
	}
	if r.headSnap == nil {
		r.WriteHeader(200)
	}
	r.events = append(r.events, event{Kind: "W", Data: append([]byte(nil), p...)})
	return len(p), nil
}
func (r *recorder) Flush() {
	if r.afterReturn {
		r.lateUse++
	}
	if r.headSnap == nil {
		// like net/http: flushing before the head is written commits an implicit 200
		r.WriteHeader(200)
	}
	r.events = append(r.events, event{Kind: "F"})
}

func (r *recorder) status() int {
	for _, e := range r.events {
		if e.Kind == "H" {
			return e.Code
		}
	}
	return 0
}
// flushedLen: body bytes that were written before the last Flush (what an HTTP/2 peer can see)
func (r *recorder) flushedLen() int {
	total, flushed := 0, 0
	for _, e := range r.events {
		switch e.Kind {
		case "W":
			total += len(e.Data)
		case "F":
			flushed = total
		}
	}
	return flushed
}

// flushOffsets: distinct body offsets at which a Flush happened
func (r *recorder) flushOffsets() []int {
	total := 0
	var out []int
	for _, e := range r.events {
		switch e.Kind {
		case "W":
			total += len(e.Data)
		case "F":
			if len(out) == 0 || out[len(out)-1] != total {
				out = append(out, total)
			}
		}
	}
	return out
}

func (r *recorder) headCount() int {
	n := 0
	for _, e := range r.events {
		if e.Kind == "H" {
			n++
		}
	}
	return n
}
func (r *recorder) body() []byte {
	var b []byte
	for _, e := range r.events {
		if e.Kind == "W" {
			b = append(b, e.Data...)
		}
	}
	return b
}

// trailers as net/http sends them: keys with the TrailerPrefix, plus keys declared in the
// head's "Trailer" header, with their final values
func (r *recorder) trailers() http.Header {
	out := http.Header{}
	if r.headSnap == nil {
		return out
	}
	declared := map[string]bool{}
	for _, v := range r.headSnap.Values("Trailer") {
		for _, k := range strings.Split(v, ",") {
			declared[http.CanonicalHeaderKey(strings.TrimSpace(k))] = true
		}
	}
	for k, v := range r.hdr {
		switch {
		case strings.HasPrefix(k, http.TrailerPrefix):
			key := strings.TrimPrefix(k, http.TrailerPrefix)
			out[key] = append(out[key], v...)
		case declared[k] && !equalStrings(r.headSnap[k], v):
			// a declared trailer already sent with the same value in the head is repeated by
			// net/http at the end; only a value set or changed after the head is new information
			out[k] = append(append([]string(nil), v...), out[k]...)
		}
	}
	return out
}

func equalStrings(a, b []string) bool {
	if len(a) != len(b) {
		return false
	}
	for i := range a {
		if a[i] != b[i] {
			return false
		}
	}
	return true
}

// ---- backend script

type action struct {
	Op    string // readall, readseq, read, hadd, hset, status, write, flush, panic
	N     int
	Sizes []int
	Key   string
	Val   string
	Data  []byte
}

type readResult struct {
	Data []byte
	Up   int // bytes of the client's body consumed when this Read returned
	Err  string // "", EOF, UnexpectedEOF, ResourceExhausted, InvalidArgument, Canceled, Other
}

type backendObs struct {
	upProbe    func() int
	Calls      int
	Method     string
	Path       string
	RawPath    string
	RawQuery   string
	Proto      string
	ProtoMajor int
	Header     http.Header
	ContentLen int64
	Reads      []readResult
	Writes     []string // error class per write
	Visible    []int    // body bytes flushed to the client after each handler Write returned
	probe      func() int
	ctx        context.Context
}

func errClass(err error) string {
	switch {
	case err == nil:
		return ""
	case errors.Is(err, io.EOF):
		return "EOF"
	case errors.Is(err, io.ErrUnexpectedEOF):
		return "UnexpectedEOF"
	case errors.Is(err, context.Canceled):
		return "Canceled"
	case errors.Is(err, errClientAbort):
		return "ClientAbort"
	}
	s := err.Error()
	switch {
	case strings.Contains(s, "resource_exhausted"):
		return "ResourceExhausted"
	case strings.Contains(s, "invalid_argument"):
		return "InvalidArgument"
	case strings.Contains(s, "unexpected EOF"):
		return "UnexpectedEOF"
	}
	return "Other"
}

func (b *backendObs) body() []byte {
	var out []byte
	for _, r := range b.Reads {
		out = append(out, r.Data...)
	}
	return out
}
func (b *backendObs) lastReadErr() string {
	if len(b.Reads) == 0 {
		return "none"
	}
	return b.Reads[len(b.Reads)-1].Err
}

func scriptedBackend(obs *backendObs, script []action) http.Handler {
	return http.HandlerFunc(func(w http.ResponseWriter, r *http.Request) {
		obs.Calls++
		obs.Method, obs.Path, obs.RawPath, obs.RawQuery = r.Method, r.URL.Path, r.URL.RawPath, r.URL.RawQuery
		obs.Proto, obs.ProtoMajor, obs.ContentLen = r.Proto, r.ProtoMajor, r.ContentLength
		obs.Header = r.Header.Clone()
		obs.ctx = r.Context()
		for _, a := range script {
			switch a.Op {
			case "readall":
				size := a.N
				if size <= 0 {
					size = 512
				}
				for i := 0; i < 100000; i++ {
					buf := make([]byte, size)
					n, err := r.Body.Read(buf)
					obs.Reads = append(obs.Reads, readResult{Data: buf[:n], Err: errClass(err), Up: obs.up()})
					if err != nil {
						break
					}
				}
			case "readseq":
				for i := 0; i < 200000; i++ {
					size := 1
					if len(a.Sizes) > 0 {
						size = a.Sizes[min(i, len(a.Sizes)-1)]
					}
					buf := make([]byte, size)
					n, err := r.Body.Read(buf)
					obs.Reads = append(obs.Reads, readResult{Data: buf[:n], Err: errClass(err), Up: obs.up()})
					if err != nil {
						break
					}
				}
			case "read":
				buf := make([]byte, a.N)
				n, err := r.Body.Read(buf)
				obs.Reads = append(obs.Reads, readResult{Data: buf[:n], Err: errClass(err), Up: obs.up()})
			case "hadd":
				w.Header().Add(a.Key, a.Val)
			case "hset":
				w.Header().Set(a.Key, a.Val)
			case "status":
				w.WriteHeader(a.N)
			case "write":
				_, err := w.Write(a.Data)
				obs.Writes = append(obs.Writes, errClass(err))
				if obs.probe != nil {
					obs.Visible = append(obs.Visible, obs.probe())
				}
			case "flush":
				if f, ok := w.(http.Flusher); ok {
					f.Flush()
				}
			case "readfault":
				_, _ = io.Copy(io.Discard, r.Body)
			case "closebody":
				_ = r.Body.Close()
			case "panic":
				panic("scripted backend panic")
			}
		}
	})
}

type scenarioResult struct {
	Backend    backendObs
	Unknown    backendObs
	Rec        *recorder
	Panic      string
	PanicStack string
	LateUse    int
	CtxDone    bool // backend ctx cancelled when ServeHTTP returned
	BuildErr   string
	BadTarget  bool
}

func buildRequest(req clientReq, late *bool, lateUse *int) (*http.Request, *chunkReader, bool) {
	u, err := url.ParseRequestURI(req.Target)
	if err != nil {
		return nil, nil, false
	}
	body := &chunkReader{chunks: cloneChunks(req.Chunks), endErr: req.EndErr, eofLast: req.EOFLast, afterReturn: late, lateUse: lateUse}
	hr := &http.Request{
		Method: req.Method, URL: u, RequestURI: req.Target, Header: http.Header{}, Body: body, Host: "verif.test",
		Proto: "HTTP/1.1", ProtoMajor: 1, ProtoMinor: 1,
	}
	if req.ProtoMajor == 2 {
		hr.Proto, hr.ProtoMajor, hr.ProtoMinor = "HTTP/2.0", 2, 0
	}
	for _, kv := range req.Headers {
		hr.Header.Add(kv[0], kv[1])
	}
	total := int64(0)
	for _, c := range req.Chunks {
		total += int64(len(c))
	}
	switch req.ContentLen {
	case -2:
		hr.ContentLength = total
	default:
		hr.ContentLength = req.ContentLen
	}
	return hr.WithContext(context.Background()), body, true
}

func cloneChunks(in [][]byte) [][]byte {
	out := make([][]byte, len(in))
	for i, c := range in {
		out[i] = append([]byte(nil), c...)
	}
	return out
}

func runScenario(cfg e2eConfig, req clientReq, script []action, unknownScript []action) scenarioResult {
	var res scenarioResult
	backend := scriptedBackend(&res.Backend, script)
	unknown := scriptedBackend(&res.Unknown, unknownScript)
	tc, err := cfg.build(backend, unknown)
	if err != nil {
		res.BuildErr = err.Error()
		return res
	}
	return runOn(tc, req, &res)
}

// suiteAbort is raised when the tree under test has wedged several times; main recovers it.
type suiteAbort struct{}

var hangCount int
var hangs []string // one description per request whose ServeHTTP did not return
var lateWrites []string
var canaryInRunOn = true // off while requests run concurrently (checked when the batch is over)
var hangTimeout = 15 * time.Second

func (o *backendObs) up() int {
	if o.upProbe == nil {
		return 0
	}
	return o.upProbe()
}

func runOn(tc http.Handler, req clientReq, res *scenarioResult) scenarioResult {
	rec := &recorder{hdr: http.Header{}}
	res.Rec = rec
	res.Backend.probe = rec.flushedLen
	res.Unknown.probe = rec.flushedLen
	hr, cr, ok := buildRequest(req, &rec.afterReturn, &rec.lateUse)
	if !ok {
		res.BadTarget = true
		return *res
	}
	res.Backend.upProbe = func() int { return cr.consumed }
	if hangCount >= 3 {
		// the tree under test wedges: stop the suite, what was observed so far is reported
		panic(suiteAbort{})
	}
	done := make(chan struct{})
	go func() {
		defer close(done)
		defer func() {
			if r := recover(); r != nil {
				res.Panic = fmt.Sprint(r)
				res.PanicStack = string(debug.Stack())
			}
		}()
		tc.ServeHTTP(rec, hr)
	}()
	select {
	case <-done:
		if canaryInRunOn {
			// C14/C15: nothing may be written through a reference to a buffer that went back to the pool
			if n := vanguard.VerifPoolCheckReleased(); n > 0 {
				lateWrites = append(lateWrites, fmt.Sprintf("%d pooled buffer(s) were written to after their release during %s %s %v", n, req.Method, req.Target, req.Headers))
			}
		}
	case <-time.After(hangTimeout):
		// C11: ServeHTTP must return; the goroutine is abandoned (it may spin for ever)
		hangCount++
		hung := &recorder{hdr: http.Header{}}
		res.Rec = hung
		res.Panic = fmt.Sprintf("hang: ServeHTTP did not return within %s", hangTimeout)
		hangs = append(hangs, fmt.Sprintf("%s %s %v did not return within %s", req.Method, req.Target, req.Headers, hangTimeout))
		return *res
	}
	rec.afterReturn = true
	if res.Backend.ctx != nil {
		res.CtxDone = res.Backend.ctx.Err() != nil
	} else if res.Unknown.ctx != nil {
		res.CtxDone = res.Unknown.ctx.Err() != nil
	}
	res.LateUse = rec.lateUse
	return *res
}

// ---- value encoding helpers

func hdrV(h http.Header) L {
	keys := make([]string, 0, len(h))
	for k := range h {
		keys = append(keys, k)
	}
	sort.Strings(keys)
	out := make(L, 0, len(keys))
	for _, k := range keys {
		vals := h[k]
		if k == "Trailer" || k == "Allow" {
			// built by iterating a Go map: order is unspecified, compare as a set
			vals = append([]string(nil), vals...)
			if k == "Allow" {
				for i, v := range vals {
					parts := strings.Split(v, ",")
					sort.Strings(parts)
					vals[i] = strings.Join(parts, ",")
				}
			}
			sort.Strings(vals)
		}
		out = append(out, L{B(k), Bl(vals)})
	}
	return out
}

func hdrGet(h http.Header, k string) L {
	v, ok := h[http.CanonicalHeaderKey(k)]
	if !ok {
		return L{false, L{}}
	}
	return L{true, Bl(v)}
}

// ---- spec-level wire encoders (written from the protocol specifications, independent of
// vanguard's code)

func envelope(flags byte, payload []byte) []byte {
	out := make([]byte, 5+len(payload))
	out[0] = flags
	binary.BigEndian.PutUint32(out[1:], uint32(len(payload)))
	copy(out[5:], payload)
	return out
}

func gzipBytes(b []byte) []byte {
	var buf bytes.Buffer
	w := gzip.NewWriter(&buf)
	w.Write(b)
	w.Close()
	return buf.Bytes()
}
func gunzipBytes(b []byte) ([]byte, error) {
	r, err := gzip.NewReader(bytes.NewReader(b))
	if err != nil {
		return nil, err
	}
	return io.ReadAll(r)
}

func marshal(codec string, m proto.Message) []byte {
	switch codec {
	case "json":
		b, err := protojson.Marshal(m)
		if err != nil {
			panic(err)
		}
		return b
	default:
		b, err := proto.MarshalOptions{Deterministic: true}.Marshal(m)
		if err != nil {
			panic(err)
		}
		return b
	}
}

func unmarshal(codec string, b []byte, m proto.Message) error {
	if codec == "json" {
		return protojson.Unmarshal(b, m)
	}
	return proto.Unmarshal(b, m)
}

var _ = testv1.Book{}
