package main

import (
	"bufio"
	"bytes"
	"connectrpc.com/vanguard"
	"encoding/json"
	"fmt"
	"net/http"
)

// collect runs a suite with a given seed and returns the emitted cases
func collect(name string, seed uint64, n int, tier string) []Case {
	var buf bytes.Buffer
	sub := &ctx{r: &rng{s: seed*0x9e3779b97f4a7c15 + 12345}, n: n, tier: tier, w: bufio.NewWriter(&buf), tagHit: map[string]int{}, only: -1}
	suites[name](sub)
	sub.w.Flush()
	var out []Case
	dec := json.NewDecoder(&buf)
	dec.UseNumber()
	for dec.More() {
		var c Case
		if err := dec.Decode(&c); err != nil {
			panic(err)
		}
		out = append(out, c)
	}
	return out
}

func init() {
	// C20: the same scenarios against the three ways of loading the schema; all observations must agree
	suites["dualschema"] = func(c *ctx) {
		seed := c.r.next()
		defer func() {
			sub := *c
			sub.n = c.n / 6
			suites["grpcwrap"](&sub)
			c.count, c.tagHit = sub.count, sub.tagHit
		}()
		for _, sub := range []struct {
			name string
			n    int
		}{{"negotiate", c.n / 3}, {"respflow", c.n / 4}, {"dispatch", c.n / 4}, {"getpost", c.n / 6}, {"restbind", c.n / 6}} {
			if _, ok := suites[sub.name]; !ok {
				continue
			}
			var runs [3][]Case
			for mode := 0; mode < 3; mode++ {
				schemaMode = mode
				runs[mode] = collect(sub.name, seed, sub.n, c.tier)
			}
			schemaMode = 0
			if len(runs[0]) != len(runs[1]) || len(runs[0]) != len(runs[2]) {
				// different numbers of cases already mean different behaviour
				c.emit(Case{Suite: "dual.meta", In: L{B(sub.name), int64(-1)}, Out: L{int64(len(runs[0])), int64(len(runs[1])), int64(len(runs[2]))}, Tags: []string{"dual:" + sub.name, "dual:count-differs"}})
				continue
			}
			for i := range runs[0] {
				c.emit(Case{Suite: "dual.meta", In: L{B(sub.name), int64(i)}, Out: L{runs[0][i].Out, runs[1][i].Out, runs[2][i].Out}, Tags: []string{"dual:" + sub.name}})
			}
		}
	}
}

func init() {
	// C20: the fallback resolver and what registration makes of a resolver's answer
	suites["resolver"] = func(c *ctx) {
		r := c.r
		for i := 0; i < c.n; i++ {
			n := r.intn(5)
			outs := make([][4]int, n)
			in := L{}
			for k := range outs {
				row := L{}
				for m := 0; m < 4; m++ {
					outs[k][m] = pick(r, []int{0, 1, 1, 2})
					row = append(row, int64(outs[k][m]))
				}
				in = append(in, row)
			}
			method := r.intn(4)
			found, ek, ei := vanguard.VerifFallbackResolve(outs, method)
			c.emit(Case{Suite: "resolver.fallback", In: L{in, int64(method)}, Out: L{int64(found), int64(ek), int64(ei)},
				Tags: []string{fmt.Sprintf("resolver.n:%d", n), fmt.Sprintf("resolver.method:%d", method)}})
		}
		// registration with a resolver that does not know, or fails on, the method's types
		for i := 0; i < c.n/10+4; i++ {
			o := pick(r, []int{0, 1, 2})
			svc := vanguard.NewService(libraryService, http.NotFoundHandler(), vanguard.WithTypeResolver(vanguard.VerifNewFakeResolver([4]int{o, 1, 1, 1})))
			_, err := vanguard.NewTranscoder([]*vanguard.Service{svc})
			c.emit(Case{Suite: "resolver.register", In: L{int64(o)}, Out: L{err == nil}, Tags: []string{fmt.Sprintf("resolver.register:%d", o)}})
		}
	}
}
