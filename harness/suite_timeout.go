package main

import (
	"strconv"
	"strings"

	"connectrpc.com/vanguard"
)

func tmoOut(r vanguard.VerifTimeoutResult) L {
	switch {
	case r.Err != "":
		return L{int64(2)}
	case r.HasTimeout:
		return L{int64(1), r.Nanos}
	default:
		return L{int64(0)}
	}
}

var grpcUnits = []string{"n", "u", "m", "S", "M", "H"}

// boundary-biased digit strings of a given length
func digitStrings(r *rng, length int) []string {
	if length <= 0 {
		return []string{""}
	}
	lo := "1" + strings.Repeat("0", length-1)
	hi := strings.Repeat("9", length)
	zero := strings.Repeat("0", length)
	out := []string{lo, hi, zero}
	for i := 0; i < 3; i++ {
		var sb strings.Builder
		for j := 0; j < length; j++ {
			sb.WriteByte(byte('0' + r.intn(10)))
		}
		out = append(out, sb.String())
	}
	return out
}

func mutateTimeout(r *rng, s string) string {
	switch r.intn(12) {
	case 0:
		return "+" + s
	case 1:
		return "-" + s
	case 2:
		return " " + s
	case 3:
		return s + " "
	case 4:
		if len(s) > 0 {
			i := r.intn(len(s))
			ins := []byte("_xX.eE,\x00\xff")
			return s[:i] + string(ins[r.intn(len(ins)):][:1]) + s[i:]
		}
		return s
	case 5:
		return strings.ToLower(s)
	case 6:
		return strings.ToUpper(s)
	case 7:
		return "0x" + s
	case 8:
		return s + s
	case 9:
		if len(s) > 0 {
			return s[:len(s)-1]
		}
		return s
	case 10:
		return "0" + s
	default:
		b := []byte(s)
		if len(b) > 0 {
			b[r.intn(len(b))] = byte(r.next())
		}
		return string(b)
	}
}

func init() {
	replayers["timeout.grpc_extract"] = func(in any) any {
		l := rList(in)
		return tmoOut(vanguard.VerifGRPCExtractTimeout(rBool(l[0]), rStr(l[1])))
	}
	replayers["timeout.connect_extract"] = func(in any) any {
		l := rList(in)
		return tmoOut(vanguard.VerifConnectExtractTimeout(rBool(l[0]), rStr(l[1])))
	}
	replayers["timeout.grpc_encode"] = func(in any) any { return B(vanguard.VerifGRPCEncodeTimeout(rInt(in))) }
	replayers["timeout.connect_encode"] = func(in any) any { return B(vanguard.VerifConnectEncodeTimeout(rInt(in))) }

	suites["timeouts"] = func(c *ctx) {
		seen := map[string]bool{}
		grpc := func(present bool, s string, tag string) {
			key := "g" + strconv.FormatBool(present) + s
			if seen[key] {
				return
			}
			seen[key] = true
			c.emit(Case{Suite: "timeout.grpc_extract", In: L{present, B(s)}, Out: replayers["timeout.grpc_extract"](L{present, B(s)}), Tags: []string{"grpc_extract:" + tag}})
		}
		conn := func(present bool, s string, tag string) {
			key := "c" + strconv.FormatBool(present) + s
			if seen[key] {
				return
			}
			seen[key] = true
			c.emit(Case{Suite: "timeout.connect_extract", In: L{present, B(s)}, Out: replayers["timeout.connect_extract"](L{present, B(s)}), Tags: []string{"connect_extract:" + tag}})
		}
		genc := func(d int64, tag string) {
			key := "ge" + strconv.FormatInt(d, 10)
			if seen[key] {
				return
			}
			seen[key] = true
			c.emit(Case{Suite: "timeout.grpc_encode", In: d, Out: B(vanguard.VerifGRPCEncodeTimeout(d)), Tags: []string{"grpc_encode:" + tag}})
		}
		cenc := func(d int64, tag string) {
			key := "ce" + strconv.FormatInt(d, 10)
			if seen[key] {
				return
			}
			seen[key] = true
			c.emit(Case{Suite: "timeout.connect_encode", In: d, Out: B(vanguard.VerifConnectEncodeTimeout(d)), Tags: []string{"connect_encode:" + tag}})
		}
		grpc(false, "", "absent")
		grpc(true, "", "empty")
		conn(false, "", "absent")
		conn(true, "", "empty")
		// exhaustive small values x units
		maxSmall := 120
		if c.tier == "thorough" {
			maxSmall = 1200
		}
		for v := 0; v <= maxSmall; v++ {
			for _, u := range grpcUnits {
				grpc(true, strconv.Itoa(v)+u, "valid-small")
			}
			conn(true, strconv.Itoa(v), "valid-small")
		}
		// digit-count boundaries 1..10 digits x units (9 and 10 digits are malformed)
		for length := 1; length <= 10; length++ {
			for _, ds := range digitStrings(c.r, length) {
				for _, u := range grpcUnits {
					tag := "valid-boundary"
					if length > 8 {
						tag = "toolong"
					}
					grpc(true, ds+u, tag)
				}
			}
		}
		for length := 1; length <= 22; length++ {
			for _, ds := range digitStrings(c.r, length) {
				tag := "valid-boundary"
				if length > 10 {
					tag = "toolong"
				}
				conn(true, ds, tag)
			}
		}
		// hour range boundary
		for v := 0; v <= 12; v++ {
			grpc(true, strconv.Itoa(v)+"H", "hours")
			grpc(true, "0"+strconv.Itoa(v)+"H", "hours")
		}
		// bad units: every byte as unit
		for b := 0; b < 256; b++ {
			grpc(true, "5"+string([]byte{byte(b)}), "unit-sweep")
			conn(true, "5"+string([]byte{byte(b)}), "byte-sweep")
			conn(true, string([]byte{byte(b)}), "byte-sweep")
			grpc(true, string([]byte{byte(b)})+"S", "byte-sweep")
		}
		grpc(true, "S", "nodigits")
		// mutation stream
		budget := c.n
		for i := 0; i < budget; i++ {
			base := strconv.FormatUint(c.r.next()%pick(c.r, []uint64{10, 1000, 100000000, 1000000000, 1 << 62}), 10)
			if c.r.chance(1, 2) {
				s := base + pick(c.r, grpcUnits)
				if c.r.chance(2, 3) {
					s = mutateTimeout(c.r, s)
				}
				grpc(true, s, "mutated")
			} else {
				s := base
				if c.r.chance(2, 3) {
					s = mutateTimeout(c.r, s)
				}
				conn(true, s, "mutated")
			}
		}
		// encoders: boundaries of every unit switch and random durations
		units := []int64{1, 1000, 1000000, 1000000000, 60000000000, 3600000000000}
		for _, d := range []int64{-1 << 63, -1, 0, 1, 999999, 1000000, 1000001, 1<<63 - 1, 9999999999*1000000 - 1, 9999999999 * 1000000, 9999999999*1000000 + 1, 10000000000 * 1000000, 9999999999*1000000 + 999999} {
			genc(d, "boundary")
			cenc(d, "boundary")
		}
		for _, u := range units {
			for _, k := range []int64{99999999, 100000000, 100000001} {
				if u > (1<<63-1)/k {
					continue
				}
				for delta := int64(-2); delta <= 2; delta++ {
					genc(k*u+delta, "unit-switch")
					cenc(k*u+delta, "unit-switch")
				}
			}
		}
		for i := 0; i < budget/2; i++ {
			shift := uint(c.r.intn(63))
			d := int64(c.r.next() >> 1 >> shift)
			genc(d, "random")
			cenc(d, "random")
		}
	}
}
