// Package main is the Go side of the correspondence check: it drives the real
// connectrpc.com/vanguard code (built from /repo's working tree with -tags verif) on generated
// scenarios and writes one JSON object per case: {"suite","in","out","tags"}.
// Values are built from int64, hex strings (bytes), bools and lists only, so that the
// orchestrator can turn them mechanically into terms of the Coq type V.
package main

import (
	"connectrpc.com/vanguard"
	"bufio"
	"encoding/hex"
	"encoding/json"
	"flag"
	"fmt"
	"os"
	"sort"
	"strings"
)

// SplitMix64: every random choice derives from one seed.
type rng struct{ s uint64 }

func (r *rng) next() uint64 {
	r.s += 0x9e3779b97f4a7c15
	z := r.s
	z = (z ^ (z >> 30)) * 0xbf58476d1ce4e5b9
	z = (z ^ (z >> 27)) * 0x94d049bb133111eb
	return z ^ (z >> 31)
}
func (r *rng) intn(n int) int {
	if n <= 0 {
		return 0
	}
	return int(r.next() % uint64(n))
}
func (r *rng) chance(num, den int) bool { return r.intn(den) < num }
func (r *rng) fork() *rng               { return &rng{s: r.next()} }
func pick[T any](r *rng, xs []T) T      { return xs[r.intn(len(xs))] }
func (r *rng) bytes(n int) []byte {
	out := make([]byte, n)
	for i := range out {
		out[i] = byte(r.next())
	}
	return out
}

type L = []any

func B(s string) string  { return hex.EncodeToString([]byte(s)) }
func Bb(b []byte) string { return hex.EncodeToString(b) }
func Bl(ss []string) L {
	out := make(L, len(ss))
	for i, s := range ss {
		out[i] = B(s)
	}
	return out
}
func Opt(present bool, v any) L {
	if !present {
		return L{}
	}
	return L{v}
}

type Case struct {
	Suite string   `json:"suite"`
	In    any      `json:"in"`
	Out   any      `json:"out"`
	Tags  []string `json:"tags,omitempty"`
	Desc  string   `json:"desc,omitempty"`
	// how to generate this case again: suite run, seed, budget, tier and position in the run
	Gen *GenInfo `json:"gen,omitempty"`
}

type GenInfo struct {
	Suite string `json:"suite"`
	Seed  uint64 `json:"seed"`
	N     int    `json:"n"`
	Tier  string `json:"tier"`
	Index int    `json:"index"`
}

type ctx struct {
	r      *rng
	n      int // budget
	tier   string
	w      *bufio.Writer
	count  int
	tagHit map[string]int
	corpus string
	gen    GenInfo
	only   int // >= 0: emit only the case at this position (regeneration for a replay)
}

func (c *ctx) emit(cs Case) {
	if c.only >= 0 && c.count != c.only {
		c.count++
		return
	}
	if c.gen.Suite != "" {
		g := c.gen
		g.Index = c.count
		cs.Gen = &g
	}
	data, err := json.Marshal(cs)
	if err != nil {
		panic(err)
	}
	c.w.Write(data)
	c.w.WriteByte('\n')
	c.count++
	for _, t := range cs.Tags {
		c.tagHit[t]++
	}
}

type suiteFn func(c *ctx)

var suites = map[string]suiteFn{}

func main() {
	suite := flag.String("suite", "", "suite name")
	seed := flag.Uint64("seed", 1, "seed")
	n := flag.Int("n", 1000, "case budget")
	tier := flag.String("tier", "quick", "quick|thorough")
	out := flag.String("out", "", "output jsonl")
	replay := flag.String("replay", "", "replay a single case: JSON file with suite and in")
	list := flag.Bool("list", false, "list suites")
	flag.Parse()
	if *list {
		names := make([]string, 0, len(suites))
		for k := range suites {
			names = append(names, k)
		}
		sort.Strings(names)
		fmt.Println(strings.Join(names, "\n"))
		return
	}
	f := os.Stdout
	if *out != "" {
		var err error
		f, err = os.Create(*out)
		if err != nil {
			panic(err)
		}
		defer f.Close()
	}
	w := bufio.NewWriterSize(f, 1<<20)
	defer w.Flush()
	c := &ctx{r: &rng{s: *seed*0x9e3779b97f4a7c15 + 12345}, n: *n, tier: *tier, w: w, tagHit: map[string]int{}, only: -1}
	if *replay != "" {
		runReplay(c, *replay)
		return
	}
	c.gen = GenInfo{Suite: *suite, Seed: *seed, N: *n, Tier: *tier}
	// every pooled buffer is poisoned when it is released, and released buffers are watched
	vanguard.VerifPoolPoison.Store(true)
	fn, ok := suites[*suite]
	if !ok {
		fmt.Fprintf(os.Stderr, "unknown suite %q\n", *suite)
		os.Exit(2)
	}
	func() {
		defer func() {
			if r := recover(); r != nil {
				if _, ok := r.(suiteAbort); !ok {
					panic(r)
				}
			}
		}()
		fn(c)
	}()
	for _, h := range hangs {
		c.emit(Case{Suite: "hang.e2e", In: L{B(h)}, Out: L{}, Tags: []string{"hang"}, Desc: h})
	}
	for _, h := range lateWrites {
		c.emit(Case{Suite: "poolwrite.e2e", In: L{B(h)}, Out: L{}, Tags: []string{"poolwrite"}, Desc: h})
	}
	w.Flush()
	// distribution summary on stderr as JSON
	sum, _ := json.Marshal(map[string]any{"suite": *suite, "cases": c.count, "tags": c.tagHit})
	fmt.Fprintln(os.Stderr, string(sum))
}

// replayers re-run the implementation on a recorded input: suite -> fn(in) -> out
var replayers = map[string]func(in any) any{}

func runReplay(c *ctx, path string) {
	data, err := os.ReadFile(path)
	if err != nil {
		panic(err)
	}
	var rec struct {
		Suite string   `json:"suite"`
		In    any      `json:"in"`
		Gen   *GenInfo `json:"gen"`
	}
	dec := json.NewDecoder(strings.NewReader(string(data)))
	dec.UseNumber()
	if err := dec.Decode(&rec); err != nil {
		panic(err)
	}
	if rec.Gen != nil && rec.Gen.Suite != "" {
		// run the generating suite again, against the code as it is now, and keep that one case
		fn, ok := suites[rec.Gen.Suite]
		if !ok {
			fmt.Fprintf(os.Stderr, "unknown suite %q\n", rec.Gen.Suite)
			os.Exit(2)
		}
		c.r = &rng{s: rec.Gen.Seed*0x9e3779b97f4a7c15 + 12345}
		c.n, c.tier, c.only = rec.Gen.N, rec.Gen.Tier, rec.Gen.Index
		c.gen = *rec.Gen
		fn(c)
		return
	}
	fn, ok := replayers[rec.Suite]
	if !ok {
		fmt.Fprintf(os.Stderr, "no replayer for suite %q\n", rec.Suite)
		os.Exit(2)
	}
	c.emit(Case{Suite: rec.Suite, In: rec.In, Out: fn(rec.In)})
}

// helpers to read replay inputs
func rList(v any) []any { l, _ := v.([]any); return l }
func rInt(v any) int64 {
	switch x := v.(type) {
	case json.Number:
		i, _ := x.Int64()
		return i
	case float64:
		return int64(x)
	case int64:
		return x
	case int:
		return int64(x)
	case bool:
		if x {
			return 1
		}
		return 0
	}
	return 0
}
func rBool(v any) bool {
	if b, ok := v.(bool); ok {
		return b
	}
	return rInt(v) != 0
}
func rStr(v any) string {
	s, _ := v.(string)
	b, _ := hex.DecodeString(s)
	return string(b)
}
