module connectrpc.com/vanguard/verifharness

go 1.25.0

require (
	connectrpc.com/connect v1.19.1
	connectrpc.com/vanguard v0.0.0
	google.golang.org/genproto/googleapis/api v0.0.0-20260223185530-2f722ef697dc
	google.golang.org/genproto/googleapis/rpc v0.0.0-20260223185530-2f722ef697dc
	google.golang.org/grpc v1.79.3
	google.golang.org/protobuf v1.36.11
)

require (
	golang.org/x/net v0.48.0 // indirect
	golang.org/x/sys v0.39.0 // indirect
	golang.org/x/text v0.32.0 // indirect
)

replace connectrpc.com/vanguard => /repo
