module connectrpc.com/vanguard/verifharness

go 1.25.0

require connectrpc.com/vanguard v0.0.0

require (
	connectrpc.com/connect v1.19.1 // indirect
	google.golang.org/genproto/googleapis/api v0.0.0-20260223185530-2f722ef697dc // indirect
	google.golang.org/genproto/googleapis/rpc v0.0.0-20260223185530-2f722ef697dc // indirect
	google.golang.org/protobuf v1.36.11 // indirect
)

replace connectrpc.com/vanguard => /repo
