package main

import (
	"net/url"
	"sort"
	"strings"

	"connectrpc.com/vanguard"
	testv1 "connectrpc.com/vanguard/internal/gen/vanguard/test/v1"
	"google.golang.org/genproto/googleapis/api/annotations"
	"google.golang.org/protobuf/proto"
	"google.golang.org/protobuf/reflect/protoreflect"
	"google.golang.org/protobuf/reflect/protoregistry"
	"google.golang.org/protobuf/types/descriptorpb"
)

// tconfV describes the configuration to the model: every method of the service with the
// attributes validate looks at.
func tconfV(cfg e2eConfig) L {
	desc, err := protoregistry.GlobalFiles.FindDescriptorByName(protoreflect.FullName(cfg.Service))
	if err != nil {
		panic(err)
	}
	svc := desc.(protoreflect.ServiceDescriptor)
	if cfg.Idem {
		svc = idemServiceDesc(cfg.Service)
	}
	protocols := cfg.Protocols
	if protocols == nil {
		protocols = []vanguard.Protocol{vanguard.ProtocolConnect, vanguard.ProtocolGRPC, vanguard.ProtocolGRPCWeb}
	}
	pl := L{}
	for _, p := range protocols {
		pl = append(pl, int64(p))
	}
	codecs := cfg.Codecs
	if codecs == nil {
		codecs = []string{"proto", "json"}
	}
	comps := []string{"gzip"}
	if cfg.NoCompress {
		comps = nil
	} else if cfg.Compressions != nil {
		comps = cfg.Compressions
	}
	limit := int64(cfg.MaxMsg)
	if limit == 0 {
		limit = 4294967295
	}
	maxGet := int64(cfg.MaxGet)
	if maxGet == 0 {
		maxGet = 8192
	}
	var methods L
	for i := 0; i < svc.Methods().Len(); i++ {
		m := svc.Methods().Get(i)
		stream := int64(0)
		switch {
		case m.IsStreamingClient() && m.IsStreamingServer():
			stream = 3
		case m.IsStreamingClient():
			stream = 1
		case m.IsStreamingServer():
			stream = 2
		}
		opts, _ := m.Options().(*descriptorpb.MethodOptions)
		nse := opts.GetIdempotencyLevel() == descriptorpb.MethodOptions_NO_SIDE_EFFECTS
		hasRest := proto.HasExtension(m.Options(), annotations.E_Http)
		methods = append(methods, L{B("/" + cfg.Service + "/" + string(m.Name())), stream, nse, hasRest, pl, Bl(codecs), B(codecs[0]), Bl(comps), limit, maxGet})
	}
	return L{methods, Bl([]string{"proto", "json"}), Bl([]string{"gzip"}), cfg.Unknown, bindingsV(svc)}
}

func isHTTPBody(msg protoreflect.MessageDescriptor, bodyPath string) bool {
	if bodyPath != "" && bodyPath != "*" {
		fd := msg.Fields().ByName(protoreflect.Name(bodyPath))
		if fd == nil || fd.IsList() || fd.IsMap() || fd.Message() == nil {
			return false
		}
		msg = fd.Message()
	}
	return msg.FullName() == "google.api.HttpBody"
}

// bindingsV lists the REST bindings in registration order (method order; rule then additional
// bindings), parsed with the implementation's own template parser (which has its own suite).
func bindingsV(svc protoreflect.ServiceDescriptor) L {
	out := L{}
	for i := 0; i < svc.Methods().Len(); i++ {
		m := svc.Methods().Get(i)
		if !proto.HasExtension(m.Options(), annotations.E_Http) {
			continue
		}
		rule, _ := proto.GetExtension(m.Options(), annotations.E_Http).(*annotations.HttpRule)
		rules := append([]*annotations.HttpRule{rule}, rule.GetAdditionalBindings()...)
		for _, r := range rules {
			var method, tmpl string
			switch p := r.GetPattern().(type) {
			case *annotations.HttpRule_Get:
				method, tmpl = "GET", p.Get
			case *annotations.HttpRule_Put:
				method, tmpl = "PUT", p.Put
			case *annotations.HttpRule_Post:
				method, tmpl = "POST", p.Post
			case *annotations.HttpRule_Delete:
				method, tmpl = "DELETE", p.Delete
			case *annotations.HttpRule_Patch:
				method, tmpl = "PATCH", p.Patch
			case *annotations.HttpRule_Custom:
				method, tmpl = p.Custom.GetKind(), p.Custom.GetPath()
			}
			rin, ok := routeIn(vanguard.VerifRoute{Method: method, Template: tmpl})
			if !ok {
				continue
			}
			reqBody := isHTTPBody(m.Input(), r.GetBody()) && r.GetBody() != ""
			respBody := isHTTPBody(m.Output(), r.GetResponseBody())
			out = append(out, L{rin, B("/" + string(svc.FullName()) + "/" + string(m.Name())), reqBody, respBody})
		}
	}
	return out
}

func creqV(req clientReq) (L, bool) {
	u, err := url.ParseRequestURI(req.Target)
	if err != nil {
		return nil, false
	}
	var q L
	// url.ParseQuery order is by key in a map; the model only needs lookups by key
	vals, _ := url.ParseQuery(u.RawQuery)
	keys := make([]string, 0, len(vals))
	for k := range vals {
		keys = append(keys, k)
	}
	sort.Strings(keys)
	for _, k := range keys {
		q = append(q, L{B(k), B(vals[k][0])})
	}
	if q == nil {
		q = L{}
	}
	h := map[string][]string{}
	var order []string
	for _, kv := range req.Headers {
		k := canonical(kv[0])
		if _, ok := h[k]; !ok {
			order = append(order, k)
		}
		h[k] = append(h[k], kv[1])
	}
	hv := L{}
	for _, k := range order {
		hv = append(hv, L{B(k), Bl(h[k])})
	}
	major := int64(1)
	if req.ProtoMajor == 2 {
		major = 2
	}
	total := int64(0)
	for _, c := range req.Chunks {
		total += int64(len(c))
	}
	cl := req.ContentLen
	if cl == -2 {
		cl = total
	}
	return L{B(req.Method), B(u.Path), q, u.RawQuery != "", major, hv, cl, B(u.EscapedPath())}, true
}

func canonical(k string) string {
	parts := strings.Split(strings.ToLower(k), "-")
	for i, p := range parts {
		if p != "" {
			parts[i] = strings.ToUpper(p[:1]) + p[1:]
		}
	}
	return strings.Join(parts, "-")
}

func bheadV(b *backendObs) L {
	return L{B(b.Method), B(b.Path), b.RawQuery != "", int64(b.ProtoMajor), hdrV(b.Header), b.ContentLen}
}

func dispatchV(res scenarioResult) L {
	switch {
	case res.Backend.Calls > 0:
		return L{int64(3), bheadV(&res.Backend)}
	case res.Unknown.Calls > 0:
		return L{int64(2), bheadV(&res.Unknown)}
	default:
		allow := L{}
		if v, ok := res.Rec.hdr["Allow"]; ok && len(v) > 0 {
			a := strings.Split(v[0], ",")
			sort.Strings(a)
			allow = L{Bl(a)}
		}
		return L{int64(0), int64(res.Rec.status()), allow}
	}
}

var appHeaders = [][2]string{{"X-Custom", "v1"}, {"X-Custom", "v2"}, {"Authorization", "Bearer x"}, {"X-Bin-Bin", "AAEC"}, {"User-Agent", "verif/1"},
	{"Accept", "*/*"}, {"Trailer-Foo", "client-sent"}, {"Grpc-Foo", "bar"}, {"Connect-Foo", "baz"}}

var ctrlHeaders = [][2]string{{"Content-Encoding", "gzip"}, {"Content-Encoding", "identity"}, {"Content-Encoding", "br"}, {"Accept-Encoding", "gzip, br"}, {"Accept-Encoding", "identity"},
	{"Grpc-Encoding", "gzip"}, {"Grpc-Encoding", "identity"}, {"Grpc-Encoding", "snappy"}, {"Grpc-Accept-Encoding", "gzip,deflate, ,br"}, {"Connect-Content-Encoding", "gzip"},
	{"Connect-Accept-Encoding", "br, gzip"}, {"Connect-Protocol-Version", "1"}, {"Connect-Protocol-Version", "2"}, {"Te", "trailers"}, {"Content-Length", "5"},
	{"Grpc-Timeout", "5S"}, {"Grpc-Timeout", "bad"}, {"Connect-Timeout-Ms", "250"}, {"Connect-Timeout-Ms", "x"}, {"Content-Type", "application/json"}, {"Content-Type", "text/plain"}}

func init() {
	suites["negotiate"] = func(c *ctx) {
		r := c.r
		protoSubsets := [][]vanguard.Protocol{}
		for mask := 1; mask < 16; mask++ {
			var s []vanguard.Protocol
			for i, p := range allTargets {
				if mask&(1<<i) != 0 {
					s = append(s, p)
				}
			}
			protoSubsets = append(protoSubsets, s)
		}
		codecLists := [][]string{{"proto"}, {"json"}, {"proto", "json"}, {"json", "proto"}}
		type mchoice struct {
			m       rpcMethod
			newMsg  func(i int) proto.Message
			service string
		}
		methods := []mchoice{
			{methGetBook, func(int) proto.Message { return &testv1.GetBookRequest{Name: bookName("s", "b")} }, libraryService},
			{methCreateBook, func(int) proto.Message {
				return &testv1.CreateBookRequest{Parent: "shelves/s", Book: &testv1.Book{Name: "n"}}
			}, libraryService},
			{methSubscribe, func(i int) proto.Message { return &testv1.SubscribeRequest{FilenamePatterns: []string{"p"}} }, contentService},
			{rpcMethod{Service: contentService, Name: "Upload", Streaming: true}, func(int) proto.Message { return &testv1.UploadRequest{Filename: "f"} }, contentService},
			{rpcMethod{Service: contentService, Name: "Download", Streaming: true}, func(int) proto.Message { return &testv1.DownloadRequest{Filename: "f"} }, contentService},
		}
		for i := 0; i < c.n; i++ {
			mc := pick(r, methods)
			cfg := e2eConfig{Service: mc.service, Protocols: pick(r, protoSubsets), Codecs: pick(r, codecLists), NoCompress: r.chance(1, 3), Unknown: r.chance(1, 3)}
			form := pick(r, []int{formConnectPost, formConnectGet, formConnectStream, formGRPC, formGRPCWeb})
			if r.chance(6, 7) { // mostly a form the method's stream type admits
				if mc.m.Streaming {
					form = pick(r, []int{formConnectStream, formGRPC, formGRPCWeb})
				} else {
					form = pick(r, []int{formConnectPost, formConnectGet, formGRPC, formGRPCWeb})
				}
			}
			codec := pick(r, []string{"proto", "json", "json", "proto", "proto", "json", "proto", "json", "xml", ""})
			comp := pick(r, []string{"", "", "gzip", "gzip", "", "identity", "br"})
			spec := clientSpec{Form: form, Codec: codec, Comp: comp, Method: mc.m}
			mcodec := codec
			if mcodec != "json" {
				mcodec = "proto"
			}
			spec.Msgs = [][]byte{marshal(mcodec, mc.newMsg(0))}
			spec.Flags = []bool{true}
			if r.chance(1, 8) {
				spec.NoVersion = true
			}
			tag := "plain"
			for k := r.intn(3); k > 0; k-- {
				spec.Extra = append(spec.Extra, pick(r, appHeaders))
			}
			if r.chance(1, 3) {
				spec.Extra = append(spec.Extra, pick(r, ctrlHeaders))
				tag = "ctrl"
			}
			if !mc.m.Streaming && r.chance(1, 4) {
				// REST client on the library bindings, with escapes in captured segments
				form = formREST
				spec.Form = formREST
				seg := func() string {
					return pick(r, []string{"s1", "b-2", "100%25", "a%2Fb", "a%2fb", "%41", "x~y", "", "a b", "%zz", "*", "v:1", "caf%C3%A9"})
				}
				switch mc.m.Name {
				case "GetBook":
					spec.RestPath = "/v1/shelves/" + seg() + "/books/" + seg()
				default:
					spec.RestPath = "/v1/shelves/" + seg() + "/books"
					spec.RestBody = marshal("json", &testv1.Book{Name: "n"})
				}
				if r.chance(1, 6) {
					spec.RestPath = pick(r, []string{"/v1/shelves", "/v2/checkouts/7", "/v1/shelves/s/books/b/", "/v1/shelves/s/books/b:verb", "/v2/shelves/s/books:search", "/v1/shelves//books/b", "/v1"})
				}
				if r.chance(1, 5) {
					spec.RestPath += "?" + pick(r, []string{"page_size=3", "connect=v1", "x=1&y=2", "book.name=q"})
				}
			}
			req := spec.build()
			if r.chance(1, 10) {
				req.Method = pick(r, []string{"GET", "PUT", "DELETE", "HEAD", "POST"})
				tag = "method"
			}
			if r.chance(1, 12) {
				req.Target = pick(r, []string{"/", "/unknown.Service/Method", "/" + mc.service + "/Nope", "/" + mc.service, mc.m.path() + "/", "/v1/none"})
				tag = "path"
			}
			if r.chance(1, 10) {
				req.ProtoMajor = 3 - req.ProtoMajor
				if req.ProtoMajor != 1 && req.ProtoMajor != 2 {
					req.ProtoMajor = 1
				}
				tag = "httpversion"
			}
			in2, ok := creqV(req)
			if !ok {
				continue
			}
			res := runScenario(cfg, req, []action{{Op: "status", N: 200}}, []action{{Op: "status", N: 204}})
			if res.BuildErr != "" {
				continue // e.g. REST-only service without bindings
			}
			out := dispatchV(res)
			kind := []string{"reject", "", "unknown", "backend"}[out[0].(int64)]
			c.emit(Case{Suite: "serve.head", In: L{tconfV(cfg), in2}, Out: out,
				Tags: []string{"negotiate:" + tag, "negotiate.form:" + formNames[form], "negotiate.outcome:" + kind, "negotiate.method:" + mc.m.Name}})
		}
	}
}
