package main

import (
	"encoding/base64"
	"net/url"
	"strings"

	"connectrpc.com/vanguard"
	testv1 "connectrpc.com/vanguard/internal/gen/vanguard/test/v1"
	"google.golang.org/protobuf/proto"
)

// client wire forms
const (
	formConnectPost = iota
	formConnectGet
	formConnectStream
	formGRPC
	formGRPCWeb
	formREST
)

var formNames = []string{"connect-post", "connect-get", "connect-stream", "grpc", "grpcweb", "rest"}

func formProtocol(f int) vanguard.Protocol {
	switch f {
	case formGRPC:
		return vanguard.ProtocolGRPC
	case formGRPCWeb:
		return vanguard.ProtocolGRPCWeb
	case formREST:
		return vanguard.ProtocolREST
	default:
		return vanguard.ProtocolConnect
	}
}

func formEnveloped(f int) bool { return f == formConnectStream || f == formGRPC || f == formGRPCWeb }

var allTargets = []vanguard.Protocol{vanguard.ProtocolConnect, vanguard.ProtocolGRPC, vanguard.ProtocolGRPCWeb, vanguard.ProtocolREST}

// rpcMethod describes one schema method used by the scenarios
type rpcMethod struct {
	Service, Name string
	Streaming     bool // any streaming
	RestMethod    string
	NewReq        func() proto.Message
	NewResp       func() proto.Message
}

var methGetBook = rpcMethod{Service: libraryService, Name: "GetBook", RestMethod: "GET",
	NewReq: func() proto.Message { return &testv1.GetBookRequest{} }, NewResp: func() proto.Message { return &testv1.Book{} }}
var methCreateBook = rpcMethod{Service: libraryService, Name: "CreateBook", RestMethod: "POST",
	NewReq: func() proto.Message { return &testv1.CreateBookRequest{} }, NewResp: func() proto.Message { return &testv1.Book{} }}
var methSubscribe = rpcMethod{Service: contentService, Name: "Subscribe", Streaming: true,
	NewReq: func() proto.Message { return &testv1.SubscribeRequest{} }, NewResp: func() proto.Message { return &testv1.SubscribeResponse{} }}

func (m rpcMethod) path() string { return "/" + m.Service + "/" + m.Name }

// clientSpec is a spec-level description of a client request
type clientSpec struct {
	Form      int
	Codec     string // proto | json
	Comp      string // "" | gzip | identity
	Method    rpcMethod
	Msgs      [][]byte // encoded (uncompressed) messages in Codec
	Flags     []bool   // per message: compressed bit (only meaningful with Comp set, enveloped forms)
	Extra     [][2]string
	RestPath  string // for formREST: request target
	RestBody  []byte
	NoVersion bool
}

// build renders the request bytes per the protocol specifications
func (s clientSpec) build() clientReq {
	req := clientReq{Method: "POST", Target: s.Method.path(), ProtoMajor: 1, ContentLen: -2}
	var body []byte
	payload := func(i int) ([]byte, byte) {
		p := s.Msgs[i]
		if s.Comp == "gzip" && (i >= len(s.Flags) || s.Flags[i]) {
			return gzipBytes(p), 1
		}
		return p, 0
	}
	switch s.Form {
	case formConnectPost:
		req.Headers = append(req.Headers, [2]string{"Content-Type", "application/" + s.Codec})
		if !s.NoVersion {
			req.Headers = append(req.Headers, [2]string{"Connect-Protocol-Version", "1"})
		}
		if s.Comp != "" {
			req.Headers = append(req.Headers, [2]string{"Content-Encoding", s.Comp})
		}
		if len(s.Msgs) > 0 {
			body = s.Msgs[0]
			if s.Comp == "gzip" {
				body = gzipBytes(body)
			}
		}
	case formConnectGet:
		req.Method = "GET"
		q := url.Values{}
		q.Set("connect", "v1")
		q.Set("encoding", s.Codec)
		var msg []byte
		if len(s.Msgs) > 0 {
			msg = s.Msgs[0]
		}
		if s.Comp != "" {
			q.Set("compression", s.Comp)
			if s.Comp == "gzip" {
				msg = gzipBytes(msg)
			}
		}
		if s.Codec == "proto" || s.Comp == "gzip" {
			q.Set("base64", "1")
			q.Set("message", base64.RawURLEncoding.EncodeToString(msg))
		} else {
			q.Set("message", string(msg))
		}
		req.Target += "?" + q.Encode()
		req.ContentLen = 0
	case formConnectStream:
		req.ProtoMajor = 2
		req.Headers = append(req.Headers, [2]string{"Content-Type", "application/connect+" + s.Codec})
		if s.Comp != "" {
			req.Headers = append(req.Headers, [2]string{"Connect-Content-Encoding", s.Comp})
		}
		for i := range s.Msgs {
			p, f := payload(i)
			body = append(body, envelope(f, p)...)
		}
		req.ContentLen = -1
	case formGRPC, formGRPCWeb:
		ct := "application/grpc"
		if s.Form == formGRPCWeb {
			ct = "application/grpc-web"
		} else {
			req.ProtoMajor = 2
			req.Headers = append(req.Headers, [2]string{"Te", "trailers"})
		}
		if s.Method.Streaming {
			req.ProtoMajor = 2
		}
		if s.Codec != "proto" || len(s.Msgs)%2 == 0 {
			ct += "+" + s.Codec
		}
		req.Headers = append(req.Headers, [2]string{"Content-Type", ct})
		if s.Comp != "" {
			req.Headers = append(req.Headers, [2]string{"Grpc-Encoding", s.Comp})
		}
		for i := range s.Msgs {
			p, f := payload(i)
			body = append(body, envelope(f, p)...)
		}
		req.ContentLen = -1
	case formREST:
		req.Method = s.Method.RestMethod
		req.Target = s.RestPath
		if s.RestBody != nil {
			req.Headers = append(req.Headers, [2]string{"Content-Type", "application/json"})
			body = s.RestBody
			if s.Comp == "gzip" {
				body = gzipBytes(body)
			}
			if s.Comp != "" {
				req.Headers = append(req.Headers, [2]string{"Content-Encoding", s.Comp})
			}
		} else {
			req.ContentLen = 0
		}
	}
	req.Headers = append(req.Headers, s.Extra...)
	if len(body) > 0 {
		req.Chunks = [][]byte{body}
	}
	return req
}

func bookName(shelf, book string) string { return "shelves/" + shelf + "/books/" + book }

// a GetBook client request in any unary form
func getBookSpec(form int, codec, comp string, name string) clientSpec {
	msg := &testv1.GetBookRequest{Name: name}
	s := clientSpec{Form: form, Codec: codec, Comp: comp, Method: methGetBook, Msgs: [][]byte{marshal(codec, msg)}, Flags: []bool{true}}
	if form == formREST {
		s.RestPath = "/v1/" + name
	}
	return s
}

func subscribeSpec(form int, codec, comp string, n int) clientSpec {
	s := clientSpec{Form: form, Codec: codec, Comp: comp, Method: methSubscribe}
	for i := 0; i < n; i++ {
		s.Msgs = append(s.Msgs, marshal(codec, &testv1.SubscribeRequest{FilenamePatterns: []string{strings.Repeat("p", i+1)}}))
		s.Flags = append(s.Flags, true)
	}
	return s
}
