package main

import (
	"strconv"

	"connectrpc.com/vanguard"
)

// timeout encodings: 0 grpc, 1 connect, 2 rest
func encOfProtocol(p vanguard.Protocol) int {
	switch p {
	case vanguard.ProtocolGRPC, vanguard.ProtocolGRPCWeb:
		return 0
	case vanguard.ProtocolConnect:
		return 1
	default:
		return 2
	}
}

var timeoutHeader = []string{"Grpc-Timeout", "Connect-Timeout-Ms", "X-Server-Timeout"}

func deadlineRun(form int, target vanguard.Protocol, samePath bool, present bool, value string) any {
	codec := "proto"
	cfg := e2eConfig{Service: libraryService, Protocols: []vanguard.Protocol{target}}
	var spec clientSpec
	if form == formConnectStream {
		cfg.Service = contentService
		spec = subscribeSpec(form, codec, "", 1)
	} else {
		spec = getBookSpec(form, codec, "", bookName("s1", "b1"))
	}
	if !samePath {
		// force transformation even when protocols coincide
		cfg.Codecs = []string{"json"}
	}
	cenc := encOfProtocol(formProtocol(form))
	if present {
		spec.Extra = append(spec.Extra, [2]string{timeoutHeader[cenc], value})
	}
	res := runScenario(cfg, spec.build(), []action{{Op: "readall", N: 512}, {Op: "status", N: 200}}, nil)
	tenc := encOfProtocol(target)
	vals, ok := res.Backend.Header[timeoutHeader[tenc]]
	hv := ""
	if ok && len(vals) > 0 {
		hv = vals[0]
	}
	rejected := res.Rec.status() == 400 && res.Backend.Calls == 0
	return L{rejected, res.Backend.Calls > 0, ok, B(hv), int64(res.Rec.status())}
}

func init() {
	replayers["deadline.e2e"] = func(in any) any {
		l := rList(in)
		return deadlineRun(int(rInt(l[4])), vanguard.Protocol(rInt(l[5])), rBool(l[6]), rBool(l[2]), rStr(l[3]))
	}
	suites["deadline"] = func(c *ctx) {
		emit := func(form int, target vanguard.Protocol, same bool, present bool, value string, tag string) {
			if form == formConnectStream && target == vanguard.ProtocolREST {
				return
			}
			cenc := encOfProtocol(formProtocol(form))
			in := L{int64(cenc), int64(encOfProtocol(target)), present, B(value), int64(form), int64(target), same}
			out := deadlineRun(form, target, same, present, value)
			c.emit(Case{Suite: "deadline.e2e", In: in, Out: out, Tags: []string{"deadline:" + tag, "deadline.pair:" + formNames[form] + ">" + target.String()}})
		}
		values := map[int][]string{
			0: {"0n", "0S", "1n", "999u", "1500m", "45S", "99999999S", "99999999M", "8H", "9H", "99999999H", "100000000n", "00000001S", "1", "S", "12xS", "+5S", "-0S", "5s", " 5S", "123456789n", "0H", "1u"},
			1: {"0", "1", "999", "1000", "60000", "9999999999", "10000000000", "99999999999999999999", "+5", "-0", "-5", "1.5", "abc", " 5", "0100", "1e3", "9223372036854"},
			2: {"0", "0.0", "1", "1.5", "0.001", "0.0000001", "30", "86400", "123456.789", "NaN", "Inf", "-5", "abc", "1e3", "1_0", "0x10", "9999999999", "1e300", ".5", "5."},
		}
		for form := 0; form < 6; form++ {
			cenc := encOfProtocol(formProtocol(form))
			for _, target := range allTargets {
				for _, same := range []bool{true, false} {
					emit(form, target, same, false, "", "absent")
					emit(form, target, same, true, "", "empty")
					for _, v := range values[cenc] {
						emit(form, target, same, true, v, "listed")
					}
				}
			}
		}
		for i := 0; i < c.n; i++ {
			form := c.r.intn(6)
			target := pick(c.r, allTargets)
			cenc := encOfProtocol(formProtocol(form))
			var v string
			switch cenc {
			case 0:
				v = strconv.FormatUint(c.r.next()%pick(c.r, []uint64{10, 1000, 100000000, 1000000000}), 10) + pick(c.r, grpcUnits)
			case 1:
				v = strconv.FormatUint(c.r.next()%pick(c.r, []uint64{10, 100000, 10000000000, 1 << 40}), 10)
			default:
				v = strconv.FormatUint(c.r.next()%pick(c.r, []uint64{10, 100000, 10000000}), 10)
				if c.r.chance(1, 2) {
					v += "." + strconv.FormatUint(c.r.next()%1000000000, 10)
				}
			}
			tag := "random"
			if c.r.chance(1, 4) {
				v = mutateTimeout(c.r, v)
				tag = "mutated"
			}
			emit(form, target, c.r.chance(1, 2), true, v, tag)
		}
	}
}
