package main

import (
	"sort"
	"strings"

	"connectrpc.com/vanguard"
)

func parseOut(t string) any {
	path, verb, vars, ok := vanguard.VerifParsePathTemplate(t)
	if !ok {
		return L{}
	}
	vl := make(L, len(vars))
	for i, v := range vars {
		vl[i] = L{B(v.FieldPath), int64(v.Start), int64(v.End)}
	}
	return L{Bl(path), B(verb), vl}
}

// routeIn describes one route for the model: parsed by the implementation's own parser
// (the parser has its own suite), so that the trie suite checks the trie only.
func routeIn(r vanguard.VerifRoute) (any, bool) {
	path, verb, vars, ok := vanguard.VerifParsePathTemplate(r.Template)
	if !ok {
		return nil, false
	}
	vl := make(L, len(vars))
	for i, v := range vars {
		vl[i] = L{int64(v.Start), int64(v.End)}
	}
	return L{B(r.Method), Bl(path), B(verb), vl}, true
}

func matchOut(trie *vanguard.VerifTrie, uri, method string) any {
	idx, vars, allowed := trie.Match(uri, method)
	switch {
	case idx >= 0:
		return L{int64(2), int64(idx), Bl(vars)}
	case len(allowed) > 0:
		sort.Strings(allowed)
		return L{int64(1), Bl(allowed)}
	default:
		return L{int64(0)}
	}
}

var tmplSegs = []string{"a", "b", "v1", "*", "{x}", "{y=*}", "{x=a/*}", "{z=b/*/c}", "a%2Fb", "{n.m}", "{q=a/{r}}", "x-y", "~"}
var tmplLast = []string{"**", "{p=**}", "{p=a/**}", "{x=b/{w=**}}"}
var pathSegs = []string{"a", "b", "c", "v1", "", "*", "**", "%2F", "%2f", "%25", "a%2Fb", "a%2fb", "%41", "100%25", "a:b", "\xc3\xa9", "%zz", "%", "x-y", "~", "a b", "%3A", "a%"}
var httpMethods = []string{"GET", "POST", "DELETE", "*", "PATCH"}
var verbs = []string{"", "", "", ":v", ":w", ":upload"}

func genTemplate(r *rng) string {
	n := 1 + r.intn(4)
	segs := make([]string, 0, n)
	used := map[string]bool{}
	for i := 0; i < n; i++ {
		var s string
		if i == n-1 && r.chance(1, 4) {
			s = pick(r, tmplLast)
		} else {
			s = pick(r, tmplSegs)
		}
		// avoid duplicate variable names most of the time
		if strings.Contains(s, "{") {
			name := s[strings.Index(s, "{")+1:]
			if j := strings.IndexAny(name, "=}"); j >= 0 {
				name = name[:j]
			}
			if used[name] && r.chance(9, 10) {
				s = "a"
			}
			used[name] = true
		}
		segs = append(segs, s)
	}
	return "/" + strings.Join(segs, "/") + pick(r, verbs)
}

// a request path that matches the template (wildcards instantiated), possibly mutated
func instantiate(r *rng, tmplPath []string, verb string) string {
	var out []string
	for _, s := range tmplPath {
		switch s {
		case "*":
			out = append(out, pick(r, pathSegs))
		case "**":
			for k := 1 + r.intn(3); k > 0; k-- {
				out = append(out, pick(r, pathSegs))
			}
		default:
			out = append(out, s)
		}
	}
	p := "/" + strings.Join(out, "/")
	if verb != "" {
		p += ":" + verb
	}
	return p
}

func mutatePath(r *rng, p string) string {
	switch r.intn(10) {
	case 0:
		return p + "/"
	case 1:
		return p + "/" + pick(r, pathSegs)
	case 2:
		if i := strings.LastIndex(p, "/"); i > 0 {
			return p[:i]
		}
		return p
	case 3:
		return p + ":v"
	case 4:
		return p + ":"
	case 5:
		return strings.TrimPrefix(p, "/")
	case 6:
		return strings.Replace(p, "/", "//", 1)
	case 7:
		return p + pick(r, pathSegs)
	default:
		return p
	}
}

func init() {
	replayers["template.parse"] = func(in any) any { return parseOut(rStr(in)) }
	replayRoutes := func(v any) []vanguard.VerifRoute { return nil }
	_ = replayRoutes

	suites["templates"] = func(c *ctx) {
		seen := map[string]bool{}
		emit := func(t, tag string) {
			if seen[t] {
				return
			}
			seen[t] = true
			c.emit(Case{Suite: "template.parse", In: B(t), Out: parseOut(t), Tags: []string{"template.parse:" + tag}})
		}
		fixed := []string{"", "/", "//", "/a", "/a/", "/a//b", "/*", "/**", "/***", "/**/a", "/a/**:v", "/{x}", "/{x=*}", "/{x=**}", "/{x=**}/a", "/{x}/{x}",
			"/{x=a/{y=b/*}}/c", "/{x.y.z}", "/{x.}", "/{.x}", "/{1x}", "/{x=}", "/{x", "/{x=a", "/{}", "/a:v", "/a:", "/a:v:w", "/a:v/b", "/%41", "/%4", "/%zz", "/a%2Fb", "/a%2fb",
			"/\xc3\xa9", "/a\xff", "/a b", "/a?b", "/{x=a/**}:v", "/{x=**}:v", "/a/{x=**}/{y}", "/{x=*}*", "/a*", "/*a", "/{x=a}b", "/{x}}", "/{{x}}", "/{x={y}}", "/{x={y=**}}/z", "/{x=**}{y}", "/_a", "/{_a}", "/{a_1.b2}", "/-", "/~", "/.", "/..", "/a.b"}
		for _, t := range fixed {
			emit(t, "fixed")
		}
		for i := 0; i < c.n; i++ {
			t := genTemplate(c.r)
			emit(t, "generated")
			// mutated
			b := []byte(t)
			if len(b) > 0 && c.r.chance(1, 2) {
				pos := c.r.intn(len(b))
				switch c.r.intn(3) {
				case 0:
					b[pos] = pick(c.r, []byte("{}=*/:.%a1_-~ \xff"))
				case 1:
					b = append(b[:pos], b[pos+1:]...)
				default:
					b = append(b[:pos], append([]byte{pick(c.r, []byte("{}=*/:.%"))}, b[pos:]...)...)
				}
				emit(string(b), "mutated")
			}
		}
	}

	runTable := func(c *ctx, routes []vanguard.VerifRoute, paths []string, tag string) {
		var ins L
		var okRoutes []vanguard.VerifRoute
		for _, r := range routes {
			in, ok := routeIn(r)
			if !ok {
				continue
			}
			ins = append(ins, in)
			okRoutes = append(okRoutes, r)
		}
		if len(okRoutes) == 0 {
			return
		}
		trie, errs := vanguard.VerifNewTrie(okRoutes)
		oks := make(L, len(errs))
		for i, e := range errs {
			oks[i] = e == ""
		}
		c.emit(Case{Suite: "router.build", In: ins, Out: oks, Tags: []string{"router.build:" + tag}})
		for _, p := range paths {
			m := pick(c.r, httpMethods[:3])
			if c.r.chance(1, 8) {
				m = pick(c.r, []string{"PUT", "OPTIONS", "get", "*"})
			}
			out := matchOut(trie, p, m)
			kind := []string{"404", "405", "found"}[out.(L)[0].(int64)]
			c.emit(Case{Suite: "router.match", In: L{ins, B(p), B(m)}, Out: out, Tags: []string{"router.match:" + tag, "router.outcome:" + kind}})
		}
	}

	suites["router"] = func(c *ctx) {
		// (a) exhaustive small templates over {a, b, *, **(final)} x verb {"", v}; tables are random
		// subsets, paths exhaustive over {a,b,c} up to 3 segments
		var small []string
		alpha := []string{"a", "b", "*"}
		var rec func(prefix []string, depth int)
		rec = func(prefix []string, depth int) {
			if len(prefix) > 0 {
				small = append(small, "/"+strings.Join(prefix, "/"))
			}
			small = append(small, "/"+strings.Join(append(append([]string{}, prefix...), "**"), "/"))
			if depth == 0 {
				return
			}
			for _, a := range alpha {
				rec(append(append([]string{}, prefix...), a), depth-1)
			}
		}
		rec(nil, 2)
		var smallPaths []string
		var recp func(prefix []string, depth int)
		recp = func(prefix []string, depth int) {
			if len(prefix) > 0 {
				smallPaths = append(smallPaths, "/"+strings.Join(prefix, "/"), "/"+strings.Join(prefix, "/")+":v")
			}
			if depth == 0 {
				return
			}
			for _, a := range []string{"a", "b", "c"} {
				recp(append(append([]string{}, prefix...), a), depth-1)
			}
		}
		recp(nil, 3)
		nTables := c.n / 80
		if nTables < 20 {
			nTables = 20
		}
		for t := 0; t < nTables; t++ {
			k := 1 + c.r.intn(5)
			var routes []vanguard.VerifRoute
			for i := 0; i < k; i++ {
				tm := pick(c.r, small)
				if c.r.chance(1, 4) {
					tm += ":v"
				}
				routes = append(routes, vanguard.VerifRoute{Method: pick(c.r, httpMethods[:4]), Template: tm})
			}
			var paths []string
			for i := 0; i < 40; i++ {
				paths = append(paths, pick(c.r, smallPaths))
			}
			runTable(c, routes, paths, "small")
		}
		// (b) generated rich tables and instantiated/mutated paths
		for t := 0; t < nTables; t++ {
			k := 1 + c.r.intn(6)
			var routes []vanguard.VerifRoute
			for i := 0; i < k; i++ {
				routes = append(routes, vanguard.VerifRoute{Method: pick(c.r, httpMethods), Template: genTemplate(c.r)})
			}
			// overlapping variants: same template other method, wildcard twin
			if c.r.chance(1, 2) {
				routes = append(routes, vanguard.VerifRoute{Method: pick(c.r, httpMethods), Template: routes[0].Template})
			}
			var paths []string
			for _, r := range routes {
				path, verb, _, ok := vanguard.VerifParsePathTemplate(r.Template)
				if !ok {
					continue
				}
				for i := 0; i < 6; i++ {
					p := instantiate(c.r, path, verb)
					if c.r.chance(1, 3) {
						p = mutatePath(c.r, p)
					}
					paths = append(paths, p)
				}
			}
			paths = append(paths, "/", "", "/a", "a", "/:", "/a:")
			runTable(c, routes, paths, "rich")
			// same table in another order must behave the same: emitted as an independent table
			if len(routes) > 1 {
				perm := append([]vanguard.VerifRoute{}, routes...)
				for i := len(perm) - 1; i > 0; i-- {
					j := c.r.intn(i + 1)
					perm[i], perm[j] = perm[j], perm[i]
				}
				runTable(c, perm, paths[:len(paths)/2], "permuted")
			}
		}
	}
}
