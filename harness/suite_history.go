package main

import (
	"fmt"
	"net/http"
	"strings"
	"sync"

	"connectrpc.com/vanguard"
	testv1 "connectrpc.com/vanguard/internal/gen/vanguard/test/v1"
	"google.golang.org/protobuf/proto"
)

// a self-contained exchange against a fixed two-service configuration (gRPC/proto backends, limit 2048):
// the request, how the backend answers, and the observation (client view + what the backend saw)
type exchange struct {
	req    clientReq
	form   int
	script []action
	kind   string
}

// the backend side of a history: one target protocol and codec for the whole transcoder
type histConf struct {
	target vanguard.Protocol
	codec  string
}

func genHistConf(r *rng) histConf {
	return histConf{
		target: pick(r, []vanguard.Protocol{vanguard.ProtocolGRPC, vanguard.ProtocolGRPC, vanguard.ProtocolGRPCWeb, vanguard.ProtocolConnect}),
		codec:  pick(r, []string{"proto", "proto", "json"}),
	}
}

func historyTranscoder(backend http.Handler, hc histConf) *vanguard.Transcoder {
	opts := []vanguard.ServiceOption{vanguard.WithTargetProtocols(hc.target), vanguard.WithTargetCodecs(hc.codec), vanguard.WithMaxMessageBufferBytes(2048)}
	tc, err := vanguard.NewTranscoder([]*vanguard.Service{vanguard.NewService(libraryService, backend, opts...), vanguard.NewService(contentService, backend, opts...)})
	if err != nil {
		panic(err)
	}
	return tc
}

// genExchange: valid and hostile exchanges; probe=true gives a valid one that holds several pooled buffers at once
func genExchange(r *rng, hc histConf, probe bool) exchange {
	form := pick(r, []int{formConnectPost, formGRPCWeb, formGRPC, formConnectStream, formREST})
	codec := pick(r, []string{"json", "proto"}) // same as the backend's: re-framed only; different: transformed
	if probe {
		codec = "json"
		if hc.codec == "json" {
			codec = "proto"
		}
	}
	fault := -1
	if !probe {
		fault = r.intn(14)
		if fault >= 11 && r.chance(3, 4) {
			// a malformed end-of-stream frame matters most where the response is only re-framed
			codec = hc.codec
			form = pick(r, []int{formGRPCWeb, formGRPC, formConnectStream, formConnectStream})
		}
	}
	comp := pick(r, []string{"", "gzip", "gzip"})
	streaming := form == formConnectStream
	var spec clientSpec
	name := bookName(pick(r, []string{"s", "x y"}), pick(r, []string{"b", "c-d"}))
	if streaming {
		spec = subscribeSpec(form, codec, comp, 1+r.intn(3))
	} else {
		spec = getBookSpec(form, codec, comp, name)
		if form == formREST {
			spec.RestPath = "/v1/" + strings.ReplaceAll(name, " ", "%20")
			spec.Comp = ""
		}
	}
	req := spec.build()
	resp := backendResp{Target: hc.target, Streaming: streaming, Codec: hc.codec, Comp: pick(r, []string{"", "gzip"}), Split: r.intn(3)}
	var respMsg proto.Message = &testv1.Book{Name: name, Title: strings.Repeat("t", r.intn(40))}
	if streaming {
		respMsg = &testv1.SubscribeResponse{FilenameChanged: "f"}
	}
	payload := marshal(hc.codec, respMsg)
	resp.Msgs, resp.Flags = [][]byte{payload}, []bool{true}
	kind := "valid"
	if !probe {
		var body []byte
		for _, ch := range req.Chunks {
			body = append(body, ch...)
		}
		switch fault {
		case 11, 12, 13:
			resp.BadEnd = 1 + r.intn(2)
			if resp.badEndEffective() {
				kind = "backend-badend"
			}
		case 0:
			req.Headers = append(req.Headers, [2]string{"Content-Type", "text/plain"})
			kind = "validation"
		case 1:
			req.Target = "/nope"
			kind = "validation"
		case 2:
			if len(body) > 3 {
				req.Chunks = [][]byte{body[:len(body)/2]}
				kind = "cut"
			}
		case 3:
			if comp == "gzip" && len(body) > 12 {
				mod := append([]byte(nil), body...)
				mod[len(mod)-6] ^= 0x55
				mod[len(mod)/2] ^= 0x55
				req.Chunks = [][]byte{mod}
				kind = "corrupt"
			}
		case 4:
			big := &testv1.GetBookRequest{Name: strings.Repeat("n", 5000)}
			if !streaming && form != formREST {
				s2 := spec
				s2.Msgs = [][]byte{marshal(codec, big)}
				req = s2.build()
				kind = "overlimit"
			}
		case 5:
			if comp == "gzip" && !streaming && form != formREST {
				s2 := spec
				s2.Msgs = [][]byte{marshal(codec, &testv1.GetBookRequest{Name: strings.Repeat("z", 200000)})}
				req = s2.build()
				kind = "bomb"
			}
		case 6:
			resp.ErrCode, resp.ErrMsg = int64(1+r.intn(16)), "failed"
			kind = "backend-error"
		case 7:
			resp.Cut = 3
			kind = "backend-cut"
		case 8:
			resp.WrongCT = "text/html"
			kind = "backend-wrongct"
		case 9:
			kind = "backend-panic"
		case 10:
			if formEnveloped(form) && len(body) > 0 {
				mod := append([]byte(nil), body...)
				mod[0] = 7
				req.Chunks = [][]byte{mod}
				kind = "badflag"
			}
		}
	}
	script := []action{{Op: "readall", N: 256}}
	if r.chance(2, 3) {
		// like connect-go and grpc-go handlers, which close the request body themselves
		script = append(script, action{Op: "closebody"})
	}
	script = append(script, resp.script(r, newEndTables())...)
	if kind == "backend-panic" {
		script = []action{{Op: "read", N: 16}, {Op: "panic"}}
	}
	return exchange{req: req, form: form, script: script, kind: kind}
}

// serving with a per-exchange scripted backend behind a long-lived transcoder
type switchBackend struct {
	mu  sync.Mutex
	cur http.Handler
}

func (s *switchBackend) ServeHTTP(w http.ResponseWriter, r *http.Request) {
	s.mu.Lock()
	h := s.cur
	s.mu.Unlock()
	h.ServeHTTP(w, r)
}

func runExchange(tc http.Handler, sb *switchBackend, ex exchange) L {
	var res scenarioResult
	sb.mu.Lock()
	sb.cur = scriptedBackend(&res.Backend, ex.script)
	sb.mu.Unlock()
	res = runOn(tc, ex.req, &res)
	view := decodeClient(ex.form, res.Rec)
	known := map[string]bool{"": true, "failed": true}
	return L{view.value(false, nil, known), int64(res.Backend.Calls), Bb(res.Backend.body()), B(res.Backend.lastReadErr()), hdrV(res.Backend.Header)}
}

func poolTraceV(pw *poolWatch) L {
	pw.mu.Lock()
	defer pw.mu.Unlock()
	out := make(L, len(pw.trace))
	for i, e := range pw.trace {
		out[i] = L{int64(e.Op), int64(e.ID)}
	}
	return out
}

func init() {
	// C15: a probe RPC behaves on a used transcoder exactly as on a fresh one, whatever came before.
	// C14 (sequential part): the pool trace of the whole history never shows a buffer released twice or handed
	// out while still in use.
	suites["histories"] = func(c *ctx) {
		for i := 0; i < c.n/12+1; i++ {
			seed := int64(c.r.next() >> 2)
			h := runHistory(seed)
			tags := []string{fmt.Sprintf("histories.len:%d", h.n), "histories.target:" + h.hc.target.String() + "/" + h.hc.codec}
			for k := range h.kinds {
				tags = append(tags, "histories:"+k)
			}
			c.emit(Case{Suite: "history.probe", In: L{seed}, Out: L{h.onUsed, h.onFresh}, Tags: tags, Desc: h.desc})
			c.emit(Case{Suite: "pool.trace", In: L{B("history"), seed}, Out: h.trace, Tags: []string{"pool.trace:history"}, Desc: h.desc})
		}
	}
	replayers["history.probe"] = func(in any) any {
		h := runHistory(rInt(rList(in)[0]))
		return L{h.onUsed, h.onFresh}
	}
	replayers["pool.trace"] = func(in any) any {
		l := rList(in)
		if rStr(l[0]) == "history" {
			return runHistory(rInt(l[1])).trace
		}
		vanguard.VerifPoolPoison.Store(true)
		return runConcurrentBatch(rInt(l[1])).trace
	}
}

type historyRun struct {
	n               int
	hc              histConf
	kinds           map[string]bool
	onUsed, onFresh L
	trace           L
	desc            string
}

// runHistory: a history of exchanges on one transcoder, then a probe on it and on a fresh one. Everything
// is derived from the seed.
func runHistory(seed int64) historyRun {
	r := &rng{s: uint64(seed)}
	sbUsed, sbFresh := &switchBackend{}, &switchBackend{}
	hc := genHistConf(r)
	used := historyTranscoder(sbUsed, hc)
	pw, stop := watchPool()
	h := historyRun{n: 1 + r.intn(12), hc: hc, kinds: map[string]bool{}}
	var order []string
	for k := 0; k < h.n; k++ {
		ex := genExchange(r, hc, false)
		h.kinds[ex.kind] = true
		order = append(order, fmt.Sprintf("%s(%s)", ex.kind, formNames[ex.form]))
		runExchange(used, sbUsed, ex)
	}
	probe := genExchange(r, hc, true)
	h.onUsed = runExchange(used, sbUsed, probe)
	h.trace = poolTraceV(pw)
	stop()
	fresh := historyTranscoder(sbFresh, hc)
	h.onFresh = runExchange(fresh, sbFresh, probe)
	h.desc = fmt.Sprintf("backend %s/%s; history %s; probe %s", hc.target, hc.codec, strings.Join(order, ", "), formNames[probe.form])
	return h
}

func init() {
	// C15: the pool itself. Buffers with data are put back, Gets must come back empty; a buffer above
	// the recycling bound must never come back.
	suites["poolops"] = func(c *ctx) {
		r := c.r
		for i := 0; i < c.n; i++ {
			n := 1 + r.intn(12)
			ops := make([]vanguard.VerifPoolOp, n)
			in := L{}
			for k := range ops {
				if r.chance(1, 2) {
					capacity := pick(r, []int{1, 512, 4096, 1 << 20, 8 << 20, 8<<20 + 1, 9 << 20})
					ops[k] = vanguard.VerifPoolOp{PutCap: capacity, Fill: pick(r, []int{0, 1, 100, capacity})}
				}
				in = append(in, L{int64(ops[k].PutCap), int64(ops[k].Fill)})
			}
			out := L{}
			for _, g := range vanguard.VerifPoolOps(ops) {
				out = append(out, L{int64(g.Len), int64(g.Cap), int64(g.FromPut)})
			}
			c.emit(Case{Suite: "pool.ops", In: in, Out: out, Tags: []string{fmt.Sprintf("poolops.len:%d", n)}})
		}
	}
}
