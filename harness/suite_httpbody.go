package main

import (
	"bytes"
	"connectrpc.com/vanguard"
	"fmt"
	"net/http"
	"net/url"
	"strings"

	"google.golang.org/genproto/googleapis/api/httpbody"
	"google.golang.org/protobuf/proto"

	testv1 "connectrpc.com/vanguard/internal/gen/vanguard/test/v1"
)

// google.api.HttpBody in REST bindings (C07; with buffers poisoned when they go back to the pool
// also C14/C15: nothing handed on may live in a released buffer).
//
//	upload-rpc:   REST client -> gRPC backend:  POST /{filename=**}:upload?filename=q, any Content-Type, raw body
//	upload-rest:  REST client -> REST backend, the transformation forced by a compression the backend does not take
//	index-rpc:    REST client -> gRPC backend:  GET /{page=**}, the backend answers an HttpBody
//	index-rest:   REST client -> REST backend whose compressed answer the client does not accept
//
// The cases are reported in the rest.bind format (kind 0: a REST client whose request must arrive
// as the expected message and whose response must come back equal).
func httpBodyCases(c *ctx, n int) {
	r := c.r
	vanguard.VerifPoolPoison.Store(true)

	contentTypes := []string{"application/octet-stream", "text/plain", "image/png", "application/x-custom+thing", "text/html; charset=utf-8", "application/json"}
	sizes := []int{0, 1, 17, 600, 1500, 5000}
	names := []string{"a.txt", "dir/sub/b.bin", "x", "with space.txt", "q%3Fmark"}

	for i := 0; i < n; i++ {
		ct := pick(r, contentTypes)
		size := pick(r, sizes)
		payload := make([]byte, size)
		for k := range payload {
			payload[k] = byte('a' + (k*7+i)%26)
		}
		name := pick(r, names)
		escName := strings.ReplaceAll(url.PathEscape(name), "%2F", "/")
		gz := r.chance(1, 3)
		kind := r.intn(4)
		var seen backendObs
		var backendMsgs [][]byte
		var backendCT string
		var backendBody []byte
		reqEqual, respEqual := false, false
		code := int64(0)
		var res scenarioResult
		tag, note := "", ""
		switch kind {
		case 0: // upload-rpc
			tag = "upload-rpc"
			q := ""
			want := name
			if r.chance(1, 2) {
				want = pick(r, []string{"other.txt", "o/p.q", "z"})
				q = "?filename=" + url.QueryEscape(want)
			}
			backend := http.HandlerFunc(func(w http.ResponseWriter, rq *http.Request) {
				seen.Calls++
				body := readAllBody(rq)
				for len(body) >= 5 {
					ln := int(uint32(body[1])<<24 | uint32(body[2])<<16 | uint32(body[3])<<8 | uint32(body[4]))
					if len(body) < 5+ln {
						break
					}
					raw := append([]byte(nil), body[5:5+ln]...)
					if body[0]&1 == 1 {
						if un, err := gunzipBytes(raw); err == nil {
							raw = un
						}
					}
					backendMsgs = append(backendMsgs, raw)
					body = body[5+ln:]
				}
				w.Header().Set("Content-Type", "application/grpc+proto")
				w.WriteHeader(200)
				w.Write(envelope(0, nil))
				w.Header().Set(http.TrailerPrefix+"Grpc-Status", "0")
			})
			tc := mustTranscoder(vanguard.NewService(contentService, backend, vanguard.WithTargetProtocols(vanguard.ProtocolGRPC), vanguard.WithTargetCodecs("proto")))
			req := clientReq{Method: "POST", Target: "/" + escName + ":upload" + q, ProtoMajor: 1, ContentLen: -2,
				Headers: [][2]string{{"Content-Type", ct}}}
			body := payload
			if gz {
				body = gzipBytes(payload)
				req.Headers = append(req.Headers, [2]string{"Content-Encoding", "gzip"})
			}
			req.Chunks = [][]byte{body}
			res = runOn(tc, req, &res)
			// the body may be cut into several messages: the first carries the file name, the data concatenates
			var data []byte
			fn, gotCT := "", ""
			okMsgs := len(backendMsgs) > 0
			for k, raw := range backendMsgs {
				var m testv1.UploadRequest
				if err := proto.Unmarshal(raw, &m); err != nil {
					okMsgs = false
					break
				}
				if k == 0 {
					fn, gotCT = m.GetFilename(), m.GetFile().GetContentType()
				}
				data = append(data, m.GetFile().GetData()...)
			}
			reqEqual = okMsgs && fn == want && gotCT == ct && bytes.Equal(data, payload)
			respEqual = res.Rec.status() == 200
			if !reqEqual {
				res.Panic = ""
				note = fmt.Sprintf("upload-rpc: ct=%q want filename %q got %q, content type %q, data equal %v (%d messages)", ct, want, fn, gotCT, bytes.Equal(data, payload), len(backendMsgs))
			}
		case 1: // upload-rest: REST -> REST, transformed because the backend takes no compression
			tag = "upload-rest"
			backend := http.HandlerFunc(func(w http.ResponseWriter, rq *http.Request) {
				seen.Calls++
				seen.Path = rq.URL.Path
				backendCT = rq.Header.Get("Content-Type")
				backendBody = readAllBody(rq)
				if rq.Header.Get("Content-Encoding") == "gzip" {
					if un, err := gunzipBytes(backendBody); err == nil {
						backendBody = un
					}
				}
				w.Header().Set("Content-Type", "application/json")
				w.WriteHeader(200)
				w.Write([]byte("{}"))
			})
			tc := mustTranscoder(vanguard.NewService(contentService, backend, vanguard.WithTargetProtocols(vanguard.ProtocolREST), vanguard.WithNoTargetCompression()))
			req := clientReq{Method: "POST", Target: "/" + escName + ":upload", ProtoMajor: 1, ContentLen: -2,
				Headers: [][2]string{{"Content-Type", ct}, {"Content-Encoding", "gzip"}}, Chunks: [][]byte{gzipBytes(payload)}}
			res = runOn(tc, req, &res)
			reqEqual = seen.Calls == 1 && backendCT == ct && bytes.Equal(backendBody, payload) && seen.Path == "/"+name+":upload"
			respEqual = res.Rec.status() == 200
			if !reqEqual {
				note = fmt.Sprintf("upload-rest: backend saw path %q content type %q body equal %v (%d of %d bytes)", seen.Path, backendCT, bytes.Equal(backendBody, payload), len(backendBody), len(payload))
			}
		case 2: // index-rpc: gRPC backend answers an HttpBody
			tag = "index-rpc"
			var gotReq testv1.IndexRequest
			backend := http.HandlerFunc(func(w http.ResponseWriter, rq *http.Request) {
				seen.Calls++
				body := readAllBody(rq)
				if len(body) >= 5 {
					_ = proto.Unmarshal(body[5:], &gotReq)
				}
				out, _ := proto.Marshal(&httpbody.HttpBody{ContentType: ct, Data: payload})
				w.Header().Set("Content-Type", "application/grpc+proto")
				if gz {
					w.Header().Set("Grpc-Encoding", "gzip")
					w.WriteHeader(200)
					w.Write(envelope(1, gzipBytes(out)))
				} else {
					w.WriteHeader(200)
					w.Write(envelope(0, out))
				}
				w.Header().Set(http.TrailerPrefix+"Grpc-Status", "0")
			})
			tc := mustTranscoder(vanguard.NewService(contentService, backend, vanguard.WithTargetProtocols(vanguard.ProtocolGRPC), vanguard.WithTargetCodecs("proto")))
			res = runOn(tc, clientReq{Method: "GET", Target: "/" + escName, ProtoMajor: 1, ContentLen: -2}, &res)
			reqEqual = seen.Calls == 1 && gotReq.GetPage() == name
			got := res.Rec.body()
			if res.Rec.hdr.Get("Content-Encoding") == "gzip" {
				if un, err := gunzipBytes(got); err == nil {
					got = un
				}
			}
			respEqual = res.Rec.status() == 200 && res.Rec.hdr.Get("Content-Type") == ct && bytes.Equal(got, payload)
			if !respEqual {
				note = fmt.Sprintf("index-rpc: client got status %d content type %q body equal %v", res.Rec.status(), res.Rec.hdr.Get("Content-Type"), bytes.Equal(got, payload))
			}
		default: // index-rest: REST backend answers compressed, the client does not accept that
			tag = "index-rest"
			backend := http.HandlerFunc(func(w http.ResponseWriter, rq *http.Request) {
				seen.Calls++
				seen.Path = rq.URL.Path
				w.Header().Set("Content-Type", ct)
				w.Header().Set("Content-Encoding", "gzip")
				w.WriteHeader(200)
				w.Write(gzipBytes(payload))
			})
			tc := mustTranscoder(vanguard.NewService(contentService, backend, vanguard.WithTargetProtocols(vanguard.ProtocolREST)))
			res = runOn(tc, clientReq{Method: "GET", Target: "/" + escName, ProtoMajor: 1, ContentLen: -2, Headers: [][2]string{{"Accept-Encoding", "identity"}}}, &res)
			reqEqual = seen.Calls == 1 && seen.Path == "/"+name
			got := res.Rec.body()
			if res.Rec.hdr.Get("Content-Encoding") == "gzip" {
				if un, err := gunzipBytes(got); err == nil {
					got = un
				}
			}
			respEqual = res.Rec.status() == 200 && res.Rec.hdr.Get("Content-Type") == ct && bytes.Equal(got, payload)
			if !respEqual {
				note = fmt.Sprintf("index-rest: client got status %d content type %q body equal %v (%d of %d bytes)", res.Rec.status(), res.Rec.hdr.Get("Content-Type"), bytes.Equal(got, payload), len(got), len(payload))
			}
		}
		if res.Rec.status() != 200 {
			code = 2
		}
		ctClass := "application"
		if !strings.HasPrefix(ct, "application/") {
			ctClass = "other"
		}
		desc := res.Panic
		if desc == "" {
			desc = note
		}
		c.emit(Case{Suite: "rest.bind", In: L{int64(0), B("HttpBody:" + tag), B("/" + escName), int64(0), int64(0), B("")},
			Out: L{reqEqual, respEqual, code, int64(res.Rec.status()), int64(seen.Calls), res.Panic != "", int64(0), true, int64(res.Rec.headCount())},
			Tags: []string{"restbind:HttpBody", "restbind.kind:rest-client", "restbind.httpbody:" + tag, "restbind.ct:" + ctClass, fmt.Sprintf("restbind.size:%d", size)}, Desc: desc})
	}
}

func readAllBody(rq *http.Request) []byte {
	var body []byte
	buf := make([]byte, 1<<15)
	for {
		n, err := rq.Body.Read(buf)
		body = append(body, buf[:n]...)
		if err != nil {
			return body
		}
	}
}

func mustTranscoder(svc *vanguard.Service) *vanguard.Transcoder {
	tc, err := vanguard.NewTranscoder([]*vanguard.Service{svc})
	if err != nil {
		panic(err)
	}
	return tc
}
